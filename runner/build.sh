#!/bin/bash
# Re-extract the model and build runner/modelrun.  Run from anywhere.
set -e
cd "$(dirname "$0")"
coqc -Q ../coq/theories WPU ../coq/theories/Extract/Entry.v
coqc -Q ../coq/theories WPU ../coq/theories/Extract/Extract.v
ocamlfind ocamlopt -O2 -w -a -package str model.mli model.ml driver.ml -o modelrun 2>/dev/null || ocamlfind ocamlopt -w -a model.mli model.ml driver.ml -o modelrun
