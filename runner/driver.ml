(* Line protocol: "<code> <json>" -> "<json>".  json = int | [json,...] *)
open Model

let rec pos_of_int n = if n = 1 then XH else if n land 1 = 0 then XO (pos_of_int (n lsr 1)) else XI (pos_of_int (n lsr 1))
let z_of_int n = if n = 0 then Z0 else if n > 0 then Zpos (pos_of_int n) else Zneg (pos_of_int (-n))
let rec int_of_pos = function XH -> 1 | XO p -> 2 * int_of_pos p | XI p -> 2 * int_of_pos p + 1
let int_of_z = function Z0 -> 0 | Zpos p -> int_of_pos p | Zneg p -> - (int_of_pos p)

let parse (s : string) (start : int) : val0 * int =
  let n = String.length s in
  let rec skip i = if i < n && (s.[i] = ' ' || s.[i] = ',') then skip (i + 1) else i in
  let rec value i =
    let i = skip i in
    if s.[i] = '[' then begin
      let rec items i acc =
        let i = skip i in
        if s.[i] = ']' then (L (List.rev acc), i + 1)
        else let (v, i') = value i in items i' (v :: acc)
      in items (i + 1) []
    end else begin
      let j = ref i in
      if s.[!j] = '-' then incr j;
      while !j < n && s.[!j] >= '0' && s.[!j] <= '9' do incr j done;
      (I (z_of_int (int_of_string (String.sub s i (!j - i)))), !j)
    end
  in value start

let rec print buf = function
  | I z -> Buffer.add_string buf (string_of_int (int_of_z z))
  | L l ->
    Buffer.add_char buf '[';
    List.iteri (fun k v -> if k > 0 then Buffer.add_char buf ','; print buf v) l;
    Buffer.add_char buf ']'

let () =
  try
    while true do
      let line = input_line stdin in
      let sp = String.index line ' ' in
      let code = int_of_string (String.sub line 0 sp) in
      let (v, _) = parse line (sp + 1) in
      let r = dispatch (z_of_int code) v in
      let buf = Buffer.create 256 in
      print buf r;
      print_string (Buffer.contents buf); print_newline ()
    done
  with End_of_file -> ()
