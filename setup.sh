#!/bin/bash
# Offline build of the whole framework from files on disk: all .vo (full build, never -vos), the extracted runner.
set -e
cd "$(dirname "$0")/coq"
coq_makefile -f _CoqProject -o Makefile > /dev/null
timeout 3000 make -j16
cd ..
./runner/build.sh
echo setup-ok
