"""F4(b) (C02): all results consumed while the feeder has not yet seen StopIteration -> consumer blocks forever.
Run as:  setsid timeout -k 2 25 python F4b_imap_hang.py ; exit 124 = hang."""
import sys, time
sys.path.insert(0, "/repo")
from windpyutils.parallel.own_proc_pools import FunctorPool, FunctorWorker
class W(FunctorWorker):
    def __call__(self, x): return x * 2
def slow():
    yield 1
    yield 2
    time.sleep(3)     # results of 1 and 2 are consumed long before exhaustion is signalled
if __name__ == "__main__":
    with FunctorPool([W(), W()]) as pool:
        r = list(pool.imap(slow()))
    print(r); sys.exit(0 if r == [2, 4] else 1)
