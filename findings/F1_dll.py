"""F1 (C08): len() drops by one per move_*; move_after recurses through dataclass == on long equal runs."""
import sys
sys.path.insert(0, "/repo")
from windpyutils.structures.lists import DoublyLinkedList
bad = []
l = DoublyLinkedList([1, 2, 3])
n = l.head.next_node
l.move_to_front(n)
if len(l) != 3: bad.append("len after move_to_front = %d" % len(l))
l = DoublyLinkedList([1, 2, 3]); l.move_to_back(l.head)
if len(l) != 3: bad.append("len after move_to_back = %d" % len(l))
l = DoublyLinkedList([1, 2, 3]); l.move_after(l.head, l.tail)
if len(l) != 3: bad.append("len after move_after = %d" % len(l))
l = DoublyLinkedList([7] * 3000)
nodes = list(l.iter_nodes())
try:
    l.move_after(nodes[1500], nodes[1502])
except RecursionError:
    bad.append("move_after RecursionError on 3000 equal payloads")
print("\n".join(bad) or "ok"); sys.exit(1 if bad else 0)
