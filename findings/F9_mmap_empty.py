"""F9 (C11, C12; fixed by 6b5323b): the memory-mapped line-file classes raised ValueError('cannot mmap an empty file') when
   opening an empty file, while the buffered classes present it as an empty sequence - "for every text file ... the buffered
   and memory-mapped variants agree" (C11).  Found late: the C11 generator had excluded the empty file for the memory-mapped
   classes as an OS limitation; the exclusion was removed after a seeding sub-agent tripped over the ValueError.
   /venv/bin/python findings/F9_mmap_empty.py      exit 1 = defect present (trees before 6b5323b), exit 0 = repaired."""
import os, sys, tempfile
sys.path.insert(0, "/repo")
from windpyutils import files

d = tempfile.mkdtemp()
p = os.path.join(d, "empty.txt")
open(p, "w").close()
bad = 0
for cls in ["RandomLineAccessFile", "MemoryMappedRandomLineAccessFile", "MutableRandomLineAccessFile", "MutableMemoryMappedRandomLineAccessFile"]:
    try:
        with getattr(files, cls)(p) as f:
            print(cls, "len", len(f), "lines", list(f))
    except Exception as e:  # noqa
        print(cls, "raised", type(e).__name__, e)
        bad = 1
os.remove(p); os.rmdir(d)
sys.exit(bad)
