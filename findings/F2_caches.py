"""F2 (C06/C07): LRU values()/items()/== diverge with >=2 entries; LFU store on present key keeps old value; LFU views skip."""
import sys, signal
sys.path.insert(0, "/repo")
from windpyutils.structures.caches import LRUCache, LFUCache
bad = []
class TO(BaseException): pass
def h(*a): raise TO()
signal.signal(signal.SIGALRM, h)
c = LRUCache(3); c[1] = 10; c[2] = 20
signal.setitimer(signal.ITIMER_REAL, 2)
try:
    v = list(c.values())
    signal.setitimer(signal.ITIMER_REAL, 0)
    if sorted(v) != [10, 20]: bad.append("LRU values() = %r" % v)
except TO:
    bad.append("LRU values() does not terminate with 2 entries")
f = LFUCache(3); f[1] = 10; f[1] = 11
if f[1] != 11: bad.append("LFU c[1]=11 on present key: lookup gives %r" % f[1])
f = LFUCache(3); f[1] = 10; f[2] = 20; f[3] = 30
signal.setitimer(signal.ITIMER_REAL, 2)
try:
    v = sorted(f.values())
    signal.setitimer(signal.ITIMER_REAL, 0)
    if v != [10, 20, 30]: bad.append("LFU values() = %r" % v)
except TO:
    bad.append("LFU values() does not terminate")
print("\n".join(bad) or "ok"); sys.exit(1 if bad else 0)
