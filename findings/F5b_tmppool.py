"""F5b (C20): TmpPool(multi_proc=True).flush() replaces the manager list; a forked child that creates afterwards leaks its file."""
import sys, os, tempfile, multiprocessing
sys.path.insert(0, "/repo")
from windpyutils.files import TmpPool
def main():
    d = tempfile.mkdtemp()
    bad = []
    r, w = os.pipe(); r2, w2 = os.pipe()
    with TmpPool(d, multi_proc=True) as pool:
        pool.create()
        pid = os.fork()
        if pid == 0:
            os.read(r, 1)           # wait for the parent's flush
            pool.create()
            os.write(w2, b"x")
            os._exit(0)
        pool.flush()
        os.write(w, b"x"); os.read(r2, 1); os.waitpid(pid, 0)
    left = os.listdir(d)
    if left: bad.append("files left after leaving the multi_proc pool: %r" % left)
    import shutil; shutil.rmtree(d)
    print("\n".join(bad) or "ok"); sys.exit(1 if bad else 0)
main()
