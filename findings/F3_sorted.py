"""F3 (C09): SortedSet([]) / SortedMap([]) raise; SortedMap keeps duplicate initial keys."""
import sys
sys.path.insert(0, "/repo")
from windpyutils.structures.sorted import SortedSet, SortedMap
bad = []
try:
    if list(SortedSet([])) != []: bad.append("SortedSet([]) not empty")
except Exception as e: bad.append("SortedSet([]) raises %r" % e)
try:
    if list(SortedMap([])) != []: bad.append("SortedMap([]) not empty")
except Exception as e: bad.append("SortedMap([]) raises %r" % e)
m = SortedMap([(1, 'a'), (1, 'b')])
if len(m) != 1 or m[1] != 'b': bad.append("SortedMap([(1,'a'),(1,'b')]): len=%d m[1]=%r" % (len(m), m[1]))
print("\n".join(bad) or "ok"); sys.exit(1 if bad else 0)
