"""F4' (C02, open known finding): leaving a FactoryFunctorPool blocks forever when
   work_queue_maxsize is an int smaller than the number of workers that retired (quota reached) after the replace
   thread had already taken its stop token: __exit__ puts one None per slot of self.procs into the bounded work queue,
   nobody takes the ones meant for the dead workers.

   Deterministic replay under the controlled scheduler of /verif/harness/sched.py (the unmodified pool code runs on a
   fake multiprocessing context):   /venv/bin/python findings/F4p_exit_hang.py          exit 1 = deadlock reproduced
   Same schedule in the Coq model: Properties/C02.v, theorem C02_exit_hang_refuted."""
import sys
sys.path.insert(0, "/verif"); sys.path.insert(0, "/repo")
from harness.props.poolcommon import run_pool_case

CASE = dict(cfg=[2, 1, None, 1, 1], hist=[[0, 1, [1, 2], 1]], seed=169, policy="first:main")
if __name__ == "__main__":
    o = run_pool_case(CASE)
    print("results of the call:", o["results"])
    print("deadlock:", o["deadlock"])
    sys.exit(1 if o["deadlock"] else 0)
