"""F4' (C02, fixed by ccf59e2): leaving a FactoryFunctorPool blocked forever when
   work_queue_maxsize was an int smaller than the number of workers that retired (quota reached) after the replace
   thread had already taken its stop token: __exit__ puts one None per slot of self.procs into the bounded work queue,
   nobody took the ones meant for the dead workers.  Since the fix a worker announces its retirement before it delivers
   its last result, over a manager queue, so it is always replaced before the call ends.

   Deterministic replay under the controlled scheduler of /verif/harness/sched.py (the unmodified pool code runs on a
   fake multiprocessing context):   /venv/bin/python findings/F4p_exit_hang.py          exit 1 = deadlock reproduced
   (exit 0 on the repaired tree; exit 1 on 71ddeee and earlier).  Coq: Properties/C02.v, C02_concrete_former_hang."""
import sys
sys.path.insert(0, "/verif"); sys.path.insert(0, "/repo")
from harness.props.poolcommon import run_pool_case

CASE = dict(cfg=[2, 1, None, 1, 1], hist=[[0, 1, [1, 2], 1]], seed=169, policy="first:main")
if __name__ == "__main__":
    o = run_pool_case(CASE)
    print("results of the call:", o["results"])
    print("deadlock:", o["deadlock"])
    sys.exit(1 if o["deadlock"] else 0)
