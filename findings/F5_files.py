"""F5 (C11): text variant + carriage return; iteration ignores a custom index / shares the cursor. F5b (C20): multi_proc flush."""
import sys, os, tempfile
sys.path.insert(0, "/repo")
from windpyutils.files import RandomLineAccessFile, MemoryMappedRandomLineAccessFile
bad = []
d = tempfile.mkdtemp()
p = os.path.join(d, "a.txt")
open(p, "wb").write(b"ab\rcd\nef\r\ngh\n")
with RandomLineAccessFile(p) as f, MemoryMappedRandomLineAccessFile(p) as g:
    a, b = [f[i] for i in range(len(f))], [g[i] for i in range(len(g))]
    if a != ["ab\rcd", "ef\r", "gh"]: bad.append("text variant lines %r" % a)
    if a != b: bad.append("text %r != mmap %r" % (a, b))
open(p, "wb").write(b"l0\nl1\nl2\nl3\n")
with RandomLineAccessFile(p) as f:
    it = iter(f); x0 = next(it); f[3]; x1 = next(it)
    if (x0, x1) != ("l0", "l1"): bad.append("iteration interleaved with f[3]: %r" % ((x0, x1),))
with RandomLineAccessFile(p, [6, 0]) as f:
    if list(f) != [f[0], f[1]]: bad.append("iteration with custom index [6,0]: %r vs %r" % (list(f), [f[0], f[1]]))
import shutil; shutil.rmtree(d)
print("\n".join(bad) or "ok"); sys.exit(1 if bad else 0)
