"""F7 (C19): Batcher.__len__ uses float division."""
import sys
sys.path.insert(0, "/repo")
from windpyutils.generic import Batcher
bad = []
n = 2**53 + 1
b = Batcher(range(n), 1)
if len(b) != n: bad.append("len(Batcher(range(2**53+1),1)) = %d" % len(b))
print("\n".join(bad) or "ok"); sys.exit(1 if bad else 0)
