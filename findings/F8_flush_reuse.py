"""F8 (C14): after flush() a process that had stored before could not store again - open() looked its writer number up
in the emptied list of paths: IndexError.  Exit 1 on the tree before 71ddeee, 0 after."""
import sys, tempfile, os
sys.path.insert(0, "/repo")
from windpyutils.parallel.storage import TextFileStorage
d = tempfile.mkdtemp()
st = TextFileStorage(d)
st[0] = "a"
st.close()
st.flush()
print("after flush: len", len(st), "files", os.listdir(d))
try:
    st[0] = "b"
    print("stored again:", st[0], len(st))
    st.close(); st.flush()
except Exception as e:
    print("RAISED", repr(e)); sys.exit(1)
