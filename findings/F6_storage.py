"""F6 (C14): __iter__ bounded by the count misses ids after a gap.
(The second half of F6 - index entry published before the line is written - needs a schedule; see the C14 check.)"""
import sys, os, tempfile
sys.path.insert(0, "/repo")
from windpyutils.parallel.storage import TextFileStorage
bad = []
d = tempfile.mkdtemp()
with TextFileStorage(d) as s:
    s[0] = "zero"; s[5] = "five"
    got = list(s)
    if got != ["zero", "five"]: bad.append("iteration over ids {0,5} gives %r" % got)
import shutil; shutil.rmtree(d, ignore_errors=True)
print("\n".join(bad) or "ok"); sys.exit(1 if bad else 0)
