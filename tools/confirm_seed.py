#!/usr/bin/env python3
"""usage: tools/confirm_seed.py Cxx V 'tests/test_a.py tests/test_b.py' ['needs text']
Confirms a seeded change produced by a sub-agent (/tmp/wt/Cxx_out/V.diff, demo_V.py) in a fresh scratch worktree:
demo passes on HEAD, fails with the change, the named test files pass with the change.  Then stores it under
/verif/seeded/Cxx_V/ (patch.diff, demo.py, meta.json)."""
import json, os, re, shutil, subprocess, sys
p, v, tests = sys.argv[1], sys.argv[2], sys.argv[3].split()
needs = sys.argv[4] if len(sys.argv) > 4 else ""
out = "/tmp/wt/%s_out" % p
wt = "/tmp/wt/confirm_%s_%s" % (p, v)
subprocess.run(["git", "-C", "/repo", "worktree", "add", "-q", "--detach", wt, "HEAD"], check=True)
env = dict(os.environ, PYTHONPATH=wt, PYTHONHASHSEED="0")
def demo():
    r = subprocess.run(["setsid", "timeout", "-k", "2", "120", "/venv/bin/python", os.path.join(out, "demo_%s.py" % v)],
                       env=env, cwd=wt, stdout=subprocess.PIPE, stderr=subprocess.STDOUT, text=True)
    return r.returncode, r.stdout[-400:]
try:
    rc0, o0 = demo()
    subprocess.run(["git", "-C", wt, "apply", os.path.join(out, v + ".diff")], check=True)
    rc1, o1 = demo()
    t = subprocess.run(["setsid", "timeout", "-k", "2", "1500", "/venv/bin/python", "-m", "pytest", "-q", "-p", "no:cacheprovider",
                        "--timeout=900"] + tests, env=env, cwd=wt, stdout=subprocess.PIPE, stderr=subprocess.STDOUT, text=True)
    tail = t.stdout.strip().split("\n")[-1]
    okk = rc0 == 0 and rc1 != 0 and t.returncode == 0
    print("%s %s: demo clean=%d changed=%d tests rc=%d (%s) -> %s" % (p, v, rc0, rc1, t.returncode, tail, "CONFIRMED" if okk else "REJECTED"))
    if okk:
        d = "/verif/seeded/%s_%s" % (p, v)
        os.makedirs(d, exist_ok=True)
        shutil.copy(os.path.join(out, v + ".diff"), os.path.join(d, "patch.diff"))
        shutil.copy(os.path.join(out, "demo_%s.py" % v), os.path.join(d, "demo.py"))
        notes = open(os.path.join(out, "notes.md")).read() if os.path.exists(os.path.join(out, "notes.md")) else ""
        json.dump(dict(property=p, variant=v, needs_to_manifest=needs, agent_notes=notes,
                       confirmed=dict(demo_on_head_exit=rc0, demo_with_change_exit=rc1, demo_output=o1,
                                      tests_run=tests, tests_result=tail),
                       detected_by=None), open(os.path.join(d, "meta.json"), "w"), indent=1)
finally:
    subprocess.run(["git", "-C", "/repo", "worktree", "remove", "--force", wt])
