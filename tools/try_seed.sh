#!/bin/bash
# usage: tools/try_seed.sh Cxx path/to.diff [tier]   -- applies the diff to /repo, runs the check, reverts
set -u
P=$1; D=$2; T=${3:-quick}
cd /repo && git diff --quiet || { echo "/repo dirty"; exit 2; }
git -C /repo apply "$D" || { echo "patch does not apply"; exit 2; }
cd /verif && ./check $P --tier $T; rc=$?
git -C /repo checkout -- .
echo "exit=$rc"
