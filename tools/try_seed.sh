#!/bin/bash
# usage: tools/try_seed.sh Cxx path/to.diff [tier]   -- applies the diff to /repo, runs the check, ALWAYS reverts (also when killed)
set -u
P=$1; D=$2; T=${3:-quick}
cd /repo && git diff --quiet || { echo "/repo dirty"; exit 2; }
trap 'git -C /repo checkout -- . ' EXIT INT TERM
git -C /repo apply "$D" || { echo "patch does not apply"; exit 2; }
cd /verif && timeout -k 5 ${SEED_TIMEOUT:-1200} ./check $P --tier $T; rc=$?
echo "exit=$rc"
