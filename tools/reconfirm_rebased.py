#!/usr/bin/env python3
"""usage: tools/reconfirm_rebased.py Cxx_V /path/to/rebased.diff 'tests/...'
A seeded change whose patch no longer applies after a fix: commit in /repo is re-made by hand on the new HEAD (same
semantic change).  This confirms the rebased patch exactly like confirm_seed.py (demo passes on HEAD, fails with the change,
the named tests pass with the change) and then replaces seeded/Cxx_V/patch.diff (the original is kept as patch.orig.diff)."""
import json, os, shutil, subprocess, sys
name, diff, tests = sys.argv[1], sys.argv[2], sys.argv[3].split()
d = "/verif/seeded/%s" % name
wt = "/tmp/wt/reconfirm_%s" % name
head = subprocess.run(["git", "-C", "/repo", "rev-parse", "--short", "HEAD"], stdout=subprocess.PIPE, text=True).stdout.strip()
subprocess.run(["git", "-C", "/repo", "worktree", "add", "-q", "--detach", wt, "HEAD"], check=True)
env = dict(os.environ, PYTHONPATH=wt, PYTHONHASHSEED="0")
def demo():
    r = subprocess.run(["setsid", "-w", "timeout", "-k", "2", "150", "/venv/bin/python", os.path.join(d, "demo.py")],
                       env=env, cwd=wt, stdin=subprocess.DEVNULL, stdout=subprocess.PIPE, stderr=subprocess.STDOUT, text=True)
    return r.returncode, r.stdout[-400:]
try:
    rc0, o0 = demo()
    subprocess.run(["git", "-C", wt, "apply", diff], check=True)
    rc1, o1 = demo()
    t = subprocess.run(["setsid", "-w", "timeout", "-k", "2", "1500", "/venv/bin/python", "-m", "pytest", "-q", "-p", "no:cacheprovider",
                        "--timeout=900"] + tests, env=env, cwd=wt, stdin=subprocess.DEVNULL, stdout=subprocess.PIPE, stderr=subprocess.STDOUT, text=True)
    tail = t.stdout.strip().split("\n")[-1]
    ok = rc0 == 0 and rc1 != 0 and t.returncode == 0
    print("%s: demo clean=%d changed=%d tests rc=%d (%s) -> %s" % (name, rc0, rc1, t.returncode, tail, "CONFIRMED" if ok else "REJECTED"))
    if not ok:
        print(o0[-300:], "\n----\n", o1[-300:])
    if ok:
        if not os.path.exists(os.path.join(d, "patch.orig.diff")):
            shutil.copy(os.path.join(d, "patch.diff"), os.path.join(d, "patch.orig.diff"))
        shutil.copy(diff, os.path.join(d, "patch.diff"))
        m = json.load(open(os.path.join(d, "meta.json")))
        m["rebased"] = dict(onto=head, why="the original patch (patch.orig.diff) conflicts with the fix: commit %s; same change re-made by hand" % head,
                            demo_on_head_exit=rc0, demo_with_change_exit=rc1, demo_output=o1, tests_run=tests, tests_result=tail)
        m["detected_by"] = None
        json.dump(m, open(os.path.join(d, "meta.json"), "w"), indent=1)
finally:
    subprocess.run(["git", "-C", "/repo", "worktree", "remove", "--force", wt])
