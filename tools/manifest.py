#!/usr/bin/env python3
"""Regenerates MANIFEST.json from the table below (keeps it valid at all times)."""
import json, os
V = os.path.dirname(os.path.dirname(os.path.abspath(__file__)))
COMMON_NOTE = ("Trusted: Coq 8.16.1 kernel (vm_compute used, native_compute not); no axioms used (every theorem 'Closed under the "
               "global context', re-printed on each run; coqchk -o lists only the stdlib's eq_rect_eq, loaded through AAC_tactics, which no theorem depends on); extraction with ExtrOcamlBasic only + runner/driver.ml, cross-checked "
               "against vm_compute on a sample of each run's cases; the Python differential harness. ")
POOLNOTE = "Modelled, not verified: the pool as a labelled transition system (Model/Pool.v) at the granularity of operations visible to another thread/process (queue put/get, the two progress flags, event set/clear/wait, thread and process start/join); thread-local work between two such operations is folded into the adjacent step (reduction argument in DESIGN.md); the functor is uninterpreted. Tie: the UNMODIFIED pool code is run under a controlled cooperative scheduler on a fake multiprocessing context (harness/sched.py: manager queues, locks, events, processes-as-threads; every operation a scheduling point, deadlock detected structurally); its visible operations are mapped to model events and the extracted model must ACCEPT the whole trace and end in the same observable state (trace acceptance), while the property oracle is evaluated on the implementation's own run. Real OS processes, pickling, and CPython's GIL atomicity of single attribute loads/stores are assumed, not modelled. "
CLAIMS = {
 "C01": dict(text="Coq theorems for EVERY configuration (workers, queue bounds, factory, quota), EVERY history of calls on one pool and EVERY "
             "schedule (arbitrary list of events of the LTS): the consumer never raises; the calls completed so far yielded exactly their "
             "input in order (imap) resp. a chunk-wise rearrangement of it, each chunk whole and exactly once (imap_unordered, hence a "
             "permutation); the conservation invariant (every chunk index handed out is, exactly once, either yielded or in flight with "
             "the right payload); nothing is left in any queue, worker or buffer when a call is over. Tied to /repo by trace acceptance over "
             "hundreds of controlled schedules per run (random and adversarial policies).",
             note=POOLNOTE,
             tech="Coq proof: inductive invariant over an LTS (Permutation conservation + reorder-buffer drain lemma), history-level refinement; trace-acceptance correspondence under a controlled scheduler",
             ref="DESIGN.md §4 C01-C04"),
 "C02": dict(text="Coq theorems: in every reachable state in which the run is not over some thread or process can move (deadlock freedom: "
             "consumer never blocked on a result that will not come, paused feeder always resumed, full queues drained, retired workers "
             "replaced, every stop order taken when the pool is left) for EVERY configuration of the property, with no condition on queue "
             "capacities; a natural-number measure that EVERY step decreases (no infinite run; explicit bound on the number of steps); hence "
             "under every scheduler (any function picking an enabled event when one exists) every call of the history terminates with exactly "
             "its results and the pool context is left (MDone reached). The exit hang found earlier (F4') is repaired in /repo (ccf59e2); the "
             "invariant that carries the repair (retirement notices precede the stop token in the replace queue) is a theorem. Tied to /repo "
             "by trace acceptance; hangs of the implementation are detected structurally by the scheduler (no enabled thread).",
             note=POOLNOTE + "Late items / late StopIteration of the input iterable are modelled as the feeder not being scheduled. Timeouts (join_timeout) are outside the property.",
             tech="Coq proof: deadlock freedom from seven inductive invariants (conservation, flow control, replace-token accounting, pending-replacement, notices-before-token, exit-order accounting), strictly decreasing potential function; trace-acceptance correspondence under a controlled scheduler",
             ref="DESIGN.md §4 C01-C04"),
 "C03": dict(text="Coq theorems over all histories of calls on one pool instance (ordered / unordered / empty / until_all_ready in any order) and all "
             "schedules incl. every interleaving of retiring workers and the replace thread: call k of the history is matched with the k-th "
             "result list and each is exactly right (nothing leaks between calls); between calls nothing is in flight; no stop token of the replace "
             "thread is ever left behind and the thread is never left stopped; every worker that left its loop is pending replacement exactly once; "
             "with work pending and room for results some worker or the replace thread can always move (the pool never runs out of workers); "
             "between calls the pool is at full strength (every slot holds a worker that has not left its loop, also after retirements with the very last chunk). "
             "Tied to /repo by trace acceptance over multi-call histories with quotas 1..3.",
             note=POOLNOTE,
             tech="Coq proof: history-indexed invariant (Forall2 over completed calls), replace-token accounting, NoDup pending-replacement invariant, progress lemma; trace-acceptance correspondence under a controlled scheduler",
             ref="DESIGN.md §4 C01-C04"),
 "C04": dict(text="Coq theorems for EVERY schedule, fault events included (begin() raises in any worker, the functor raises on any chunk): every "
             "worker ever started (replaced ones too) has a log of the form begin, chunks*, [end] - begin at most once and first, end at most "
             "once and last, end exactly in finished workers; a worker with quota k takes at most k chunks; replaced workers are finished; once "
             "the pool context has been left every worker is finished; until_all_ready returns only in states where every current worker's "
             "begin() completed normally; a raising begin() never sets the flag; after a fault the worker's end step is always enabled. "
             "Tied to /repo by trace acceptance with injected begin/functor faults and per-worker lifecycle logs of an instrumented subclass.",
             note=POOLNOTE + "end() raising is outside the property.",
             tech="Coq proof: per-worker lifecycle invariant (log shape, quota arithmetic) over all events incl. faults, exit-join invariant; trace-acceptance correspondence with fault injection",
             ref="DESIGN.md §4 C01-C04"),
 "C14": dict(text="Coq theorems over an LTS of any number of processes running arbitrary programs of write / read / len / is_contiguous / iterate "
             "on one TextFileStorage, for EVERY interleaving of their accesses to the shared index, counters, lock and files: every completed "
             "read raised IndexError or returned exactly the text stored under that id (a reader that has looked an entry up finds the complete "
             "line at the recorded offset, and no later append changes it); one text per id for ever; a duplicate write raises ValueError and "
             "changes nothing; whenever no operation is inside its critical section len() is the number of stored ids, waiting_for is the "
             "smallest id not stored, is_contiguous() is true exactly when the stored ids are 0..len-1 (pigeonhole argument), iteration "
             "yields the stored texts in id order skipping gaps; flush resets. Tied to /repo by trace acceptance under the controlled "
             "scheduler with real files (file flush and readline are scheduling points), writers with gaps / reversed order / pre-sized "
             "index / duplicates, concurrent readers, and a final quiescent parent.",
             note=("Modelled, not verified: manager list / Value / RLock operations as atomic steps; files as byte lists with text-mode offsets = UTF-8 "
                   "byte offsets; processes as threads holding a copy of the storage object (what fork gives). Texts are single-line (no \\n, no \\r). "
                   "flush() only with the storage closed everywhere (as documented). Termination of the operations is not claimed by a theorem "
                   "(the harness detects deadlocks structurally). "),
             tech="Coq proof: three inductive invariants over an LTS with a lock (program/lock discipline; index-texts-files with a pending-write clause; counters with a pigeonhole loop-exit argument); trace-acceptance correspondence under a controlled scheduler",
             ref="DESIGN.md §4 C14"),
 "C15": dict(text="Coq theorems over all feeds/permutations/drain points (Buffer, PrintBuffer) and all capacities and put/clear "
             "sequences (CircularBuffer) about an executable model; the model is tied to /repo on every run by differential "
             "execution (exhaustive small scope + random) of the extracted model and the real classes.",
             note="Python dict modelled as insertion-ordered association list; print() as append to a list.",
             tech="Coq proof: invariants by induction over operation histories; model/implementation differential correspondence",
             ref="DESIGN.md §4 C15"),
 "C18": dict(text="Coq theorems over a model of open file descriptions (one read position each, shared through fork) and file objects that "
             "reopen themselves before every seek and every readline when os.getpid() differs from the pid they were opened in: for EVERY "
             "file content, offset index, tree of forks (children of children) and interleaving of the processes' seeks and reads, every "
             "read returns what readline returns at the offset that very process sought (the single-process result); processes that have "
             "used the file since their fork never share a description; in every reachable state a pending read is accepted and appends exactly one record (own pid, item, line at that offset) and a seek to an indexed item is always accepted; with the index the classes build (the C11 model) every read of item i is the i-th line of the file; the same model without reopening is refuted by a machine-checked "
             "witness. Tied to /repo with real forked processes in lock-step (accesses split between seek and readline) over the buffered, "
             "memory-mapped and map-access classes, comparing every read and the partition of processes by open file description (lseek probe).",
             note=("Modelled, not verified: POSIX fork/open/lseek semantics as stated; CPython's buffered readers are summarised as 'seek = lseek, readline "
                   "reads at the descriptor position' (observed with strace, exercised by the real-fork harness). Fork between the seek and the "
                   "readline of one access of the forking process itself is outside the model. "),
             tech="Coq proof: invariant (exclusive use of descriptions, pending-seek position) over arbitrary fork/seek/read schedules, refutation witness by vm_compute; lock-step differential correspondence with real fork",
             ref="DESIGN.md §4 C18"),
 "C19": dict(text="Roman numerals: complete finite-domain proof (all of 1..3999, forallb + vm_compute) and a complete tie (whole "
             "table compared with the implementation each run). arg_sort, sub_seq, search_sub_seq, compare_pos, Batcher, "
             "BatcherIter: Coq theorems for all inputs (specification + uniqueness), tied by small-scope-exhaustive and random "
             "differential runs.",
             note="CPython sorted() stability (also with reverse=True) is assumed and exercised; list slices as firstn/skipn. "
                  "len(Batcher) is proved for the integer formula in the code; data sizes beyond memory are reached only through range().",
             tech="Coq proof: finite-domain evaluation lifted by forallb_forall; induction; uniqueness of sorted permutation / batch decomposition; differential correspondence",
             ref="DESIGN.md §4 C19"),
 "C10": dict(text="Coq theorems for all span collections and all 4x4 relation combinations: construction rule, membership formula and "
             "NoDup for & | - ^, the nine comparison predicates as quantified membership statements, geometric meaning of the four "
             "relations; tied to /repo by differential runs over an exhaustive small universe (thorough) / a sample of it (quick) plus "
             "random larger sets, both constructor paths, force_no_dup_check and copy()+relation reassignment.",
             note="Results are compared as sorted span lists (the property is about membership, not order). Coordinates are ints.",
             tech="Coq proof: list induction / existsb-forallb characterisations; differential correspondence (small-scope exhaustive + random)",
             ref="DESIGN.md §4 C10"),
 "C16": dict(text="Coq theorems for all interval lists and all keys: construction succeeds iff all start<=end and no two intervals share a "
             "point; lookup sound and complete (hence unique), KeyError iff no interval contains the key, 'in' agrees, len, iteration is a "
             "permutation in strictly ascending order; tied to /repo by exhaustive small interval sets x all probe points and random sets.",
             note="bisect_left is modelled as CPython's binary search (proved correct on non-decreasing lists); sorted() stability assumed. "
                  "Coordinates are ints in the model; the implementation also receives them as equal floats.",
             tech="Coq proof: binary-search invariant, stable-sort specification, disjointness argument; differential correspondence",
             ref="DESIGN.md §4 C16"),
 "C17": dict(text="Coq theorems for every key function and element list: the generator terminates (2^n pops, queue empty), yields "
             "exactly the non-empty sub-lists of 0..n-1 once each (conservation invariant over the enumeration tree), each with its "
             "elements and key; for keys monotone under appending the output is key-ordered; the interval scan returns exactly the "
             "minimal in-range members of a sorted stream, hence min_combinations_in_interval_iter_sorted is exact for non-negative "
             "scores. Tied to /repo by complete ordered output comparison on exhaustive small score vectors x intervals and random inputs "
             "with repeated elements and zeros.",
             note="heapq is modelled as an exact priority queue on Python's tuple order (key, len, comb, index).",
             tech="Coq proof: conservation (Permutation) invariant + fuel measure, sortedness invariant, two-phase scan lemma; differential correspondence",
             ref="DESIGN.md §4 C17"),
 "C08": dict(text="Coq heap model (three field maps, head, tail, size) with every mutator transcribed statement by statement; theorems: each "
             "operation on member nodes preserves well-formedness against a ghost address list (every next/prev link, head, tail, size) "
             "and acts on it like the reference sequence operation; forward walk = sequence, backward walk = reverse; lifted to all "
             "histories; outcome independent of payloads; value view for all histories (iteration yields the payloads given at creation, placed as the reference sequence of identities says; every operation stores exactly its new payloads and touches no other, unconditionally). Tied to /repo by walking the real list forward and backward after every "
             "operation of exhaustive short and random long histories, plus long equal-payload runs under a lowered recursion limit.",
             note="Python object identity is modelled as creation ordinal; operations on nodes that are not members are outside the property.",
             tech="Coq proof: refinement of a pointer heap to a list (pointwise successor/predecessor invariant), induction over histories; differential correspondence",
             ref="DESIGN.md §4 C08"),
 "C05": dict(text="Coq theorems for FunctorMap and mul_p_map as one labelled transition system (main thread + W worker processes, bounded work "
             "queue, results queue), for EVERY worker count >= 1, queue bound, history of calls and schedule: each completed call returned "
             "exactly its input in order (through the reorder buffer resp. the final sort by index - sorting a permutation of 0..n-1 gives the "
             "input order); repeated calls are matched call by call; deadlock freedom and a strictly decreasing measure, hence termination "
             "with all workers stopped, exited and joined under every scheduler. A non-blocking get may spuriously report Empty (enabled in every state "
             "of the drain loop). The exit of a worker process is an event of its own, enabled only while at most m_pipe results wait in the "
             "results queue (the bounded pipe behind multiprocessing.Queue; every theorem holds for every bound, and C05_joins_after_collecting "
             "shows why: when processes are joined the results queue is empty). Tied to /repo by trace acceptance under the controlled "
             "scheduler (with spurious Empty and the same pipe bound on the exit point of each logical process).",
             note=("Modelled, not verified: multiprocessing.Queue as an atomic FIFO whose bounded pipe is one shared bound on the number of unread results "
                   "(not one buffer per process); processes as threads; Process.start/join and the two module-level queue names are rebound inside the sandboxed child "
                   "(harness/props/c05.py), the pool code itself is unmodified. The mapped function is uninterpreted and returns normally. "),
             tech="Coq proof: conservation invariant + stop-order accounting invariant over an LTS, sorted-permutation uniqueness, potential function; trace-acceptance correspondence under a controlled scheduler",
             ref="DESIGN.md §4 C05"),
 "C06": dict(text="Coq theorems over all capacities >= 1 and all histories: every public operation (views, get, pop, popitem, clear, "
             "update, setdefault, in, ==) is a finite sequence of the three primitives (so it terminates); bounded size and one value per "
             "key in every reachable state; lookup/store/delete specifications incl. exact eviction of the last key; the order is recency "
             "(ghost time stamps: each key last used strictly later than all keys after it), so the evicted key is the least recently "
             "used; items/values/== /pop/popitem/setdefault agree with the content. Tied to /repo by comparing result, list(cache) and "
             "len(cache) after every operation of exhaustive short and random long histories over two caches.",
             note="collections.abc mix-ins are expanded as CPython 3.12 defines them; whether `in` counts as a use and whether views look "
                  "keys up are calibrated against the implementation each run (the property leaves both open; the theorems hold for both). "
                  "The cache's linked list is represented by its abstract sequence (justified by C08).",
             tech="Coq proof: invariants over primitive histories, ghost-timestamp recency invariant, generic mix-in specifications; differential correspondence",
             ref="DESIGN.md §4 C06"),
 "C07": dict(text="Coq theorems over all capacities >= 1 and all histories: invariant (size bound, one entry per key, counts non-decreasing "
             "along the iteration order, counts >= 1) in every reachable state; a use adds exactly one to that key's count and changes "
             "nothing else, a new key starts at 1; a store makes the value current (store-then-lookup); a full cache drops the first entry "
             "whose count is minimal; views/==/pop/popitem/setdefault agree with the content and terminate. Same tie as C06.",
             note="as C06.",
             tech="Coq proof: sortedness/permutation invariants of the count-ordered list, generic mix-in specifications; differential correspondence",
             ref="DESIGN.md §4 C07"),
 "C09": dict(text="Coq theorems for all initial collections and all operation histories over numeric keys: construction from any values gives "
             "the strictly ascending duplicate-free list (SortedSet) resp. dict(pairs) with later pairs winning (SortedMap); every "
             "operation keeps strict order and changes membership / content exactly like set / dict (add, discard, remove, pop, clear, |=, "
             "-=; get, set, del, in, get-default, pop, popitem, clear, update, setdefault); the ascending enumeration of a content is "
             "unique; foreign probes report absent and never change the structure. Tied to /repo by comparing every result, the full "
             "iteration and len after every operation of exhaustive small and random histories, with int / float / mixed keys.",
             note="bisect_left is modelled as CPython's binary search; numeric keys are ints in the model (the implementation also gets equal "
                  "floats); NaN keys and adding a foreign value to an empty SortedSet are outside the property's domain.",
             tech="Coq proof: binary-search invariant, strict-sortedness invariant, refinement to membership predicate / finite map; differential correspondence",
             ref="DESIGN.md §4 C09"),
 "C11": dict(text="Coq theorems for every file content (bytes) and every offset index: the lines of a file are characterised (joined by '\\n' "
             "they give the file back; unterminated last line counts, final '\\n' adds none) and the converse; the built index has one "
             "offset per line and reading at the i-th offset gives the i-th line; f[i] for positive/negative i and any caller-supplied "
             "index returns the line at that offset, independent of the handle's read position; slices / iterables / list(f) select "
             "element-wise; a stepped iterator yields f[0], f[1], ... under any interleaving with other accesses and iterators. Tied to "
             "/repo by running access scripts on real files with all 8 readable classes and 5 index sources.",
             note="Text and memory-mapped variants are the same function at the byte level (newline='\\n'; byte 10 occurs in no multi-byte "
                  "UTF-8 sequence): their agreement is established by the correspondence run, not by a theorem. CPython text I/O is "
                  "summarised as seek-then-readline. Resuming an iterator after close() is outside the property (correspondence only).",
             tech="Coq proof: scan invariant relating offsets and lines, frame lemmas for the shared cursor; differential correspondence on real files",
             ref="DESIGN.md §4 C11"),
 "C12": dict(text="Coq theorems: every edit operation acts on the view like the Python list operation (incl. IndexError/ValueError cases; the "
             "swap loop of reverse() is list reversal); save writes each line followed by the ending; reopening a file saved with "
             "'\\n' gives the same list (and the general statement for endings e+'\\n'); dirty is set by any change of content and "
             "never reset, reads change nothing. Tied to /repo by edit scripts on the 4 mutable classes comparing every result, the "
             "final list, the saved bytes, the reopened lines and the unchanged source bytes.",
             note="MutableSequence mix-ins as CPython 3.12 defines them; that no operation writes the source file is checked by the "
                  "harness (byte comparison), the model has no such write. For endings without '\\n' the byte-level statement is the claim.",
             tech="Coq proof: list-operation refinement, join/split round-trip; differential correspondence on real files",
             ref="DESIGN.md §4 C12"),
 "C13": dict(text="CSV/TSV: Coq model of CPython's csv writer (QUOTE_MINIMAL) and reader state machine for an arbitrary delimiter; "
             "theorems for ALL field strings: read(write(row)) = row (also in the stored line form), single line for fields without "
             "line breaks, and the class-level shared buffer returns exactly each call's own row for any interleaving of record classes. "
             "Record files: the C11/C12 theorems (item i = load(line i); edit-save-reopen keeps the lines). JSON: PARTIAL - "
             "json.dumps/loads round-trip is a hypothesis of the abstract-codec theorem, exercised by the correspondence only. "
             "Tied to /repo by exact comparison of saved strings / parsed fields with the model over dynamically created record "
             "classes, hostile JSON values, and record files on disk.",
             note="Assumed: json and float repr round-trip, int(str(i)) == i; the csv module as modelled (the writer model is compared "
                  "byte for byte with the real csv output on every run).",
             tech="Coq proof: reader/writer state-machine round trip by induction over fields, buffer invariant; differential correspondence",
             ref="DESIGN.md §4 C13"),
 "C20": dict(text="Coq theorems over all histories of create / remove / flush / external deletion / fork by any number of processes sharing "
             "the pool: create returns a fresh existing listed path; listed = exists; leaving the context (flush after ANY history, "
             "i.e. any cut point of the body, also with files created by forked children) leaves no pool file and an empty listing; "
             "FilePool handles are all open inside and all closed after leaving. The repaired defect is kept as a refuted witness "
             "(original flush leaks a child's file). Tied to /repo with real forked processes in lock-step over a real multi_proc pool "
             "(incl. removes paused between file removal and list update) and real files/handles.",
             note="The OS file system is modelled as a set of paths, NamedTemporaryFile as 'fresh name'; manager-list operations are taken "
                  "as atomic; a raise in the body is modelled as the history ending there.",
             tech="Coq proof: invariant over tagged operation histories, refutation witness by vm_compute; lock-step differential correspondence with real fork",
             ref="DESIGN.md §4 C20"),
}
ALL = ["C%02d" % i for i in range(1, 21)]
def chk(pid, c):
    return {"property_id": pid, "quick_cmd": "./check %s --tier quick" % pid, "thorough_cmd": "./check %s --tier thorough" % pid,
            "evidence_file": "evidence/%s.json" % pid, "replay_cmd_template": "./check %s --replay {path}" % pid,
            "engine": "coq-model", "level_claimed": {"category": "proof", "text": c["text"], "design_ref": c["ref"]},
            "level_note": COMMON_NOTE + c["note"], "technique": c["tech"]}
m = {
 "version": 1,
 "setup_cmd": "./setup.sh",
 "hooks": {"guard": "WINDPYUTILS_VERIF",
           "enable": "no source hooks are needed: all instrumentation is harness-side (subclasses, fake multiprocessing context, module-level rebinding inside sandboxed children); the variable is reserved and unused",
           "baseline_off_cmd": "cd /repo && /venv/bin/python -m pytest -ra -q -p no:cacheprovider --timeout=900 --continue-on-collection-errors",
           "source_commits": [], "add_only": True},
 "engines": [{"name": "coq-model", "path": "coq/", "serves_properties": sorted(CLAIMS), "kind_free_text": "Coq 8.16 development: executable Gallina models (Model/), proofs (Proofs/), property statements with Print Assumptions (Properties/)"},
             {"name": "modelrun", "path": "runner/", "serves_properties": sorted(CLAIMS), "kind_free_text": "OCaml program extracted from the model (ExtrOcamlBasic only) + line-protocol driver"},
             {"name": "harness", "path": "harness/", "serves_properties": sorted(CLAIMS), "kind_free_text": "Python correspondence harness: generators, sandboxed implementation runs, verdict protocol, evidence"}],
 "checks": [chk(p, CLAIMS[p]) for p in ALL if p in CLAIMS],
 "notes": "See DESIGN.md. ./check Cxx --tier quick|thorough [--replay FILE]; replays under replays/; known findings in known_findings.json; seeded changes under seeded/.",
 "not_applicable": [{"property_id": p, "reason": "check under construction in this session (model and proofs not committed yet); it will be claimed once its check exists and is quiet on the unchanged tree"} for p in ALL if p not in CLAIMS],
}
json.dump(m, open(os.path.join(V, "MANIFEST.json"), "w"), indent=1)
print("claimed:", " ".join(sorted(CLAIMS)))
