#!/usr/bin/env python3
"""Applies every confirmed seeded change (seeded/<id>_<v>/patch.diff) to /repo in turn, runs the quick check of its property,
reverts, and records the outcome in the seed's meta.json (detected_by) and in seeded/RESULTS.md."""
import json, os, subprocess, sys, time
V = os.path.dirname(os.path.dirname(os.path.abspath(__file__)))
rows = []
only = sys.argv[1:]
for d in sorted(os.listdir(os.path.join(V, "seeded"))):
    p = os.path.join(V, "seeded", d)
    if not os.path.isdir(p) or (only and d.split("_")[0] not in only):
        continue
    pid = d.split("_")[0]
    if subprocess.run(["git", "-C", "/repo", "diff", "--quiet"]).returncode != 0:
        print("/repo dirty"); sys.exit(2)
    subprocess.run(["git", "-C", "/repo", "apply", os.path.join(p, "patch.diff")], check=True)
    t0 = time.time()
    try:
        r = subprocess.run(["timeout", "-k", "5", "900", os.path.join(V, "check"), pid, "--tier", "quick"], cwd=V,
                           stdout=subprocess.PIPE, stderr=subprocess.STDOUT, text=True)
        out, rc = r.stdout, r.returncode
    finally:
        subprocess.run(["git", "-C", "/repo", "checkout", "--", "."], check=True)
    viol = [l for l in out.splitlines() if l.startswith("VIOLATION")]
    kind = "missed"
    if viol:
        kind = "concrete failing input" if any("no-failing-input-found" not in l for l in viol) else "tie broken, no failing input found"
    if os.environ.get("SEEDS_NO_RECORD"):          # a robustness run under another VERIF_SEED: report only
        rows.append((d, rc, kind, round(time.time() - t0, 1)))
        print(d, rc, kind, flush=True)
        continue
    meta = json.load(open(os.path.join(p, "meta.json")))
    meta["detected_by"] = dict(check="./check %s --tier quick" % pid, exit=rc, kind=kind, violations=len(viol), seconds=round(time.time() - t0, 1))
    json.dump(meta, open(os.path.join(p, "meta.json"), "w"), indent=1)
    rows.append((d, rc, kind, round(time.time() - t0, 1)))
    print(d, rc, kind, flush=True)
# the table is always regenerated from the meta.json files
if os.environ.get("SEEDS_NO_RECORD"):
    sys.exit(0)
with open(os.path.join(V, "seeded", "RESULTS.md"), "w") as f:
    f.write("| seeded change | exit of quick check | how it was reported | seconds |\n|---|---|---|---|\n")
    for d in sorted(os.listdir(os.path.join(V, "seeded"))):
        mp = os.path.join(V, "seeded", d, "meta.json")
        if os.path.exists(mp):
            db = json.load(open(mp)).get("detected_by") or {}
            f.write("| %s | %s | %s | %s |\n" % (d, db.get("exit"), db.get("kind"), db.get("seconds")))
