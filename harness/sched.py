"""Deterministic cooperative scheduler for thread / process code, and fake multiprocessing primitives whose every
operation is a scheduling point.  Exactly one logical thread runs at any time; the controller picks the next one among
those whose pending operation is enabled.  No enabled thread while the main thread is unfinished = deadlock (detected,
not timed out).  A run is a pure function of (program, chooser seed)."""
import queue
import threading


class Killed(BaseException):
    pass


class LThread:
    def __init__(self, sched, name, fn):
        self.sched, self.name, self.fn = sched, name, fn
        self.go = threading.Semaphore(0)
        self.ready = threading.Event()
        self.label, self.enabled = ("start", name), (lambda: True)
        self.parked, self.finished, self.exc = False, False, None
        self.thread = threading.Thread(target=self._run, daemon=True)

    def _run(self):
        self.sched._tls.me = self
        self.parked = True
        self.ready.set()                 # parked at "start"; the spawner goes on running, the controller is not woken
        self.go.acquire()
        try:
            if not self.sched.killing:
                self.fn()
        except Killed:
            pass
        except BaseException as e:       # noqa
            self.exc = e
        self.finished = True
        self.sched.ctrl.release()


class Sched:
    def __init__(self, chooser, max_steps=20000):
        self.chooser, self.max_steps = chooser, max_steps
        self.threads, self.log_entries = [], []
        self.ctrl = threading.Semaphore(0)
        self._tls = threading.local()
        self.killing = False
        self.steps = 0
        self.deadlock = None
        self.step_limit = False
        self.cand_trace = []          # (chosen thread, enabled threads) per step, filled by the systematic choosers

    # ---- called from logical threads
    def me(self):
        return getattr(self._tls, "me", None)

    def name(self):
        m = self.me()
        return m.name if m else "-"

    def spawn(self, name, fn):
        t = LThread(self, name, fn)
        self.threads.append(t)
        t.thread.start()
        t.ready.wait()
        return t

    def point(self, label, enabled=None):
        m = self.me()
        if m is None:
            return
        m.label, m.enabled = label, (enabled or (lambda: True))
        m.parked = True
        self.ctrl.release()
        m.go.acquire()
        if self.killing:
            raise Killed()

    def log(self, *entry):
        self.log_entries.append((self.name(),) + entry)

    # ---- controller
    def run(self, main_fn):
        main = self.spawn("main", main_fn)
        while not main.finished:
            cands = [t for t in self.threads if t.parked and not t.finished and t.enabled()]
            if not cands:
                self.deadlock = [(t.name, t.label) for t in self.threads if not t.finished]
                break
            if self.steps >= self.max_steps:
                self.step_limit = True
                break
            t = self.chooser(cands, self)
            self.steps += 1
            t.parked = False
            t.go.release()
            self.ctrl.acquire()
        self.main_exc = main.exc
        self.unfinished = [t.name for t in self.threads if not t.finished]
        # tear down: wake everything that is still parked so that the OS threads end
        self.killing = True
        for t in self.threads:
            if not t.finished:
                t.go.release()
        for t in self.threads:
            t.thread.join(timeout=2)
        return main


# ------------------------------------------------------------------------------------------------ fakes
class FakeQueue:
    def __init__(self, sched, name, maxsize=0):
        self.s, self.name, self.maxsize, self.items = sched, name, maxsize, []

    def _full(self):
        return self.maxsize > 0 and len(self.items) >= self.maxsize

    # A timed operation (block=True with a timeout) may expire whenever what it waits for has not happened at the moment
    # the thread is scheduled: time is not modelled, so "the timeout passes first" is one more choice of the scheduler.
    def put(self, item, block=True, timeout=None):
        if block and timeout is not None:
            self.s.point(("put_timed", self.name))
            if self._full():
                self.s.log("put_timeout", self.name, item)
                raise queue.Full
        elif block:
            self.s.point(("put", self.name), lambda: not self._full())
        else:
            self.s.point(("put_nowait", self.name))
            if self._full():
                self.s.log("put_full", self.name, item)
                raise queue.Full
        self.items.append(item)
        self.s.log("put", self.name, item)

    def put_nowait(self, item):
        return self.put(item, block=False)

    def get(self, block=True, timeout=None):
        if block and timeout is not None:
            self.s.point(("get_timed", self.name))
            if not self.items:
                self.s.log("get_timeout", self.name)
                raise queue.Empty
        elif block:
            self.s.point(("get", self.name), lambda: len(self.items) > 0)
        else:
            self.s.point(("get_nowait", self.name))
            if not self.items:
                self.s.log("get_empty", self.name)
                raise queue.Empty
        item = self.items.pop(0)
        self.s.log("get" if block else "get_nb", self.name, item)
        return item

    def get_nowait(self):
        return self.get(block=False)

    def qsize(self):
        self.s.point(("qsize", self.name))
        return len(self.items)

    def empty(self):
        self.s.point(("empty", self.name))
        return not self.items

    def full(self):
        self.s.point(("full", self.name))
        return self._full()

    def close(self):
        pass

    def join_thread(self):
        pass

    def cancel_join_thread(self):
        pass


class FakeLock:
    def __init__(self, sched, name):
        self.s, self.name, self.held = sched, name, None

    def acquire(self, block=True, timeout=None):
        self.s.point(("acquire", self.name), lambda: self.held is None)
        self.held = self.s.name()
        self.s.log("acquire", self.name)
        return True

    def release(self):
        self.s.point(("release", self.name))
        self.held = None
        self.s.log("release", self.name)

    def __enter__(self):
        self.acquire()
        return self

    def __exit__(self, *a):
        self.release()


class FakeEvent:
    def __init__(self, sched, name):
        self.s, self.name, self.flag = sched, name, False

    def set(self):
        self.s.point(("set", self.name))
        self.flag = True
        self.s.log("set", self.name)

    def clear(self):
        self.s.point(("clear", self.name))
        self.flag = False
        self.s.log("clear", self.name)

    def is_set(self):
        self.s.point(("is_set", self.name))
        self.s.log("is_set", self.name, self.flag)
        return self.flag

    def wait(self, timeout=None):
        if timeout is not None:
            # a timed wait may expire whenever the flag is not set at the moment the thread is scheduled (cf. FakeQueue)
            self.s.point(("wait_timed", self.name))
            if not self.flag:
                self.s.log("wait_timeout", self.name)
                return False
            self.s.log("wait", self.name)
            return True
        self.s.point(("wait", self.name), lambda: self.flag)
        self.s.log("wait", self.name)
        return True


class FakeValue:
    def __init__(self, sched, name, v):
        self.s, self.name, self._v = sched, name, v

    @property
    def value(self):
        self.s.point(("rd", self.name))
        self.s.log("rd", self.name, self._v)
        return self._v

    @value.setter
    def value(self, v):
        self.s.point(("wr", self.name))
        self._v = v
        self.s.log("wr", self.name, v)


class FakeRLock:
    def __init__(self, sched, name):
        self.s, self.name, self.owner, self.count = sched, name, None, 0

    def acquire(self, block=True, timeout=None):
        me = self.s.name()
        self.s.point(("acquire", self.name), lambda: self.owner in (None, me))
        self.owner, self.count = me, self.count + 1
        self.s.log("racquire", self.name, self.count)
        return True

    def release(self):
        self.s.point(("release", self.name))
        self.count -= 1
        if self.count == 0:
            self.owner = None
        self.s.log("rrelease", self.name, self.count)

    def __enter__(self):
        self.acquire()
        return self

    def __exit__(self, *a):
        self.release()


class FakeManager:
    def __init__(self, sched, ctx):
        self.s, self.ctx = sched, ctx

    def __enter__(self):
        return self

    def __exit__(self, *a):
        return None

    def Queue(self, maxsize=0):
        return FakeQueue(self.s, self.ctx._qname(), maxsize)

    def list(self, init=()):
        return FakeList(self.s, self.ctx._name("list"), list(init))

    def shutdown(self):
        pass


class FakeList:
    """manager list proxy: every method is one atomic remote call"""
    def __init__(self, sched, name, items):
        self.s, self.name, self.items = sched, name, items

    def _p(self, op):
        self.s.point((op, self.name))

    def append(self, x):
        self._p("append"); self.items.append(x); self.s.log("lappend", self.name)

    def extend(self, xs):
        self._p("extend"); self.items.extend(xs)

    def __len__(self):
        self._p("len"); return len(self.items)

    def __getitem__(self, i):
        self._p("getitem"); return self.items[i]

    def __setitem__(self, i, v):
        self._p("setitem"); self.items[i] = v
        if not isinstance(i, slice):
            self.s.log("lsetitem", self.name, i)

    def __delitem__(self, i):
        self._p("delitem"); del self.items[i]

    def remove(self, x):
        self._p("remove"); self.items.remove(x)


class FakeContext:
    """stands in for a multiprocessing context (passed through the pool's public `context=` parameter)"""
    def __init__(self, sched):
        self.s = sched
        self._qn = ["work", "results", "replace"]
        self._counts = {}

    def _qname(self):
        return self._qn.pop(0) if self._qn else self._name("queue")

    def _name(self, kind):
        self._counts[kind] = self._counts.get(kind, 0) + 1
        return "%s%d" % (kind, self._counts[kind])

    def Manager(self):
        return FakeManager(self.s, self)

    def Queue(self, maxsize=0):
        return FakeQueue(self.s, "replace", maxsize)

    def Lock(self):
        return FakeLock(self.s, self._name("lock"))

    def RLock(self):
        return FakeRLock(self.s, self._name("rlock"))

    def Event(self):
        return FakeEvent(self.s, self._name("event"))

    def Value(self, typecode, v):
        return FakeValue(self.s, self._name("value"), v)


class FakePopen:
    """a 'process' is a logical thread running proc.run(); exit code, poll, wait as multiprocessing expects them"""
    def __init__(self, sched, proc, name):
        self.s, self.proc, self.name = sched, proc, name
        self.returncode = None
        self.sentinel = 0
        self.pid = -1

        def body():
            rc = 0
            try:
                proc.run()
            except Killed:
                raise
            except BaseException:      # noqa
                rc = 1
            self.s.point(("exit", name))
            self.returncode = rc
            self.s.log("proc_exit", name, rc)
        self.thread = sched.spawn(name, body)
        sched.log("start_proc", name)

    def poll(self, flag=0):
        if self.s.me() is not None:
            self.s.log("poll", self.name, self.returncode)
        return self.returncode

    def wait(self, timeout=None):
        if timeout is not None and timeout <= 0:
            # join(timeout=0) is a poll; a positive join timeout is taken to be long enough (it blocks like no timeout)
            self.s.point(("join_poll", self.name))
            self.s.log("join_poll", self.name, self.returncode)
            return self.returncode
        self.s.point(("join_proc", self.name), lambda: self.returncode is not None)
        self.s.log("join_proc", self.name)
        return self.returncode

    def terminate(self):
        pass

    kill = terminate

    def close(self):
        pass


# ------------------------------------------------------------------------------------------------ choosers
def make_chooser(policy, rng):
    """policy: 'random' | 'first:<prefix>' (prefer threads whose name starts with prefix) | 'last:<prefix>' (avoid them)"""
    if policy == "np" or policy.startswith("pb:"):
        # non-preemptive baseline: keep running the thread that ran last while it is enabled, else the first by name;
        # "pb:<step>=<thread>,..." deviates from that at the given steps (one deviation = one preemption)
        forced = {}
        if policy.startswith("pb:"):
            for part in policy[3:].split(","):
                st, name = part.split("=")
                forced[int(st)] = name
        last = [None]

        def choose_np(cands, sched):
            pick = None
            if sched.steps in forced:
                pick = next((t for t in cands if t.name == forced[sched.steps]), None)
            if pick is None:
                pick = next((t for t in cands if t.name == last[0]), None) or sorted(cands, key=lambda t: t.name)[0]
            last[0] = pick.name
            sched.cand_trace.append((pick.name, sorted(t.name for t in cands)))
            return pick
        return choose_np

    def choose(cands, sched):
        if policy.startswith("first:"):
            pref = [t for t in cands if t.name.startswith(policy[6:])]
            if pref and rng.random() < 0.9:
                return rng.choice(pref)
        elif policy.startswith("last:"):
            rest = [t for t in cands if not t.name.startswith(policy[5:])]
            if rest and rng.random() < 0.9:
                return rng.choice(rest)
        return rng.choice(cands)
    return choose


def pb_run(case, runner):
    """case["pb1"] = k: run the k-th schedule with exactly one preemption relative to the non-preemptive baseline of this
    configuration (canonical enumeration: by step, then by thread name); k beyond the number of such schedules = the baseline.
    `runner(case)` must put the scheduler's cand_trace into its result under "cand_trace"."""
    if "pb1" not in case and "pb2" not in case:
        o = runner(case)
        if isinstance(o, dict):
            o.pop("cand_trace", None)
        return o
    o = runner(dict(case, policy="np"))
    alts = [(i, n) for i, (ch, cs) in enumerate(o.get("cand_trace", [])) for n in cs if n != ch]
    if "pb2" in case:
        # two preemptions, sampled: a pair of alternatives of the baseline (the second is taken if that thread is enabled at
        # that step of the run that already contains the first; otherwise the run continues non-preemptively)
        import random as _r
        rg = _r.Random(case["pb2"])
        if len(alts) >= 2:
            (s1, n1), (s2, n2) = sorted(rg.sample(alts, 2))
            if s1 != s2:
                o = runner(dict(case, policy="pb:%d=%s,%d=%s" % (s1, n1, s2, n2)))
                o["pb"] = [s1, n1, s2, n2, len(alts)]
        o.pop("cand_trace", None)
        return o
    k = case["pb1"]
    if k < len(alts):
        st, name = alts[k]
        o = runner(dict(case, policy="pb:%d=%s" % (st, name)))
        o["pb"] = [st, name, len(alts)]
    else:
        o["pb"] = ["baseline", len(alts)]
    o.pop("cand_trace", None)
    return o
