"""C06 - LRUCache."""
from harness.props.cachecommon import CacheProp


class P(CacheProp):
    id = "C06"
    kind = 0
    cls = "LRUCache"
    rule = ("a case = capacities of two caches and an operation history over them (store / lookup / delete / in / len / "
            "iter / keys / values / items / get / pop / popitem / clear / update / setdefault / == other cache / "
            "update(other cache) / == dict); after EVERY operation the result, list(cache) and len(cache) of both caches "
            "are compared.  exhaustive: every history of <=4 (quick) / <=5 (thorough) ops over a 10-op alphabet for "
            "capacities 1..2 (1..3); random: histories up to 40 ops, capacities 1..4, 2..6 keys.  non-trivial = more "
            "distinct keys stored than the capacity (an eviction); distinct by canonical case text")
