"""C16 - ImmutIntervalMap against Model/IntervalMap.v."""
import itertools

from harness.core import Prop, attempt, ok, err, E, exc_code


class P(Prop):
    id = "C16"
    quick_n = 3000
    thorough_n = 30000
    rule = ("a case = the dict's item list ((start, end), value) in insertion order plus probe keys; all coordinates "
            "are ints on the model side, the implementation receives them as ints or as equal floats (flag), probes "
            "cover every integer from min-1 to max+1 (ends, interior points and gaps).  exhaustive: every ordered set "
            "of <=2 intervals over endpoints 0..5 (quick) / <=3 over 0..4 (thorough), inverted ones included; random: "
            "up to 8 intervals, mostly disjoint, with touching / nested / single-point ones and negative ends.  "
            "non-trivial = at least two intervals; distinct by canonical case text")
    trusted = ["bisect.bisect_left modelled as CPython's binary search; sorted() stable"]

    def exhaustive(self, tier):
        if tier == "quick":
            iv = [(a, b) for a in range(6) for b in range(6)]
            sets = [()] + [(x,) for x in iv] + [(x, y) for x in iv for y in iv if x != y]
            probes = list(range(-1, 7))
        else:
            iv = [(a, b) for a in range(5) for b in range(5)]
            sets = [()] + [(x,) for x in iv] + [(x, y) for x in iv for y in iv if x != y] + \
                   [(x, y, z) for x in iv for y in iv for z in iv if len({x, y, z}) == 3]
            probes = list(range(-1, 6))
        for k, s in enumerate(sets):
            yield dict(ents=[[a, b, 100 + j] for j, (a, b) in enumerate(s)], probes=probes, floaty=k % 3)

    def generate(self, rng, tier, n):
        for _ in range(n):
            m = rng.randint(0, 8)
            pts = sorted(rng.sample(range(-6, 30), min(2 * m, 30)))
            ents = []
            for j in range(m):
                a, b = pts[2 * j], pts[2 * j + 1]
                r = rng.random()
                if r < 0.15:
                    b = a                       # single point
                elif r < 0.25 and j > 0:
                    a = ents[-1][1]             # touches its predecessor: shares a point
                elif r < 0.3 and j > 0:
                    a = ents[-1][0]             # nested / overlapping
                elif r < 0.35:
                    a, b = b, a                 # inverted
                ents.append([a, b, rng.randint(0, 99)])
            rng.shuffle(ents)
            seen, uniq = set(), []
            for e in ents:
                if (e[0], e[1]) not in seen:
                    seen.add((e[0], e[1]))
                    uniq.append(e)
            lo = min([e[0] for e in uniq] + [0]) - 1
            hi = max([e[1] for e in uniq] + [0]) + 1
            yield dict(ents=uniq, probes=list(range(lo, hi + 1)), floaty=rng.randrange(3))

    def to_model(self, case):
        return 1600, [case["ents"], case["probes"]]

    def nontrivial(self, case, obs):
        return len(case["ents"]) >= 2

    def signature(self, case, i, m):
        return "construct" if (i[0] != m[0]) else "lookup"

    def shrink_candidates(self, case):
        l = case["ents"]
        for i in range(len(l)):
            c = dict(case)
            c["ents"] = l[:i] + l[i + 1:]
            yield c
        if len(case["probes"]) > 1:
            for half in (case["probes"][:len(case["probes"]) // 2], case["probes"][len(case["probes"]) // 2:]):
                c = dict(case)
                c["probes"] = half
                yield c

    def impl(self, case):
        from windpyutils.structures.maps import ImmutIntervalMap
        fl = case["floaty"]
        cv = (lambda x: x) if fl == 0 else (lambda x: float(x)) if fl == 1 else (lambda x: float(x) if x % 2 else x)
        mapping = {}
        for a, b, v in case["ents"]:
            mapping[(cv(a), cv(b))] = v

        def run():
            m = ImmutIntervalMap(mapping)
            it = [[int(s), int(e), v] for (s, e), v in m]
            return [len(m), it, [attempt(lambda: m[cv(p)]) for p in case["probes"]],
                    [1 if cv(p) in m else 0 for p in case["probes"]]]
        return attempt(run)
