"""C19 - generic sequence helpers against Model/Generic.v."""
import itertools

from harness.core import Prop, attempt, ok, err, E, s2v

ALPH = [0, 1, 2]


class P(Prop):
    id = "C19"
    quick_n = 2500
    thorough_n = 30000
    case_timeout = 20.0
    rule = ("Roman: the complete table 1..3999 both ways every run (plus 0, negatives, 4000..5000 as correspondence "
            "only); arg_sort / sub_seq / search_sub_seq / compare_pos: every sequence (pair) over a 3-letter alphabet "
            "up to length 4 (quick) or 6 (thorough) plus random longer ones; Batcher / BatcherIter: every (n, b) with "
            "n<=24 (40), b<=8 (12), single and tuple inputs, every index 0..len+1; non-trivial = has a repeated "
            "element / an occurrence / a short last batch; distinct by canonical case text")
    trusted = ["CPython sorted() is stable (also with reverse=True), modelled as insertion sort",
               "Python slices of lists modelled as firstn/skipn"]

    def exhaustive(self, tier):
        yield dict(kind="roman_all", lo=1, hi=3999)
        yield dict(kind="roman_all", lo=-20, hi=0)
        yield dict(kind="roman_all", lo=4000, hi=5000)
        L = 4 if tier == "quick" else 6
        seqs = [list(s) for n in range(0, L + 1) for s in itertools.product(ALPH, repeat=n)]
        for s in seqs:
            yield dict(kind="arg_sort", els=s, rev=0)
            yield dict(kind="arg_sort", els=s, rev=1)
        short = [s for s in seqs if len(s) <= (2 if tier == "quick" else 3)]
        for a in short:
            for b in seqs:
                if len(b) <= L:
                    yield dict(kind="sub_seq", a=a, b=b)
                    yield dict(kind="search", a=a, b=b)
        cp = [s for s in seqs if len(s) <= (3 if tier == "quick" else 4)]
        for a in cp:
            for b in cp:
                yield dict(kind="compare_pos", a=a, b=b)
        N, B = (24, 8) if tier == "quick" else (40, 12)
        for n in range(0, N + 1):
            for b in range(-1, B + 1):
                data = list(range(100, 100 + n))
                yield dict(kind="batcher", data=data, b=b)
                yield dict(kind="biter", data=data, b=b)
                if n <= 12:
                    yield dict(kind="batcher_t", cols=[data, [x + 1000 for x in data]], b=b)
                    yield dict(kind="biter_t", cols=[data, [x + 1000 for x in data][:max(0, n - 2)], data], b=b)

    def generate(self, rng, tier, n):
        for _ in range(n):
            k = rng.choice(["arg_sort", "sub_seq", "search", "compare_pos", "batcher", "biter", "batcher_t", "biter_t",
                            "roman", "r2i"])
            if k == "arg_sort":
                yield dict(kind=k, els=[rng.randint(-3, 3) for _ in range(rng.randint(0, 25))], rev=rng.randint(0, 1))
            elif k in ("sub_seq", "search"):
                b = [rng.randint(0, 2) for _ in range(rng.randint(0, 20))]
                if b and rng.random() < 0.6:
                    i = rng.randrange(len(b))
                    a = b[i:i + rng.randint(0, 5)]
                    if rng.random() < 0.2 and a:
                        a[-1] = (a[-1] + 1) % 3
                else:
                    a = [rng.randint(0, 2) for _ in range(rng.randint(0, 6))]
                yield dict(kind=k, a=a, b=b)
            elif k == "compare_pos":
                a = [rng.randint(0, 4) for _ in range(rng.randint(0, 12))]
                b = list(a)
                rng.shuffle(b)
                r = rng.random()
                if r < 0.25 and b:
                    b[rng.randrange(len(b))] = rng.randint(0, 4)
                elif r < 0.4:
                    b.append(rng.randint(0, 4))
                elif r < 0.5 and b:
                    b.pop()
                yield dict(kind=k, a=a, b=b)
            elif k in ("batcher", "biter"):
                yield dict(kind=k, data=[rng.randint(-9, 9) for _ in range(rng.randint(0, 60))], b=rng.randint(-1, 15))
            elif k == "batcher_t":
                n_ = rng.randint(0, 30)
                cols = [[rng.randint(-9, 9) for _ in range(n_)] for _ in range(rng.randint(1, 4))]
                if rng.random() < 0.15 and len(cols) > 1:
                    cols[-1] = cols[-1] + [0]
                yield dict(kind=k, cols=cols, b=rng.randint(-1, 9))
            elif k == "biter_t":
                cols = [[rng.randint(-9, 9) for _ in range(rng.randint(0, 30))] for _ in range(rng.randint(1, 4))]
                yield dict(kind=k, cols=cols, b=rng.randint(-1, 9))
            elif k == "roman":
                yield dict(kind="roman", n=rng.randint(1, 3999))
            else:
                letters = "IVXLCDM"
                s = "".join(rng.choice(letters) for _ in range(rng.randint(0, 8)))
                if rng.random() < 0.1:
                    s += rng.choice("AZi ")
                yield dict(kind="r2i", s=s)

    def idxs(self, case):
        n = len(case["data"]) if "data" in case else len(case["cols"][0]) if case["cols"] else 0
        b = case["b"]
        ln = -(-n // b) if b > 0 else 0
        return list(range(0, ln + 2))

    def to_model(self, case):
        k = case["kind"]
        if k == "roman_all":
            return 1910, [case["lo"], case["hi"]]
        if k == "roman":
            return 1900, case["n"]
        if k == "r2i":
            return 1901, s2v(case["s"])
        if k == "arg_sort":
            return 1902, [case["els"], case["rev"]]
        if k == "sub_seq":
            return 1903, [case["a"], case["b"]]
        if k == "search":
            return 1904, [case["a"], case["b"]]
        if k == "compare_pos":
            return 1905, [case["a"], case["b"]]
        if k == "batcher":
            return 1906, [case["data"], case["b"], self.idxs(case)]
        if k == "biter":
            return 1907, [case["data"], case["b"]]
        if k == "batcher_t":
            return 1908, [case["cols"], case["b"], self.idxs(case)]
        return 1909, [case["cols"], case["b"]]

    def in_domain(self, case):
        k = case["kind"]
        if k == "roman_all":
            return case["lo"] >= 1 and case["hi"] <= 3999
        if k == "r2i":
            return False   # arbitrary letter strings are outside "inverse on 1..3999"; correspondence only
        if k in ("batcher", "biter", "batcher_t", "biter_t") and case["b"] <= 0:
            return True    # documented ValueError
        return True

    def nontrivial(self, case, obs):
        k = case["kind"]
        if k in ("roman_all", "roman"):
            return True
        if k == "arg_sort":
            return len(set(case["els"])) < len(case["els"])
        if k in ("sub_seq", "search"):
            return 0 < len(case["a"]) <= len(case["b"])
        if k == "compare_pos":
            return len(case["a"]) > 1
        if k == "r2i":
            return len(case["s"]) > 1
        n = len(case["data"]) if "data" in case else min(len(c) for c in case["cols"])
        return case["b"] > 0 and n % case["b"] != 0

    def signature(self, case, i, m):
        return case["kind"]

    def shrink_candidates(self, case):
        for key in ("els", "a", "b", "data"):
            if isinstance(case.get(key), list):
                l = case[key]
                for i in range(len(l)):
                    c = dict(case)
                    c[key] = l[:i] + l[i + 1:]
                    yield c

    def impl(self, case):
        from windpyutils import generic as g
        k = case["kind"]
        if k == "roman_all":
            out = []
            for n in range(case["lo"], case["hi"] + 1):
                r = g.int_2_roman(n)
                out.append([s2v(r), g.roman_2_int(r)])
            return out
        if k == "roman":
            return s2v(g.int_2_roman(case["n"]))
        if k == "r2i":
            return attempt(lambda: g.roman_2_int(case["s"]))
        if k == "arg_sort":
            return list(g.arg_sort(case["els"], reverse=bool(case["rev"])))
        if k == "sub_seq":
            return 1 if g.sub_seq(case["a"], case["b"]) else 0
        if k == "search":
            return attempt(lambda: [list(p) for p in g.search_sub_seq(case["a"], case["b"])])
        if k == "compare_pos":
            return 1 if g.compare_pos_in_iterables(iter(case["a"]), iter(case["b"])) else 0
        if k == "batcher":
            def run():
                bt = g.Batcher(case["data"], case["b"])
                return [len(bt), [attempt(lambda: list(bt[i])) for i in self.idxs(case)]]
            return attempt(run)
        if k == "biter":
            return attempt(lambda: [list(x) for x in g.BatcherIter(iter(case["data"]), case["b"])])
        if k == "batcher_t":
            def run():
                bt = g.Batcher(tuple(case["cols"]), case["b"])
                return [len(bt), [attempt(lambda: [list(c) for c in bt[i]]) for i in self.idxs(case)]]
            return attempt(run)

        def run():
            return [[list(c) for c in batch] for batch in g.BatcherIter(tuple(iter(c) for c in case["cols"]), case["b"])]
        return attempt(run)
