"""Shared harness of C06 (LRUCache) and C07 (LFUCache) against Model/Caches.v."""
import itertools

from harness.core import Prop, attempt, ok, err, E


class CacheProp(Prop):
    kind = 0
    cls = "LRUCache"
    quick_n = 3000
    thorough_n = 40000
    case_timeout = 2.0
    trusted = ["collections.abc MutableMapping mix-ins expanded as CPython 3.12 defines them",
               "the linked list inside a cache is represented by its abstract sequence (C08 refinement)"]

    # --------------------------------------------------------------- calibration of what the property leaves open
    _cal = None

    def calibration(self):
        """probe the implementation once: does `in` count as a use, do values()/items()/== look keys up"""
        if self._cal is None:
            from harness.core import run_impl
            r = run_impl(self, [dict(calibrate=1)])[0]
            self._cal = r if isinstance(r, list) and len(r) == 2 else [1, 1]
        return self._cal

    # --------------------------------------------------------------- generation
    def gen_ops(self, rng, n, keys):
        ops = []
        for _ in range(n):
            t = 1 if rng.random() < 0.25 else 0
            r = rng.random()
            k = rng.choice(keys)
            v = rng.randint(0, 99)
            if r < 0.28:
                op = [1, k, v]
            elif r < 0.46:
                op = [0, k]
            elif r < 0.52:
                op = [2, k]
            elif r < 0.58:
                op = [5, k]
            elif r < 0.62:
                op = [rng.choice([3, 4, 6])]
            elif r < 0.68:
                op = [rng.choice([7, 8])]
            elif r < 0.72:
                op = [9, k, -1]
            elif r < 0.76:
                op = [rng.choice([10, 11]), k] + ([-2] if False else [])
                if op[0] == 11:
                    op = [11, k, -2]
            elif r < 0.80:
                op = [12]
            elif r < 0.82:
                op = [13]
            elif r < 0.87:
                op = [14, [[rng.choice(keys), rng.randint(0, 99)] for _ in range(rng.randint(0, 4))]]
            elif r < 0.91:
                op = [15, k, v]
            elif r < 0.95:
                op = [16]
            elif r < 0.98:
                op = [17]
            else:
                op = [18, [[rng.choice(keys), rng.randint(0, 3)] for _ in range(rng.randint(0, 3))]]
            ops.append([t] + op)
        return ops

    def exhaustive(self, tier):
        # every history of <= L ops over a reduced alphabet, caps 1..2 (quick) / 1..3 (thorough), 3 keys
        L = 4 if tier == "quick" else 5
        alpha = [[0, 1, 1, 10], [0, 1, 2, 20], [0, 1, 3, 30], [0, 1, 1, 11], [0, 0, 1], [0, 0, 2], [0, 2, 1], [0, 5, 2],
                 [0, 7], [0, 12]]
        for cap in ((1, 2) if tier == "quick" else (1, 2, 3)):
            for n in range(1, L + 1):
                for seq in itertools.product(alpha, repeat=n):
                    yield dict(capa=cap, capb=2, ops=[list(o) for o in seq])

    def generate(self, rng, tier, n):
        for _ in range(n):
            ca, cb = rng.randint(1, 4), rng.randint(1, 4)
            keys = list(range(rng.randint(2, 6)))
            yield dict(capa=ca, capb=cb, ops=self.gen_ops(rng, rng.randint(1, 40), keys))

    def to_model(self, case):
        cc, vt = self.calibration()
        return 600, [self.kind, case["capa"], case["capb"], cc, vt, case["ops"]]

    def nontrivial(self, case, obs):
        sets = {op[2] for op in case["ops"] if op[1] == 1 and op[0] == 0}
        return len(sets) > case["capa"]      # more distinct keys stored than the capacity: an eviction happened

    def signature(self, case, i, m):
        return self.cls

    def shrink_candidates(self, case):
        yield from Prop.shrink_candidates(self, case)

    # --------------------------------------------------------------- implementation
    def impl(self, case):
        from windpyutils.structures import caches
        C = getattr(caches, self.cls)
        if case.get("calibrate"):
            c = caches.LRUCache(3)
            c[1] = 10; c[2] = 20
            1 in c
            cc = 1 if list(c) == [1, 2] else 0
            c = caches.LRUCache(3)
            c[1] = 10; c[2] = 20
            list(c.values())
            vt = 1 if list(c) == [1, 2] else 0
            return [cc, vt]
        cs = [C(case["capa"]), C(case["capb"])]
        tr = []
        for op in case["ops"]:
            a, b = cs[op[0]], cs[1 - op[0]]
            c, args = op[1], op[2:]

            def run():
                if c == 0:
                    return a[args[0]]
                if c == 1:
                    a[args[0]] = args[1]; return []
                if c == 2:
                    del a[args[0]]; return []
                if c == 9:
                    return a.get(args[0], args[1])
                if c == 10:
                    return a.pop(args[0])
                if c == 11:
                    return a.pop(args[0], args[1])
                if c == 12:
                    return list(a.popitem())
                if c == 13:
                    a.clear(); return []
                if c == 14:
                    a.update([tuple(p) for p in args[0]]); return []
                if c == 17:
                    a.update(b); return []
                raise AssertionError
            if c in (0, 1, 2, 10, 12, 13, 14, 17):
                r = attempt(run)
            elif c in (9, 11):
                r = run()
            elif c == 3:
                r = len(a)
            elif c == 4:
                r = list(iter(a))
            elif c == 5:
                r = 1 if args[0] in a else 0
            elif c == 6:
                r = list(a.keys())
            elif c == 7:
                r = list(a.values())
            elif c == 8:
                r = [list(p) for p in a.items()]
            elif c == 15:
                r = a.setdefault(args[0], args[1])
            elif c == 16:
                r = 1 if a == b else 0
            elif c == 18:
                r = 1 if a == dict((p[0], p[1]) for p in args[0]) else 0
            tr.append([r, list(cs[0]), len(cs[0]), list(cs[1]), len(cs[1])])
        return tr
