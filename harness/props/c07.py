"""C07 - LFUCache."""
from harness.props.cachecommon import CacheProp


class P(CacheProp):
    id = "C07"
    kind = 1
    cls = "LFUCache"
    rule = ("as C06, on LFUCache: iteration order (least to most frequently used) and len after every operation, every "
            "result.  non-trivial = more distinct keys stored than the capacity (an eviction)")
