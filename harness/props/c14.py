"""C14: TextFileStorage (parallel/storage.py) under the controlled scheduler; trace acceptance by Model/Storage.v.
The unmodified class runs on fake Manager / Value / RLock objects and on real files in a scratch directory; the files are
wrapped so that flushing a written line and reading a line are scheduling points.  Every "process" is a logical thread
with its own copy of the storage object (what fork gives: shared proxies, private handles)."""
import copy
import os
import random
import shutil
import tempfile

from harness import sched as S
from harness.core import Prop, E

POLICIES = ["random", "random", "first:p0", "last:p0", "first:p1", "last:p1", "first:r", "last:r"]
ALPHABET = ["a", "b", "z", "0", " ", "\t", "é", "€", "x", "", ",", "\""]


class FileW:
    """file wrapper: flush (writer) and readline (reader) are scheduling points"""
    def __init__(self, sc, f, name):
        self.sc, self.f, self.name = sc, f, name

    def write(self, x):
        return self.f.write(x)

    def flush(self):
        self.sc.point(("fflush", self.name))
        self.f.flush()
        self.sc.log("fflush", self.name)

    def tell(self):
        return self.f.tell()

    def seek(self, off):
        return self.f.seek(off)

    def readline(self):
        self.sc.point(("freadline", self.name))
        r = self.f.readline()
        self.sc.log("freadline", self.name)
        return r

    def close(self):
        self.f.close()


def run_case(case):
    from windpyutils.parallel import storage as mod
    rng = random.Random(case["seed"])
    sc = S.Sched(S.make_chooser(case["policy"], rng), max_steps=case.get("max_steps", 20000))
    ctx = S.FakeContext(sc)
    base = os.environ.get("VERIF_SCRATCH_DIR") or tempfile.gettempdir()
    d = tempfile.mkdtemp(prefix="st_", dir=base)

    class MP:
        @staticmethod
        def Value(tc, v):
            return S.FakeValue(sc, ctx._name("value"), v)

        @staticmethod
        def RLock():
            return S.FakeRLock(sc, "rlock")
    saved = (mod.Manager, mod.multiprocessing, mod.__dict__.get("open"))
    mod.Manager = lambda: S.FakeManager(sc, ctx)
    mod.multiprocessing = MP
    mod.open = lambda path, mode="r": FileW(sc, open(path, mode), os.path.basename(path) + ":" + mode)
    outs = {}
    final = {}
    try:
        st = mod.TextFileStorage(d, number_of_data=case.get("presize"))

        def fork_copy(obj):
            """what fork() gives a child: the shared objects (manager list, values, lock - fakes here) stay shared, every
            plain container of the object is the child's own copy"""
            me = copy.copy(obj)
            for k, v in list(me.__dict__.items()):
                if type(v) in (dict, list, set):
                    try:
                        me.__dict__[k] = copy.deepcopy(v)
                    except Exception:  # noqa  (e.g. open file objects inside)
                        me.__dict__[k] = copy.copy(v)
            me._opened_files_for_reading = []
            return me

        def proc(pi, prog):
            me = fork_copy(st)
            if not any(op[0] == 0 for op in prog):
                me.reader_only = True
            out = outs.setdefault(pi, [])
            for op in prog:
                sc.log("opstart", op[0])
                try:
                    if op[0] == 0:
                        me[op[1]] = op[2]
                        r = [0]
                    elif op[0] == 1:
                        r = [3, me[op[1]]]
                    elif op[0] == 2:
                        r = [4, len(me)]
                    elif op[0] == 3:
                        r = [5, 1 if me.is_contiguous() else 0]
                    elif op[0] == 5:
                        me.close()          # a later write reopens the own file ("a"), a later read reopens read handles
                        r = [7]
                    else:
                        r = [6, list(me)]
                except ValueError:
                    r = [1]
                except IndexError:
                    r = [2]
                sc.log("opend", op[0])
                out.append(r)
            me.close()

        def main_fn():
            ts = [sc.spawn("p%d" % i if any(op[0] == 0 for op in prog) else "r%d" % i, (lambda i=i, prog=prog: proc(i, prog)))
                  for i, prog in enumerate(case["progs"])]
            for i, t in enumerate(ts):
                sc.point(("join", i), lambda t=t: t.finished)
            # the parent, after every child has finished: a reader-only view, then flush
            proc(len(case["progs"]), case["final"])
            final["files_before"] = sorted(os.listdir(d))
            # a process that only reads and lives on across the flushes: it looks at ids 0..2 now, closes (flush() wants
            # the storage closed everywhere), and must see the new epochs afterwards
            rdr = fork_copy(st)
            rdr.reader_only = True

            def look(g):
                try:
                    return rdr[g]
                except IndexError:
                    return "IndexError"
                except Exception as ex:  # noqa
                    return "raised " + type(ex).__name__
            for g in range(3):
                look(g)
            rdr.close()
            st.flush()
            final["files_after"] = sorted(os.listdir(d))
            final["len_after"] = len(st)
            # the storage is usable again after flush(): two fresh rounds by the parent (in the second one the parent is a
            # process that already was a writer before the flush)
            st.reader_only = False
            again = []
            try:
                for rnd in range(2):
                    st[1] = "one%d" % rnd
                    st[0] = "zero%d" % rnd
                    again.append([len(st), 1 if st.is_contiguous() else 0, st[0], st[1], list(st)])
                    again.append(["survivor", look(0), look(1), look(2)])
                    rdr.close()
                    st.close()
                    st.flush()
                    again.append(sorted(os.listdir(d)))
                    again.append(["survivor", look(0)])
                    rdr.close()
            except Exception as ex:  # noqa
                again.append(["raised", repr(ex)])
            final["again"] = again
        main = sc.run(main_fn)
    finally:
        mod.Manager, mod.multiprocessing = saved[0], saved[1]
        if saved[2] is None:
            del mod.open
        else:
            mod.open = saved[2]
        shutil.rmtree(d, ignore_errors=True)
    exc = None
    if sc.main_exc is not None or any(t.exc is not None for t in sc.threads):
        from harness.core import exc_code
        e0 = sc.main_exc or [t.exc for t in sc.threads if t.exc is not None][0]
        exc = exc_code(e0) if isinstance(e0, Exception) else E["Other"]
    names = {}
    for i, prog in enumerate(case["progs"]):
        names[("p%d" % i) if any(op[0] == 0 for op in prog) else ("r%d" % i)] = i
    names["main"] = len(case["progs"])
    return dict(events=to_events(sc.log_entries, names), outs=[outs.get(i, []) for i in range(len(case["progs"]) + 1)],
                deadlock=sc.deadlock, step_limit=sc.step_limit, exc=exc, main_done=main.finished and sc.main_exc is None,
                final=final, order=op_order(sc.log_entries, names), cand_trace=sc.cand_trace)


def op_order(log, names):
    """(process, op index, 'start'|'end') in log order - used by the oracle for happens-before"""
    out, cnt = [], {}
    for e in log:
        if e[1] in ("opstart", "opend") and e[0] in names:
            p = names[e[0]]
            k = cnt.get((p, e[1]), 0)
            cnt[(p, e[1])] = k + 1
            out.append((p, k, "start" if e[1] == "opstart" else "end"))
    return out


def to_events(log, names):
    """visible operations -> one model event (= the process number) per model step"""
    ev = []
    cur = {}        # process -> [op kind, stage]
    has_wid = set()
    for e in log:
        th, op, a = e[0], e[1], e[2:]
        if th not in names:
            continue
        p = names[th]
        if op == "opstart":
            cur[p] = [a[0], 0]
            continue
        if op == "opend":
            cur.pop(p, None)
            continue
        if p not in cur:
            continue
        kind, st = cur[p]
        if kind == 0:      # write
            if op == "lappend":
                ev.append(p); has_wid.add(p)                 # open(): writer number taken (the acquire / release around it are not steps)
            elif op == "racquire" and a[1] == 1 and st == 0 and p in has_wid:
                ev.append(p); cur[p][1] = 1                  # acquire of __setitem__
            elif op == "lsetitem" and a[0] == "list2" and st == 1:
                ev.append(p); cur[p][1] = 2                  # W1: index[g] := (writer, offset)
            elif op == "wr" and a[0] == "value1" and st == 2:
                ev.append(p); cur[p][1] = 3                  # W2: stored_cnt
            elif op == "wr" and a[0] == "value2" and st == 3:
                ev.append(p); cur[p][1] = "3L"               # W3 with id == waiting_for: waiting_for += 1
            elif op == "wr" and a[0] == "value2" and st == "3L":
                ev.append(p)                                 # one iteration of the loop
            elif op == "fflush" and st in (3, "3L"):
                ev.append(p)                                 # W3 with id != waiting_for / the loop test fails (reads only)
                ev.append(p); cur[p][1] = 5                  # W4: the line is in the file
            elif op == "rrelease" and a[1] == 0 and st in (1, 5):
                ev.append(p); cur[p][1] = 0                  # ValueError path (check + release) or W5
        elif kind == 1:    # read
            if op == "racquire" and a[1] == 1 and st == 0:
                ev.append(p); cur[p][1] = 1
            elif op == "rrelease" and a[1] == 0 and st == 1:
                ev.append(p); cur[p][1] = 2
            elif op == "freadline" and st == 2:
                ev.append(p); cur[p][1] = 3
        elif kind == 2:
            if op == "rd" and a[0] == "value1" and st == 0:
                ev.append(p); cur[p][1] = 1
        elif kind == 3:
            if op == "rd" and a[0] == "value2" and st == 0:
                ev.append(p); cur[p][1] = 1
            elif op == "rd" and a[0] == "value1" and st == 1:
                ev.append(p); cur[p][1] = 2
        elif kind == 4:
            if op == "racquire" and a[1] == 1 and st == 0:
                ev.append(p); cur[p][1] = 1
    return ev


def fix_open_acquires(log, names):
    """not used: kept for documentation of the mapping"""
    return None


def enc(t):
    return list(t.encode("utf-8"))


class P(Prop):
    id = "C14"
    two_phase = True
    case_timeout = 30.0
    quick_n = 500
    thorough_n = 9000
    trusted = ["controlled scheduler; fake Manager list / Value / RLock (atomic operations); processes as threads with a copied storage object",
               "file flush and readline are the scheduling points of file I/O; real files in a scratch directory"]
    assumptions = ["manager-list, Value and RLock operations are atomic; the RLock is fair enough to be acquired when free",
                   "texts are single-line: no \\n and no \\r; file offsets are UTF-8 byte offsets (tell() of a text file without decoder state)",
                   "flush() is called with the storage closed in all processes (as its docstring requires)",
                   "each process opens the storage itself (no writer handle is inherited through fork)"]
    rule = ("One case = optional pre-sized index x 1-3 writer programs and 0-2 reader programs (writes with ids in any order, gaps, duplicates "
            "across and inside processes; reads of stored / not yet stored / never stored ids; len, is_contiguous, iteration) x scheduling "
            "policy and seed, then - after all children finished - a parent that reads every id, len, is_contiguous, iterates, and flushes; the storage is then used again for two epochs, and a reader-only process that looked at the ids before the first flush must see each new epoch (and IndexError after each flush).  Logical processes are fork-faithful copies of the storage object (shared fakes stay shared, plain containers are duplicated).  "
            "VIOLATION when a read returns anything but IndexError or exactly the text stored under that id (IndexError only if the write "
            "had not completed before the read started), a duplicate write does not raise ValueError or changes something, the quiescent "
            "len / is_contiguous / iteration differ from the reference, flush leaves a file or a non-zero len, a process raises or the run "
            "deadlocks.  CORRESPONDENCE: the extracted Coq model accepts the event trace (one event per access to shared state) and "
            "produces the same outputs, index, files and counters.")

    def gen_text(self, rng):
        return "".join(rng.choice(ALPHABET) for _ in range(rng.randint(0, 5)))

    def gen_case(self, rng):
        nw = rng.randint(1, 3)
        nids = rng.randint(1, 7)
        ids = list(range(nids))
        if rng.random() < 0.4:      # gaps
            ids = sorted(rng.sample(range(nids + 3), nids))
        rng.shuffle(ids)
        progs = [[] for _ in range(nw)]
        texts = {}
        for g in ids:
            texts[g] = self.gen_text(rng)
            progs[rng.randrange(nw)].append([0, g, texts[g]])
        if rng.random() < 0.35:     # duplicates
            g = rng.choice(ids)
            progs[rng.randrange(nw)].append([0, g, self.gen_text(rng)])
        for pr in progs:
            for _ in range(rng.randint(0, 2)):
                pr.insert(rng.randrange(len(pr) + 1), self.gen_rop(rng, nids))
        for pr in progs:
            if len(pr) >= 2 and rng.random() < 0.4:
                pr.insert(rng.randrange(1, len(pr)), [5])
        for _ in range(rng.randint(0, 2)):
            progs.append([self.gen_rop(rng, nids) for _ in range(rng.randint(1, 5))])
        maxid = max(ids) + 2
        final = [[2], [3], [4]] + [[1, g] for g in range(maxid)]
        presize = rng.choice([None, None, 0, nids, nids + 2, 2])
        return dict(presize=presize, progs=progs, final=final, seed=rng.randrange(1 << 30), policy=rng.choice(POLICIES))

    def gen_rop(self, rng, nids):
        r = rng.random()
        if r < 0.6:
            return [1, rng.randrange(nids + 2)]
        return [rng.choice([2, 3, 4])]

    def generate(self, rng, tier, n):
        for _ in range(n):
            yield self.gen_case(rng)

    def exhaustive(self, tier):
        base = [dict(presize=None, progs=[[[0, 0, "a"], [0, 1, "b"]], [[1, 0], [1, 1], [1, 0]]]),
                dict(presize=None, progs=[[[0, 1, "x"]], [[0, 0, "y"], [0, 1, "dup"]], [[3], [2], [1, 1]]]),
                dict(presize=4, progs=[[[0, 2, "é€"], [0, 0, ""]], [[4], [1, 2]]]),
                dict(presize=None, progs=[[[0, 3, "q"], [1, 3]], [[0, 0, "w"], [3]]]),
                dict(presize=None, progs=[[[0, 1, "ab"], [5], [0, 0, "c"], [5], [1, 1], [0, 2, "d"]], [[1, 0], [1, 2]]])]
        for b in base:
            mx = 5
            for pol in POLICIES:
                for sd in range(3 if tier == "quick" else 30):
                    yield dict(b, final=[[2], [3], [4]] + [[1, g] for g in range(mx)], seed=sd, policy=pol)
        for b in base:
            for k in range(30 if tier == "quick" else 600):
                yield dict(b, final=[[2], [3], [4]] + [[1, g] for g in range(5)], seed=0, policy="np", pb1=k)
            for k in range(0 if tier == "quick" else 800):
                yield dict(b, final=[[2], [3], [4]] + [[1, g] for g in range(5)], seed=0, policy="np", pb2=k)

    def impl(self, case):
        return S.pb_run(case, run_case)

    def to_model(self, case):
        return self.to_model2(case, None)

    def to_model2(self, case, o):
        evs = o["events"] if isinstance(o, dict) and "events" in o else []

        def mop(op):
            return [0, op[1], enc(op[2])] if op[0] == 0 else list(op)
        progs = [[mop(op) for op in pr if op[0] != 5] for pr in case["progs"]] + [[mop(op) for op in case["final"]]]
        return 1400, [case.get("presize") or 0, progs, evs]

    # ------------------------------------------------------------------ oracle on the implementation's run
    def oracle(self, case, o):
        if o.get("exc") is not None:
            return "a process raised %s" % o["exc"]
        if o["deadlock"] or o["step_limit"] or not o["main_done"]:
            return "deadlock" if o["deadlock"] else "did not finish"
        progs = case["progs"] + [case["final"]]
        # happens-before from the op order
        pos = {}
        for k, (p, i, se) in enumerate(o["order"]):
            pos[(p, i, se)] = k
        writes = {}
        for p, pr in enumerate(progs):
            for i, op in enumerate(pr):
                if op[0] == 0:
                    writes.setdefault(op[1], []).append((p, i, op[2]))
        okw = {}
        for g, ws in writes.items():
            good = [(p, i, t) for (p, i, t) in ws if o["outs"][p][i] == [0]]
            bad = [(p, i, t) for (p, i, t) in ws if o["outs"][p][i] != [0]]
            if len(good) != 1 or any(o["outs"][p][i] != [1] for (p, i, t) in bad):
                return "duplicate write of id %d not handled (results %s)" % (g, [o["outs"][p][i] for (p, i, t) in ws])
            okw[g] = good[0]
        for p, pr in enumerate(progs):
            if len(o["outs"][p]) != len(pr):
                return "process %d did not finish its program" % p
            for i, op in enumerate(pr):
                r = o["outs"][p][i]
                if op[0] == 1:
                    g = op[1]
                    if g not in okw:
                        if r != [2]:
                            return "read of never stored id %d returned %s" % (g, r)
                    else:
                        wp, wi, t = okw[g]
                        if r == [2]:
                            if pos[(wp, wi, "end")] < pos[(p, i, "start")]:
                                return "IndexError for id %d although its write had completed" % g
                        elif r != [3, t]:
                            return "read of id %d returned %r instead of %r" % (g, r, t)
        ref = {g: w[2] for g, w in okw.items()}
        fo = o["outs"][len(case["progs"])]
        n = len(ref)
        if fo[0] != [4, n]:
            return "len() %s, expected %d" % (fo[0], n)
        contig = 1 if sorted(ref) == list(range(n)) else 0
        if fo[1] != [5, contig]:
            return "is_contiguous() %s, expected %d" % (fo[1], contig)
        if fo[2] != [6, [ref[g] for g in sorted(ref)]]:
            return "iteration %s" % (fo[2],)
        f = o["final"]
        if f.get("files_after") or f.get("len_after") != 0:
            return "flush left %s, len %s" % (f.get("files_after"), f.get("len_after"))
        if f.get("again") != [[2, 1, "zero0", "one0", ["zero0", "one0"]], ["survivor", "zero0", "one0", "IndexError"], [], ["survivor", "IndexError"],
                              [2, 1, "zero1", "one1", ["zero1", "one1"]], ["survivor", "zero1", "one1", "IndexError"], [], ["survivor", "IndexError"]]:
            return "after flush the storage did not behave like a new one: %s" % (f.get("again"),)
        return None

    def judge(self, case, m, i):
        if not isinstance(i, dict) or "events" not in i:
            return "violation"
        if self.oracle(case, i) is not None:
            return "violation"
        try:
            def conv(r):
                if r[0] == 3:
                    return [3, enc(r[1])]
                if r[0] == 6:
                    return [6, [enc(t) for t in r[1]]]
                return list(r)
            outs = [[conv(r) for r in po if r != [7]] for po in i["outs"]]
            okk = m[0] == len(i["events"]) and m[1] == outs and m[6] == 1
        except Exception:
            okk = False
        return "ok" if okk else "corr"

    def signature(self, case, i, m):
        if isinstance(i, dict) and "events" in i:
            import re
            msg = self.oracle(case, i) or "correspondence"
            return re.sub(r"('[^']*'|\"[^\"]*\"|\d+|\[.*\])", "_", msg)[:80]      # the kind of failure, not its values
        return "harness"

    def nontrivial(self, case, o):
        return isinstance(o, dict) and len(o.get("events", [])) > 20

    def shrink_candidates(self, case):
        for p in range(len(case["progs"])):
            for k in range(len(case["progs"][p])):
                c = dict(case); pr = [list(x) for x in case["progs"]]; pr[p] = pr[p][:k] + pr[p][k + 1:]; c["progs"] = pr; yield c
        for sd in range(5):
            c = dict(case); c["seed"] = sd; yield c
