"""C04 - see harness/props/poolprops.py."""
from harness.props.poolprops import PoolProp


class P(PoolProp):
    id = "C04"
    focus = "C04"
