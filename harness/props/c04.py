"""C04 - see harness/props/poolprops.py."""
from harness.props.poolprops import PoolProp


class P(PoolProp):
    id = "C04"
    focus = "C04"
    rule = ('As C03 plus until_all_ready actions (also after workers have been replaced) and injected faults: begin() raising in a chosen worker, the functor raising on the n-th item of a chosen worker; also plain FunctorPools whose workers have a quota (nobody is replaced, the history offers at most workers x quota chunks); in some cases the body of the with-statement raises after the history, and some pools are built with a (generous) join_timeout.  Every worker (an instrumented subclass) logs begin / item / end.  VIOLATION when a log has begin not exactly once and first, end not exactly once and last (in finished workers), a worker took more chunks than its quota, until_all_ready returned while some current worker had not completed begin(), a worker is still running after the pool was left, or a fault-free run hangs.')
