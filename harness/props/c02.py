"""C02 - see harness/props/poolprops.py."""
from harness.props.poolprops import PoolProp


class P(PoolProp):
    id = "C02"
    focus = "C02"
    rule = ('Same cases, biased to flow control (small results bound, straggler workers, longer inputs) and to all queue bounds at 1.  VIOLATION when the scheduler finds a state in which no thread or process can move while the main thread has not finished (deadlock, reported with the blocked operation of every thread), or the step limit is hit.  Bounded work queues smaller than the number of workers, with retiring workers, are part of the generated configurations (the exit hang F4\' repaired by ccf59e2 has the signature exit_put_deadlock and its case is in the corpus).')
