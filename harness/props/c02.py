"""C02 - see harness/props/poolprops.py."""
from harness.props.poolprops import PoolProp


class P(PoolProp):
    id = "C02"
    focus = "C02"
    rule = ('Same cases, biased to flow control (small results bound, straggler workers, longer inputs) and to all queue bounds at 1.  VIOLATION when the scheduler finds a state in which no thread or process can move while the main thread has not finished (deadlock, reported with the blocked operation of every thread), or the step limit is hit.  The exit hang of the open known finding (int work queue bound below the number of workers retired at the very end) is recognised by its signature exit_put_deadlock and reported as KNOWN-FINDING; any other hang is a violation.')
