"""C02 - see harness/props/poolprops.py."""
from harness.props.poolprops import PoolProp


class P(PoolProp):
    id = "C02"
    focus = "C02"
