"""Runs the unmodified own_proc_pools code under the controlled scheduler (harness/sched.py), records the visible
operations, maps them to the events of Model/Pool.v and evaluates the property oracles on the run itself."""
import math
import random

from harness import sched as S
from harness.core import Prop, E

EV = dict(StartW=0, Next=1, CallInit=2, Ready=3, Check=4, Get=5, Process=6, Flow=7, StopF=8, JoinF=9, RepPut=10,
          RepJoin=11, ExitPut=12, ExitJoin=13, FPut=14, FWake=15, FClear=16, FTok=17, WBegin=18, WTake=19, WResult=20,
          WRetire=21, WEnd=22, RGet=23, RJoin=24, RStart=25, WFault=26)


def F(x):
    return 2 * x + 1


def run_pool_case(case):
    """case: cfg=[workers, wq, rq, factory, quota] (wq: None | int | ['f', tenths]), hist=[[0, ordered, data, chunk] | [1]],
    seed, policy, faults={'begin': [wid...], 'call': [[wid, nth]...]}"""
    from windpyutils.parallel import own_proc_pools as opp
    rng = random.Random(case["seed"])
    sc = S.Sched(S.make_chooser(case["policy"], rng), max_steps=case.get("max_steps", 6000))
    nworkers, wq, rq, factory, quota = case["cfg"]
    faults = case.get("faults") or {}
    begin_faults = set(faults.get("begin", []))
    call_faults = {(w, n) for w, n in faults.get("call", [])}
    ctx = S.FakeContext(sc)
    lifelog = {}           # wid -> list of "begin"/"item"/"end"
    calls_seen = {}

    class Worker(opp.BaseFunctorWorker):
        @staticmethod
        def _Popen(proc):
            return S.FakePopen(sc, proc, "w%d" % proc.wid)

        def __init__(self):
            super().__init__(ctx, math.inf if quota is None else quota)

        def __call__(self, x):
            n = calls_seen.get(self.wid, 0)
            calls_seen[self.wid] = n + 1
            lifelog.setdefault(self.wid, []).append("item")
            if (self.wid, n) in call_faults:
                raise ValueError("functor fault")
            return F(x)

        def begin(self):
            lifelog.setdefault(self.wid, []).append("begin")
            if self.wid in begin_faults:
                sc.log("begin_raise")
                raise ValueError("begin fault")

        def end(self):
            lifelog.setdefault(self.wid, []).append("end")
            sc.log("end")

    class Factory(opp.FunctorWorkerFactory):
        def create(self):
            return Worker()

    def flag_property(attr, label):
        def getter(self):
            sc.point(("rd", label))
            v = self.__dict__.get(attr)
            sc.log("rd", label, v)
            return v

        def setter(self, v):
            sc.point(("wr", label))
            self.__dict__[attr] = v
            sc.log("wr", label, v)
        return property(getter, setter)

    base = opp.FactoryFunctorPool if factory else opp.FunctorPool
    Pool = type("SchedPool", (base,), {"_sending_work": flag_property("_sw", "sending"),
                                       "_data_cnt": flag_property("_dc", "cnt")})

    # thread control: the module's Thread subclass starts / joins logical threads; its events are fakes
    counters = {"feeder": 0, "replace": 0}
    saved = (opp.CMThread.start, opp.CMThread.join, opp.threading)

    def fake_start(self):
        kind = "replace" if type(self).__name__.startswith("Replace") else "feeder"
        counters[kind] += 1
        name = "%s#%d" % (kind, counters[kind])
        self.stop_event.name, self.run_event.name = name + ".stop", name + ".run"
        sc.point(("start_thread", name))
        sc.log("start_thread", kind)
        self._lt = sc.spawn(name, self.run)
        self._lname = name

    def fake_join(self, timeout=None):
        sc.point(("join_thread", self._lname), lambda: self._lt.finished)
        sc.log("join_thread", self._lname.split("#")[0])

    class ThreadingShim:
        def __getattr__(self, n):
            import threading as real
            return getattr(real, n)

        @staticmethod
        def Event():
            return S.FakeEvent(sc, "tevent")

    results, state = [], {}

    def conv(q):
        if q is None or isinstance(q, int):
            return q
        return float(q[1]) / 10.0

    def main_fn():
        kw = dict(context=ctx, work_queue_maxsize=conv(wq), results_queue_maxsize=conv(rq))
        if case.get("join_timeout"):
            kw["join_timeout"] = case["join_timeout"]
        pool = Pool(nworkers, Factory(), **kw) if factory else Pool([Worker() for _ in range(nworkers)], **kw)
        state["pool"] = pool

        class BodyError(Exception):
            pass
        try:
            with pool:
                for act in case["hist"]:
                    if act[0] == 0:
                        fn = pool.imap if act[1] else pool.imap_unordered
                        results.append(list(fn(iter(list(act[2])), act[3])))
                    else:
                        pool.until_all_ready()
                        state["ready_ok"] = state.get("ready_ok", True) and all(
                            p.begin_finished.flag and "begin" in lifelog.get(p.wid, []) for p in pool.procs)
                        sc.log("ready")
                if case.get("exc"):
                    raise BodyError()          # the pool context is left through an exception of the body
        except BodyError:
            pass

    opp.CMThread.start, opp.CMThread.join, opp.threading = fake_start, fake_join, ThreadingShim()
    try:
        main = sc.run(main_fn)
    finally:
        opp.CMThread.start, opp.CMThread.join, opp.threading = saved
    pool = state.get("pool")
    slots = {}

    events = to_events(sc.log_entries, bool(factory), nworkers)
    left_payload = sum(1 for it in pool._results_queue.items if it is not None) if pool else -1
    left_tokens = sum(1 for it in pool._replace_queue.items if it is None) if (pool and factory) else 0
    exc = None
    if sc.main_exc is not None:
        from harness.core import exc_code
        exc = exc_code(sc.main_exc) if isinstance(sc.main_exc, Exception) else E["Other"]
    chunks = {}
    for e in sc.log_entries:
        if e[0].startswith("w") and e[1] == "get" and e[2] == "work" and e[3] is not None:
            chunks[e[0][1:]] = chunks.get(e[0][1:], 0) + 1
    return dict(ready_ok=state.get("ready_ok", True), chunks=chunks, events=events, results=results, deadlock=sc.deadlock, step_limit=sc.step_limit, exc=exc,
                unfinished=[n for n in sc.unfinished if n != "main"], main_done=main.finished and sc.main_exc is None,
                left_payload=left_payload, left_tokens=left_tokens, lifelog=lifelog, nlog=len(sc.log_entries), cand_trace=sc.cand_trace)


def to_events(log, factory, nworkers):
    """raw visible operations -> events of Model/Pool.v"""
    ev = []
    slot_of = {("w%d" % k): k for k in range(nworkers)}     # thread name -> slot in pool.procs
    pending_proc = False
    pending_take = {}
    last_rd_sending = None
    exit_phase = False
    exit_joined = set()
    rep_join_target = None
    in_call = False

    def flush():
        nonlocal pending_proc
        if pending_proc:
            ev.append([EV["Process"]])
            pending_proc = False
    for e in log:
        th, op = e[0], e[1]
        a = e[2:]
        if th == "main":
            if op == "start_proc":
                ev.append([EV["StartW"]])
            elif op == "start_thread":
                if a[0] == "replace":
                    ev.append([EV["Next"]])
                else:
                    ev.append([EV["CallInit"] if factory else EV["Next"]])
                    in_call = True
            elif op == "ready":
                ev.append([EV["Ready"]])
            elif op == "rd" and a[0] == "sending":
                if a[1]:
                    flush(); ev.append([EV["Check"]])
            elif op == "rd" and a[0] == "cnt":
                flush(); ev.append([EV["Check"]])
            elif op in ("get", "get_nb") and a[0] == "results":
                ev.append([EV["Get"]]); pending_proc = True
            elif op == "clear" and a[0].endswith(".run"):
                flush(); ev.append([EV["Flow"]])
            elif op == "is_set" and a[0].endswith(".run"):
                if a[1]:
                    flush(); ev.append([EV["Flow"]])
            elif op == "set" and a[0].endswith(".run"):
                flush(); ev.append([EV["Flow"]])
            elif op == "set" and a[0].startswith("feeder") and a[0].endswith(".stop"):
                flush(); ev.append([EV["StopF"]])
            elif op == "join_thread":
                ev.append([EV["JoinF"] if a[0] == "feeder" else EV["RepJoin"]])
                if a[0] == "feeder":
                    in_call = False
            elif op == "put" and a[0] == "replace" and a[1] is None:
                ev.append([EV["RepPut"]])
            elif op == "put" and a[0] == "work" and a[1] is None:
                if not exit_phase:
                    exit_phase = True
                    ev.append([EV["Next"]])
                ev.append([EV["ExitPut"]])
            elif op == "join_proc" and exit_phase:
                ev.append([EV["ExitJoin"]]); exit_joined.add(a[0])
            elif op == "poll" and exit_phase and a[1] is not None and a[0] not in exit_joined:
                ev.append([EV["ExitJoin"]]); exit_joined.add(a[0])
        elif th.startswith("feeder"):
            if op == "put" and a[0] == "work":
                ev.append([EV["FPut"]])
            elif op == "wait" and a[0].endswith(".run"):
                ev.append([EV["FWake"]])
            elif op == "wr" and a[0] == "sending" and a[1] is False:
                ev.append([EV["FClear"]])
            elif op in ("put", "put_full") and a[0] == "results":
                ev.append([EV["FTok"]])
        elif th.startswith("replace"):
            if op == "get" and a[0] == "replace":
                ev.append([EV["RGet"]])
                rep_join_target = ("w%d" % a[1]) if a[1] is not None else None
            elif op == "join_proc":
                ev.append([EV["RJoin"]])
            elif op == "start_proc":
                ev.append([EV["RStart"]])
                if rep_join_target in slot_of:          # the new worker takes the slot of the one it replaces
                    slot_of[a[0]] = slot_of[rep_join_target]
        elif th.startswith("w"):
            k = slot_of.get(th, 0)
            if op == "set" and a[0].startswith("event"):
                ev.append([EV["WBegin"], k, 0])
            elif op == "begin_raise":
                ev.append([EV["WBegin"], k, 1])
            elif op == "get" and a[0] == "work":
                ev.append([EV["WTake"], k])
                if a[1] is not None:
                    pending_take[th] = True
            elif op == "put" and a[0] == "results":
                pending_take.pop(th, False)
                ev.append([EV["WResult"], k])
            elif op == "put" and a[0] == "replace":
                ev.append([EV["WRetire"], k])
            elif op == "end":
                if pending_take.pop(th, False):
                    ev.append([EV["WFault"], k])
            elif op == "proc_exit":
                ev.append([EV["WEnd"], k])
    flush()
    return ev


def expected_results(hist):
    return [[F(x) for x in act[2]] for act in hist if act[0] == 0]


def lifecycle_ok(lifelog, quota, chunk_items):
    """begin exactly once and first, end exactly once and last"""
    for wid, l in lifelog.items():
        if l.count("begin") != 1 or l[0] != "begin":
            return False
        if l.count("end") != 1 or l[-1] != "end":
            return False
    return True
