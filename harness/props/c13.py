"""C13 - records: CSV/TSV codec against Model/Csv.v, JSON as assumed codec, record files against Model/LineFile.v."""
import os
import shutil

from harness.core import Prop, attempt, ok, err, E, exc_code
from harness.props import filecommon as fc

STR_ALPHA = ["a", "B", " ", ",", "\t", '"', "'", "é", "€", "😀", ";", "0", "-", "\\", "|", "\x0b", "\x0c", "\x1c"]
HOSTILE = STR_ALPHA + ["\n", "\r", "\x00", "\x1f", " ", "\ud800", "{", "}", "[", "]", ":"]


def gen_field(rng, typ, breaks=False):
    if typ == "int":
        return rng.choice([0, -1, 7, 10 ** 18, -(10 ** 30), rng.randint(-999, 999)])
    if typ == "float":
        return rng.choice([0.0, -0.0, 1.5, 1e-300, 1.7976931348623157e308, 0.1, -2.5e10, rng.random() * 10 ** rng.randint(-5, 5)])
    alpha = STR_ALPHA + (["\n", "\r"] if breaks else [])
    r = rng.random()
    if r < 0.15:
        return ""
    if r < 0.25:
        return " " + "".join(rng.choice(alpha) for _ in range(rng.randint(0, 3))) + " "
    return "".join(rng.choice(alpha) for _ in range(rng.randint(0, 6)))


def make_class(base_name, types, idx):
    import dataclasses
    from windpyutils import files
    base = getattr(files, base_name)
    tmap = {"int": int, "float": float, "str": str, "any": object}
    fields = [("f%d" % k, tmap[t]) for k, t in enumerate(types)]
    return dataclasses.make_dataclass("Rec%s%d" % (base_name, idx), fields, bases=(base,))


def render(v):
    return str(v) if not isinstance(v, float) else repr(v)


class P(Prop):
    id = "C13"
    quick_n = 900
    thorough_n = 9000
    case_timeout = 30.0
    rule = ("three kinds of cases. csv: a sequence of save() calls interleaved over several dynamically created CSV and TSV "
            "record classes (1-4 fields of int/float/str; strings with delimiters, quotes, blanks, non-ASCII, VT / FF / FS control characters, empty) - "
            "compared: the exact saved string, the fields read back from it and from the stored line form, single-line, "
            "load(save(r)) == r.  json: records with hostile strings (control characters, lone surrogates, line/paragraph "
            "separators), ints, floats, bools, None, nested lists/dicts: load(save(r)) == r and single line (codec "
            "assumed, test only).  recfile: record lines in a file read through the 4 readable record classes by "
            "index, slice and iteration, then an edit script on a mutable record class, save, reopen (text and "
            "memory-mapped) - compared with the list model of C12.  non-trivial = a field needs quoting / >= 2 classes "
            "interleaved / >= 2 edits; distinct by canonical case text")
    trusted = ["CPython csv module: writer QUOTE_MINIMAL/doublequote/CRLF and the reader state machine as modelled in Model/Csv.v",
               "json.dumps/json.loads and float repr round-trip (assumed, exercised)",
               "int(str(i)) == i, float(repr(x)) == x"]

    def gen_csv(self, rng, breaks=False):
        ncls = rng.randint(1, 4)
        classes = []
        for k in range(ncls):
            classes.append(dict(base=rng.choice(["CSVRecord", "TSVRecord"]),
                                types=[rng.choice(["int", "float", "str", "str"]) for _ in range(rng.randint(1, 4))]))
        # sometimes two classes with the same delimiter and arity but different field types/order
        if ncls >= 2 and rng.random() < 0.5:
            classes[1] = dict(base=classes[0]["base"], types=list(reversed(classes[0]["types"])))
        calls = []
        for _ in range(rng.randint(1, 12)):
            c = rng.randrange(ncls)
            calls.append([c, [gen_field(rng, t, breaks) for t in classes[c]["types"]]])
        return dict(kind="csv", classes=classes, calls=calls, breaks=1 if breaks else 0)

    def gen_json_value(self, rng, depth=0):
        r = rng.random()
        if depth > 2 or r < 0.5:
            k = rng.random()
            if k < 0.35:
                return "".join(rng.choice(HOSTILE) for _ in range(rng.randint(0, 6)))
            if k < 0.55:
                return gen_field(rng, "int")
            if k < 0.75:
                return gen_field(rng, "float")
            return rng.choice([True, False, None])
        if r < 0.75:
            return [self.gen_json_value(rng, depth + 1) for _ in range(rng.randint(0, 3))]
        return {"".join(rng.choice(HOSTILE) for _ in range(rng.randint(0, 3))): self.gen_json_value(rng, depth + 1)
                for _ in range(rng.randint(0, 3))}

    def generate(self, rng, tier, n):
        for k in range(n):
            r = rng.random()
            if r < 0.45:
                yield self.gen_csv(rng, breaks=rng.random() < 0.1)
            elif r < 0.7:
                nf = rng.randint(1, 4)
                yield dict(kind="json", nfields=nf, rows=[[self.gen_json_value(rng) for _ in range(nf)]
                                                          for _ in range(rng.randint(1, 4))])
            else:
                base = rng.choice(["CSVRecord", "TSVRecord", "JsonRecord"])
                types = [rng.choice(["int", "float", "str"]) for _ in range(rng.randint(1, 3))]
                rows = [[gen_field(rng, t) for t in types] for _ in range(rng.randint(1, 6))]
                ops = []
                n_ = len(rows)
                for _ in range(rng.randint(0, 8)):
                    q = rng.random()
                    row = [gen_field(rng, t) for t in types]
                    pos = rng.randint(-n_ - 1, n_)
                    if q < 0.3:
                        ops.append([0, pos, row])
                    elif q < 0.5:
                        ops.append([2, pos, row]); n_ += 1
                    elif q < 0.7:
                        ops.append([3, row]); n_ += 1
                    elif q < 0.85:
                        ops.append([1, pos])
                    else:
                        ops.append([6, pos])
                yield dict(kind="recfile", base=base, types=types, rows=rows, ops=ops,
                           cls=rng.choice(["MutableRecordFile", "MutableMemoryMappedRecordFile"]),
                           ending=rng.choice(["\n", "\n", "\r\n"]))

    # ------------------------------------------------------------------ model side
    def to_model(self, case):
        if case["kind"] == "csv":
            calls = []
            for c, vals in case["calls"]:
                d = 44 if case["classes"][c]["base"] == "CSVRecord" else 9
                calls.append([d, [fc_s2cp(render(v)) for v in vals]])
            return 1300, calls
        if case["kind"] == "json":
            return 1301, []
        # recfile: the line form of every record is rendered with the standard library; the list behaviour is the C12 model
        lines, ops = self._recfile_lines(case)
        content = []
        for l in lines:
            content += l + [10]
        return 1200, [content, 1, ops, fc.s2b(case["ending"])]

    def _recfile_lines(self, case):
        """line form of every record, rendered with the standard library only (never with code from /repo:
        this runs in the checker's own process)"""
        import csv, io, json

        def line(row):
            if case["base"] == "JsonRecord":
                return fc.s2b(json.dumps({"f%d" % k: v for k, v in enumerate(row)}, separators=(",", ":")))
            buf = io.StringIO()
            csv.writer(buf, delimiter="," if case["base"] == "CSVRecord" else "\t").writerow(row)
            return fc.s2b(buf.getvalue().rstrip("\n"))
        lines = [line(r) for r in case["rows"]]
        ops = []
        for op in case["ops"]:
            if op[0] in (0, 2):
                ops.append([op[0], op[1], line(op[2])])
            elif op[0] == 3:
                ops.append([3, line(op[1])])
            else:
                ops.append(list(op))
        return lines, ops

    def canon(self, case, obs):
        if case["kind"] == "csv" and isinstance(obs, list):
            # model rows have 4 entries; the implementation adds load(save(r)) == r as a fifth
            return [o + [1] if isinstance(o, list) and len(o) == 4 else o for o in obs]
        if case["kind"] == "recfile" and isinstance(obs, list) and len(obs) == 4:
            return obs + [1]
        return obs

    def in_domain(self, case):
        return not case.get("breaks")

    def nontrivial(self, case, obs):
        if case["kind"] == "csv":
            return len(case["classes"]) >= 2 or any(isinstance(v, str) and any(ch in v for ch in ',\t"') for _, vs in case["calls"] for v in vs)
        if case["kind"] == "recfile":
            return len(case["ops"]) >= 2
        return True

    def signature(self, case, i, m):
        return case["kind"]

    def shrink_candidates(self, case):
        key = {"csv": "calls", "json": "rows", "recfile": "ops"}[case["kind"]]
        l = case[key]
        for i in range(len(l)):
            c = dict(case)
            c[key] = l[:i] + l[i + 1:]
            if c[key] or key == "ops":
                yield c

    # ------------------------------------------------------------------ implementation side
    def impl(self, case):
        import csv
        from windpyutils import files
        k = case["kind"]
        if k == "csv":
            classes = [make_class(c["base"], c["types"], j) for j, c in enumerate(case["classes"])]
            out = []
            for c, vals in case["calls"]:
                cls = classes[c]
                r = cls(*vals)
                s = r.save()
                back = attempt(lambda: [fc_s2cp(render(getattr(cls.load(s), "f%d" % j))) for j in range(len(vals))])
                body = s[:-1] if s.endswith("\n") else s
                back2 = attempt(lambda: [fc_s2cp(render(getattr(cls.load(body), "f%d" % j))) for j in range(len(vals))])
                single = 1 if ("\n" not in body and "\r" not in body[:-1] and body.endswith("\r")) else 0
                eq = 1 if cls.load(s) == r else 0
                out.append([fc_s2cp(s), back, back2, single, eq])
            return out
        if k == "json":
            cls = make_class("JsonRecord", ["any"] * case["nfields"], 0)
            okk, single = 1, 1
            for row in case["rows"]:
                r = cls(*row)
                s = r.save()
                if "\n" in s or "\r" in s:
                    single = 0
                if not (cls.load(s) == r):
                    okk = 0
            return [okk, single]
        # recfile
        cls = make_class(case["base"], case["types"], 0)
        d = fc.scratch_dir()
        try:
            path = os.path.join(d, "recs.txt")
            rows = [cls(*r) for r in case["rows"]]
            with open(path, "w", newline="") as f:
                for r in rows:
                    f.write(r.save().rstrip("\n") + "\n")
            raw = open(path, "rb").read()
            enc = lambda r: fc.s2b(r.save().rstrip("\n"))
            readers_ok = 1
            for rc in ("RecordFile", "MemoryMappedRecordFile", "MutableRecordFile", "MutableMemoryMappedRecordFile"):
                with getattr(files, rc)(path, cls) as g:
                    got = [g[i] for i in range(len(g))]
                    if got != rows or list(g) != rows or g[::-1] != rows[::-1] or g[-1] != rows[-1]:
                        readers_ok = 0
            tr = []
            with getattr(files, case["cls"])(path, cls) as fobj:
                for op in case["ops"]:
                    c = op[0]

                    def run():
                        if c == 0:
                            fobj[op[1]] = cls(*op[2]); return []
                        if c == 1:
                            del fobj[op[1]]; return []
                        if c == 2:
                            fobj.insert(op[1], cls(*op[2])); return []
                        if c == 3:
                            fobj.append(cls(*op[1])); return []
                        return enc(fobj.pop(op[1]))
                    tr.append(attempt(run))
                view = [enc(x) for x in fobj]
                out = os.path.join(d, "saved.txt")
                fobj.save(out, line_ending=case["ending"])
            saved = open(out, "rb").read()
            with files.RecordFile(out, cls) as g1:
                a = list(g1)
            if saved:
                with files.MemoryMappedRecordFile(out, cls) as g2:
                    b = list(g2)
            else:
                b = a
            reopened_ok = 1 if [enc(x) for x in a] == view and a == b else 0
            with files.RandomLineAccessFile(out) as g:
                reopened_lines = [fc.s2b(x) for x in g]
            same = 1 if open(path, "rb").read() == raw else 0
            return [tr, view, list(saved), reopened_lines, 1 if (same and readers_ok and reopened_ok) else 0]
        finally:
            shutil.rmtree(d, ignore_errors=True)


def fc_s2cp(s):
    return [ord(c) for c in s]
