"""C15 - Buffer / PrintBuffer / CircularBuffer against Model/Buffers.v."""
import io
import itertools

from harness.core import Prop, attempt, ok, err, E


class P(Prop):
    id = "C15"
    quick_n = 3000
    thorough_n = 40000
    rule = ("cases: op lists for Buffer (call/drain/flush), PrintBuffer (print/flush/clear) and CircularBuffer "
            "(capacity, put/clear); exhaustive = every permutation of 0..n-1 x every drain mask (n<=4 quick, n<=6 "
            "thorough) and every ring op list up to length 6 over capacities 1..4; random = longer feeds with "
            "duplicates, stale serials, flushes. non-trivial = at least one item was held back out of order "
            "(buffers) or the ring wrapped; distinct by canonical case text")
    trusted = ["Python dict modelled as insertion-ordered association list", "print() modelled as append to an output list"]

    # ------------------------------------------------------------------ generation
    def exhaustive(self, tier):
        nmax = 4 if tier == "quick" else 6
        for n in range(0, nmax + 1):
            for perm in itertools.permutations(range(n)):
                masks = range(1 << n) if n <= 4 else (0, (1 << n) - 1, 0b010101 & ((1 << n) - 1), 0b101010 & ((1 << n) - 1))
                for mask in masks:
                    ops = []
                    for k, i in enumerate(perm):
                        ops.append([0, i, 100 + i])
                        if mask >> k & 1:
                            ops.append([1])
                    ops.append([1])
                    yield dict(kind="buffer", ops=ops)
                yield dict(kind="print", ops=[[0, i, 100 + i] for i in perm])
        lmax = 5 if tier == "quick" else 7
        for c in range(1, 4 if tier == "quick" else 5):
            for l in range(0, lmax + 1):
                for mask in range(1 << l):
                    if bin(mask).count("1") > 1:
                        continue  # at most one clear
                    ops = [[1] if mask >> k & 1 else [0, 10 + k] for k in range(l)]
                    yield dict(kind="ring", cap=c, ops=ops)

    def generate(self, rng, tier, n):
        for _ in range(n):
            r = rng.random()
            if r < 0.4:
                yield self.gen_buffer(rng)
            elif r < 0.75:
                yield self.gen_print(rng)
            else:
                c = rng.randint(1, 9)
                ops = [[1] if rng.random() < 0.08 else [0, rng.randint(-50, 50)] for _ in range(rng.randint(0, 40))]
                yield dict(kind="ring", cap=c, ops=ops)

    def gen_buffer(self, rng):
        n = rng.randint(0, 14)
        perm = list(range(n))
        rng.shuffle(perm)
        ops = []
        messy = rng.random() < 0.3
        for i in perm:
            ops.append([0, i, rng.choice([0, 0, rng.randint(-9, 99)])])
            if rng.random() < 0.3:
                ops.append([1])
            if messy and rng.random() < 0.2:
                ops.append([0, rng.randint(-2, n + 2), rng.randint(0, 9)])
            if messy and rng.random() < 0.05:
                ops.append([2])
        ops.append([1])
        return dict(kind="buffer", ops=ops)

    def gen_print(self, rng):
        n = rng.randint(0, 14)
        perm = list(range(n))
        rng.shuffle(perm)
        ops = []
        messy = rng.random() < 0.4
        for i in perm:
            ops.append([0, i, rng.choice([0, 0, rng.randint(-9, 99)])])
            if messy and rng.random() < 0.15:
                ops.append([0, rng.randint(-2, n + 2), rng.randint(0, 9)])
            if messy and rng.random() < 0.1:
                ops.append([1])
            if messy and rng.random() < 0.05:
                ops.append([2])
        return dict(kind="print", ops=ops)

    # ------------------------------------------------------------------ model side
    def to_model(self, case):
        k = case["kind"]
        if k == "buffer":
            return 1500, case["ops"]
        if k == "print":
            return 1501, case["ops"]
        return 1502, [case["cap"], case["ops"]]

    def in_domain(self, case):
        if case["kind"] != "print":
            return True
        # PrintBuffer: serials that are repeated or already printed are outside what the class documents
        wait, held, seen = 0, set(), set()
        for op in case["ops"]:
            if op[0] == 0:
                sn = op[1]
                if sn < wait or sn in held:
                    return False
                if sn == wait:
                    wait += 1
                    while wait in held:
                        held.discard(wait)
                        wait += 1
                else:
                    held.add(sn)
            elif op[0] == 1:
                if held:
                    wait = max(held) + 1
                held = set()
            else:
                wait, held = 0, set()
        return True

    def nontrivial(self, case, obs):
        if case["kind"] == "ring":
            return sum(1 for o in case["ops"] if o[0] == 0) > case["cap"]
        serials = [o[1] for o in case["ops"] if o[0] == 0]
        return any(a > b for a, b in zip(serials, serials[1:]))

    def signature(self, case, i, m):
        return case["kind"]

    # ------------------------------------------------------------------ implementation side
    def impl(self, case):
        k = case["kind"]
        if k == "buffer":
            from windpyutils.buffers import Buffer
            b = Buffer()
            tr = []
            for op in case["ops"]:
                if op[0] == 0:
                    r = attempt(lambda: (b(op[1], op[2]), [])[1])
                elif op[0] == 1:
                    r = attempt(lambda: list(b))
                else:
                    r = attempt(lambda: (b.flush(), [])[1])
                tr.append([r, len(b), b.waiting_for()])
            return tr
        if k == "print":
            from windpyutils.buffers import PrintBuffer
            out = io.StringIO()
            b = PrintBuffer(out)
            tr = []
            for op in case["ops"]:
                out.seek(0)
                out.truncate(0)
                if op[0] == 0:
                    # payload 0 is sent as the empty string (a falsy value must still be printed once)
                    ret = b.print(op[1], "" if op[2] == 0 else str(op[2]))
                elif op[0] == 1:
                    ret = b.flush()
                else:
                    ret = b.clear()
                lines = out.getvalue().split("\n")[:-1]
                printed = [int(x) if x else 0 for x in lines]
                tr.append([printed, 1 if ret is True else 0, len(b), b.waiting_for])
            return tr
        from windpyutils.structures.circular_buffer import CircularBuffer
        b = CircularBuffer(case["cap"])
        tr = []

        def get(i):
            try:
                return [b[i]]
            except IndexError:
                return []
        for op in case["ops"]:
            if op[0] == 0:
                b.put(op[1])
            else:
                b.clear()
            n = len(b)
            tr.append([n, list(b), get(-1), get(n), get(n + 1)])
        return tr
