"""C10 - SpanSet against Model/Spans.v."""
import itertools

from harness.core import Prop

RELS = ["SpanSetExactEqRelation", "SpanSetPartOfEqRelation", "SpanSetIncludesEqRelation", "SpanSetOverlapsEqRelation"]


def all_spans(hi):
    return [[a, b] for a in range(hi + 1) for b in range(hi + 1)]


class P(Prop):
    id = "C10"
    quick_n = 3000
    thorough_n = 30000
    rule = ("a case = two span sets (relation, construction path, span list) and probe spans; observed: list(A), "
            "list(B), A&B, A|B, A-B, A^B (as sorted lists - the property is about membership, not order), the nine "
            "comparison results, membership of every probe.  thorough enumerates every pair of span lists of length "
            "<=2 over endpoints 0..2 (inverted spans included) x 16 relation pairs; quick samples that universe and "
            "adds random larger sets over endpoints 0..6 (some built with one relation, queried, then copy() with the relation attribute reassigned).  non-trivial = some constructor dropped a span or some "
            "operator result is non-empty; distinct by canonical case text")
    trusted = ["span coordinates are ints on both sides (Python's int/float comparison is exact)"]

    def small_universe(self):
        sp = all_spans(2)
        lists = [[]] + [[x] for x in sp] + [[x, y] for x in sp for y in sp]
        return lists

    def exhaustive(self, tier):
        if tier != "thorough":
            return
        lists = self.small_universe()
        probes = all_spans(2)
        for ra in range(4):
            for rb in range(4):
                for la in lists:
                    for lb in lists:
                        yield dict(a=[ra, 0, la], b=[rb, 0, lb], probes=probes, path=(len(la) + len(lb)) % 2)

    def generate(self, rng, tier, n):
        lists = self.small_universe()
        for k in range(n):
            if k % 2 == 0:
                yield dict(a=[rng.randrange(4), 0, rng.choice(lists)], b=[rng.randrange(4), 0, rng.choice(lists)],
                           probes=all_spans(2), path=rng.randrange(2))
            else:
                hi = rng.randint(2, 6)

                def mk():
                    l = []
                    for _ in range(rng.randint(0, 6)):
                        a, b = rng.randint(0, hi), rng.randint(0, hi)
                        if rng.random() < 0.85 and a > b:
                            a, b = b, a
                        l.append([a, b])
                    if l and rng.random() < 0.3:
                        l.append(list(rng.choice(l)))
                    spec = [rng.randrange(4), 1 if rng.random() < 0.15 else 0, l]
                    if rng.random() < 0.25:
                        spec.append(rng.randrange(4))   # built with another relation, then copy() + eq_relation reassigned
                    return spec
                yield dict(a=mk(), b=mk(), probes=[[rng.randint(0, hi), rng.randint(0, hi)] for _ in range(8)],
                           path=rng.randrange(2))

    def to_model(self, case):
        return 1000, [case["a"], case["b"], case["probes"]]

    def canon(self, case, obs):
        if isinstance(obs, list) and len(obs) == 9:
            o = list(obs)
            for k in (2, 3, 4, 5):
                o[k] = sorted(o[k])
            return o
        return obs

    def nontrivial(self, case, obs):
        try:
            return len(obs[0]) < len(case["a"][2]) or len(obs[1]) < len(case["b"][2]) or any(obs[k] for k in (2, 4, 5))
        except Exception:
            return False

    def signature(self, case, i, m):
        try:
            diff = [k for k in range(9) if i[k] != m[k]]
            return "obs%s" % diff[0]
        except Exception:
            return "other"

    def shrink_candidates(self, case):
        for side in ("a", "b"):
            l = case[side][2]
            for i in range(len(l)):
                c = dict(case)
                c[side] = case[side][:2] + [l[:i] + l[i + 1:]] + case[side][3:]
                yield c
        if len(case["probes"]) > 1:
            c = dict(case)
            c["probes"] = case["probes"][:len(case["probes"]) // 2]
            yield c

    def impl(self, case):
        from windpyutils.structures import span_set as ss

        def mk(spec, path):
            if len(spec) == 4:
                base = mk([spec[3], spec[1], spec[2]], path)
                for p in case["probes"]:
                    tuple(p) in base
                for x in list(base):
                    x in base
                s = base.copy()
                s.eq_relation = getattr(ss, RELS[spec[0]])()
                return s
            r, nc, l = spec
            relation = getattr(ss, RELS[r])()
            if nc:
                return ss.SpanSet([x[0] for x in l], [x[1] for x in l], force_no_dup_check=True, eq_relation=relation)
            if path == 0:
                return ss.SpanSet([x[0] for x in l], [x[1] for x in l], eq_relation=relation)
            return ss.SpanSet(((x[0], x[1]) for x in l), eq_relation=relation)
        a, b = mk(case["a"], case["path"]), mk(case["b"], 1 - case["path"])
        sp = lambda s: [list(x) for x in s]
        B = lambda x: 1 if x else 0
        return [sp(a), sp(b), sp(a & b), sp(a | b), sp(a - b), sp(a ^ b),
                [B(a <= b), B(a < b), B(a == b), B(a != b), B(a >= b), B(a > b), B(a.isdisjoint(b)),
                 B(a.issubset(b)), B(a.issuperset(b))],
                [B(tuple(p) in a) for p in case["probes"]], [B(tuple(p) in b) for p in case["probes"]]]
