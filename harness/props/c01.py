"""C01 - see harness/props/poolprops.py."""
from harness.props.poolprops import PoolProp


class P(PoolProp):
    id = "C01"
    focus = "C01"
    rule = ('One case = configuration (1-3 workers, work/results queue bounds None/int/float, plain or factory pool, quota) x history of calls x scheduling policy and seed.  The unmodified FunctorPool / FactoryFunctorPool runs under the controlled scheduler; VIOLATION when a fully consumed imap does not return exactly [f(x) for x in data] in order, imap_unordered does not return the same multiset with every chunk as a contiguous block, the consumer raises, or a completed run misses a call.  CORRESPONDENCE: the extracted Coq model must accept the whole recorded event trace and end with the same results, main program counter, no payload left in the results queue.')
