"""C01 - see harness/props/poolprops.py."""
from harness.props.poolprops import PoolProp


class P(PoolProp):
    id = "C01"
    focus = "C01"
