"""C11 - line files, read side, against Model/LineFile.v."""
import itertools
import os
import shutil

from harness.core import Prop, attempt, ok, err, E, exc_code
from harness.props import filecommon as fc


def line_starts(b):
    out, st = [], 0
    for i, x in enumerate(b):
        if x == 10:
            out.append(st)
            st = i + 1
    if st < len(b):
        out.append(st)
    return out


class P(Prop):
    id = "C11"
    quick_n = 1200
    thorough_n = 12000
    case_timeout = 20.0
    rule = ("a case = file content (alphabet incl. 2/3/4-byte UTF-8, carriage returns, empty lines, lines of 9000+ "
            "chars, with/without final newline, CRLF files, the empty file), one of the 8 "
            "readable classes (text / memory-mapped x plain / record x immutable / mutable-but-unmodified), an index "
            "source (built, list, index file, subset, permutation) and a script of accesses: f[i] for positive and "
            "negative i, index iterables (as list, tuple or one-shot iterator), slices, len, list(f), several stepped iterators interleaved with random "
            "accesses, close/open.  Every result is compared.  non-trivial = the script interleaves an iterator with "
            "another access or the index is custom; distinct by canonical case text")
    trusted = ["text I/O: seek(offset) then readline() returns the decoded bytes from offset to the next '\\n' (newline='\\n')",
               "byte 10 occurs in no multi-byte UTF-8 sequence"]

    def gen_script(self, rng, nlines, nops):
        ops, iters = [], 0
        for _ in range(nops):
            r = rng.random()
            if r < 0.3:
                ops.append([0, rng.randint(-nlines - 1, nlines)])
            elif r < 0.4:
                ops.append([1, [rng.randint(-nlines, max(0, nlines - 1)) for _ in range(rng.randint(0, 4))] if nlines
                            else []])
            elif r < 0.52:
                a = rng.randint(-nlines - 2, nlines + 2)
                b = rng.randint(-nlines - 2, nlines + 2)
                ops.append([2, rng.randint(0, 1), a, rng.randint(0, 1), b, rng.choice([1, 1, 2, -1, -2, 3])])
            elif r < 0.6:
                ops.append([3]); iters += 1
            elif r < 0.85 and iters:
                ops.append([4, rng.randrange(iters)])
            elif r < 0.9:
                ops.append([5])
            elif r < 0.92:
                ops.append([6])
            elif r < 0.95:
                ops.append([7])
            else:
                ops.append([8])
        return ops

    def generate(self, rng, tier, n):
        for k in range(n):
            content = fc.gen_content(rng)
            cls = rng.choice(fc.READ_CLASSES)
            b = content.encode("utf-8")
            starts = line_starts(b)
            src = rng.choice(["built", "built", "list", "file", "subset", "perm"])
            index = None
            if src in ("list", "file"):
                index = list(starts)
            elif src == "subset":
                index = [s for s in starts if rng.random() < 0.6]
            elif src == "perm":
                index = list(starts); rng.shuffle(index)
            nl = len(index) if index is not None else len(starts)
            yield dict(content=list(b), cls=cls, src=src, index=index, ops=self.gen_script(rng, nl, rng.randint(1, 30)))

    def exhaustive(self, tier):
        # every class x a fixed set of tricky contents x full read-out by index, negative index, iteration
        contents = ["", "a", "a\n", "a\nb", "\n", "\n\n", "a\r\nb\r\n", "a\rb\nc", "é€😀\n€\n\n😀", "x\n" * 3,
                    ("q" * 9100 + "\n") * 2 + "tail"]
        for c in contents:
            b = c.encode("utf-8")
            n = len(line_starts(b))
            for cls in fc.READ_CLASSES:
                ops = [[5], [8]] + [[0, i] for i in range(-n - 1, n + 1)] + [[3], [3]]
                for j in range(n + 1):
                    ops += [[4, 0], [0, (j * 7) % max(1, n)] if n else [5], [4, 1]]
                ops += [[2, 0, 0, 0, 0, 1], [2, 1, 1, 0, 0, 2], [2, 0, 0, 0, 0, -1], [1, list(range(n))[::-1]]]
                yield dict(content=list(b), cls=cls, src="built", index=None, ops=ops)

    def to_model(self, case):
        return 1100, [case["content"], 1 if case["index"] is not None else 0, case["index"] or [], case["ops"]]

    def in_domain(self, case):
        # resuming a suspended iteration after close() is outside the property (the model still tracks it)
        ops = case["ops"]
        closed_at = [k for k, o in enumerate(ops) if o[0] == 6]
        return not (closed_at and any(o[0] == 4 for o in ops[closed_at[0]:]))

    def nontrivial(self, case, obs):
        ops = case["ops"]
        inter = any(a[0] == 4 and b[0] != 4 for a, b in zip(ops, ops[1:]))
        return inter or case["index"] is not None

    def signature(self, case, i, m):
        return "read"

    def shrink_candidates(self, case):
        yield from Prop.shrink_candidates(self, case)

    def impl(self, case):
        from windpyutils import files
        RawRecord = fc.raw_record_class()
        d = fc.scratch_dir()
        try:
            path = os.path.join(d, "data.txt")
            with open(path, "wb") as f:
                f.write(bytes(case["content"]))
            index = case["index"]
            if case["src"] == "file":
                ipath = os.path.join(d, "data.index")
                with open(ipath, "w") as f:
                    for o in index:
                        print(o, file=f)
                index = ipath
            fobj = fc.make_file(files, case["cls"], path, index, RawRecord)
            fobj.open()
            enc = lambda x: fc.s2b(fc.unwrap(x, RawRecord))
            iters = []
            out = []
            try:
                for op in case["ops"]:
                    c = op[0]
                    if c == 0:
                        r = attempt(lambda: enc(fobj[op[1]]))
                    elif c == 1:
                        # the selector is an iterable: a list, a tuple or a one-shot iterator, chosen by the indices themselves
                        form = (sum(op[1]) + len(op[1])) % 3
                        sel = list(op[1]) if form == 0 else tuple(op[1]) if form == 1 else iter(list(op[1]))
                        r = attempt(lambda: [enc(x) for x in fobj[sel]])
                    elif c == 2:
                        sl = slice(op[2] if op[1] else None, op[4] if op[3] else None, op[5])
                        r = attempt(lambda: [enc(x) for x in fobj[sl]])
                    elif c == 3:
                        iters.append(iter(fobj)); r = len(iters) - 1
                    elif c == 4:
                        try:
                            r = ok(enc(next(iters[op[1]])))
                        except StopIteration:
                            r = err(E["StopIteration"])
                        except Exception as e:
                            r = err(exc_code(e))
                    elif c == 5:
                        r = len(fobj)
                    elif c == 6:
                        fobj.close(); r = ok([])
                    elif c == 7:
                        fobj.open(); r = ok([])
                    else:
                        r = attempt(lambda: [enc(x) for x in fobj])
                    out.append(r)
                n0 = len(fobj)
            finally:
                fobj.close()
            return [n0, out]
        finally:
            shutil.rmtree(d, ignore_errors=True)
