"""C05: FunctorMap (parallel/pools.py) and mul_p_map (parallel/maps.py + workers.py) under the controlled scheduler;
trace acceptance by Model/FMap.v.  The unmodified code runs on fake queues (module-level names rebound inside the
sandboxed child) and with worker processes as logical threads."""
import queue
import random

from harness import sched as S
from harness.core import Prop, E
from harness.props.poolprops import optn

EV = dict(Start=0, Next=1, Put=2, Try=3, Empty=4, Get=5, End=6, Nonee=7, Join=8, WTake=9, WRes=10, WExit=11)
POLICIES = ["random", "random", "first:main", "last:main", "first:c", "last:c", "last:w0", "last:w1", "first:w1"]


def F(x):
    return 2 * x + 1


class FlakyQueue(S.FakeQueue):
    """a non-blocking get may report Empty although an item is there (multiprocessing.Queue's feeder thread)"""
    def __init__(self, sched, name, maxsize, rng, p):
        super().__init__(sched, name, maxsize)
        self.rng, self.p = rng, p

    def get(self, block=True, timeout=None):
        if not block and self.items and self.rng.random() < self.p:
            self.s.point(("get_nowait", self.name))
            self.s.log("get_empty", self.name)
            raise queue.Empty
        return super().get(block, timeout)


def run_case(case):
    """case: kind 'map' | 'mul', workers, cap (mul: capacity of the class-level work queue), hist [[data, chunk]...],
    seed, policy, flaky (probability of a spurious Empty)"""
    rng = random.Random(case["seed"])
    sc = S.Sched(S.make_chooser(case["policy"], rng), max_steps=case.get("max_steps", 8000))
    kind, W = case["kind"], case["workers"]
    qrng = random.Random(case["seed"] + 7)
    results, state = [], {"call": 0, "k": 0}

    def fake_start(self):
        name = "c%dw%d" % (state["call"], state["k"])
        state["k"] += 1
        self._lname = name

        def body():
            self.run()
            # a process that has put items on a multiprocessing.Queue cannot exit before its feeder thread has flushed them
            # into the pipe, whose capacity is bounded: modelled as "not more than `pipe` results waiting to be read"
            pipe = case.get("pipe")
            sc.point(("exit", name), (lambda: True) if pipe is None else (lambda: len(state["resq"].items) <= pipe))
            sc.log("proc_exit", name)
        sc.point(("start_proc", name))
        self._lt = sc.spawn(name, body)
        sc.log("start_proc", name)

    def fake_join(self, timeout=None):
        sc.point(("join_proc", self._lname), lambda: self._lt.finished)
        sc.log("join_proc", self._lname)

    if kind == "map":
        from windpyutils.parallel import pools as mod
        names = ["work", "results"]
        saved = (mod.Queue, mod.FunctorWorker.__dict__.get("start"), mod.FunctorWorker.__dict__.get("join"))
        def mkq(maxsize=0):
            q = FlakyQueue(sc, names.pop(0), maxsize, qrng, case.get("flaky", 0.0))
            if q.name == "results":
                state["resq"] = q
            return q
        mod.Queue = mkq
        mod.FunctorWorker.start, mod.FunctorWorker.join = fake_start, fake_join

        def main_fn():
            with mod.FunctorMap(F, W) as m:
                for d, c in case["hist"]:
                    state["call"] += 1
                    sc.log("call_begin")
                    results.append(list(m(iter(list(d)), c)))
                    sc.log("call_done")
                sc.log("exit")
    else:
        from windpyutils.parallel import maps as mod
        from windpyutils.parallel import workers as wmod
        saved = (wmod.FunRunner.WORK_QUEUE, wmod.FunRunner.RESULTS_QUEUE, wmod.FunRunner.__dict__.get("start"),
                 wmod.FunRunner.__dict__.get("join"))
        wmod.FunRunner.WORK_QUEUE = FlakyQueue(sc, "work", case["cap"], qrng, 0.0)
        wmod.FunRunner.RESULTS_QUEUE = state["resq"] = FlakyQueue(sc, "results", 0, qrng, case.get("flaky", 0.0))
        wmod.FunRunner.start, wmod.FunRunner.join = fake_start, fake_join

        def main_fn():
            for d, c in case["hist"]:
                state["call"] += 1
                state["k"] = 0
                sc.log("call_begin")
                results.append(mod.mul_p_map(F, iter(list(d)), W))
                sc.log("call_done")
            sc.log("exit")
    main = sc.run(main_fn)
    exc = None
    if sc.main_exc is not None:
        from harness.core import exc_code
        exc = exc_code(sc.main_exc) if isinstance(sc.main_exc, Exception) else E["Other"]
    return dict(events=to_events(sc.log_entries, kind), results=results, deadlock=sc.deadlock, step_limit=sc.step_limit,
                exc=exc, main_done=main.finished and sc.main_exc is None,
                unfinished=[n for n in sc.unfinished if n != "main"], cand_trace=sc.cand_trace)


def to_events(log, kind):
    ev = []
    nones_seen = False
    for e in log:
        th, op, a = e[0], e[1], e[2:]
        if th == "main":
            if op == "start_proc":
                ev.append([EV["Start"]])
            elif op == "call_begin":
                ev.append([EV["Next"]]); nones_seen = False
            elif op == "exit":
                ev.append([EV["Next"]])
            elif op == "put" and a[0] == "work":
                if a[1] is None:
                    ev.append([EV["Nonee"]]); nones_seen = True
                else:
                    ev.append([EV["Put"]])
            elif op == "get_nb" and a[0] == "results":
                ev.append([EV["Try"]])
            elif op == "get_empty" and a[0] == "results":
                ev.append([EV["Empty"]])
            elif op == "get" and a[0] == "results":
                ev.append([EV["Get"]])
            elif op == "call_done" and kind == "map":
                ev.append([EV["End"]])
            elif op == "join_proc":
                if kind == "mul" and nones_seen:
                    ev.append([EV["End"]]); nones_seen = False
                ev.append([EV["Join"]])
        elif th.startswith("c"):
            k = int(th.split("w")[1])
            if op == "get" and a[0] == "work":
                ev.append([EV["WTake"], k])
            elif op == "put" and a[0] == "results":
                ev.append([EV["WRes"], k])
            elif op == "proc_exit":
                ev.append([EV["WExit"], k])
    return ev


class P(Prop):
    id = "C05"
    two_phase = True
    case_timeout = 30.0
    quick_n = 700
    thorough_n = 12000
    trusted = ["controlled scheduler + fake queues (harness/sched.py): queue operations atomic, FIFO; a process as a thread",
               "module-level rebinding of Queue / FunRunner queues / Process.start, join inside the sandboxed child"]
    assumptions = ["a worker process cannot exit while more than `pipe` results are waiting to be read (bounded pipe behind multiprocessing.Queue; one shared bound, not one per process): the same condition guards the exit event of the Coq model (m_pipe) and the exit point of the logical process in the scheduler",
                   "multiprocessing.Queue is FIFO per producer and the work queue is bounded as constructed; a non-blocking get may miss an item in transit (modelled, exercised by the 'flaky' cases)",
                   "the mapped function returns normally",
                   "worker processes share nothing with the parent but the two queues"]
    rule = ("One case = kind (FunctorMap / mul_p_map) x workers 1-3 x capacity of the work queue x history of calls (inputs of length 0-8 incl. "
            "shorter than the worker count, chunk sizes 1-3) x scheduling policy and seed x probability of spurious Empty.  VIOLATION when a "
            "call does not return exactly [f(x) for x in data] in order, the run deadlocks (no enabled thread) or the main thread raises.  "
            "CORRESPONDENCE: the extracted Coq model accepts the whole event trace and ends in MmDone with the same results, empty queues and "
            "all worker processes exited (the exit of a process is an event of its own, enabled only while the pipe bound allows it).")

    def gen_case(self, rng):
        kind = "map" if rng.random() < 0.6 else "mul"
        W = rng.randint(1, 3)
        ncalls = rng.randint(1, 3)
        hist = []
        for _ in range(ncalls):
            d = [rng.randint(0, 9) for _ in range(rng.choice([0, 1, 2, 3, 4, 5, 6, 8]))]
            hist.append([d, rng.randint(1, 3) if kind == "map" else 1])
        return dict(kind=kind, workers=W, cap=(W if kind == "map" else rng.choice([1, 2, 4])), hist=hist,
                    seed=rng.randrange(1 << 30), policy=rng.choice(POLICIES), flaky=rng.choice([0.0, 0.0, 0.3, 0.7]),
                    pipe=rng.choice([None, None, 0, 1, 3]))

    def generate(self, rng, tier, n):
        for _ in range(n):
            yield self.gen_case(rng)

    def exhaustive(self, tier):
        base = [dict(kind="map", workers=2, cap=2, hist=[[[1, 2, 3], 1]]),
                dict(kind="map", workers=1, cap=1, hist=[[[4, 5, 6, 7], 2], [[], 1], [[9], 3]]),
                dict(kind="map", workers=3, cap=3, hist=[[[1, 2], 1], [[3, 4, 5, 6, 7], 2]]),
                dict(kind="mul", workers=2, cap=1, hist=[[[1, 2, 3], 1]]),
                dict(kind="mul", workers=3, cap=2, hist=[[[5], 1], [[], 1], [[6, 7, 8, 9], 1]])]
        for b in base:
            for pol in POLICIES:
                for sd in range(2 if tier == "quick" else 20):
                    yield dict(b, seed=sd, policy=pol, flaky=[0.0, 0.5][sd % 2], pipe=[None, 0][(sd // 2) % 2])
        for b in base[:4]:
            for k in range(30 if tier == "quick" else 500):
                yield dict(b, seed=0, policy="np", flaky=0.0, pipe=None, pb1=k)
            for k in range(0 if tier == "quick" else 800):
                yield dict(b, seed=0, policy="np", flaky=0.0, pipe=None, pb2=k)

    def impl(self, case):
        return S.pb_run(case, run_case)

    def to_model(self, case):
        return self.to_model2(case, None)

    def to_model2(self, case, o):
        evs = o["events"] if isinstance(o, dict) and "events" in o else []
        cfg = [case["workers"], optn(case["cap"]), 1 if case["kind"] == "map" else 0, optn(case.get("pipe"))]
        return 500, [cfg, [[d, c] for d, c in case["hist"]], evs]

    def expected(self, case):
        return [[F(x) for x in d] for d, c in case["hist"]]

    def terminated(self, o):
        return o["main_done"] and not o["deadlock"] and not o["step_limit"]

    def oracle(self, case, o):
        if o.get("exc") is not None:
            return "main raised %s" % o["exc"]
        exp = self.expected(case)
        if o["results"] != exp[:len(o["results"])]:
            return "wrong results"
        if not self.terminated(o):
            if o["step_limit"]:
                return "step limit"
            d = o["deadlock"] or []
            main = [lab for n, lab in d if n == "main"]
            return "deadlock: main at %s" % (list(main[0]) if main else "?")
        if len(o["results"]) != len(exp):
            return "missing call"
        if o["unfinished"]:
            return "workers still running: %s" % o["unfinished"]
        return None

    def judge(self, case, m, i):
        if not isinstance(i, dict) or "events" not in i:
            return "violation"
        if self.oracle(case, i) is not None:
            return "violation"
        try:
            inv = [[(y - 1) // 2 for y in r] for r in i["results"]]
            okk = (m[0] == len(i["events"]) and m[1] == inv and m[2] == 0 and m[3] == 7 and m[4] == 0 and m[5] == 0 and m[6] == 1)
        except Exception:
            okk = False
        return "ok" if okk else "corr"

    def signature(self, case, i, m):
        if isinstance(i, dict) and "events" in i:
            return self.oracle(case, i) or "correspondence"
        return "harness"

    def nontrivial(self, case, o):
        return isinstance(o, dict) and len(o.get("events", [])) > 15

    def shrink_candidates(self, case):
        h = case["hist"]
        for k in range(len(h)):
            if len(h) > 1:
                c = dict(case); c["hist"] = h[:k] + h[k + 1:]; yield c
            if h[k][0]:
                c = dict(case); hh = [[list(x[0]), x[1]] for x in h]; hh[k][0] = hh[k][0][:-1]; c["hist"] = hh; yield c
        for sd in range(5):
            c = dict(case); c["seed"] = sd; yield c
        if case.get("flaky"):
            c = dict(case); c["flaky"] = 0.0; yield c
