"""C01-C04: FunctorPool / FactoryFunctorPool under the controlled scheduler, trace acceptance by Model/Pool.v."""
import random

from harness.core import Prop, E, err
from harness.props import poolcommon as pc

POLICIES = ["random", "random", "first:main", "last:main", "last:feeder", "first:feeder", "last:w", "first:w",
            "last:replace", "first:replace", "last:w0", "last:w1", "last:w0", "first:w1"]


def optn(x):
    return [] if x is None else [x]


def model_cap(q, nworkers):
    """queue capacity as the pool computes it: None -> unbounded; float -> int(len * x); a result <= 0 is unbounded"""
    if q is None:
        return None
    v = q if isinstance(q, int) else int(nworkers * (q[1] / 10.0))
    return v if v > 0 else None


class PoolProp(Prop):
    two_phase = True
    case_timeout = 30.0
    quick_n = 700
    thorough_n = 12000
    focus = "C01"
    trusted = ["controlled scheduler + fake multiprocessing context (harness/sched.py): manager queues, locks, events as "
               "atomic operations; a process as a thread; single attribute loads/stores atomic (GIL)",
               "reduction: thread-local computation between two visible operations is not interleaved"]

    assumptions = ["manager queue, lock and event operations are atomic and queues are FIFO",
                   "a single load or store of pool._sending_work / pool._data_cnt is atomic (CPython GIL); the feeder is the only writer of _data_cnt during a call",
                   "a worker process behaves, for the pool's bookkeeping, like a thread that shares nothing but the queues and events (no pickling faults)",
                   "functors return normally unless the case injects a fault (C04 only)"]

    # ------------------------------------------------------------------ generation
    def gen_cfg(self, rng):
        factory = rng.random() < (0.7 if self.focus in ("C03", "C04") else 0.4)
        nw = rng.randint(1, 3)
        quota = rng.choice([1, 1, 2, 3]) if factory and rng.random() < 0.75 else None
        wq = rng.choice([None, 1, 2, ["f", 5], ["f", 10], ["f", 10], ["f", 20]])
        rq = rng.choice([None, None, 1, 2, 3])
        return [nw, wq, rq, 1 if factory else 0, quota]

    def gen_call(self, rng, maxlen=7):
        return [0, 1 if rng.random() < (0.7 if self.focus != "C01" else 0.6) else 0,
                [rng.randint(0, 9) for _ in range(rng.randint(0, maxlen))], rng.randint(1, 3)]

    def gen_case(self, rng):
        cfg = self.gen_cfg(rng)
        if self.focus == "C02" and rng.random() < 0.35:
            # flow control: a small results bound, several workers, a straggler policy, longer input
            cfg[0], cfg[2] = rng.randint(2, 3), rng.choice([1, 2])
            hist = [[0, 1, [rng.randint(0, 9) for _ in range(rng.randint(5, 10))], rng.choice([1, 1, 2])]]
            return dict(cfg=cfg, hist=hist, seed=rng.randrange(1 << 30), policy=rng.choice(["last:w0", "last:w1", "random", "last:w"]))
        if self.focus == "C04" and rng.random() < 0.2:
            # until_all_ready after workers have been replaced: the new workers' begin() must be waited for as well
            cfg = [rng.randint(1, 3), rng.choice([None, ["f", 10]]), rng.choice([None, 2]), 1, rng.choice([1, 1, 2])]
            hist = [[1], [0, rng.randint(0, 1), [rng.randint(0, 9) for _ in range(rng.randint(2, 5))], 1], [1]]
            if rng.random() < 0.4:
                hist.append(self.gen_call(rng, 3))
            return dict(cfg=cfg, hist=hist, seed=rng.randrange(1 << 30), policy=rng.choice(["first:main", "first:main", "last:w", "random"]))
        if self.focus == "C04" and rng.random() < 0.15:
            # a plain FunctorPool whose workers have a quota: nobody is replaced, so the history offers at most
            # workers * quota chunks (otherwise the pool runs out of workers by design); the quota must still be kept
            W, k = rng.randint(1, 3), rng.randint(1, 3)
            cfg = [W, rng.choice([None, ["f", 10]]), rng.choice([None, 2]), 0, k]
            budget, hist = W * k, []
            for _ in range(rng.randint(1, 3)):
                if rng.random() < 0.25:
                    hist.append([1])
                    continue
                c = rng.randint(1, 2)
                nch = rng.randint(0, min(budget, 3))
                budget -= nch
                n = max(0, nch * c - (rng.randint(0, c - 1) if nch else 0))
                hist.append([0, rng.randint(0, 1), [rng.randint(0, 9) for _ in range(n)], c])
            return dict(cfg=cfg, hist=hist, seed=rng.randrange(1 << 30), policy=rng.choice(POLICIES))
        if self.focus in ("C01", "C02"):
            hist = [self.gen_call(rng)]
        else:
            hist = []
            for _ in range(rng.randint(2 if self.focus == "C03" else 1, 3)):
                if self.focus == "C04" and rng.random() < 0.35:
                    hist.append([1])
                else:
                    hist.append(self.gen_call(rng, 5))
        case = dict(cfg=cfg, hist=hist, seed=rng.randrange(1 << 30), policy=rng.choice(POLICIES))
        if self.focus == "C04":
            if rng.random() < 0.3:
                case["exc"] = 1                  # the body of the with-statement raises after the history
            if rng.random() < 0.25:
                case["join_timeout"] = 5         # a (generous) join timeout: must not shorten any other wait
        if self.focus == "C04" and rng.random() < 0.4:
            f = {}
            if rng.random() < 0.4:
                f["begin"] = [rng.randrange(cfg[0] + 2)]
                case["hist"] = [h for h in case["hist"] if h[0] == 0]     # until_all_ready would wait for ever
            if rng.random() < 0.7:
                f["call"] = [[rng.randrange(cfg[0] + 2), rng.randrange(3)]]
            case["faults"] = f
        return case

    def generate(self, rng, tier, n):
        for _ in range(n):
            yield self.gen_case(rng)

    def exhaustive(self, tier):
        # several schedules of a few fixed small configurations (each policy x a handful of seeds)
        base = [dict(cfg=[2, ["f", 10], None, 0, None], hist=[[0, 1, [1, 2, 3], 1]]),
                dict(cfg=[1, 1, 1, 0, None], hist=[[0, 1, [4, 5, 6, 7], 2]]),
                dict(cfg=[2, None, 1, 1, 1], hist=[[0, 1, [1, 2, 3], 1], [0, 0, [], 1], [0, 1, [8, 9], 1]]),
                dict(cfg=[2, ["f", 10], None, 1, 2], hist=[[0, 0, [1, 2, 3, 4], 1], [0, 1, [5], 1]])]
        for b in base:
            for pol in POLICIES:
                for sd in range(3 if tier == "quick" else 25):
                    yield dict(cfg=b["cfg"], hist=b["hist"], seed=sd, policy=pol)
        # systematic: every schedule with exactly one preemption of the non-preemptive baseline (first N of the enumeration)
        tiny = [dict(cfg=[1, 1, 1, 0, None], hist=[[0, 1, [1, 2], 1]]),
                dict(cfg=[2, ["f", 10], 1, 0, None], hist=[[0, 1, [1, 2, 3], 1]]),
                dict(cfg=[2, None, None, 1, 1], hist=[[0, 0, [1, 2], 1], [0, 1, [3], 1]]),
                dict(cfg=[2, ["f", 10], 2, 1, 2], hist=[[1], [0, 1, [4, 5, 6], 2], [1]]),
                dict(cfg=[2, 1, None, 1, 1], hist=[[0, 1, [1, 2], 1]])]      # the configuration of the repaired exit hang F4'
        for b in tiny:
            for k in range(40 if tier == "quick" else 700):
                yield dict(cfg=b["cfg"], hist=b["hist"], seed=0, policy="np", pb1=k)
            for k in range(0 if tier == "quick" else 1200):
                yield dict(cfg=b["cfg"], hist=b["hist"], seed=0, policy="np", pb2=k)

    # ------------------------------------------------------------------ model side (trace acceptance)
    def to_model2(self, case, o):
        nw, wq, rq, factory, quota = case["cfg"]
        mcfg = [nw, optn(model_cap(wq, nw)), optn(model_cap(rq, nw)), factory, optn(quota)]
        mh = [[0, a[1], a[2], a[3]] if a[0] == 0 else [1] for a in case["hist"]]
        evs = o["events"] if isinstance(o, dict) and "events" in o else []
        return 100, [mcfg, mh, evs]

    # ------------------------------------------------------------------ oracles on the implementation's run
    def results_ok(self, case, o):
        calls = [a for a in case["hist"] if a[0] == 0]
        for r, a in zip(o["results"], calls):
            inv = [(y - 1) // 2 for y in r]
            if a[1]:
                if inv != a[2]:
                    return False
            else:
                if sorted(inv) != sorted(a[2]):
                    return False
                # order inside each chunk kept: every chunk appears as a contiguous block
                ch = [a[2][k:k + a[3]] for k in range(0, len(a[2]), a[3])]
                rest = list(inv)
                while rest:
                    hit = [c for c in ch if rest[:len(c)] == c]
                    if not hit:
                        return False
                    ch.remove(hit[0])
                    rest = rest[len(hit[0]):]
        return True

    def terminated(self, o):
        return o["main_done"] and not o["deadlock"] and not o["step_limit"]

    def has_faults(self, case):
        return bool(case.get("faults"))

    def oracle(self, case, o):
        """None = property holds on this run; else a short signature of what failed"""
        f = self.focus
        if o.get("exc") is not None and not self.has_faults(case):
            return "consumer raised %s" % o["exc"]
        if f == "C01":
            if not self.results_ok(case, o):
                return "wrong results"
            if self.terminated(o) and len(o["results"]) != len([a for a in case["hist"] if a[0] == 0]):
                return "missing call"
            return None
        if f == "C02":
            if self.terminated(o):
                return None
            return self.hang_signature(case, o)
        if f == "C03":
            if not self.results_ok(case, o):
                return "wrong results"
            if not self.terminated(o):
                return self.hang_signature(case, o)
            if o["left_payload"] or o["left_tokens"]:
                return "leftover between calls: %d results, %d replace stop tokens" % (o["left_payload"], o["left_tokens"])
            return None
        # C04
        for wid, l in o["lifelog"].items():
            if l.count("begin") != 1 or l[0] != "begin":
                return "begin not exactly once first (worker %s: %s)" % (wid, l)
            started_end = "end" in l
            if self.terminated(o) or started_end:
                if l.count("end") != 1 or l[-1] != "end":
                    return "end not exactly once last (worker %s: %s)" % (wid, l)
            quota = case["cfg"][4]
            if quota is not None:
                chunks = self.chunks_of(o, wid)
                if chunks > quota:
                    return "quota exceeded"
        if self.terminated(o) and o["unfinished"]:
            return "workers still running after exit: %s" % o["unfinished"]
        if not o.get("ready_ok", True):
            return "until_all_ready returned before every begin() completed"
        if not self.terminated(o) and not self.has_faults(case):
            return self.hang_signature(case, o)
        return None

    def chunks_of(self, o, wid):
        return o.get("chunks", {}).get(str(wid), 0)

    def hang_signature(self, case, o):
        if o["step_limit"]:
            return "step limit"
        d = o["deadlock"] or []
        main = [lab for n, lab in d if n == "main"]
        if main and list(main[0]) == ["put", "work"] and [1 for e in o["events"] if e[0] == pc.EV["ExitPut"]]:
            return "exit_put_deadlock"           # the fixed finding F4' (known_findings.json), should it ever return
        return "deadlock: main at %s" % (main[0] if main else "?")

    def judge(self, case, m, i):
        if not isinstance(i, dict) or "events" not in i:
            return "violation" if not (isinstance(i, dict) and "harness_error" in i) else "violation"
        bad = self.oracle(case, i)
        if bad is not None:
            return "violation"
        # correspondence: the model accepts the whole trace and ends where the implementation ended
        try:
            inv = [[(y - 1) // 2 for y in r] for r in i["results"]]
            okk = (m[0] == len(i["events"]) and m[1] == inv[:len(m[1])])
            if self.terminated(i) and not self.has_faults(case):
                okk = okk and m[3] == 12 and m[1] == inv and m[4] == 0 and m[5] == 0 and m[6] == 1
        except Exception:
            okk = False
        return "ok" if okk else "corr"

    def signature(self, case, i, m):
        if isinstance(i, dict) and "events" in i:
            return self.oracle(case, i) or "correspondence"
        return "harness"

    def nontrivial(self, case, o):
        return isinstance(o, dict) and len(o.get("events", [])) > 25

    def shrink_candidates(self, case):
        h = case["hist"]
        for k in range(len(h)):
            if len(h) > 1:
                c = dict(case); c["hist"] = h[:k] + h[k + 1:]; yield c
            if h[k][0] == 0 and h[k][2]:
                c = dict(case); hh = [list(x) for x in h]; hh[k][2] = h[k][2][:-1]; c["hist"] = hh; yield c
        for sd in range(5):
            c = dict(case); c["seed"] = sd; yield c

    def impl(self, case):
        from harness import sched as S
        o = S.pb_run(case, pc.run_pool_case)
        o["lifelog"] = {str(k): v for k, v in o["lifelog"].items()}
        return o
