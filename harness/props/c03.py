"""C03 - see harness/props/poolprops.py."""
from harness.props.poolprops import PoolProp


class P(PoolProp):
    id = "C03"
    focus = "C03"
    rule = ("Histories of 2-3 calls (ordered / unordered / empty) on one pool, factory pools with quota 1-3 in 70 % of the cases, all policies incl. ones that starve the replace thread or the retiring workers.  VIOLATION when some call's result is wrong, a run hangs, or a result chunk / a stop token of the replace thread is left in a queue when the pool has been left.")
