"""C03 - see harness/props/poolprops.py."""
from harness.props.poolprops import PoolProp


class P(PoolProp):
    id = "C03"
    focus = "C03"
