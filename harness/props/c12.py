"""C12 - mutable line files against Model/LineFile.v (mfile)."""
import hashlib
import os
import shutil

from harness.core import Prop, attempt, ok, err, E, exc_code
from harness.props import filecommon as fc


class P(Prop):
    id = "C12"
    quick_n = 1500
    thorough_n = 15000
    case_timeout = 20.0
    rule = ("a case = initial file content, one of the 4 mutable classes (text / memory-mapped x plain / record), an edit "
            "script (item assignment, deletion, insert, append, extend, pop, pop(i), remove, reverse, +=, reads, len, "
            "list, dirty, assignment of a non-string) with positive and negative positions incl. out-of-range ones, and "
            "a line ending for save ('\\n', '\\r\\n', '', '|', '\\t').  Compared: every result, the final list, the saved "
            "bytes, the lines of the reopened saved file, and that the source file's bytes are unchanged.  "
            "non-trivial = at least 3 modifying operations; distinct by canonical case text")
    trusted = ["collections.abc MutableSequence mix-ins (append, extend, pop, remove, reverse, +=, index) as CPython 3.12 defines them",
               "print(..., end=ending) to a text file writes '\\n' unchanged on this platform"]

    def gen_ops(self, rng, n0, nops, pool=()):
        # values are drawn from a small pool (the file's own lines plus a few short strings) half of the time, so that
        # duplicates of file-backed lines, successful remove()s and equal neighbours are common
        pool = [fc.s2b(x) for x in pool] + [fc.s2b("a"), fc.s2b("b"), fc.s2b("")]
        ops, n = [], n0
        live = []          # iterators created since the last modification (older ones are never touched again)
        niter = 0
        if rng.random() < 0.35:
            # a reading phase on the untouched (not yet dirty) file: iterators stepped in between random accesses
            for _ in range(rng.randint(2, 8)):
                q = rng.random()
                if q < 0.3 or not live:
                    ops.append([15]); live.append(niter); niter += 1
                elif q < 0.65:
                    ops.append([16, rng.choice(live)])
                elif q < 0.85:
                    ops.append([10, rng.randint(-n - 1, n)])
                elif q < 0.93:
                    ops.append([12])
                else:
                    ops.append([13])
        for _ in range(nops):
            if rng.random() < 0.25:
                if live and rng.random() < 0.7:
                    ops.append([16, rng.choice(live)])
                else:
                    ops.append([15]); live.append(niter); niter += 1
                continue
            r = rng.random()
            if r < 0.79:
                live = []          # a modifying call follows: iterators created before it are abandoned
            s = fc.s2b(fc.gen_line(rng, 6, long_ok=False)) if rng.random() < 0.5 else rng.choice(pool)
            pos = rng.randint(-n - 2, n + 1)
            if r < 0.14:
                ops.append([0, pos, s])
            elif r < 0.24:
                ops.append([1, pos])
            elif r < 0.36:
                ops.append([2, pos, s])
            elif r < 0.46:
                ops.append([3, s])
            elif r < 0.52:
                ops.append([4, [fc.s2b(fc.gen_line(rng, 4, False)) for _ in range(rng.randint(0, 3))]])
            elif r < 0.58:
                ops.append([5])
            elif r < 0.64:
                ops.append([6, pos])
            elif r < 0.70:
                ops.append([7, s if rng.random() < 0.3 else rng.choice(pool)])
            elif r < 0.75:
                ops.append([8])
            elif r < 0.79:
                ops.append([9, [fc.s2b(fc.gen_line(rng, 4, False)) for _ in range(rng.randint(0, 3))]])
            elif r < 0.87:
                ops.append([10, pos])
            elif r < 0.90:
                ops.append([11])
            elif r < 0.94:
                ops.append([12])
            elif r < 0.98:
                ops.append([13])
            else:
                ops.append([14, pos])
        return ops

    def generate(self, rng, tier, n):
        for _ in range(n):
            content = fc.gen_content(rng, allow_empty=True)
            cls = rng.choice(fc.MUT_CLASSES)
            nl = content.count("\n") + (0 if content.endswith("\n") else 1)
            lines = [l.rstrip("\r") for l in content.split("\n")]
            yield dict(content=list(content.encode("utf-8")), cls=cls, ops=self.gen_ops(rng, nl, rng.randint(0, 25), lines[:nl]),
                       ending=fc.s2b(rng.choice(["\n", "\n", "\n", "\r\n", "", "|", "\t"])))

    def exhaustive(self, tier):
        base = "l0\nl1\nl2\n"
        alpha = [[0, 1, fc.s2b("X")], [0, -1, fc.s2b("Y")], [0, 3, fc.s2b("Z")], [1, 0], [1, -4], [2, 1, fc.s2b("I")],
                 [2, -9, fc.s2b("J")], [3, fc.s2b("A")], [3, fc.s2b("l0")], [5], [6, 0], [7, fc.s2b("l1")], [7, fc.s2b("l0")],
                 [7, fc.s2b("nope")], [8], [13], [12]]
        import itertools
        L = 2 if tier == "quick" else 3
        for cls in fc.MUT_CLASSES:
            for n in range(0, L + 1):
                for seq in itertools.product(alpha, repeat=n):
                    yield dict(content=list(base.encode()), cls=cls, ops=[list(o) for o in seq], ending=[10])

    def to_model(self, case):
        return 1200, [case["content"], 1 if "Record" in case["cls"] else 0, case["ops"], case["ending"]]

    def canon(self, case, obs):
        if isinstance(obs, list) and len(obs) == 4:
            return obs + [1]
        return obs

    def in_domain(self, case):
        for op in case["ops"]:
            for x in op[1:]:
                if isinstance(x, list) and (10 in x or any(isinstance(y, list) and 10 in y for y in x)):
                    return False
        return True

    def accept(self, case, i, m):
        # "reopening gives the same list" is claimed for line_ending "\n"; for other endings the saved bytes are the claim
        try:
            return case["ending"] != [10] and i[:3] == m[:3] and i[4] == m[4]
        except Exception:
            return False

    def nontrivial(self, case, obs):
        return sum(1 for op in case["ops"] if op[0] in (0, 1, 2, 3, 4, 5, 6, 7, 8, 9)) >= 3

    def signature(self, case, i, m):
        return "mutable"

    def impl(self, case):
        from windpyutils import files
        RawRecord = fc.raw_record_class()
        d = fc.scratch_dir()
        try:
            path = os.path.join(d, "src.txt")
            raw = bytes(case["content"])
            with open(path, "wb") as f:
                f.write(raw)
            rec = "Record" in case["cls"]
            fobj = fc.make_file(files, case["cls"], path, None, RawRecord)
            dec = lambda b: bytes(b).decode("utf-8")
            wrap = (lambda b: RawRecord(dec(b))) if rec else dec
            enc = lambda x: fc.s2b(fc.unwrap(x, RawRecord))
            tr = []
            iters = []
            with fobj:
                for op in case["ops"]:
                    c = op[0]

                    def run():
                        nonlocal fobj
                        if c == 0:
                            fobj[op[1]] = wrap(op[2]); return []
                        if c == 1:
                            del fobj[op[1]]; return []
                        if c == 2:
                            fobj.insert(op[1], wrap(op[2])); return []
                        if c == 3:
                            fobj.append(wrap(op[1])); return []
                        if c == 4:
                            fobj.extend([wrap(x) for x in op[1]]); return []
                        if c == 5:
                            return enc(fobj.pop())
                        if c == 6:
                            return enc(fobj.pop(op[1]))
                        if c == 7:
                            fobj.remove(wrap(op[1])); return []
                        if c == 8:
                            fobj.reverse(); return []
                        if c == 9:
                            fobj += [wrap(x) for x in op[1]]; return []
                        if c == 10:
                            return enc(fobj[op[1]])
                        if c == 12:
                            return [enc(x) for x in fobj]
                        if c == 14:
                            fobj[op[1]] = 12345; return []
                        if c == 16:
                            return enc(next(iters[op[1]]))
                        raise AssertionError
                    if c == 15:
                        iters.append(iter(fobj)); tr.append(len(iters) - 1)
                    elif c == 11:
                        tr.append(len(fobj))
                    elif c == 13:
                        tr.append(1 if fobj.dirty else 0)
                    else:
                        tr.append(attempt(run))
                view = [enc(x) for x in fobj]
                out = os.path.join(d, "saved.txt")
                fobj.save(out, line_ending=dec(case["ending"]))
            saved = open(out, "rb").read()
            if saved:
                with files.RandomLineAccessFile(out) as g:
                    reopened = [fc.s2b(x) for x in g]
            else:
                with files.RandomLineAccessFile(out) as g:
                    reopened = [fc.s2b(x) for x in g]
            same = 1 if open(path, "rb").read() == raw else 0
            return [tr, view, list(saved), reopened, same]
        finally:
            shutil.rmtree(d, ignore_errors=True)
