"""C20 - TmpPool / FilePool against Model/TmpPool.v.  Multi-process pools run with real forked processes kept in
lock-step by the driver through pipes; a 'split' remove pauses inside os.remove (hook installed in the child only)
so that another process can act between the file removal and the list update."""
import json
import os
import shutil
import signal
import sys

from harness.core import Prop, attempt, ok, err, E, exc_code
from harness.props import filecommon as fc


class Proc:
    def __init__(self, pid, rfd, wfd):
        self.pid, self.r, self.w = pid, os.fdopen(rfd, "r"), os.fdopen(wfd, "w")

    def send(self, *msg):
        self.w.write(json.dumps(msg) + "\n")
        self.w.flush()

    def recv(self):
        line = self.r.readline()
        if not line:
            raise RuntimeError("pool process died")
        return json.loads(line)


def pool_process(cmd_r, res_w, pool_factory, pipes, my_index):
    """command loop of one pool process; pool_factory() is called by the first process only"""
    from windpyutils import files
    try:
        devnull = os.open(os.devnull, os.O_RDWR)
        for fd in (0, 1, 2):
            os.dup2(devnull, fd)
    except OSError:
        pass
    cmd = os.fdopen(cmd_r, "r")
    res = os.fdopen(res_w, "w")

    def reply(x):
        res.write(json.dumps(x) + "\n")
        res.flush()

    def loop(pool):
        nonlocal cmd, res
        while True:
            line = cmd.readline()
            if not line:
                os._exit(0)
            msg = json.loads(line)
            c = msg[0]
            try:
                if c == "create":
                    reply(["ok", pool.create()])
                elif c == "remove":
                    pool.remove(msg[1]); reply(["ok", None])
                elif c == "rmsplit":
                    real = os.remove

                    def hooked(p, *a, **k):
                        try:
                            real(p, *a, **k)
                        finally:
                            files.os.remove = real
                            reply(["paused"])
                            cmd.readline()          # wait for "cont"
                    files.os.remove = hooked
                    try:
                        pool.remove(msg[1]); reply(["ok", None])
                    finally:
                        files.os.remove = real
                elif c == "flush":
                    pool.flush(); reply(["ok", None])
                elif c == "list":
                    reply(["ok", [pool[i] for i in range(len(pool))]])
                elif c == "len":
                    reply(["ok", len(pool)])
                elif c == "fork":
                    k = msg[1]
                    cr, cw, rr, rw = pipes[k]
                    pid = os.fork()
                    if pid == 0:
                        cmd = os.fdopen(cr, "r"); res = os.fdopen(rw, "w")
                        continue
                    reply(["ok", pid])
                elif c == "raise":
                    raise KeyboardInterrupt("body raises")
                elif c == "leave":
                    return
                elif c == "quit":
                    os._exit(0)
            except KeyboardInterrupt:
                raise
            except ValueError:
                reply(["err", E["Value"]])
            except Exception as e:  # noqa
                reply(["err", exc_code(e)])
    try:
        with pool_factory() as pool:
            loop(pool)
        reply(["left", "normal"])
    except KeyboardInterrupt:
        reply(["left", "raised"])
    os._exit(0)


class P(Prop):
    id = "C20"
    quick_n = 600
    thorough_n = 2500
    case_timeout = 12.0
    rule = ("TmpPool: a history of create / remove (also of an already removed or externally deleted file) / flush / "
            "len / listing, ended by leaving the context normally or through an exception raised in the body; single-"
            "process pools and multi_proc pools with 1-3 really forked children acting in lock-step, incl. removes that "
            "are paused between the file removal and the list update while another process acts.  After every step: the "
            "result, the files that exist in the pool directory, the pool's listing.  FilePool: n files, a mode, a body "
            "that closes some handles itself, left normally or by an exception: closed flags inside and after; and a pool whose last path cannot be opened must not keep a descriptor of the paths before it.  "
            "Also two single-process pools alive at the same time (nested contexts, separate directories; the state of BOTH pools after every step, the model being two independent pools).  non-trivial = a multi-process history with a child create after a flush, a split remove, or a two-pool history touching both; distinct by "
            "canonical case text")
    trusted = ["the OS file system as a set of paths; NamedTemporaryFile as 'fresh name'",
               "multiprocessing.Manager list operations are atomic (one RPC each)"]

    def gen_two(self, rng):
        """two single-process pools alive at the same time (nested contexts): [which, op, arg]; op 9 = leave the inner one"""
        ops, npaths, live, inner_open = [], [0, 0], [[], []], True
        for _ in range(rng.randint(2, 12)):
            w = rng.randrange(2) if inner_open else 0
            r = rng.random()
            if w == 1 and r < 0.12:
                ops.append([1, 9]); inner_open = False; live[1] = []
            elif r < 0.5:
                ops.append([w, 0]); live[w].append(npaths[w]); npaths[w] += 1
            elif r < 0.68 and npaths[w]:
                p = rng.choice(live[w]) if live[w] and rng.random() < 0.8 else rng.randrange(npaths[w])
                ops.append([w, 1, p])
                if p in live[w]:
                    live[w].remove(p)
            elif r < 0.76:
                ops.append([w, 4]); live[w] = []
            elif r < 0.82 and npaths[w]:
                ops.append([w, 5, rng.randrange(npaths[w])])
            elif r < 0.91:
                ops.append([w, 7])
            else:
                ops.append([w, 8])
        return dict(kind="twopools", ops=ops, exc=rng.randint(0, 1))

    def generate(self, rng, tier, n):
        for _ in range(n):
            if rng.random() < 0.15:
                yield self.gen_two(rng)
                continue
            if rng.random() < 0.2:
                nf = rng.randint(0, 4)
                yield dict(kind="filepool", n=nf, mode=rng.choice(["r", "w", "a", "rb"]),
                           ops=[[0, rng.randrange(nf)] if nf and rng.random() < 0.5 else [1] for _ in range(rng.randint(0, 4))],
                           exc=rng.randint(0, 1))
                continue
            multi = rng.random() < 0.6
            nproc, ops, paths, live = 1, [], 0, []
            for _ in range(rng.randint(0, 14)):
                pid = rng.randrange(nproc)
                r = rng.random()
                if multi and nproc < 4 and r < 0.12:
                    ops.append([0, 6]); nproc += 1
                elif r < 0.45:
                    ops.append([pid, 0]); live.append(paths); paths += 1
                elif r < 0.65 and paths:
                    p = rng.choice(live) if live and rng.random() < 0.8 else rng.randrange(paths)
                    if multi and pid != 0 and nproc >= 2 and rng.random() < 0.5:
                        # split remove by a child, one complete op of another process in between
                        other = rng.choice([q for q in range(nproc) if q != pid])
                        ops.append([pid, 2, p])
                        if live and rng.random() < 0.6:
                            q = rng.choice(live)
                            ops.append([other, 1, q])
                            if q in live:
                                live.remove(q)
                        else:
                            ops.append([other, 0]); live.append(paths); paths += 1
                        ops.append([pid, 3, p])
                    else:
                        ops.append([pid, 1, p])
                    if p in live:
                        live.remove(p)
                elif r < 0.73:
                    ops.append([pid, 4]); live = []
                elif r < 0.8 and paths:
                    p = rng.randrange(paths)
                    ops.append([0, 5, p])
                elif r < 0.9:
                    ops.append([pid, 7])
                else:
                    ops.append([pid, 8])
            yield dict(kind="tmppool", multi=1 if multi else 0, ops=ops, exc=rng.randint(0, 1))

    def exhaustive(self, tier):
        # the historical defect: a child creates after the parent's flush (multi_proc)
        yield dict(kind="tmppool", multi=1, ops=[[0, 0], [0, 6], [0, 4], [1, 0]], exc=0)
        yield dict(kind="tmppool", multi=1, ops=[[0, 6], [1, 0], [0, 0], [1, 2, 1], [0, 1, 0], [1, 3, 1]], exc=0)
        yield dict(kind="tmppool", multi=0, ops=[[0, 0], [0, 0], [0, 1, 0], [0, 1, 0], [0, 5, 1], [0, 1, 1]], exc=1)
        # two pools at once: the inner one is left while the outer one still holds a file
        yield dict(kind="twopools", ops=[[0, 0], [1, 0], [1, 8], [1, 9], [0, 8], [0, 7]], exc=0)
        yield dict(kind="twopools", ops=[[1, 0], [0, 0], [0, 4], [1, 7], [1, 8]], exc=1)

    def to_model(self, case):
        if case["kind"] == "filepool":
            return 2001, [case["n"], case["ops"]]
        if case["kind"] == "twopools":
            per = [[], []]
            for op in case["ops"]:
                per[op[0]].append([0, 4] if op[1] == 9 else [0] + list(op[1:]))
            if not any(op[1] == 9 for op in case["ops"]):
                per[1].append([0, 4])
            per[0].append([0, 4])
            return 2002, per
        return 2000, case["ops"] + [[0, 4]]          # leaving the context = flush

    def canon(self, case, obs):
        if case["kind"] == "twopools" and isinstance(obs, list):
            if obs and obs[0] == "two":
                return obs[1]
            # the model's answer: one trace per pool -> one sequence over the global history, the state of the pool that
            # did not act being carried over
            if len(obs) != 2:
                return obs
            tra, trb = list(obs[0]), list(obs[1])
            st = [[[], []], [[], []]]
            out = []
            left = False
            for op in case["ops"]:
                e = (tra if op[0] == 0 else trb).pop(0)
                st[op[0]] = [e[1], e[2]]
                out.append([e[0], st[0], st[1]])
                left = left or op[1] == 9
            if not left:
                e = trb.pop(0); st[1] = [e[1], e[2]]
                out.append([e[0], st[0], st[1]])
            e = tra.pop(0); st[0] = [e[1], e[2]]
            out.append([e[0], st[0], st[1]])
            return out
        return obs

    def nontrivial(self, case, obs):
        if case["kind"] == "twopools":
            return len({op[0] for op in case["ops"]}) == 2
        if case["kind"] != "tmppool":
            return case["n"] >= 2
        ops = case["ops"]
        split = any(o[1] == 2 for o in ops)
        after_flush = any(a[1] == 4 and any(b[0] != a[0] and b[1] == 0 for b in ops[k + 1:]) for k, a in enumerate(ops))
        return split or after_flush

    def signature(self, case, i, m):
        return case["kind"]

    def impl(self, case):
        if case["kind"] == "filepool":
            return self.impl_filepool(case)
        if case["kind"] == "twopools":
            return self.impl_twopools(case)
        return self.impl_tmppool(case)

    def impl_twopools(self, case):
        import contextlib
        from windpyutils.files import TmpPool
        d = fc.scratch_dir()
        dirs = [os.path.join(d, "outer"), os.path.join(d, "inner")]
        for x in dirs:
            os.mkdir(x)
        names, by_ord = [{}, {}], [{}, {}]
        pools = [None, None]

        def state(w):
            ex = sorted(names[w][os.path.join(dirs[w], f)] for f in os.listdir(dirs[w]) if os.path.join(dirs[w], f) in names[w])
            po = pools[w]
            # a path of the OTHER pool in this pool's listing is reported as -1
            return [ex, [names[w].get(po[i], -1) for i in range(len(po))]]
        tr = []
        try:
            try:
                with TmpPool(dirs[0]) as outer:
                    pools[0] = outer
                    inner_open = True
                    try:
                        with contextlib.ExitStack() as stack:
                            pools[1] = stack.enter_context(TmpPool(dirs[1]))
                            for op in case["ops"]:
                                w, c = op[0], op[1]
                                po = pools[w]

                                def run():
                                    if c == 0:
                                        p = po.create()
                                        names[w][p] = len(names[w]); by_ord[w][names[w][p]] = p
                                        return names[w][p]
                                    if c == 1:
                                        po.remove(by_ord[w].get(op[2], os.path.join(dirs[w], "never-created"))); return []
                                    if c == 4:
                                        po.flush(); return []
                                    if c == 5:
                                        p = by_ord[w].get(op[2])
                                        if p and os.path.exists(p):
                                            os.remove(p)
                                        return []
                                    raise AssertionError
                                if c == 9:
                                    stack.close(); inner_open = False; res = ok([])
                                elif c == 7:
                                    res = len(po)
                                elif c == 8:
                                    res = state(w)[1]
                                else:
                                    res = attempt(run)
                                tr.append([res, state(0), state(1)])
                            if case["exc"]:
                                raise KeyError("body raises")
                    finally:
                        # the inner pool has been left (normally or by the exception), the outer one not yet
                        if inner_open:
                            tr.append([ok([]), state(0), state(1)])
            except KeyError:
                pass
            tr.append([ok([]), state(0), state(1)])
            return ["two", tr]
        finally:
            shutil.rmtree(d, ignore_errors=True)

    def impl_filepool(self, case):
        from windpyutils.files import FilePool
        d = fc.scratch_dir()
        try:
            paths = []
            for k in range(case["n"]):
                p = os.path.join(d, "f%d" % k)
                open(p, "w").write("x\n")
                paths.append(p)
            handles = []
            inside = []
            try:
                with FilePool(paths, case["mode"]) as pool:
                    handles = [pool[p] for p in paths]
                    assert len(pool) == len(paths) and list(pool) == paths
                    for op in case["ops"]:
                        if op[0] == 0:
                            handles[op[1]].close()
                    inside = [1 if h.closed else 0 for h in handles]
                    if case["exc"]:
                        raise KeyError("body raises")
            except KeyError:
                pass
            # a pool whose last path cannot be opened: the with-statement raises, and no handle of the paths before it
            # may stay open (counted as descriptors of this process that point into the scratch directory)
            leaked = 0
            if paths and case["mode"] in ("r", "rb"):
                def open_here():
                    n = 0
                    for fd in os.listdir("/proc/self/fd"):
                        try:
                            if os.readlink("/proc/self/fd/" + fd).startswith(d):
                                n += 1
                        except OSError:
                            pass
                    return n
                before = open_here()
                bad = FilePool(paths + [os.path.join(d, "missing")], case["mode"])
                try:
                    with bad:
                        pass
                except OSError:
                    pass
                leaked = open_here() - before
            return [inside, [1 if h.closed else 0 for h in handles], leaked]
        finally:
            shutil.rmtree(d, ignore_errors=True)

    def impl_tmppool(self, case):
        from windpyutils.files import TmpPool
        d = fc.scratch_dir()
        pooldir = os.path.join(d, "pool")
        os.mkdir(pooldir)
        kids = []
        try:
            # pipes for the first process and up to 3 children: (cmd_r, cmd_w, res_r, res_w)
            pipes = []
            for _ in range(4):
                cr, cw = os.pipe()
                rr, rw = os.pipe()
                pipes.append((cr, cw, rr, rw))
            factory = lambda: TmpPool(pooldir, multi_proc=bool(case["multi"]))
            pid0 = os.fork()
            if pid0 == 0:
                cr, cw, rr, rw = pipes[0]
                pool_process(cr, rw, factory, pipes, 0)
                os._exit(0)
            kids.append(pid0)
            procs = [Proc(pid0, pipes[0][2], pipes[0][1])]
            names = {}          # path -> ordinal
            tr = []

            def existing():
                return sorted(names[os.path.join(pooldir, f)] for f in os.listdir(pooldir) if os.path.join(pooldir, f) in names)

            def listing(q):
                procs[q].send("list")
                r = procs[q].recv()
                return [names.get(p, -1) for p in r[1]]
            paused = None
            by_ord = {}
            for op in case["ops"]:
                pid, c = op[0], op[1]
                pr = procs[pid]
                if c == 0:
                    pr.send("create"); r = pr.recv()
                    names[r[1]] = len(names); by_ord[names[r[1]]] = r[1]
                    res = ok(names[r[1]])
                elif c in (1, 2):
                    path = by_ord.get(op[2], os.path.join(pooldir, "never-created"))
                    if c == 1:
                        pr.send("remove", path); r = pr.recv()
                        res = ok([]) if r[0] == "ok" else err(r[1])
                    else:
                        pr.send("rmsplit", path); r = pr.recv()
                        if r[0] == "paused":
                            paused = pid; res = ok([])
                        else:       # remove never reached os.remove
                            res = ok([]) if r[0] == "ok" else err(r[1])
                elif c == 3:
                    if paused == pid:
                        pr.send("cont"); r = pr.recv(); paused = None
                        res = ok([]) if r[0] == "ok" else err(r[1])
                    else:
                        res = ok([])
                elif c == 4:
                    pr.send("flush"); r = pr.recv(); res = ok([]) if r[0] == "ok" else err(r[1])
                elif c == 5:
                    path = by_ord.get(op[2])
                    if path and os.path.exists(path):
                        os.remove(path)
                    res = ok([])
                elif c == 6:
                    k = len(procs)
                    pr.send("fork", k); r = pr.recv()
                    kids.append(r[1])
                    procs.append(Proc(r[1], pipes[k][2], pipes[k][1]))
                    res = k
                elif c == 7:
                    pr.send("len"); r = pr.recv(); res = r[1]
                else:
                    res = listing(pid)
                q = 0 if paused != 0 else 1
                tr.append([res, existing(), listing(q)])
            for pr in procs[1:]:
                pr.send("quit")
            procs[0].send("raise" if case["exc"] else "leave")
            r = procs[0].recv()
            tr.append([ok([]), existing(), []])
            return tr
        finally:
            for k in kids:
                try:
                    os.kill(k, signal.SIGKILL)
                except OSError:
                    pass
            for k in kids[:1]:
                try:
                    os.waitpid(k, 0)
                except OSError:
                    pass
            shutil.rmtree(d, ignore_errors=True)
