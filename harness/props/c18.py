"""C18 - one opened line / map file read from many forked processes (windpyutils/files.py: reopen_if_needed) against
Model/ForkRead.v.  Real forked processes are kept in lock-step by the driver through pipes; an access can be split
between its seek and its readline (the readline of the file / mmap object pauses, installed through module-level
rebinding inside the forked process tree only), so that other processes act in between.  At the end the driver probes
with lseek which processes share an open file description."""
import json
import os
import shutil
import tempfile

from harness.core import Prop, E, exc_code
import select


class Proc:
    """one forked process: commands down, replies up; a reply that does not come within 5 s is an error, never a hang"""
    def __init__(self, pid, rfd, wfd):
        self.pid, self.rfd, self.w = pid, rfd, os.fdopen(os.dup(wfd), "w")
        self.buf = b""

    def send(self, *msg):
        self.w.write(json.dumps(msg) + "\n")
        self.w.flush()

    def recv(self):
        while b"\n" not in self.buf:
            r, _, _ = select.select([self.rfd], [], [], 5.0 * float(os.environ.get("VERIF_TIMEOUT_SCALE", "1")))
            if not r:
                raise RuntimeError("process %d does not answer" % self.pid)
            chunk = os.read(self.rfd, 65536)
            if not chunk:
                raise RuntimeError("process %d died" % self.pid)
            self.buf += chunk
        line, self.buf = self.buf.split(b"\n", 1)
        return json.loads(line)

VARIANTS = ["text", "mmap", "map"]


def proc_main(cmd_r, res_w, variant, path, offsets, pipes):
    from windpyutils import files
    import mmap as real_mmap
    try:
        devnull = os.open(os.devnull, os.O_RDWR)
        for fd in (0, 1, 2):
            os.dup2(devnull, fd)
    except OSError:
        pass
    cmd = os.fdopen(cmd_r, "r")
    res = os.fdopen(res_w, "w")
    armed = [False]

    def reply(x):
        res.write(json.dumps(x) + "\n")
        res.flush()

    def pause():
        if armed[0]:
            armed[0] = False
            reply(["paused"])
            cmd.readline()          # "cont"

    class FileProxy:
        def __init__(self, f):
            self._f = f

        def readline(self, *a):
            pause()
            return self._f.readline(*a)

        def __getattr__(self, n):
            return getattr(self._f, n)

        def __iter__(self):
            return iter(self._f)

        def __enter__(self):
            self._f.__enter__()
            return self

        def __exit__(self, *a):
            return self._f.__exit__(*a)

        def __len__(self):
            return len(self._f)

        def __getitem__(self, k):
            return self._f[k]

    class MMShim:
        def __getattr__(self, n):
            return getattr(real_mmap, n)

        @staticmethod
        def mmap(*a, **k):
            return FileProxy(real_mmap.mmap(*a, **k))
    real_open = open
    files.open = lambda *a, **k: FileProxy(real_open(*a, **k))
    files.mmap = MMShim()
    try:
        f = None
        if variant == "text":
            f = files.RandomLineAccessFile(path)
        elif variant == "mmap":
            f = files.MemoryMappedRandomLineAccessFile(path)
        else:
            f = files.MapAccessFile(path, {i: o for i, o in enumerate(offsets)}, key_type=int)
        f.open()
    except Exception as e:  # noqa
        reply(["fatal", repr(e)])
        os._exit(1)

    def fix(x):
        if isinstance(x, bytes):
            x = x.decode()
        return x.rstrip("\n")
    while True:
        line = cmd.readline()
        if not line:
            os._exit(0)
        msg = json.loads(line)
        c = msg[0]
        try:
            if c == "getsplit":
                armed[0] = True
                if len(msg) > 2 and msg[2] == 1:
                    # the same item reached by iteration (the Sequence protocol does not go through __getitem__)
                    import itertools
                    r = next(itertools.islice(iter(f), msg[1], None))
                else:
                    r = f[msg[1]]
                armed[0] = False
                reply(["ok", fix(r)])
            elif c == "get":
                reply(["ok", fix(f[msg[1]])])
            elif c == "open":
                f.open(); reply(["ok", None])
            elif c == "fork":
                cr, cw, rr, rw = pipes[msg[1]]
                pid = os.fork()
                if pid == 0:
                    cmd = os.fdopen(cr, "r"); res = os.fdopen(rw, "w")
                    continue
                reply(["ok", pid])
            elif c == "lseek":
                reply(["ok", os.lseek(f.file.fileno(), msg[1], os.SEEK_SET)])
            elif c == "tell":
                reply(["ok", os.lseek(f.file.fileno(), 0, os.SEEK_CUR)])
            elif c == "quit":
                os._exit(0)
        except Exception as e:  # noqa
            armed[0] = False
            reply(["err", exc_code(e)])


def run_case(case):
    base = os.environ.get("VERIF_SCRATCH_DIR") or tempfile.gettempdir()
    d = tempfile.mkdtemp(prefix="fr_", dir=base)
    path = os.path.join(d, "data.txt")
    lines = case["lines"]
    with open(path, "w", newline="\n") as fh:
        for ln in lines:
            fh.write(ln + "\n")
    offsets, o = [], 0
    for ln in lines:
        offsets.append(o)
        o += len(ln.encode("utf-8")) + 1
    nproc = 1 + sum(1 for e in case["events"] if e[0] == 0)
    pipes = [os.pipe() + os.pipe() for _ in range(nproc)]          # (cmd_r, cmd_w, res_r, res_w)
    root = os.fork()
    if root == 0:
        try:
            os.setsid()
        except OSError:
            pass
        cr, cw, rr, rw = pipes[0]
        proc_main(cr, rw, case["variant"], path, offsets, pipes)
        os._exit(0)
    procs = {0: Proc(root, pipes[0][2], pipes[0][1])}
    reads, pending, err = [], {}, None
    try:
        for e in case["events"]:
            if e[0] == 0:
                p, c = e[1], e[2]
                procs[p].send("fork", c)
                r = procs[p].recv()
                procs[c] = Proc(r[1], pipes[c][2], pipes[c][1])
            elif e[0] == 1:
                p, i = e[1], e[2]
                procs[p].send("getsplit", i, e[3] if len(e) > 3 else 0)
                r = procs[p].recv()
                if r[0] == "paused":
                    pending[p] = i
                else:              # the access did not reach a readline (error) - record it
                    reads.append([p, i, r])
            elif e[0] == 2:
                p = e[1]
                i = pending.pop(p)
                procs[p].send("cont")
                r = procs[p].recv()
                reads.append([p, i, r])
            elif e[0] == 3:
                procs[e[1]].send("open"); procs[e[1]].recv()
        for p in list(pending):
            procs[p].send("cont"); r = procs[p].recv(); reads.append([p, pending.pop(p), r])
        # which processes share an open file description: lseek probe
        ids = sorted(procs)
        share = []
        for a in ids:
            procs[a].send("lseek", 7000 + a); procs[a].recv()
            row = []
            for b in ids:
                procs[b].send("tell"); row.append(1 if procs[b].recv()[1] == 7000 + a else 0)
            share.append(row)
    except Exception as ex:  # noqa
        err = repr(ex)
    finally:
        for p in procs.values():
            try:
                p.send("quit")
            except Exception:  # noqa
                pass
        for p in procs.values():
            try:
                os.kill(p.pid, 9)
            except OSError:
                pass
        try:
            os.waitpid(root, 0)
        except OSError:
            pass
        for t in pipes:
            for fd in t:
                try:
                    os.close(fd)
                except OSError:
                    pass
        shutil.rmtree(d, ignore_errors=True)
    return dict(reads=reads, share=share if err is None else None, error=err, offsets=offsets)


class P(Prop):
    id = "C18"
    case_timeout = 15.0
    quick_n = 600
    thorough_n = 3000
    trusted = ["real fork(); lock-step driver over pipes; readline of the file / mmap object pauses on request (module-level rebinding of "
               "files.open and files.mmap inside the forked process tree); lseek probe of descriptor sharing"]
    assumptions = ["POSIX: fork() shares the open file description and its position; open() creates a new one",
                   "a seek of the text / binary file object issues lseek on its descriptor and the following readline reads at the descriptor's position (observed: strace)",
                   "fork happens between accesses of the forking process, never between the seek and the readline of one access"]
    rule = ("One case = variant (buffered text, memory-mapped, MapAccessFile) x file of 2-6 lines x schedule of forks (children of children too), "
            "accesses (by index, or - text and memory-mapped variants - by iterating up to the item) split into seek and readline so that any other process can seek / read / fork in between, and redundant open() calls.  "
            "VIOLATION when any read in any process differs from the line it would return in a single process.  CORRESPONDENCE: the same "
            "schedule run on the extracted Coq model gives the same reads and the same partition of the processes by open file description "
            "(lseek probe).")

    def gen_case(self, rng):
        nl = rng.randint(2, 6)
        lines = ["".join(rng.choice("abcxyz01 é") for _ in range(rng.randint(0, 6))) + str(k) for k in range(nl)]
        maxp = rng.randint(1, 4)
        events, live, pending = [], [0], {}
        for _ in range(rng.randint(4, 22)):
            r = rng.random()
            p = rng.choice(live)
            if r < 0.18 and len(live) < maxp and p not in pending:
                c = len(live)
                events.append([0, p, c]); live.append(c)
            elif r < 0.25 and p not in pending:
                events.append([3, p])
            elif p in pending:
                events.append([2, p]); del pending[p]
            else:
                i = rng.randrange(nl)
                if rng.random() < 0.3 and events and events[-1][0] == 2:
                    i = min(nl - 1, i)          # keep some sequential accesses
                events.append([1, p, i]); pending[p] = i
        for p in list(pending):
            events.append([2, p])
        variant = rng.choice(VARIANTS)
        if variant != "map":
            # some accesses reach their line by iteration instead of indexing - often the first access of a process
            first = set()
            for e in events:
                if e[0] == 1:
                    if rng.random() < (0.5 if e[1] not in first else 0.15):
                        e.append(1)
                    first.add(e[1])
        return dict(variant=variant, lines=lines, events=events)

    def generate(self, rng, tier, n):
        for _ in range(n):
            yield self.gen_case(rng)

    def exhaustive(self, tier):
        lines = ["a0", "bb1", "ccc2"]
        scheds = [
            [[0, 0, 1], [1, 0, 0], [1, 1, 1], [2, 0], [2, 1]],
            [[1, 0, 0], [2, 0], [0, 0, 1], [1, 1, 1], [2, 1], [1, 0, 1], [2, 0]],
            [[0, 0, 1], [3, 1], [1, 0, 2], [1, 1, 0], [2, 0], [2, 1]],
            [[0, 0, 1], [1, 1, 0], [2, 1], [0, 1, 2], [1, 2, 2], [1, 1, 1], [1, 0, 0], [2, 2], [2, 0], [2, 1]],
            [[0, 0, 1], [0, 0, 2], [3, 2], [3, 1], [1, 1, 2], [1, 2, 0], [1, 0, 1], [2, 1], [2, 2], [2, 0]],
        ]
        for v in VARIANTS:
            for sc in scheds:
                yield dict(variant=v, lines=lines, events=sc)

    def impl(self, case):
        o = run_case(case)
        if o["error"]:
            return {"harness_error": o["error"]}
        rd = [[p, i, (list(r[1].encode("utf-8")) if r[0] == "ok" else ["err", r[1]])] for p, i, r in o["reads"]]
        # partition of processes by open file description, as the sorted list of groups
        n = len(o["share"])
        groups, seen = [], set()
        for a in range(n):
            if a in seen:
                continue
            g = [b for b in range(n) if o["share"][a][b]]
            seen.update(g)
            groups.append(g)
        return ["i", rd, sorted(groups)]

    def to_model(self, case):
        content = []
        for ln in case["lines"]:
            content += list(ln.encode("utf-8")) + [10]
        offs, o = [], 0
        for ln in case["lines"]:
            offs.append(o); o += len(ln.encode("utf-8")) + 1
        evs = [e[:3] for e in case["events"] if e[0] != 3]
        return 1800, [1, content, offs, evs]

    def canon(self, case, obs):
        # implementation: ["i", reads, partition]; model: [reads, [[ofd, owner] | [] per pid]] -> [reads, partition]
        if isinstance(obs, list) and obs and obs[0] == "i":
            return [obs[1], obs[2]]
        if isinstance(obs, list) and len(obs) == 2:
            by = {}
            for p, x in enumerate(obs[1]):
                if x:
                    by.setdefault(x[0], []).append(p)
            return [obs[0], sorted(by.values())]
        return obs

    def expected_reads(self, case):
        pend, out = {}, []
        for e in case["events"]:
            if e[0] == 1:
                pend[e[1]] = e[2]
            elif e[0] == 2:
                i = pend.pop(e[1]); out.append([e[1], i, list(case["lines"][i].encode("utf-8"))])
        return out

    def in_domain(self, case):
        return True

    def accept(self, case, impl_obs, model_obs):
        # the property itself: every read is the line of the item, in every process
        return isinstance(impl_obs, list) and impl_obs[0] == self.expected_reads(case)

    def nontrivial(self, case, obs):
        return sum(1 for e in case["events"] if e[0] == 0) >= 1

    def signature(self, case, i, m):
        return "wrong line" if isinstance(i, list) else "harness"

    def shrink_candidates(self, case):
        ev = case["events"]
        for k in range(len(ev)):
            if ev[k][0] == 3:
                c = dict(case); c["events"] = ev[:k] + ev[k + 1:]; yield c
            if ev[k][0] == 1:
                # drop an access (its seek and its read)
                p = ev[k][1]
                rest = ev[k + 1:]
                j = next((x for x in range(len(rest)) if rest[x][0] == 2 and rest[x][1] == p), None)
                if j is not None:
                    c = dict(case); c["events"] = ev[:k] + rest[:j] + rest[j + 1:]; yield c
