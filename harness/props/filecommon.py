"""Shared helpers for the line-file harnesses (C11, C12, C13)."""
import os
import shutil
import tempfile

ALPHA = ["a", "b", " ", "é", "€", "😀", "\r", "x", ",", '"']

READ_CLASSES = ["RandomLineAccessFile", "MemoryMappedRandomLineAccessFile", "RecordFile", "MemoryMappedRecordFile",
                "MutableRandomLineAccessFile", "MutableMemoryMappedRandomLineAccessFile", "MutableRecordFile",
                "MutableMemoryMappedRecordFile"]
MUT_CLASSES = READ_CLASSES[4:]


def scratch_dir():
    base = os.environ.get("VERIF_SCRATCH_DIR") or tempfile.gettempdir()
    return tempfile.mkdtemp(prefix="lf_", dir=base)


def gen_line(rng, maxlen=8, long_ok=True):
    if long_ok and rng.random() < 0.02:
        return "".join(rng.choice(ALPHA) for _ in range(rng.randint(9000, 9400)))
    return "".join(rng.choice(ALPHA) for _ in range(rng.randint(0, maxlen)))


def gen_content(rng, maxlines=7, allow_empty=True):
    n = rng.randint(0 if allow_empty else 1, maxlines)
    lines = [gen_line(rng) for _ in range(n)]
    s = "\n".join(lines)
    if lines and rng.random() < 0.6:
        s += "\n"
    if rng.random() < 0.1:
        s = s.replace("\n", "\r\n")
    return s


def b2l(b):
    return list(b)


def s2b(s):
    return list(s.encode("utf-8"))


def raw_record_class():
    from dataclasses import dataclass
    from windpyutils.files import Record

    @dataclass
    class RawRecord(Record):
        s: str

        @classmethod
        def load(cls, s):
            return cls(s)

        def save(self):
            return self.s
    return RawRecord


def make_file(files, cls_name, path, index, RawRecord):
    cls = getattr(files, cls_name)
    if "Record" in cls_name:
        return cls(path, RawRecord, index) if index is not None else cls(path, RawRecord)
    return cls(path, index) if index is not None else cls(path)


def unwrap(x, RawRecord):
    return x.s if isinstance(x, RawRecord) else x
