"""C08 - DoublyLinkedList against the heap model Model/DLL.v."""
import itertools

from harness.core import Prop, attempt, ok, err, E, exc_code


def ref_apply(l, nxt_id, op):
    """reference list-of-ordinals semantics used by the generator to pick member nodes"""
    k = op[0]
    if k == 0:
        l.append(nxt_id); return nxt_id + 1
    if k == 1:
        l.insert(0, nxt_id); return nxt_id + 1
    if k == 2:
        for _ in op[1]:
            l.append(nxt_id); nxt_id += 1
        return nxt_id
    if k == 3:
        for _ in op[1]:
            l.insert(0, nxt_id); nxt_id += 1
        return nxt_id
    if k == 4:
        l.remove(op[1])
    elif k == 5:
        if l: l.pop()
    elif k == 6:
        if l: l.pop(0)
    elif k == 7:
        l.remove(op[1]); l.insert(0, op[1])
    elif k == 8:
        l.remove(op[1]); l.append(op[1])
    elif k == 9:
        if op[1] != op[2]:
            l.remove(op[1]); l.insert(l.index(op[2]) + 1, op[1])
    elif k == 10:
        if len(l) >= 2:
            if op[1]:
                l.append(l.pop(0))
            else:
                l.insert(0, l.pop())
    return nxt_id


class P(Prop):
    id = "C08"
    quick_n = 2500
    thorough_n = 30000
    case_timeout = 10.0
    rule = ("a case = an operation history; node arguments are creation ordinals of nodes that are members at that "
            "point (chosen with a reference list simulation); payload alphabets: all equal, two values, all distinct; "
            "after EVERY operation the implementation is walked forward (next links from head) and backward (prev "
            "links from tail), and len(), head, tail are read.  exhaustive: all histories of length <=3 (quick) / <=4 "
            "(thorough) over a reduced op alphabet; random: histories up to 30 ops; plus long runs (300 equal "
            "payloads under a lowered recursion limit) for the move/rotate operations far from the ends.  non-trivial = a move/rotate/remove on a list "
            "of >= 3 nodes; distinct by canonical case text")
    trusted = ["Python object identity modelled as creation ordinal"]

    # ------------------------------------------------------------------ generation
    def gen_history(self, rng, nops, alphabet):
        l, nid, ops = [], 0, []
        for _ in range(nops):
            r = rng.random()
            pay = lambda: rng.choice(alphabet) if alphabet else 1000 + nid
            if not l or r < 0.22:
                op = [rng.choice([0, 1]), pay()]
            elif r < 0.28:
                op = [rng.choice([2, 3]), [pay() for _ in range(rng.randint(0, 3))]]
            elif r < 0.40:
                op = [4, rng.choice(l)]
            elif r < 0.46:
                op = [rng.choice([5, 6])]
            elif r < 0.60:
                op = [rng.choice([7, 8]), rng.choice(l)]
            elif r < 0.82:
                op = [9, rng.choice(l), rng.choice(l)]
            else:
                op = [10, rng.randint(0, 1)]
            ops.append(op)
            nid = ref_apply(l, nid, op)
        return ops

    def exhaustive(self, tier):
        depth = 3 if tier == "quick" else 4
        # grow histories breadth-first; at each step every applicable op with every member node
        def expand(l, nid):
            cand = [[0, 5], [1, 5], [5], [6], [10, 1], [10, 0]]
            for k in l:
                cand += [[4, k], [7, k], [8, k]]
                for j in l:
                    cand.append([9, k, j])
            return cand
        frontier = [([], [], 0)]
        start = [[2, [5, 5, 5]]]
        l0, n0 = [], 0
        n0 = ref_apply(l0, n0, start[0])
        frontier = [(start, l0, n0)]
        for d in range(depth):
            nxt = []
            for ops, l, nid in frontier:
                for op in expand(l, nid):
                    l2 = list(l)
                    n2 = ref_apply(l2, nid, op)
                    nxt.append((ops + [op], l2, n2))
            for ops, _, _ in nxt:
                yield dict(ops=ops)
            frontier = nxt
            if len(frontier) > 6000:
                frontier = frontier[::max(1, len(frontier) // 3000)]

    def generate(self, rng, tier, n):
        # long runs of equal payloads: comparisons by value would recurse through the whole list
        # (the worker lowers the interpreter's recursion limit for these, so 300 nodes are plenty)
        for f2b in (0, 1):
            yield dict(ops=[[2, [7] * 300], [9, 150, 152], [9, 200, 10], [8, 160], [7, 170], [10, f2b], [4, 180],
                            [9, 120, 250], [8, 140], [7, 155]], long=1)
        for _ in range(n):
            alphabet = rng.choice([[7], [1, 2], None])
            yield dict(ops=self.gen_history(rng, rng.randint(1, 30), alphabet))

    def to_model(self, case):
        return 800, case["ops"]

    def canon(self, case, obs):
        if case.get("long") and isinstance(obs, list):
            # long lists: keep result, len, head, tail and a digest of the walks
            out = []
            for o in obs:
                if isinstance(o, list) and len(o) == 7:
                    out.append([o[0], len(o[1]), o[1][:5], o[1][-5:], len(o[3]), o[3][:5], o[4], o[5], o[6],
                                sum((i + 1) * x for i, x in enumerate(o[1])) % 1000003])
                else:
                    out.append(o)
            return out
        return obs

    def nontrivial(self, case, obs):
        return any(op[0] in (4, 7, 8, 9, 10) for op in case["ops"]) and len(case["ops"]) >= 3

    def signature(self, case, i, m):
        return "dll"

    # ------------------------------------------------------------------ implementation
    def impl(self, case):
        import sys
        from windpyutils.structures.lists import DoublyLinkedList
        sys.setrecursionlimit(150 if case.get("long") else 1000)
        try:
            return self.impl_inner(case, DoublyLinkedList)
        finally:
            sys.setrecursionlimit(1000)

    def impl_inner(self, case, DoublyLinkedList):
        dl = DoublyLinkedList()
        nodes = []          # ordinal -> node object
        ident = {}          # id(node) -> ordinal

        def reg(node):
            ident[id(node)] = len(nodes)
            nodes.append(node)

        def walk(start, attr, limit):
            out, cur = [], start
            while cur is not None and len(out) < limit:
                out.append(ident.get(id(cur), -1))
                cur = getattr(cur, attr)
            return out

        tr = []
        for op in case["ops"]:
            k = op[0]

            def run():
                if k == 0:
                    reg(dl.append(op[1])); return []
                if k == 1:
                    reg(dl.prepend(op[1])); return []
                if k == 2:
                    before = dl.tail
                    dl.extend(op[1])
                    cur = dl.head if before is None else before.next_node
                    for _ in range(len(op[1])):
                        if cur is None:
                            break
                        reg(cur); cur = cur.next_node
                    return []
                if k == 3:
                    before = dl.head
                    dl.pre_extend(op[1])
                    cur = dl.tail if before is None else before.prev_node
                    for _ in range(len(op[1])):
                        if cur is None:
                            break
                        reg(cur); cur = cur.prev_node
                    return []
                if k == 4:
                    dl.remove(nodes[op[1]]); return []
                if k == 5:
                    return dl.pop_back()
                if k == 6:
                    return dl.pop_front()
                if k == 7:
                    dl.move_to_front(nodes[op[1]]); return []
                if k == 8:
                    dl.move_to_back(nodes[op[1]]); return []
                if k == 9:
                    dl.move_after(nodes[op[1]], nodes[op[2]]); return []
                dl.rotate(front_to_back=bool(op[1])); return []
            r = attempt(run)
            limit = len(nodes) + 1
            fw = walk(dl.head, "next_node", limit)
            pay = []
            cur = dl.head
            while cur is not None and len(pay) < limit:
                pay.append(cur.data); cur = cur.next_node
            bw = walk(dl.tail, "prev_node", limit)
            tr.append([r, fw, pay, bw, len(dl),
                       [ident.get(id(dl.head), -1)] if dl.head is not None else [],
                       [ident.get(id(dl.tail), -1)] if dl.tail is not None else []])
        return tr
