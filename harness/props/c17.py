"""C17 - sorted_combinations / min_combinations_in_interval_iter_sorted against Model/Combos.v."""
import itertools

from harness.core import Prop, attempt


def key_fn(kind):
    if kind == 0:
        return lambda c: sum(c)
    if kind == 1:
        return lambda c: max(c, default=0) if max(c, default=0) > 0 else 0
    if kind == 2:
        return lambda c: len(c)
    return lambda c: 7


class P(Prop):
    id = "C17"
    quick_n = 1500
    thorough_n = 15000
    case_timeout = 30.0
    rule = ("sorted_combinations: element lists of non-negative ints WITH repeats and zeros, key in {sum, max, len, "
            "constant} (all monotone under appending), yield_key on and off, compared as the complete ordered output; "
            "min_combinations_in_interval_iter_sorted: every score vector over {0,1,2,3} of length <=4 (quick) / <=5 "
            "(thorough) x every interval over -1..13 (thorough) or a sample (quick), plus random n<=9.  non-trivial = "
            "n>=2 with a tie in the keys; distinct by canonical case text")
    trusted = ["heapq modelled as an exact priority queue on Python's tuple order (key, len, comb, index)"]

    def exhaustive(self, tier):
        nmax = 4 if tier == "quick" else 5
        for n in range(0, nmax + 1):
            for sc in itertools.product(range(4), repeat=n):
                ivs = [(a, b) for a in range(-1, 14) for b in range(a, 14)]
                if tier == "quick":
                    ivs = ivs[::7] + [(0, 1), (0, 3), (1, 2)]
                for (a, b) in ivs:
                    yield dict(kind="min", scores=list(sc), lo=a, hi=b)
        for n in range(0, 4 if tier == "quick" else 6):
            for els in itertools.product(range(3), repeat=n):
                for k in range(4):
                    yield dict(kind="sc", key=k, els=list(els), yk=(n + k) % 2)

    def generate(self, rng, tier, n):
        for _ in range(n):
            if rng.random() < 0.5:
                m = rng.randint(0, 9)
                sc = [rng.choice([0, 0, 1, 1, 2, 3, 5, 8]) for _ in range(m)]
                lo = rng.randint(-1, 12)
                yield dict(kind="min", scores=sc, lo=lo, hi=lo + rng.randint(0, 8))
            else:
                m = rng.randint(0, 9)
                yield dict(kind="sc", key=rng.randrange(4), els=[rng.choice([0, 1, 1, 2, 3, 5]) for _ in range(m)],
                           yk=rng.randrange(2))

    def to_model(self, case):
        if case["kind"] == "min":
            return 1701, [case["scores"], case["lo"], case["hi"]]
        return 1700, [case["key"], case["els"]]

    def canon(self, case, obs):
        if case["kind"] == "sc" and not case["yk"] and isinstance(obs, list):
            # yield_key=False: only the combinations are observable
            return [o[0] if isinstance(o, list) and len(o) == 2 and isinstance(o[0], list) else o for o in obs]
        return obs

    def nontrivial(self, case, obs):
        v = case["scores"] if case["kind"] == "min" else case["els"]
        return len(v) >= 2 and len(set(v)) < len(v)

    def signature(self, case, i, m):
        return case["kind"]

    def shrink_candidates(self, case):
        k = "scores" if case["kind"] == "min" else "els"
        l = case[k]
        for i in range(len(l)):
            c = dict(case)
            c[k] = l[:i] + l[i + 1:]
            yield c

    def impl(self, case):
        from windpyutils import generic as g
        if case["kind"] == "min":
            sc = case["scores"]
            r = g.min_combinations_in_interval_iter_sorted(list(range(len(sc))), sc, case["lo"], case["hi"])
            return [[list(c), s] for c, s in r]
        kf = key_fn(case["key"])
        if case["yk"]:
            return [[list(c), k] for c, k in g.sorted_combinations(case["els"], kf, yield_key=True)]
        return [list(c) for c in g.sorted_combinations(case["els"], kf)]
