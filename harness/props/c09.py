"""C09 - SortedSet / SortedMap against Model/Sorted.v."""
import itertools

from harness.core import Prop, attempt, ok, err, E

FOREIGN = ["a", None, (1, 2)]


def conv(flag):
    if flag == 0:
        return lambda x: x
    if flag == 1:
        return lambda x: float(x)
    return lambda x: float(x) if x % 2 else x


def pykey(k, cv):
    return FOREIGN[k[0] % 3] if isinstance(k, list) else cv(k)


class P(Prop):
    id = "C09"
    quick_n = 3000
    thorough_n = 40000
    rule = ("a case = initial values (any order, with repeats, possibly empty) + an operation history; keys are ints "
            "on the model side and ints / equal floats / a mix on the implementation side; foreign probes are 'a', "
            "None and a tuple.  SortedSet: add, discard, remove, in, pop, clear, |=, -=; SortedMap: get, set, del, "
            "in, get(default), pop, popitem, clear, update, setdefault, items, == dict.  After every operation the "
            "result, the full iteration and len are compared.  exhaustive: every initial list over {0,1,2} up to "
            "length 3 (4) x every history of <=2 (3) ops over a small alphabet; random: histories up to 25 ops over "
            "keys -3..8.  non-trivial = the initial values contain a repeat or are unsorted; distinct by canonical text")
    trusted = ["bisect.bisect_left modelled as CPython's binary search", "dict() keeps first-insertion order, later pairs win",
               "Python ints and equal floats are the same key (exact comparison)"]

    def exhaustive(self, tier):
        L, H = (3, 2) if tier == "quick" else (4, 3)
        inits = [list(s) for n in range(0, L + 1) for s in itertools.product(range(3), repeat=n)]
        salpha = [[0, 1], [0, 3], [1, 1], [2, 1], [2, 5], [3, 2], [3, [0]], [2, [1]], [1, [2]], [4], [5], [6, [2, 0]], [7, [1]]]
        malpha = [[0, 1], [0, [0]], [1, 1, 7], [1, 3, 9], [1, [1], 5], [2, 1], [2, [2]], [3, 2], [3, [0]], [5, 1], [7], [8],
                  [10, 2, 4], [11]]
        for k, ini in enumerate(inits):
            for h in range(0, H + 1):
                for seq in itertools.product(salpha, repeat=h):
                    yield dict(kind="set", init=ini, ops=[list(o) for o in seq], fl=k % 3)
            pairs = [[x, 10 * j + x] for j, x in enumerate(ini)]
            for h in range(0, min(H, 2) + 1):
                for seq in itertools.product(malpha, repeat=h):
                    yield dict(kind="map", init=pairs, ops=[list(o) for o in seq], fl=k % 3)

    def generate(self, rng, tier, n):
        for _ in range(n):
            key = lambda: rng.randint(-3, 8)
            probe = lambda: [rng.randrange(3)] if rng.random() < 0.12 else key()
            if rng.random() < 0.5:
                ini = [key() for _ in range(rng.randint(0, 8))]
                ops = []
                for _ in range(rng.randint(0, 25)):
                    r = rng.random()
                    if r < 0.35:
                        ops.append([0, key()])
                    elif r < 0.5:
                        ops.append([1, probe()])
                    elif r < 0.62:
                        ops.append([2, probe()])
                    elif r < 0.8:
                        ops.append([3, probe()])
                    elif r < 0.86:
                        ops.append([4])
                    elif r < 0.88:
                        ops.append([5])
                    elif r < 0.94:
                        ops.append([6, [key() for _ in range(rng.randint(0, 4))]])
                    else:
                        ops.append([7, [key() for _ in range(rng.randint(0, 4))]])
                yield dict(kind="set", init=ini, ops=ops, fl=rng.randrange(3))
            else:
                ini = [[key(), rng.randint(0, 99)] for _ in range(rng.randint(0, 8))]
                ops = []
                for _ in range(rng.randint(0, 25)):
                    r = rng.random()
                    v = rng.randint(0, 99)
                    if r < 0.3:
                        ops.append([1, probe(), v])
                    elif r < 0.45:
                        ops.append([0, probe()])
                    elif r < 0.55:
                        ops.append([2, probe()])
                    elif r < 0.63:
                        ops.append([3, probe()])
                    elif r < 0.68:
                        ops.append([4, probe(), -1])
                    elif r < 0.74:
                        ops.append([rng.choice([5, 6]), probe()] + ([] if False else []))
                        if ops[-1][0] == 6:
                            ops[-1].append(-2)
                    elif r < 0.79:
                        ops.append([7])
                    elif r < 0.81:
                        ops.append([8])
                    elif r < 0.88:
                        ops.append([9, [[key(), rng.randint(0, 99)] for _ in range(rng.randint(0, 4))]])
                    elif r < 0.93:
                        ops.append([10, key(), v])
                    elif r < 0.97:
                        ops.append([11])
                    else:
                        ops.append([12, [[key(), rng.randint(0, 3)] for _ in range(rng.randint(0, 3))]])
                yield dict(kind="map", init=ini, ops=ops, fl=rng.randrange(3))

    def to_model(self, case):
        return (900 if case["kind"] == "set" else 901), [case["init"], case["ops"]]

    def nontrivial(self, case, obs):
        ks = case["init"] if case["kind"] == "set" else [p[0] for p in case["init"]]
        return ks != sorted(set(ks))

    def signature(self, case, i, m):
        return case["kind"]

    def shrink_candidates(self, case):
        yield from Prop.shrink_candidates(self, case)
        l = case["init"]
        for i in range(len(l)):
            c = dict(case)
            c["init"] = l[:i] + l[i + 1:]
            yield c

    def impl(self, case):
        from windpyutils.structures.sorted import SortedSet, SortedMap
        cv = conv(case["fl"])
        num = lambda x: int(x) if isinstance(x, (int, float)) and not isinstance(x, bool) else -999
        if case["kind"] == "set":
            def build():
                return SortedSet([cv(x) for x in case["init"]])
            try:
                s = build()
            except Exception as e:
                from harness.core import exc_code
                return err(exc_code(e))
            tr = []
            for op in case["ops"]:
                c = op[0]
                if c == 0:
                    r = attempt(lambda: (s.add(cv(op[1])), [])[1])
                elif c == 1:
                    r = attempt(lambda: (s.discard(pykey(op[1], cv)), [])[1])
                elif c == 2:
                    r = attempt(lambda: (s.remove(pykey(op[1], cv)), [])[1])
                elif c == 3:
                    r = 1 if pykey(op[1], cv) in s else 0
                elif c == 4:
                    r = attempt(lambda: num(s.pop()))
                elif c == 5:
                    r = attempt(lambda: (s.clear(), [])[1])
                elif c == 6:
                    def f():
                        nonlocal s
                        s |= [cv(x) for x in op[1]]
                        return []
                    r = attempt(f)
                else:
                    def f():
                        nonlocal s
                        s -= [cv(x) for x in op[1]]
                        return []
                    r = attempt(f)
                tr.append([r, [num(x) for x in s], len(s)])
            return [[num(x) for x in build()], tr]
        try:
            m = SortedMap([(cv(k), v) for k, v in case["init"]])
        except Exception as e:
            from harness.core import exc_code
            return err(exc_code(e))
        first = [[num(k) for k in m], [m[k] for k in list(m)]]
        tr = []
        for op in case["ops"]:
            c = op[0]
            if c == 0:
                r = attempt(lambda: m[pykey(op[1], cv)])
            elif c == 1:
                def f():
                    m[pykey(op[1], cv)] = op[2]
                    return []
                r = attempt(f)
            elif c == 2:
                def f():
                    del m[pykey(op[1], cv)]
                    return []
                r = attempt(f)
            elif c == 3:
                r = 1 if pykey(op[1], cv) in m else 0
            elif c == 4:
                r = m.get(pykey(op[1], cv), op[2])
            elif c == 5:
                r = attempt(lambda: m.pop(pykey(op[1], cv)))
            elif c == 6:
                r = m.pop(pykey(op[1], cv), op[2])
            elif c == 7:
                r = attempt(lambda: [num(x) if j == 0 else x for j, x in enumerate(m.popitem())])
            elif c == 8:
                r = attempt(lambda: (m.clear(), [])[1])
            elif c == 9:
                r = attempt(lambda: (m.update([(cv(k), v) for k, v in op[1]]), [])[1])
            elif c == 10:
                r = m.setdefault(cv(op[1]), op[2])
            elif c == 11:
                r = [[num(k), v] for k, v in m.items()]
            else:
                r = 1 if m == dict((cv(k), v) for k, v in op[1]) else 0
            tr.append([r, [num(k) for k in m], list(m.values()), len(m)])
        return first + [tr]
