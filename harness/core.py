"""Shared machinery of the checks: proof stage, model runner, sandboxed implementation runs,
verdict protocol (VIOLATION / KNOWN-FINDING / no-failing-input-found), evidence files.

Everything a check compares is a *val*: an int or a (nested) list of vals - the same wire format the Coq model
uses (Common/Val.v)."""
import hashlib
import importlib
import json
import os
import random
import re
import shutil
import signal
import subprocess
import sys
import tempfile
import time

VERIF = os.path.dirname(os.path.dirname(os.path.abspath(__file__)))
REPO = os.environ.get("VERIF_REPO", "/repo")
COQ = os.path.join(VERIF, "coq")
RUNNER = os.path.join(VERIF, "runner", "modelrun")
PY = "/venv/bin/python"
NCPU = min(16, os.cpu_count() or 4)
HANG_LIMIT = 48
BATCH = 120

# exception codes shared with Common/Val.v
E = dict(Index=1, Key=2, Value=3, Type=4, Runtime=5, Attribute=6, Recursion=7, Assertion=8, StopIteration=9,
         Other=99, Diverges=100, Crash=101)


def exc_code(e):
    for name, cls in (("Index", IndexError), ("Key", KeyError), ("Value", ValueError), ("Type", TypeError),
                      ("Recursion", RecursionError), ("Runtime", RuntimeError), ("Attribute", AttributeError),
                      ("Assertion", AssertionError), ("StopIteration", StopIteration)):
        if isinstance(e, cls):
            return E[name]
    return E["Other"]


def ok(v):
    return [0, v]


def err(code):
    return [1, code]


def s2v(s):
    """str -> list of code points"""
    return [ord(c) for c in s]


def v2s(v):
    return "".join(chr(c) for c in v)


class CaseTimeout(BaseException):
    pass


def attempt(fn):
    """Run fn() and encode its outcome: [0, value] or [1, exception code]."""
    try:
        return ok(fn())
    except CaseTimeout:
        raise
    except RecursionError:
        return err(E["Recursion"])
    except Exception as e:  # noqa
        return err(exc_code(e))


# ----------------------------------------------------------------------------------------------- property base
class Prop:
    """One property's harness.  Subclasses live in harness/props/cNN.py as class P."""
    id = "C00"
    case_timeout = 5.0            # seconds per implementation case (a time-out is the observation 'diverges')
    quick_n = 1000
    thorough_n = 20000
    rule = ""
    trusted = []
    assumptions = []

    def corpus(self):
        """Minimised past disagreements / refutation witnesses: always run first."""
        path = os.path.join(VERIF, "corpus", self.id)
        out = []
        if os.path.isdir(path):
            for fn in sorted(os.listdir(path)):
                if fn.endswith(".json"):
                    with open(os.path.join(path, fn)) as f:
                        d = json.load(f)
                    out.append(d["case"] if "case" in d else d)
        return out

    def generate(self, rng, tier, n):
        raise NotImplementedError

    def exhaustive(self, tier):
        """Small-scope exhaustive enumeration (may be empty)."""
        return []

    def impl(self, case):
        """Run the case on the implementation imported from /repo; return a val."""
        raise NotImplementedError

    def to_model(self, case):
        """-> (entry code, val)"""
        raise NotImplementedError

    def canon(self, case, obs):
        """Canonicalise an observation (model's and implementation's alike) before diffing: sort set-like parts..."""
        return obs

    def in_domain(self, case):
        """True when the property fixes the observation of this case completely, so that any difference
        between implementation and model is a violation with this case as the failing input."""
        return True

    def accept(self, case, impl_obs, model_obs):
        """Property oracle for cases where model and implementation differ: True = the implementation's
        observation still satisfies the property text (then only the correspondence is broken)."""
        return False

    def nontrivial(self, case, impl_obs):
        return True

    def signature(self, case, impl_obs, model_obs):
        """Identification of a failing case for known_findings.json."""
        return "generic"

    def shrink_candidates(self, case):
        """Smaller variants of a failing case."""
        if isinstance(case, dict) and isinstance(case.get("ops"), list):
            ops = case["ops"]
            n = len(ops)
            chunk = max(1, n // 2)
            while chunk >= 1:
                for i in range(0, n, chunk):
                    c = dict(case)
                    c["ops"] = ops[:i] + ops[i + chunk:]
                    yield c
                if chunk == 1:
                    break
                chunk //= 2

    def extra_stage(self, ctx):
        """Optional additional stage (real processes, forks ...). Returns list of failure dicts."""
        return []


# ----------------------------------------------------------------------------------------------- proof stage
FORBIDDEN = re.compile(r"\b(Admitted|admit|Axiom|Axioms|Parameter|Parameters|Conjecture|Conjectures|Hypothesis|Hypotheses|Variable|Variables|"
                       r"bypass_check|Unset\s+Guard|Unset\s+Positivity|Unset\s+Universe|type-in-type|impredicative-set|"
                       r"Admit\s+Obligations|native_compute)\b")
SECTION_OK = re.compile(r"\b(Variable|Variables|Hypothesis|Hypotheses)\b")


def strip_comments(src):
    out = []
    depth = 0
    i = 0
    while i < len(src):
        if src.startswith("(*", i):
            depth += 1
            i += 2
        elif src.startswith("*)", i) and depth > 0:
            depth -= 1
            i += 2
        else:
            if depth == 0:
                out.append(src[i])
            i += 1
    return "".join(out)


def scan_forbidden():
    """grep the development for anything that would declare an axiom or switch a check off.
    Variable/Hypothesis are allowed only inside a Section (they are discharged at End)."""
    bad = []
    for root, _, files in os.walk(os.path.join(COQ, "theories")):
        for fn in files:
            if not fn.endswith(".v"):
                continue
            p = os.path.join(root, fn)
            src = strip_comments(open(p).read())
            depth = 0
            for ln, line in enumerate(src.split("\n"), 1):
                if re.match(r"\s*Section\b", line):
                    depth += 1
                if re.match(r"\s*End\b", line) and depth > 0:
                    depth -= 1
                for m in FORBIDDEN.finditer(line):
                    if SECTION_OK.fullmatch(m.group(0)) and depth > 0:
                        continue
                    if m.group(0) in ("Variable", "Variables", "Hypothesis", "Hypotheses") and depth > 0:
                        continue
                    bad.append("%s:%d: %s" % (os.path.relpath(p, VERIF), ln, m.group(0)))
    for p in (os.path.join(COQ, "_CoqProject"),):
        if os.path.exists(p):
            t = open(p).read()
            for w in ("type-in-type", "impredicative-set", "-vos", "-vok"):
                if w in t:
                    bad.append("_CoqProject: " + w)
    return bad


ALLOWED_AXIOMS = set()  # none needed so far; a stdlib axiom that becomes necessary is listed here AND in DESIGN.md


def ensure_built(log):
    """Full .vo build (no-op when up to date) and the extracted runner."""
    mk = os.path.join(COQ, "Makefile")
    if not os.path.exists(mk):
        subprocess.run(["coq_makefile", "-f", "_CoqProject", "-o", "Makefile"], cwd=COQ, check=True,
                       stdout=subprocess.DEVNULL, stderr=subprocess.DEVNULL)
    r = subprocess.run(["timeout", "1500", "make", "-j%d" % NCPU], cwd=COQ, stdout=subprocess.PIPE,
                       stderr=subprocess.STDOUT, text=True)
    if r.returncode != 0:
        log.append(r.stdout[-3000:])
        return False
    newest = 0
    for root, _, files in os.walk(os.path.join(COQ, "theories")):
        for fn in files:
            if fn.endswith(".vo") and "Extract" not in root:
                newest = max(newest, os.path.getmtime(os.path.join(root, fn)))
    drv = os.path.join(VERIF, "runner", "driver.ml")
    ent = os.path.join(COQ, "theories", "Extract", "Entry.v")
    if (not os.path.exists(RUNNER) or os.path.getmtime(RUNNER) < newest
            or os.path.getmtime(RUNNER) < os.path.getmtime(drv) or os.path.getmtime(RUNNER) < os.path.getmtime(ent)):
        r = subprocess.run(["timeout", "600", os.path.join(VERIF, "runner", "build.sh")], stdout=subprocess.PIPE,
                           stderr=subprocess.STDOUT, text=True)
        if r.returncode != 0:
            log.append(r.stdout[-3000:])
            return False
    return True


def proof_stage(pid, scratch, thorough=False):
    """Compile Properties/<pid>.v afresh, capture Print Assumptions.  Returns dict."""
    res = dict(ok=False, obligations=0, discharged=0, axioms={}, log=[], theorems=[], broken=None)
    bad = scan_forbidden()
    if bad:
        res["log"].append("forbidden constructs: " + "; ".join(bad))
        res["broken"] = "forbidden construct " + bad[0]
        return res
    if not ensure_built(res["log"]):
        m = re.search(r'File "([^"]+)", line (\d+)', "\n".join(res["log"]))
        res["broken"] = "build failed" + (" at %s:%s" % (m.group(1), m.group(2)) if m else "")
        return res
    src_path = os.path.join(COQ, "theories", "Properties", pid + ".v")
    src = strip_comments(open(src_path).read())
    theorems = re.findall(r"^\s*(?:Theorem|Corollary)\s+(\w+)", src, re.M)
    res["theorems"] = theorems
    res["obligations"] = len(theorems)
    out_vo = os.path.join(scratch, pid + ".vo")
    r = subprocess.run(["timeout", "900", "coqc", "-Q", "theories", "WPU", "-o", out_vo, src_path], cwd=COQ,
                       stdout=subprocess.PIPE, stderr=subprocess.STDOUT, text=True)
    if r.returncode != 0:
        res["log"].append(r.stdout[-3000:])
        m = re.search(r"line (\d+)", r.stdout)
        res["broken"] = "Properties/%s.v does not check%s" % (pid, " (line %s)" % m.group(1) if m else "")
        return res
    # parse Print Assumptions blocks in order
    blocks = re.split(r"(?=Closed under the global context|Axioms:)", r.stdout)
    blocks = [b for b in blocks if b.startswith("Closed") or b.startswith("Axioms:")]
    n_printed = len(re.findall(r"Print\s+Assumptions", src))
    discharged = 0
    for i, b in enumerate(blocks):
        name = theorems[i] if i < len(theorems) else "?%d" % i
        if b.startswith("Closed"):
            discharged += 1
        else:
            axs = re.findall(r"^(\S+)\s*:", b[len("Axioms:"):], re.M)
            res["axioms"][name] = axs
            if all(a in ALLOWED_AXIOMS for a in axs):
                discharged += 1
    res["discharged"] = min(discharged, len(theorems))
    if n_printed < len(theorems) or len(blocks) < len(theorems):
        res["broken"] = "a theorem of Properties/%s.v has no Print Assumptions" % pid
        return res
    if discharged < len(theorems):
        res["broken"] = "undeclared axioms: %s" % json.dumps(res["axioms"])
        return res
    if thorough:
        r = subprocess.run(["timeout", "1500", "coqchk", "-silent", "-o", "-Q", "theories", "WPU",
                            "WPU.Properties." + pid], cwd=COQ, stdout=subprocess.PIPE, stderr=subprocess.STDOUT, text=True)
        res["coqchk"] = r.stdout[-1500:]
        if r.returncode != 0:
            res["broken"] = "coqchk rejected Properties/%s" % pid
            return res
    res["ok"] = True
    return res


# ----------------------------------------------------------------------------------------------- model runner
def dumps(v):
    return json.dumps(v, separators=(",", ":"))


def run_model(pairs):
    """pairs: list of (code, val) -> list of val, through the extracted OCaml runner."""
    if not pairs:
        return []
    inp = "".join("%d %s\n" % (c, dumps(v)) for c, v in pairs)
    nshard = min(NCPU, max(1, len(pairs) // 200))
    if nshard <= 1:
        r = subprocess.run([RUNNER], input=inp, stdout=subprocess.PIPE, text=True, check=True)
        return [json.loads(l) for l in r.stdout.split("\n") if l]
    lines = inp.split("\n")[:-1]
    shards = [lines[i::nshard] for i in range(nshard)]
    procs = []
    for sh in shards:
        p = subprocess.Popen([RUNNER], stdin=subprocess.PIPE, stdout=subprocess.PIPE, text=True)
        procs.append(p)
    outs = []
    import threading
    res = [None] * nshard

    def work(k):
        o, _ = procs[k].communicate("\n".join(shards[k]) + "\n")
        res[k] = [json.loads(l) for l in o.split("\n") if l]
    ts = [threading.Thread(target=work, args=(k,)) for k in range(nshard)]
    [t.start() for t in ts]
    [t.join() for t in ts]
    out = [None] * len(lines)
    for k in range(nshard):
        if len(res[k]) != len(shards[k]):
            raise RuntimeError("model runner failed on a shard")
        for j, v in enumerate(res[k]):
            out[k + j * nshard] = v
    return out


def coq_val(v):
    if isinstance(v, int):
        return "(I (%d))" % v
    return "(L [" + "; ".join(coq_val(x) for x in v) + "])"


def cross_check_in_coq(pairs, results, scratch, log):
    """Evaluate a sample of the same cases inside Coq (vm_compute) and compare with the extracted runner:
    guards extraction + driver."""
    if not pairs:
        return 0, 0
    src = ["From Coq Require Import ZArith List.", "From WPU Require Import Common.Val Extract.Entry.",
           "Import ListNotations.", "Open Scope Z_scope.",
           "Definition cases : list (Z * val * val) := ["]
    src.append(";\n".join("(%d, %s, %s)" % (c, coq_val(v), coq_val(r)) for (c, v), r in zip(pairs, results)))
    src.append("].")
    src.append("Definition bad := filter (fun c => negb (val_eqb (dispatch (fst (fst c)) (snd (fst c))) (snd c))) cases.")
    src.append("Eval vm_compute in (length bad).")
    p = os.path.join(scratch, "cross.v")
    open(p, "w").write("\n".join(src))
    r = subprocess.run(["timeout", "600", "coqc", "-Q", os.path.join(COQ, "theories"), "WPU", "-o",
                        os.path.join(scratch, "cross.vo"), p], stdout=subprocess.PIPE, stderr=subprocess.STDOUT, text=True)
    m = re.search(r"=\s*(\d+)%?n?a?t?\s*:\s*nat", r.stdout.replace("\n", " "))
    if r.returncode != 0 or not m:
        log.append("cross-check failed to run: " + r.stdout[-800:])
        return len(pairs), -1
    return len(pairs), int(m.group(1))


# ----------------------------------------------------------------------------------------------- impl runs
def _worker_main():
    """Child: python -m harness.core --worker <pid>: cases on stdin (json lines), results on stdout."""
    pid = sys.argv[2]
    sys.path.insert(0, REPO)
    sys.setrecursionlimit(1000)
    prop = load_prop(pid)

    def on_alarm(signum, frame):
        raise CaseTimeout()
    signal.signal(signal.SIGALRM, on_alarm)
    out = sys.stdout
    real_stdout = os.fdopen(os.dup(1), "w")
    sys.stdout = open(os.devnull, "w")
    for line in sys.stdin:
        idx, case = json.loads(line)
        signal.setitimer(signal.ITIMER_REAL, prop.case_timeout * TIMEOUT_SCALE)
        try:
            try:
                obs = prop.impl(case)
            finally:
                signal.setitimer(signal.ITIMER_REAL, 0)
        except CaseTimeout:
            obs = err(E["Diverges"])
        except RecursionError:
            obs = err(E["Recursion"])
        except Exception as e:  # harness-level failure is reported as an observation too
            obs = {"harness_error": repr(e)[:300]}
        real_stdout.write(json.dumps([idx, obs], separators=(",", ":")) + "\n")
        real_stdout.flush()


def run_impl(prop, cases, extra_env=None):
    """Run cases on the implementation in sandboxed worker processes (own session, hard kill)."""
    n = len(cases)
    results = [None] * n
    if n == 0:
        return results
    env = dict(os.environ)
    env.update(PYTHONPATH=REPO + os.pathsep + VERIF, PYTHONHASHSEED="0", VERIF_REPO=REPO)
    env.update(prop_env(prop))
    if extra_env:
        env.update(extra_env)
    nw = min(NCPU, max(1, n // 20))
    shards = [list(range(k, n, nw)) for k in range(nw)]
    import threading
    hung = [0]          # cases that diverged / crashed so far; beyond a limit the rest of the batch is skipped

    def work(idxs):
        pending = list(idxs)
        while pending:
            if hung[0] > HANG_LIMIT:
                for i in pending:
                    results[i] = {"skipped": "too many diverging cases in this batch"}
                return
            p = subprocess.Popen([PY, "-m", "harness.core", "--worker", prop.id], stdin=subprocess.PIPE,
                                 stdout=subprocess.PIPE, stderr=subprocess.DEVNULL, text=True, env=env, cwd=VERIF,
                                 start_new_session=True)
            batch = pending[:BATCH]          # small batches: the hang counter is consulted between them
            inp = "".join(json.dumps([i, cases[i]]) + "\n" for i in batch)
            budget = 30 + len(batch) * (prop.case_timeout * float(env.get("VERIF_TIMEOUT_SCALE", "1")) + 0.5)
            try:
                o, _ = p.communicate(inp, timeout=budget)
            except subprocess.TimeoutExpired:
                try:
                    os.killpg(p.pid, signal.SIGKILL)
                except ProcessLookupError:
                    pass
                o, _ = p.communicate()
            try:
                os.killpg(p.pid, signal.SIGKILL)
            except (ProcessLookupError, PermissionError):
                pass
            got = set()
            for l in o.split("\n"):
                if l:
                    try:
                        i, obs = json.loads(l)
                    except ValueError:
                        continue
                    results[i] = obs
                    got.add(i)
            rest = [i for i in batch if i not in got]
            hung[0] += sum(1 for i in got if results[i] == err(E["Diverges"]))
            if rest:
                results[rest[0]] = err(E["Crash"])  # the case the worker died / hung on
                hung[0] += 1
                rest = rest[1:]
            pending = rest + pending[len(batch):]
    ts = [threading.Thread(target=work, args=(sh,)) for sh in shards]
    [t.start() for t in ts]
    [t.join() for t in ts]
    # Observations that can also be produced by the machine rather than by the code under test (a time-out, a dead worker
    # process, an exception of the harness itself) are looked at a second time: the case is run again alone, with nothing
    # else of this check running and three times the time limit.  A definite observation replaces the first one and is
    # judged like any other; a case that diverges / crashes again stays as it was.  Wrong results are never re-run.
    if not (extra_env or {}).get("VERIF_TIMEOUT_SCALE"):
        flaky = [i for i in range(n) if _is_flaky(results[i])][:RECHECK_MAX]
        for i in flaky:
            r = run_impl(prop, [cases[i]], dict(extra_env or {}, VERIF_TIMEOUT_SCALE="3"))[0]
            RECHECK["rechecked"] += 1
            if not _is_flaky(r) and not (isinstance(r, dict) and "skipped" in r):
                results[i] = r
                RECHECK["recovered"] += 1
    return results


RECHECK_MAX = 6
RECHECK = dict(rechecked=0, recovered=0)
TIMEOUT_SCALE = float(os.environ.get("VERIF_TIMEOUT_SCALE", "1"))


def _is_flaky(o):
    return o == err(E["Diverges"]) or o == err(E["Crash"]) or (isinstance(o, dict) and "harness_error" in o)


def prop_env(prop):
    return getattr(prop, "env", {})


def load_prop(pid):
    mod = importlib.import_module("harness.props." + pid.lower())
    return mod.P()


# ----------------------------------------------------------------------------------------------- known findings
def load_known():
    p = os.path.join(VERIF, "known_findings.json")
    if not os.path.exists(p):
        return []
    return json.load(open(p)).get("findings", [])


# ----------------------------------------------------------------------------------------------- check driver
def canon_key(v):
    return hashlib.sha1(dumps(v).encode()).hexdigest()


def evaluate(prop, cases):
    """Run model + implementation; classify."""
    if getattr(prop, "two_phase", False):
        # the model replays what the implementation did (trace acceptance): implementation first
        ires = run_impl(prop, cases)
        pairs = [prop.to_model2(c, i) for c, i in zip(cases, ires)]
        mraw = run_model(pairs)
        return pairs, mraw, ires
    pairs = [prop.to_model(c) for c in cases]
    mraw = run_model(pairs)
    ires = run_impl(prop, cases)
    mres = [prop.canon(c, m) for c, m in zip(cases, mraw)]
    ires = [i if isinstance(i, dict) or _is_fail(i) else prop.canon(c, i) for c, i in zip(cases, ires)]
    mres = [i if (isinstance(i, dict) and "skipped" in i) else m for m, i in zip(mres, ires)]
    return pairs, mres, ires


def _is_fail(i):
    return isinstance(i, list) and len(i) == 2 and i[0] == 1 and i[1] in (E["Diverges"], E["Crash"])


def classify(prop, case, m, i):
    """'ok' | 'violation' | 'corr' (correspondence broken, property still accepted)"""
    if isinstance(i, dict) and "skipped" in i:
        return "ok"
    if hasattr(prop, "judge"):
        return prop.judge(case, m, i)
    if m == i:
        return "ok"
    if prop.in_domain(case) and not prop.accept(case, i, m):
        return "violation"
    return "corr"


def shrink(prop, case, want):
    """Greedy delta debugging: keep a smaller case while it still classifies as `want`."""
    cur = case
    improved = True
    rounds = 0
    t_end = time.time() + 45          # shrinking is a convenience: bounded wall time
    while improved and rounds < 40 and time.time() < t_end:
        improved = False
        rounds += 1
        cands = []
        for c in prop.shrink_candidates(cur):
            cands.append(c)
            if len(cands) >= 32:
                break
        if not cands:
            break
        _, mres, ires = evaluate(prop, cands)
        for c, m, i in zip(cands, mres, ires):
            if classify(prop, c, m, i) == want:
                cur = c
                improved = True
                break
    return cur


def write_replay(prop, name, payload):
    d = os.path.join(VERIF, "replays")
    os.makedirs(d, exist_ok=True)
    p = os.path.join(d, "%s_%s.json" % (prop.id, name))
    with open(p, "w") as f:
        json.dump(payload, f, indent=1)
    return p


def main(argv):
    import argparse
    ap = argparse.ArgumentParser()
    ap.add_argument("pid")
    ap.add_argument("--tier", default=os.environ.get("VERIF_TIER", "quick"))
    ap.add_argument("--replay")
    ap.add_argument("--n", type=int)
    a = ap.parse_args(argv)
    tier = a.tier if a.tier in ("quick", "thorough") else "quick"
    seed = int(os.environ.get("VERIF_SEED", "20260930"))
    t0 = time.time()
    prop = load_prop(a.pid)
    scratch = tempfile.mkdtemp(prefix="verif_%s_" % a.pid, dir=os.environ.get("VERIF_SCRATCH", tempfile.gettempdir()))
    os.environ["VERIF_SCRATCH_DIR"] = scratch
    try:
        if a.replay:
            return replay(prop, a.replay)
        return run_check(prop, tier, seed, scratch, t0, a.n)
    finally:
        shutil.rmtree(scratch, ignore_errors=True)


def replay(prop, path):
    d = json.load(open(path))
    case = d.get("case")
    if case is None:
        print("replay file names no concrete case:", d.get("what"))
        return 1
    if not os.path.exists(RUNNER):
        ensure_built([])
    _, mres, ires = evaluate(prop, [case])
    print("case :", dumps(case))
    print("model:", dumps(mres[0]))
    print("impl :", dumps(ires[0]))
    c = classify(prop, case, mres[0], ires[0])
    print("verdict:", c)
    return 0 if c == "ok" else 1


def run_check(prop, tier, seed, scratch, t0, n_override=None):
    rng = random.Random(seed)
    lines = []
    violations = []   # (kind, case, m, i)
    pf = proof_stage(prop.id, scratch, thorough=(tier == "thorough"))
    for l in pf["log"]:
        sys.stderr.write(l + "\n")
    model_ok = os.path.exists(RUNNER)

    n = n_override or (prop.quick_n if tier == "quick" else prop.thorough_n)
    corpus = prop.corpus()
    exh = list(prop.exhaustive(tier))
    gen = list(prop.generate(rng, tier, n))
    cases = corpus + exh + gen
    stats = dict(corpus=len(corpus), exhaustive=len(exh), generated=len(gen))
    if not model_ok:
        print("model runner unavailable; cannot run the correspondence")
        pairs, mres, ires = [], [], []
    else:
        pairs, mres, ires = evaluate(prop, cases)

    distinct = set()
    n_nontrivial = 0
    corr_broken = []
    concrete = []
    harness_err = []
    for c, m, i in zip(cases, mres, ires):
        if isinstance(i, dict) and "harness_error" in i:
            harness_err.append((c, m, i))
        k = classify(prop, c, m, i)
        if k == "violation":
            concrete.append((c, m, i))
        elif k == "corr":
            corr_broken.append((c, m, i))
        if prop.nontrivial(c, i):
            key = canon_key(c)
            if key not in distinct:
                distinct.add(key)
                n_nontrivial += 1

    # cross-check extraction against vm_compute on a sample
    xs, xbad = (0, 0)
    if model_ok and pf["ok"]:
        k = min(len(pairs), 150 if tier == "quick" else 600)
        idxs = sorted(rng.sample(range(len(pairs)), k)) if k else []
        # big literals are slow to parse in Coq: keep the sample small in bytes as well
        budget, kept = 250000, []
        for j in idxs:
            sz = len(dumps(pairs[j][1]))
            if sz <= 6000 and budget - sz > 0:
                kept.append(j)
                budget -= 3 * sz
        idxs = kept
        raw = run_model([pairs[j] for j in idxs])
        xs, xbad = cross_check_in_coq([pairs[j] for j in idxs], raw, scratch, pf["log"])
        if xbad != 0:
            pf["ok"] = False
            pf["broken"] = "extracted runner disagrees with vm_compute on %s sampled cases" % xbad

    extra_fail = prop.extra_stage(dict(tier=tier, rng=rng, scratch=scratch)) if model_ok else []

    # failing-input search when only the tie (proof or correspondence) is broken
    searched = 0
    known0 = {k.get("signature") for k in load_known() if k.get("property") == prop.id and k.get("status") == "open"}
    if (corr_broken or not pf["ok"]) and model_ok and not [x for x in concrete if prop.signature(x[0], x[2], x[1]) not in known0]:
        rng2 = random.Random(seed + 1)
        more = list(prop.generate(rng2, "thorough", max(n, 3000)))
        for c0, _, _ in corr_broken[:5]:
            more.extend(list(prop.shrink_candidates(c0))[:50])
        _, m2, i2 = evaluate(prop, more)
        searched = len(more)
        for c, m, i in zip(more, m2, i2):
            if classify(prop, c, m, i) == "violation":
                concrete.append((c, m, i))

    known = [k for k in load_known() if k.get("property") == prop.id and k.get("status") == "open"]
    exit_code = 0
    reported = set()
    n_viol = 0
    for c, m, i in concrete:
        sig = prop.signature(c, i, m)
        kf = [k for k in known if k.get("signature") == sig]
        if kf:
            if ("K", sig) not in reported:
                reported.add(("K", sig))
                print("KNOWN-FINDING: property=%s %s" % (prop.id, kf[0].get("what", sig)))
            continue
        if ("V", sig) in reported:
            continue
        if n_viol >= 4:
            # enough distinct replays have been written; further failing cases are counted in the evidence only
            continue
        reported.add(("V", sig))
        small = shrink(prop, c, "violation")
        _, ms, is_ = evaluate(prop, [small])
        path = write_replay(prop, "violation_%d" % len(reported),
                            dict(property=prop.id, kind="concrete failing input", signature=sig, case=small,
                                 model=ms[0], impl=is_[0], seed=seed,
                                 replay="./check %s --replay <this file>" % prop.id))
        print("VIOLATION property=%s replay=%s" % (prop.id, path))
        exit_code = 1
        n_viol += 1
    for f in extra_fail:
        sig = f.get("signature", "extra")
        kf = [k for k in known if k.get("signature") == sig]
        if kf:
            if ("K", sig) not in reported:
                reported.add(("K", sig))
                print("KNOWN-FINDING: property=%s %s" % (prop.id, kf[0].get("what", sig)))
            continue
        if ("V", sig) in reported:
            continue
        reported.add(("V", sig))
        path = write_replay(prop, "violation_%d" % len(reported), dict(property=prop.id, **f))
        tail = "" if f.get("concrete", True) else " no-failing-input-found"
        print("VIOLATION property=%s replay=%s%s" % (prop.id, path, tail))
        exit_code = 1
        n_viol += 1
    if exit_code == 0 and not any(r[0] == "K" for r in reported) or True:
        pass
    known_sigs = {k.get("signature") for k in known}
    unknown_concrete = [x for x in concrete if prop.signature(x[0], x[2], x[1]) not in known_sigs]
    if not unknown_concrete and not [f for f in extra_fail] and (corr_broken or not pf["ok"]):
        what = []
        if not pf["ok"]:
            what.append("proof stage: " + str(pf["broken"]))
        payload = dict(property=prop.id, kind="tie broken, no failing input found",
                       what="; ".join(what) if what else "correspondence model/implementation",
                       theorems=pf["theorems"], searched_cases=searched)
        if corr_broken:
            c, m, i = corr_broken[0]
            small = shrink(prop, c, "corr")
            _, ms, is_ = evaluate(prop, [small])
            payload.update(what=(payload["what"] + "; " if what else "") +
                           "correspondence broken: model entry %s disagrees with the implementation outside the "
                           "property's fixed domain" % prop.to_model(small)[0],
                           case=small, model=ms[0], impl=is_[0])
        path = write_replay(prop, "tie_broken", payload)
        print("VIOLATION property=%s replay=%s no-failing-input-found" % (prop.id, path))
        exit_code = 1
        n_viol += 1
    if harness_err and exit_code == 0:
        c, m, i = harness_err[0]
        sys.stderr.write("harness error on case %s: %s\n" % (dumps(c)[:300], i.get("harness_error")))

    samples = []
    for j in (0, len(cases) // 2, len(cases) - 1):
        if 0 <= j < len(cases):
            samples.append(dict(case=cases[j], impl=ires[j], model=mres[j]))
    ev = dict(property_id=prop.id, tier=tier, seed=seed, level="proof",
              coverage=dict(obligations=pf["obligations"], discharged=pf["discharged"],
                            checker_cmd="make -C coq (coqc 8.16.1, full .vo) ; coqc Properties/%s.v with Print Assumptions"
                                        % prop.id + (" ; coqchk -o" if tier == "thorough" else ""),
                            trusted_base=["Coq 8.16.1 kernel (vm_compute used, native_compute not used)",
                                          "axioms: none (every theorem 'Closed under the global context')"
                                          if not pf["axioms"] else "axioms: " + json.dumps(pf["axioms"]),
                                          "extraction: ExtrOcamlBasic only; runner/driver.ml; OCaml 4.13",
                                          "correspondence harness harness/props/%s.py (differential, same inputs on model and /repo)"
                                          % prop.id.lower()] + list(prop.trusted),
                            theorems=pf["theorems"],
                            evaluations=len(cases) + searched,
                            distinct_nontrivial=n_nontrivial,
                            rule=prop.rule,
                            samples=samples[:3],
                            traces_validated_against_impl=sum(1 for c, m, i in zip(cases, mres, ires) if classify(prop, c, m, i) == "ok" and not (isinstance(i, dict) and "skipped" in i)),
                            rerun_after_timeout_or_crash=dict(RECHECK),
                            skipped_after_hang_limit=sum(1 for i in ires if isinstance(i, dict) and "skipped" in i),
                            disagreements=len(corr_broken) + len(concrete),
                            extraction_cross_checked_in_coq=xs,
                            extraction_cross_check_mismatches=xbad,
                            distribution=dict(stats, **getattr(prop, "dist", {})),
                            exhaustive=bool(exh) and tier == "thorough"),
              assumptions=list(prop.assumptions),
              wall_s=round(time.time() - t0, 2), violations=n_viol)
    os.makedirs(os.path.join(VERIF, "evidence"), exist_ok=True)
    with open(os.path.join(VERIF, "evidence", prop.id + ".json"), "w") as f:
        json.dump(ev, f, indent=1)
    print("%s %s: %d theorems (%d closed), %d cases (%d corpus, %d exhaustive, %d generated), %d agree, "
          "%d violations, %.1fs" % (prop.id, tier, pf["obligations"], pf["discharged"], len(cases), len(corpus),
                                    len(exh), len(gen), ev["coverage"]["traces_validated_against_impl"], n_viol,
                                    time.time() - t0))
    return exit_code


if __name__ == "__main__":
    if len(sys.argv) > 2 and sys.argv[1] == "--worker":
        _worker_main()
    else:
        sys.exit(main(sys.argv[1:]))
