(* Model of windpyutils/structures/span_set.py (property C10).  Span coordinates are integers. *)
From Coq Require Import ZArith List Bool.
From WPU Require Import Common.Val.
Import ListNotations.
Open Scope Z_scope.

Definition span := (Z * Z)%type.
Inductive rel := Exact | PartOf | Includes | Overlaps.

(* the four __call__ bodies, verbatim; x is the probed span, y the stored one *)
Definition holds (r : rel) (x y : span) : bool :=
  let '(xs, xe) := x in let '(ys, ye) := y in
  match r with
  | Exact => (xs =? ys) && (xe =? ye)
  | PartOf => (ys <=? xs) && (xe <=? ye)
  | Includes => (xs <=? ys) && (ye <=? xe)
  | Overlaps => (xe >=? ys) && (ye >=? xs)
  end.

Record sset := mkS { s_rel : rel; s_spans : list span }.

(* __contains__ *)
Definition contains (s : sset) (x : span) : bool := existsb (fun y => holds (s_rel s) x y) (s_spans s).

(* constructor with duplicate check (both paths do the same): keep a span iff no span kept so far is related to it *)
Definition build_spans (r : rel) (l : list span) : list span :=
  fold_left (fun acc x => if existsb (fun y => holds r x y) acc then acc else acc ++ [x]) l [].
Definition build (r : rel) (l : list span) : sset := mkS r (build_spans r l).
(* force_no_dup_check=True with two sequences: taken as they are *)
Definition build_nocheck (r : rel) (l : list span) : sset := mkS r l.

(* type(self)(x for x in chain(self, other) if ...) : default relation = Exact *)
Definition op_filter (phi : bool -> bool -> bool) (a b : sset) : sset :=
  build Exact (filter (fun x => phi (contains a x) (contains b x)) (s_spans a ++ s_spans b)).
Definition s_and := op_filter andb.
Definition s_or := op_filter orb.
Definition s_sub := op_filter (fun p q => p && negb q).
Definition s_xor := op_filter xorb.

Definition s_le (a b : sset) : bool := forallb (contains b) (s_spans a).
Definition s_eq (a b : sset) : bool := s_le a b && s_le b a.
Definition s_ne (a b : sset) : bool := negb (s_eq a b).
Definition s_lt (a b : sset) : bool := s_le a b && s_ne a b.
Definition s_ge (a b : sset) : bool := s_le b a.
Definition s_gt (a b : sset) : bool := s_lt b a.
Definition s_isdisjoint (a : sset) (it : list span) : bool := forallb (fun x => negb (contains a x)) it.
Definition s_issubset := s_le.
Definition s_issuperset := s_ge.

(* ------------------------------------------------------------------ wire format *)
Definition dec_rel (v : val) : rel :=
  let z := unI v in if z =? 0 then Exact else if z =? 1 then PartOf else if z =? 2 then Includes else Overlaps.
Definition dec_span (v : val) : span := match unL v with [a; b] => (unI a, unI b) | _ => (0, 0) end.
Definition enc_span (x : span) : val := L [I (fst x); I (snd x)].
Definition enc_spans (l : list span) : val := L (map enc_span l).
(* [rel, nocheck?, spans] or [rel, nocheck?, spans, rel0]: constructed with relation rel0, then copied with
   copy() and the copy's eq_relation attribute set to rel (the stored spans are those rel0 kept) *)
Definition dec_sset (v : val) : sset :=
  match unL v with
  | [r; nc; sp] => if unB nc then build_nocheck (dec_rel r) (map dec_span (unL sp))
                   else build (dec_rel r) (map dec_span (unL sp))
  | [r; nc; sp; r0] =>
      mkS (dec_rel r) (s_spans (if unB nc then build_nocheck (dec_rel r0) (map dec_span (unL sp))
                                else build (dec_rel r0) (map dec_span (unL sp))))
  | _ => mkS Exact []
  end.
(* [A, B, probes] -> [spans A, spans B, A&B, A|B, A-B, A^B, [<=,<,==,!=,>=,>,isdisjoint,issubset,issuperset],
                      [p in A for p in probes], [p in B ...]] *)
Definition run_spans (v : val) : val :=
  match unL v with
  | [va; vb; probes] =>
      let a := dec_sset va in let b := dec_sset vb in
      let ps := map dec_span (unL probes) in
      L [enc_spans (s_spans a); enc_spans (s_spans b);
         enc_spans (s_spans (s_and a b)); enc_spans (s_spans (s_or a b));
         enc_spans (s_spans (s_sub a b)); enc_spans (s_spans (s_xor a b));
         L (map vB [s_le a b; s_lt a b; s_eq a b; s_ne a b; s_ge a b; s_gt a b;
                    s_isdisjoint a (s_spans b); s_issubset a b; s_issuperset a b]);
         L (map (fun p => vB (contains a p)) ps); L (map (fun p => vB (contains b p)) ps)]
  | _ => L []
  end.
