(* Model of TmpPool and FilePool (windpyutils/files.py, property C20).
   Paths are ordinals.  The file system is the list of existing pool files.  A multi_proc pool keeps its listing in a
   manager list: a store of lists, each process holding a reference into it (fork copies the reference). *)
From Coq Require Import ZArith List Bool Arith.
From WPU Require Import Common.Val.
Import ListNotations.
Open Scope nat_scope.

Record tpool := mkTP {
  tp_fs : list nat;              (* files that exist *)
  tp_store : list (list nat);    (* the (manager) lists *)
  tp_refs : list nat;            (* per process: which list its pool object points to *)
  tp_next : nat;                 (* next fresh path *)
}.
Definition tp_init : tpool := mkTP [] [[]] [O] O.

Definition remove1 (p : nat) (l : list nat) : list nat :=
  (fix go l := match l with [] => [] | x :: t => if x =? p then t else x :: go t end) l.
Definition mem (p : nat) (l : list nat) : bool := existsb (Nat.eqb p) l.
Fixpoint set_list (i : nat) (v : list nat) (s : list (list nat)) : list (list nat) :=
  match s, i with [], _ => [] | _ :: t, O => v :: t | h :: t, S k => h :: set_list k v t end.
Fixpoint set_ref (i : nat) (v : nat) (s : list nat) : list nat :=
  match s, i with [], _ => [] | _ :: t, O => v :: t | h :: t, S k => h :: set_ref k v t end.

Definition cur_list (st : tpool) (pid : nat) : list nat := nth (nth pid (tp_refs st) O) (tp_store st) [].
Definition with_list (st : tpool) (pid : nat) (v : list nat) : tpool :=
  mkTP (tp_fs st) (set_list (nth pid (tp_refs st) O) v (tp_store st)) (tp_refs st) (tp_next st).

Inductive top :=
| TCreate | TRemove (p : nat) | TRmFs (p : nat) | TRmList (p : nat) | TFlush | TExtDelete (p : nat) | TFork | TLen | TList.
Inductive tres := TPath (p : nat) | TUnit | TValueErr | TNum (n : nat) | TPaths (l : list nat).

(* [inplace] = the repaired flush (del self._created_files[:]); false = the original (a new list is bound) *)
Definition tp_step (inplace : bool) (st : tpool) (pid : nat) (op : top) : tpool * tres :=
  match op with
  | TCreate =>
      let p := tp_next st in
      let st1 := mkTP (p :: tp_fs st) (tp_store st) (tp_refs st) (S p) in
      (with_list st1 pid (cur_list st1 pid ++ [p]), TPath p)
  | TRmFs p => (mkTP (remove1 p (tp_fs st)) (tp_store st) (tp_refs st) (tp_next st), TUnit)      (* os.remove, FileNotFoundError ignored *)
  | TRmList p =>
      if mem p (cur_list st pid) then (with_list st pid (remove1 p (cur_list st pid)), TUnit) else (st, TValueErr)
  | TRemove p =>
      let st1 := mkTP (remove1 p (tp_fs st)) (tp_store st) (tp_refs st) (tp_next st) in
      if mem p (cur_list st1 pid) then (with_list st1 pid (remove1 p (cur_list st1 pid)), TUnit) else (st1, TValueErr)
  | TFlush =>
      let l := cur_list st pid in
      let fs' := filter (fun x => negb (mem x l)) (tp_fs st) in
      if inplace then (with_list (mkTP fs' (tp_store st) (tp_refs st) (tp_next st)) pid [], TUnit)
      else (mkTP fs' (tp_store st ++ [[]]) (set_ref pid (length (tp_store st)) (tp_refs st)) (tp_next st), TUnit)
  | TExtDelete p => (mkTP (remove1 p (tp_fs st)) (tp_store st) (tp_refs st) (tp_next st), TUnit)
  | TFork => (mkTP (tp_fs st) (tp_store st) (tp_refs st ++ [nth pid (tp_refs st) O]) (tp_next st), TNum (length (tp_refs st)))
  | TLen => (st, TNum (length (cur_list st pid)))
  | TList => (st, TPaths (cur_list st pid))
  end.

Fixpoint tp_run (inplace : bool) (st : tpool) (ops : list (nat * top)) : tpool * list tres :=
  match ops with
  | [] => (st, [])
  | (pid, op) :: r => let '(st1, o) := tp_step inplace st pid op in let '(st2, os) := tp_run inplace st1 r in (st2, o :: os)
  end.

(* ---------------- FilePool: path -> handle (closed?) ---------------- *)
Inductive fop := FCloseOne (k : nat) | FReadState.
(* inside the context every handle is open unless the body closed it itself; leaving closes all *)
Definition fp_open (n : nat) : list bool := repeat false n.               (* closed flags *)
Definition fp_body (hs : list bool) (op : fop) : list bool :=
  match op with
  | FCloseOne k => (fix go i l := match l with [] => [] | h :: t => (if i =? k then true else h) :: go (S i) t end) O hs
  | FReadState => hs
  end.
Definition fp_exit (hs : list bool) : list bool := map (fun _ => true) hs.
(* open() when the path at position k cannot be opened: `{f: open(f, mode) for f in files}` raises inside the comprehension,
   `file_handles` is never bound, the partial dict is dropped and with it the only references to the k handles opened so far,
   which CPython's reference counting finalises (= closes) before the exception leaves open().  The result is the closed-flags
   of those k handles as the process holds them when the with-statement has raised. *)
Definition fp_open_failing (k : nat) : list bool := fp_exit (fp_open k).
Definition count_open (hs : list bool) : nat := length (filter negb hs).

(* ---------------- wire format ---------------- *)
Definition dec_top (v : val) : nat * top :=
  match unL v with
  | [pid; I 0] => (unN pid, TCreate)
  | [pid; I 1; p] => (unN pid, TRemove (unN p))
  | [pid; I 2; p] => (unN pid, TRmFs (unN p))
  | [pid; I 3; p] => (unN pid, TRmList (unN p))
  | [pid; I 4] => (unN pid, TFlush)
  | [pid; I 5; p] => (unN pid, TExtDelete (unN p))
  | [pid; I 6] => (unN pid, TFork)
  | [pid; I 7] => (unN pid, TLen)
  | [pid; _] => (unN pid, TList)
  | _ => (O, TList)
  end.
Definition enc_tres (r : tres) : val :=
  match r with TPath p => vOk (vN p) | TUnit => vOk (L []) | TValueErr => vErr E_Value | TNum n => vN n | TPaths l => vNs l end.
(* [ops] -> [[result, existing files (sorted by creation), listing of process 0] ...] ; the last op of a case is the exit flush *)
Fixpoint tp_trace (st : tpool) (ops : list (nat * top)) : list val :=
  match ops with
  | [] => []
  | (pid, op) :: r =>
      let '(st1, o) := tp_step true st pid op in
      L [enc_tres o; vNs (rev (tp_fs st1)); vNs (cur_list st1 O)] :: tp_trace st1 r
  end.
Definition run_tmppool (v : val) : val := L (tp_trace tp_init (map dec_top (unL v))).
(* two pools that are alive at the same time (nested contexts): each is a pool of its own - own list, own files *)
Definition run_two_tmppools (v : val) : val :=
  match unL v with [a; b] => L [run_tmppool a; run_tmppool b] | _ => L [] end.
(* [n, body ops] -> [flags inside after body, flags after exit, handles left open by a pool of the same n paths plus one
   that cannot be opened] *)
Definition run_filepool (v : val) : val :=
  match unL v with
  | [n; ops] =>
      let hs := fold_left fp_body (map (fun o => match unL o with [I 0; k] => FCloseOne (unN k) | _ => FReadState end) (unL ops))
                          (fp_open (unN n)) in
      L [L (map vB hs); L (map vB (fp_exit hs)); vN (count_open (fp_open_failing (unN n)))]
  | _ => L []
  end.
