(* Model of the line files of windpyutils/files.py (properties C11, C12; the file part of C13).
   A file is its list of bytes.  The text variant is opened with newline="\n", the memory-mapped variant reads bytes;
   both stop a line at byte 10 only, and byte 10 occurs in no multi-byte UTF-8 sequence, so at this level they are the
   same function (the correspondence check runs both and compares them with it and with each other). *)
From Coq Require Import ZArith List Bool.
From WPU Require Import Common.Val.
Import ListNotations.
Open Scope Z_scope.

Definition NL : Z := 10.

(* one pass over the file: (offset of the line start, line without terminator) for every line.
   pos = offset of the next byte, st = start of the current line, cur = its bytes so far, reversed *)
Fixpoint scan (pos st : Z) (cur : list Z) (s : list Z) : list (Z * list Z) :=
  match s with
  | [] => match cur with [] => [] | _ => [(st, rev_append cur [])] end        (* rev_append _ [] = rev, in linear time *)
  | b :: t => if b =? NL then (st, rev_append cur []) :: scan (pos + 1) (pos + 1) [] t
              else scan (pos + 1) st (b :: cur) t
  end.
(* _index_file: offsets where a readline() started, the end-of-file offset dropped *)
Definition index_file (c : list Z) : list Z := map fst (scan 0 0 [] c).
Definition lines_of (c : list Z) : list (list Z) := map snd (scan 0 0 [] c).

(* seek(off); readline().rstrip("\n") *)
Fixpoint take_line (s : list Z) : list Z :=
  match s with [] => [] | b :: t => if b =? NL then [] else b :: take_line t end.
Definition read_line_at (c : list Z) (off : Z) : list Z := take_line (skipn (Z.to_nat off) c).

(* Python list indexing with a possibly negative int: None = IndexError *)
Definition py_index (n : nat) (i : Z) : option nat :=
  if (0 <=? i) && (i <? Z.of_nat n) then Some (Z.to_nat i)
  else if (i <? 0) && (- Z.of_nat n <=? i) then Some (Z.to_nat (Z.of_nat n + i))
  else None.

(* slice.indices(n) + range: start/stop = None is encoded by the flag; step <> 0 *)
Definition slice_indices (n : Z) (has_start : bool) (start : Z) (has_stop : bool) (stop : Z) (step : Z) : list Z :=
  let clamp lo hi x := Z.max lo (Z.min hi x) in
  if 0 <? step then
    let s := if has_start then (if start <? 0 then clamp 0 n (start + n) else clamp 0 n start) else 0 in
    let e := if has_stop then (if stop <? 0 then clamp 0 n (stop + n) else clamp 0 n stop) else n in
    map (fun k => s + Z.of_nat k * step) (seq 0 (Z.to_nat ((e - s + step - 1) / step)))
  else
    let s := if has_start then (if start <? 0 then clamp (-1) (n - 1) (start + n) else clamp (-1) (n - 1) start) else n - 1 in
    let e := if has_stop then (if stop <? 0 then clamp (-1) (n - 1) (stop + n) else clamp (-1) (n - 1) stop) else -1 in
    map (fun k => s + Z.of_nat k * step) (seq 0 (Z.to_nat ((s - e - step - 1) / (- step)))).

(* ------------------------------------------------------------------ read side (C11) *)
Inductive it_state := ItNew | ItRun (next stop : nat) | ItDone.
Record rfile := mkRF {
  rf_content : list Z;
  rf_index : list Z;              (* line offsets: built by index_file or supplied by the caller *)
  rf_closed : bool;
  rf_cursor : Z;                  (* the one read position of the handle, moved by every access *)
  rf_iters : list it_state;
}.

Inductive rres := ROk (l : list Z) | ROks (ls : list (list Z)) | RNum (n : Z) | RIndexErr | RRuntimeErr | RStop | RAttrErr.

(* _read_line(n): seek to the n-th offset (moves the cursor), then read from the cursor *)
Definition rf_read (f : rfile) (j : nat) : rfile * list Z :=
  let off := nth j (rf_index f) 0 in
  let f1 := mkRF (rf_content f) (rf_index f) (rf_closed f) off (rf_iters f) in
  let line := take_line (skipn (Z.to_nat (rf_cursor f1)) (rf_content f1)) in
  (mkRF (rf_content f) (rf_index f) (rf_closed f) (off + Z.of_nat (length line) + 1) (rf_iters f), line).

Definition rf_get (f : rfile) (i : Z) : rfile * option (list Z) :=
  match py_index (length (rf_index f)) i with
  | None => (f, None)
  | Some j => let '(f1, l) := rf_read f j in (f1, Some l)
  end.

Fixpoint rf_get_all (f : rfile) (is : list Z) : rfile * option (list (list Z)) :=
  match is with
  | [] => (f, Some [])
  | i :: r =>
      match rf_get f i with
      | (f1, None) => (f1, None)
      | (f1, Some l) => match rf_get_all f1 r with (f2, Some ls) => (f2, Some (l :: ls)) | (f2, None) => (f2, None) end
      end
  end.

Fixpoint set_nth {A} (n : nat) (x : A) (l : list A) : list A :=
  match l, n with [], _ => [] | _ :: t, O => x :: t | h :: t, S k => h :: set_nth k x t end.

Inductive rop :=
| RGet (i : Z) | RSel (is : list Z) | RSlice (hs : bool) (s : Z) (he : bool) (e : Z) (st : Z)
| RIterNew | RIterNext (it : nat) | RLen | RClose | ROpen | RList.

Definition with_iters (f : rfile) (its : list it_state) : rfile :=
  mkRF (rf_content f) (rf_index f) (rf_closed f) (rf_cursor f) its.

Definition rf_step (f : rfile) (op : rop) : rfile * rres :=
  match op with
  | RLen => (f, RNum (Z.of_nat (length (rf_index f))))
  | RClose => (mkRF (rf_content f) (rf_index f) true (rf_cursor f) (rf_iters f), ROks [])
  | ROpen => (mkRF (rf_content f) (rf_index f) false (if rf_closed f then 0 else rf_cursor f) (rf_iters f), ROks [])
  | RGet i =>
      if rf_closed f then (f, RRuntimeErr)
      else match rf_get f i with (f1, Some l) => (f1, ROk l) | (f1, None) => (f1, RIndexErr) end
  | RSel is =>
      if rf_closed f then (f, RRuntimeErr)
      else match rf_get_all f is with (f1, Some ls) => (f1, ROks ls) | (f1, None) => (f1, RIndexErr) end
  | RSlice hs s he e st =>
      if rf_closed f then (f, RRuntimeErr)
      else match rf_get_all f (slice_indices (Z.of_nat (length (rf_index f))) hs s he e st) with
           | (f1, Some ls) => (f1, ROks ls) | (f1, None) => (f1, RIndexErr) end
  | RIterNew => (with_iters f (rf_iters f ++ [ItNew]), RNum (Z.of_nat (length (rf_iters f))))
  | RIterNext it =>
      match nth it (rf_iters f) ItDone with
      | ItDone => (f, RStop)
      | ItNew =>
          if rf_closed f then (with_iters f (set_nth it ItDone (rf_iters f)), RRuntimeErr)
          else
            let stop := length (rf_index f) in
            if (0 <? stop)%nat
            then let '(f1, l) := rf_read f O in (with_iters f1 (set_nth it (ItRun 1 stop) (rf_iters f1)), ROk l)
            else (with_iters f (set_nth it ItDone (rf_iters f)), RStop)
      | ItRun n stop =>
          (* a suspended iteration resumed after close(): the handle is gone (None.seek -> AttributeError) *)
          if (n <? stop)%nat && rf_closed f then (with_iters f (set_nth it ItDone (rf_iters f)), RAttrErr)
          else if (n <? stop)%nat
          then let '(f1, l) := rf_read f n in (with_iters f1 (set_nth it (ItRun (S n) stop) (rf_iters f1)), ROk l)
          else (with_iters f (set_nth it ItDone (rf_iters f)), RStop)
      end
  | RList =>
      if rf_closed f then (f, RRuntimeErr)
      else match rf_get_all f (map Z.of_nat (seq 0 (length (rf_index f)))) with
           | (f1, Some ls) => (f1, ROks ls) | (f1, None) => (f1, RIndexErr) end
  end.

(* ------------------------------------------------------------------ mutable files (C12) *)
Record mfile := mkMF { mf_view : list (list Z); mf_dirty : bool }.

Inductive mres := MUnit | MLine (l : list Z) | MLines (ls : list (list Z)) | MNum (n : Z)
                | MIndexErr | MValueErr | MStop.

Definition py_set {A} (l : list A) (i : Z) (x : A) : option (list A) :=
  match py_index (length l) i with Some j => Some (set_nth j x l) | None => None end.
Definition py_del {A} (l : list A) (i : Z) : option (list A) :=
  match py_index (length l) i with Some j => Some (firstn j l ++ skipn (S j) l) | None => None end.
(* list.insert clamps the position *)
Definition py_insert {A} (l : list A) (i : Z) (x : A) : list A :=
  let n := Z.of_nat (length l) in
  let j := if i <? 0 then Z.max 0 (n + i) else Z.min n i in
  firstn (Z.to_nat j) l ++ x :: skipn (Z.to_nat j) l.

Fixpoint zlist_eqb (a b : list Z) : bool :=
  match a, b with [], [] => true | x :: a', y :: b' => (x =? y) && zlist_eqb a' b' | _, _ => false end.
Fixpoint index_of (v : list Z) (l : list (list Z)) : option nat :=
  match l with [] => None | x :: t => if zlist_eqb x v then Some O else option_map S (index_of v t) end.

Inductive mop :=
| MSet (i : Z) (s : list Z) | MDel (i : Z) | MInsert (i : Z) (s : list Z) | MAppend (s : list Z)
| MExtend (ss : list (list Z)) | MPop | MPopAt (i : Z) | MRemove (s : list Z) | MReverse | MIadd (ss : list (list Z))
| MGetI (i : Z) | MLenQ | MListQ | MDirtyQ | MSetBad (i : Z) | MIterNew | MIterNext (it : nat).

(* reverse(): for i in range(n//2): self[i], self[n-i-1] = self[n-i-1], self[i] *)
Fixpoint rev_swaps (k : nat) (n : nat) (l : list (list Z)) : list (list Z) :=
  match k with
  | O => l
  | S k' =>
      let l1 := rev_swaps k' n l in
      let a := nth k' l1 [] in let b := nth (n - k' - 1) l1 [] in
      set_nth (n - k' - 1) a (set_nth k' b l1)
  end.

(* [always_dirty] = record variants (their constructor sets the flag) *)
Definition mf_step (always_dirty : bool) (f : mfile) (op : mop) : mfile * mres :=
  let v := mf_view f in
  match op with
  | MSet i s => match py_set v i s with Some v' => (mkMF v' true, MUnit) | None => (mkMF v true, MIndexErr) end
  | MSetBad i => (f, MValueErr)                         (* non-string / non-record content: rejected first *)
  | MDel i => match py_del v i with Some v' => (mkMF v' true, MUnit) | None => (mkMF v true, MIndexErr) end
  | MInsert i s => (mkMF (py_insert v i s) true, MUnit)
  | MAppend s => (mkMF (v ++ [s]) true, MUnit)
  | MExtend ss | MIadd ss => (mkMF (v ++ ss) (match ss with [] => mf_dirty f | _ => true end), MUnit)
  | MPop =>
      match rev v with
      | [] => (f, MIndexErr)
      | x :: r => (mkMF (rev r) true, MLine x)
      end
  | MPopAt i =>
      match py_index (length v) i with
      | None => (f, MIndexErr)
      | Some j => (mkMF (firstn j v ++ skipn (S j) v) true, MLine (nth j v []))
      end
  | MRemove s =>
      match index_of s v with
      | None => (f, MValueErr)
      | Some j => (mkMF (firstn j v ++ skipn (S j) v) true, MUnit)
      end
  | MReverse =>
      let n := length v in
      (mkMF (rev_swaps (n / 2) n v) (if (n / 2 =? 0)%nat then mf_dirty f else true), MUnit)
  | MGetI i => match py_index (length v) i with Some j => (f, MLine (nth j v [])) | None => (f, MIndexErr) end
  | MLenQ => (f, MNum (Z.of_nat (length v)))
  | MListQ => (f, MLines v)
  | MDirtyQ => (f, MNum (if mf_dirty f || always_dirty then 1 else 0))
  | MIterNew | MIterNext _ => (f, MUnit)                (* handled by mx_step *)
  end.

(* stepped iteration over a mutable file, in phases without modification: an iterator fixes range(len) at its first
   step and then yields item n, n+1, ... whatever other reads or iterators do in between *)
Definition mx_step (ad : bool) (st : mfile * list (option (nat * nat))) (op : mop)
  : (mfile * list (option (nat * nat))) * mres :=
  let '(f, its) := st in
  match op with
  | MIterNew => ((f, its ++ [None]), MNum (Z.of_nat (length its)))
  | MIterNext it =>
      let '(n, stop) := match nth it its None with Some p => p | None => (O, length (mf_view f)) end in
      if (n <? stop)%nat
      then match nth_error (mf_view f) n with
           | Some l => ((f, set_nth it (Some (S n, stop)) its), MLine l)
           | None => ((f, set_nth it (Some (stop, stop)) its), MIndexErr)
           end
      else ((f, set_nth it (Some (stop, stop)) its), MStop)
  | _ => let '(f1, r) := mf_step ad f op in ((f1, its), r)
  end.

(* save(out, line_ending): print(line.rstrip("\n"), end=line_ending) for every line of the current view *)
Fixpoint rstrip_nl_rev (r : list Z) : list Z :=
  match r with b :: t => if b =? NL then rstrip_nl_rev t else r | [] => [] end.
Definition rstrip_nl (l : list Z) : list Z := rev_append (rstrip_nl_rev (rev_append l [])) [].
Definition save_bytes (view : list (list Z)) (ending : list Z) : list Z :=
  concat (map (fun l => rstrip_nl l ++ ending) view).

(* ------------------------------------------------------------------ wire format *)
Definition enc_rres (r : rres) : val :=
  match r with
  | ROk l => vOk (vZs l) | ROks ls => vOk (L (map vZs ls)) | RNum n => I n
  | RIndexErr => vErr E_Index | RRuntimeErr => vErr E_Runtime | RStop => vErr E_StopIteration
  | RAttrErr => vErr E_Attribute
  end.
Definition dec_rop (v : val) : rop :=
  match unL v with
  | [I 0; I i] => RGet i
  | [I 1; is] => RSel (unZs is)
  | [I 2; hs; s; he; e; st] => RSlice (unB hs) (unI s) (unB he) (unI e) (unI st)
  | [I 3] => RIterNew
  | [I 4; it] => RIterNext (unN it)
  | [I 5] => RLen
  | [I 6] => RClose
  | [I 7] => ROpen
  | _ => RList
  end.
Fixpoint r_trace (f : rfile) (ops : list rop) : list val :=
  match ops with [] => [] | op :: r => let '(f1, res) := rf_step f op in enc_rres res :: r_trace f1 r end.
(* [content, has_index, index, ops] -> [len, [result ...]] *)
Definition run_linefile (v : val) : val :=
  match unL v with
  | [c; hi; idx; ops] =>
      let content := unZs c in
      let index := if unB hi then unZs idx else index_file content in
      L [vN (length index); L (r_trace (mkRF content index false 0 []) (map dec_rop (unL ops)))]
  | _ => L []
  end.

Definition enc_mres (r : mres) : val :=
  match r with
  | MUnit => vOk (L []) | MLine l => vOk (vZs l) | MLines ls => vOk (L (map vZs ls)) | MNum n => I n
  | MIndexErr => vErr E_Index | MValueErr => vErr E_Value | MStop => vErr E_StopIteration
  end.
Definition dec_mop (v : val) : mop :=
  match unL v with
  | [I 0; I i; s] => MSet i (unZs s)
  | [I 1; I i] => MDel i
  | [I 2; I i; s] => MInsert i (unZs s)
  | [I 3; s] => MAppend (unZs s)
  | [I 4; ss] => MExtend (map unZs (unL ss))
  | [I 5] => MPop
  | [I 6; I i] => MPopAt i
  | [I 7; s] => MRemove (unZs s)
  | [I 8] => MReverse
  | [I 9; ss] => MIadd (map unZs (unL ss))
  | [I 10; I i] => MGetI i
  | [I 11] => MLenQ
  | [I 12] => MListQ
  | [I 13] => MDirtyQ
  | [I 14; I i] => MSetBad i
  | [I 15] => MIterNew
  | [I 16; it] => MIterNext (unN it)
  | _ => MLenQ
  end.
Fixpoint mx_trace (ad : bool) (st : mfile * list (option (nat * nat))) (ops : list mop) : list val * mfile :=
  match ops with
  | [] => ([], fst st)
  | op :: r => let '(st1, res) := mx_step ad st op in let '(tr, f2) := mx_trace ad st1 r in (enc_mres res :: tr, f2)
  end.
Definition m_trace (ad : bool) (f : mfile) (ops : list mop) : list val * mfile := mx_trace ad (f, []) ops.
(* [content, always_dirty, ops, ending] -> [[result ...], final view, saved bytes, lines of the saved file] *)
Definition run_mutfile (v : val) : val :=
  match unL v with
  | [c; ad; ops; ending] =>
      let content := unZs c in
      let '(tr, f) := m_trace (unB ad) (mkMF (lines_of content) false) (map dec_mop (unL ops)) in
      let saved := save_bytes (mf_view f) (unZs ending) in
      L [L tr; L (map vZs (mf_view f)); vZs saved; L (map vZs (lines_of saved))]
  | _ => L []
  end.
