(* Heap model of windpyutils/structures/lists.py DoublyLinkedList (property C08).
   A node is an address (nat, creation ordinal); its three fields live in three maps.  Every mutator is transcribed
   statement by statement, so that a wrong relink or a forgotten size update would show.  Nodes are compared by
   identity only (the code uses `is`); payloads are never inspected. *)
From Coq Require Import ZArith List Bool.
From WPU Require Import Common.Val.
Import ListNotations.
Open Scope Z_scope.

Definition upd {V} (f : nat -> V) (k : nat) (v : V) : nat -> V := fun m => if (m =? k)%nat then v else f m.
Definition updo {V} (f : nat -> V) (k : option nat) (v : V) : nat -> V :=
  match k with Some a => upd f a v | None => f end.

Record heap := mkH {
  dat : nat -> Z;
  prv : nat -> option nat;
  nxt : nat -> option nat;
  head : option nat;
  tail : option nat;
  size : Z;
  fresh : nat;          (* next unused address *)
}.
Definition h_init : heap := mkH (fun _ => 0) (fun _ => None) (fun _ => None) None None 0 O.

(* append: new_node = Node(data, self.tail, None); tail.next = new | head = new; tail = new; size += 1 *)
Definition h_append (h : heap) (x : Z) : heap :=
  let f := fresh h in
  mkH (upd (dat h) f x) (upd (prv h) f (tail h))
      (match tail h with Some t => upd (upd (nxt h) f None) t (Some f) | None => upd (nxt h) f None end)
      (match tail h with Some _ => head h | None => Some f end)
      (Some f) (size h + 1) (S f).

(* prepend: new_node = Node(data, None, self.head); head.prev = new | tail = new; head = new; size += 1 *)
Definition h_prepend (h : heap) (x : Z) : heap :=
  let f := fresh h in
  mkH (upd (dat h) f x)
      (match head h with Some a => upd (upd (prv h) f None) a (Some f) | None => upd (prv h) f None end)
      (upd (nxt h) f (head h))
      (Some f)
      (match head h with Some _ => tail h | None => Some f end)
      (size h + 1) (S f).

(* remove(node) *)
Definition h_remove (h : heap) (k : nat) : heap :=
  let nxt1 := match prv h k with Some p => upd (nxt h) p (nxt h k) | None => nxt h end in
  let head1 := match prv h k with Some _ => head h | None => nxt h k end in
  let prv1 := match nxt h k with Some q => upd (prv h) q (prv h k) | None => prv h end in
  let tail1 := match nxt h k with Some _ => tail h | None => prv h k end in
  mkH (dat h) prv1 nxt1 head1 tail1 (size h - 1) (fresh h).

Inductive dres := DUnit | DVal (x : Z) | DIndexErr | DRuntimeErr.

Definition h_pop_back (h : heap) : heap * dres :=
  match tail h with None => (h, DIndexErr) | Some t => (h_remove h t, DVal (dat h t)) end.
Definition h_pop_front (h : heap) : heap * dres :=
  match head h with None => (h, DIndexErr) | Some a => (h_remove h a, DVal (dat h a)) end.

(* move_to_front(node) *)
Definition h_move_to_front (h : heap) (k : nat) : heap * dres :=
  match head h with
  | None => (h, DRuntimeErr)
  | Some _ =>
      match prv h k with
      | None => (h, DUnit)
      | Some _ =>
          let h1 := h_remove h k in
          (* self.head.prev_node = node; node.prev_node = None; node.next_node = self.head; self.head = node; size += 1 *)
          let prv2 := upd (updo (prv h1) (head h1) (Some k)) k None in
          let nxt2 := upd (nxt h1) k (head h1) in
          (mkH (dat h1) prv2 nxt2 (Some k) (tail h1) (size h1 + 1) (fresh h1), DUnit)
      end
  end.

(* move_to_back(node) *)
Definition h_move_to_back (h : heap) (k : nat) : heap * dres :=
  match head h with
  | None => (h, DRuntimeErr)
  | Some _ =>
      match nxt h k with
      | None => (h, DUnit)
      | Some _ =>
          let h1 := h_remove h k in
          (* self.tail.next_node = node; node.next_node = None; node.prev_node = self.tail; self.tail = node; size += 1 *)
          let nxt2 := upd (updo (nxt h1) (tail h1) (Some k)) k None in
          let prv2 := upd (prv h1) k (tail h1) in
          (mkH (dat h1) prv2 nxt2 (head h1) (Some k) (size h1 + 1) (fresh h1), DUnit)
      end
  end.

(* move_after(node, after) *)
Definition h_move_after (h : heap) (k j : nat) : heap :=
  if (k =? j)%nat then h
  else
    let h1 := h_remove h k in
    (* if after.next is None: tail = node else: after.next.prev = node
       node.next = after.next; node.prev = after; after.next = node; size += 1 *)
    let tail2 := match nxt h1 j with None => Some k | Some _ => tail h1 end in
    let prv2 := upd (updo (prv h1) (nxt h1 j) (Some k)) k (Some j) in
    let nxt2 := upd (upd (nxt h1) k (nxt h1 j)) j (Some k) in
    mkH (dat h1) prv2 nxt2 (head h1) tail2 (size h1 + 1) (fresh h1).

Definition opt_nat_eqb (a b : option nat) : bool :=
  match a, b with Some x, Some y => (x =? y)%nat | None, None => true | _, _ => false end.

(* rotate(front_to_back) *)
Definition h_rotate (h : heap) (f2b : bool) : heap :=
  match head h, tail h with
  | Some a, Some t =>
      if (a =? t)%nat then h
      else if f2b then
        (* tail.next = head; head.prev = tail; head = head.next; head.prev = None; tail = tail.next; tail.next = None *)
        let nxt1 := upd (nxt h) t (Some a) in
        let prv1 := upd (prv h) a (Some t) in
        let head2 := nxt1 a in
        let prv2 := updo prv1 head2 None in
        let tail2 := nxt1 t in
        let nxt2 := updo nxt1 tail2 None in
        mkH (dat h) prv2 nxt2 head2 tail2 (size h) (fresh h)
      else
        (* head.prev = tail; tail.next = head; tail = tail.prev; tail.next = None; head = head.prev; head.prev = None *)
        let prv1 := upd (prv h) a (Some t) in
        let nxt1 := upd (nxt h) t (Some a) in
        let tail2 := prv1 t in
        let nxt2 := updo nxt1 tail2 None in
        let head2 := prv1 a in
        let prv2 := updo prv1 head2 None in
        mkH (dat h) prv2 nxt2 head2 tail2 (size h) (fresh h)
  | _, _ => h
  end.

Inductive dop :=
| DAppend (x : Z) | DPrepend (x : Z) | DExtend (xs : list Z) | DPreExtend (xs : list Z)
| DRemove (k : nat) | DPopBack | DPopFront
| DMoveToFront (k : nat) | DMoveToBack (k : nat) | DMoveAfter (k j : nat) | DRotate (f2b : bool).

Definition h_step (h : heap) (op : dop) : heap * dres :=
  match op with
  | DAppend x => (h_append h x, DUnit)
  | DPrepend x => (h_prepend h x, DUnit)
  | DExtend xs => (fold_left h_append xs h, DUnit)
  | DPreExtend xs => (fold_left h_prepend xs h, DUnit)
  | DRemove k => (h_remove h k, DUnit)
  | DPopBack => h_pop_back h
  | DPopFront => h_pop_front h
  | DMoveToFront k => h_move_to_front h k
  | DMoveToBack k => h_move_to_back h k
  | DMoveAfter k j => (h_move_after h k j, DUnit)
  | DRotate b => (h_rotate h b, DUnit)
  end.

(* observers: iter_nodes forward, and the same walk backwards from the tail; fuel = number of addresses ever created *)
Fixpoint walk (next : nat -> option nat) (fuel : nat) (cur : option nat) : list nat :=
  match fuel, cur with
  | S f, Some a => a :: walk next f (next a)
  | _, _ => []
  end.
Definition forward (h : heap) : list nat := walk (nxt h) (S (fresh h)) (head h).
Definition backward (h : heap) : list nat := walk (prv h) (S (fresh h)) (tail h).

(* ------------------------------------------------------------------ wire format *)
Definition dec_dop (v : val) : dop :=
  match unL v with
  | [I 0; I x] => DAppend x
  | [I 1; I x] => DPrepend x
  | [I 2; xs] => DExtend (unZs xs)
  | [I 3; xs] => DPreExtend (unZs xs)
  | [I 4; k] => DRemove (unN k)
  | [I 5] => DPopBack
  | [I 6] => DPopFront
  | [I 7; k] => DMoveToFront (unN k)
  | [I 8; k] => DMoveToBack (unN k)
  | [I 9; k; j] => DMoveAfter (unN k) (unN j)
  | [I 10; b] => DRotate (unB b)
  | _ => DPopBack
  end.
Definition enc_dres (r : dres) : val :=
  match r with DUnit => vOk (L []) | DVal x => vOk (I x) | DIndexErr => vErr E_Index | DRuntimeErr => vErr E_Runtime end.
Definition vOptN (o : option nat) : val := match o with Some a => L [vN a] | None => L [] end.
(* after every op: result, forward ids, forward payloads, backward ids, len, head, tail *)
Definition h_obs (h : heap) (r : dres) : val :=
  L [enc_dres r; vNs (forward h); vZs (map (dat h) (forward h)); vNs (backward h); I (size h);
     vOptN (head h); vOptN (tail h)].
Fixpoint h_trace (h : heap) (ops : list dop) : list val :=
  match ops with
  | [] => []
  | op :: ops' => let '(h1, r) := h_step h op in h_obs h1 r :: h_trace h1 ops'
  end.
Definition run_dll (v : val) : val := L (h_trace h_init (map dec_dop (unL v))).
