(* Model of sorted_combinations and min_combinations_in_interval_iter_sorted (windpyutils/generic.py, property C17).
   Elements are integers.  heapq is modelled as an exact priority queue: "pop" removes the first minimal entry of a
   list with respect to Python's tuple order on (key, len(comb), comb, index). *)
From Coq Require Import ZArith List Bool.
From WPU Require Import Common.Val.
Import ListNotations.
Open Scope Z_scope.

Section SC.
Variable key : list Z -> Z.      (* key(comb) *)
Variable els : list Z.           (* elements, by position *)

(* heap entry (key, len, comb, index); [path] is the list of positions the combination was built from
   (ghost: the code only keeps its last element, the index) *)
Record entry := mkE { e_key : Z; e_comb : list Z; e_path : list nat }.
Definition e_idx (e : entry) : nat := last (e_path e) O.
Definition mk_entry (path : list nat) : entry :=
  let comb := map (fun i => nth i els 0) path in mkE (key comb) comb path.

(* Python's order on tuples of ints *)
Fixpoint zlist_ltb (a b : list Z) : bool :=
  match a, b with
  | [], [] => false
  | [], _ :: _ => true
  | _ :: _, [] => false
  | x :: a', y :: b' => if x <? y then true else if y <? x then false else zlist_ltb a' b'
  end.
(* entry_le a b  <->  a <= b as tuples (key, len, comb, index) *)
Definition entry_le (a b : entry) : bool :=
  if e_key a <? e_key b then true else if e_key b <? e_key a then false
  else if (length (e_comb a) <? length (e_comb b))%nat then true
  else if (length (e_comb b) <? length (e_comb a))%nat then false
  else if zlist_ltb (e_comb a) (e_comb b) then true else if zlist_ltb (e_comb b) (e_comb a) then false
  else (e_idx a <=? e_idx b)%nat.

(* heappop: the first minimal entry and the rest *)
Fixpoint pop_min (pq : list entry) : option (entry * list entry) :=
  match pq with
  | [] => None
  | e :: rest =>
      match pop_min rest with
      | None => Some (e, [])
      | Some (m, rest') => if entry_le e m then Some (e, rest) else Some (m, e :: rest')
      end
  end.

(* for i, e in enumerate(elements[offset:]): push (comb + (e,), i + offset) *)
Definition children (e : entry) : list entry :=
  let n := length els in
  map (fun j => mk_entry (e_path e ++ [j])) (seq (S (e_idx e)) (n - S (e_idx e))).

(* the generator loop, run for at most [fuel] pops; returns what was yielded and what is left in the queue *)
Fixpoint sc_run (fuel : nat) (pq : list entry) : list entry * list entry :=
  match fuel with
  | O => ([], pq)
  | S f =>
      match pop_min pq with
      | None => ([], [])
      | Some (e, rest) => let '(out, remaining) := sc_run f (rest ++ children e) in (e :: out, remaining)
      end
  end.

Definition sc_init : list entry := map (fun i => mk_entry [i]) (seq 0 (length els)).
(* 2^n pops are always enough (sc_fuel_enough): there are 2^n - 1 combinations *)
Definition sorted_combinations : list entry := fst (sc_run (Nat.pow 2 (length els)) sc_init).
End SC.


(* min_combinations_in_interval_iter_sorted: scan of the (lazily consumed) sorted stream with its two break conditions;
   cur = score of the entries collected so far *)
Fixpoint min_scan {A} (score : A -> Z) (lo hi : Z) (cur : option Z) (l : list A) : list A :=
  match l with
  | [] => []
  | x :: t =>
      let s := score x in
      if (hi <=? s) || (match cur with Some c => c <? s | None => false end) then []
      else if (lo <=? s) && (s <? hi) then x :: min_scan score lo hi (Some s) t
      else min_scan score lo hi cur t
  end.

Definition zsum (l : list Z) : Z := fold_right Z.add 0 l.
(* elements = positions 0..n-1, key = sum of the scores at those positions *)
Definition min_combinations (scores : list Z) (lo hi : Z) : list (list Z * Z) :=
  let els := map Z.of_nat (seq 0 (length scores)) in
  let key := fun comb => zsum (map (fun i => nth (Z.to_nat i) scores 0) comb) in
  map (fun e => (e_comb e, e_key e)) (min_scan e_key lo hi None (sorted_combinations key els)).

(* ------------------------------------------------------------------ wire format *)
(* key kinds: 0 = sum, 1 = max (0 for none), 2 = length, 3 = constant 7 *)
Definition key_kind (k : Z) (comb : list Z) : Z :=
  if k =? 0 then zsum comb
  else if k =? 1 then fold_right Z.max 0 comb
  else if k =? 2 then Z.of_nat (length comb)
  else 7.
(* [kind, els] -> [[comb, key] ...] *)
Definition run_sorted_combinations (v : val) : val :=
  match unL v with
  | [k; els] => L (map (fun e => L [vZs (e_comb e); I (e_key e)]) (sorted_combinations (key_kind (unI k)) (unZs els)))
  | _ => L []
  end.
(* [scores, lo, hi] -> [[positions, sum] ...] *)
Definition run_min_combinations (v : val) : val :=
  match unL v with
  | [sc; lo; hi] => L (map (fun p => L [vZs (fst p); I (snd p)]) (min_combinations (unZs sc) (unI lo) (unI hi)))
  | _ => L []
  end.
