(* One opened RandomLineAccessFile / MemoryMappedRandomLineAccessFile / MapAccessFile used by a process and its forked
   descendants (windpyutils/files.py: reopen_if_needed), property C18.
   The operating system keeps, per open file description (OFD), one read position that is shared by every process that
   inherited the descriptor through fork.  A file object remembers the pid it was opened in; before every seek and every
   readline it compares that pid with os.getpid() and, if they differ, closes its (inherited) descriptor and opens the file
   again, which gives the process an OFD of its own.
   Events: a process forks a child; a process seeks to the offset of item i; a process reads the line at the position of
   its OFD.  A schedule is an arbitrary list of events; seek and read of one access are separate events, so other
   processes may act in between.  [reopen = false] is the class without the mechanism (for the refutation witness). *)
From Coq Require Import ZArith List Bool Arith.
From WPU Require Import Common.Val Model.Pool Model.Storage.
Import ListNotations.
Open Scope nat_scope.

Record handle := mkH { h_ofd : nat; h_owner : nat }.
Record fproc := mkFP { fp_h : handle; fp_pending : option nat }.     (* pending: item whose offset was just sought *)

Record fstate := mkFS {
  fs_ofds : list nat;                       (* position of every open file description *)
  fs_procs : list (option fproc);           (* by pid; None = no such process (yet) *)
  fs_out : list (nat * nat * list Z);       (* reads so far: (pid, item sought, bytes returned) *)
}.

Inductive fevent := FFork (p c : nat) | FSeek (p i : nat) | FRead (p : nat).

Definition finit : fstate := mkFS [0] [Some (mkFP (mkH 0 0) None)] [].

Definition read_at (content : list Z) (off : nat) : list Z := take_line (skipn off content).

Fixpoint set_opt {A} (n : nat) (x : A) (l : list (option A)) : list (option A) :=
  match n, l with
  | O, [] => [Some x]
  | O, _ :: t => Some x :: t
  | S k, [] => None :: set_opt k x []
  | S k, h :: t => h :: set_opt k x t
  end.
Definition get_proc (s : fstate) (p : nat) : option fproc := match nth_error (fs_procs s) p with Some (Some x) => Some x | _ => None end.

(* reopen_if_needed: returns the handle to use and the table of OFDs *)
Definition reopened (reopen : bool) (s : fstate) (p : nat) (h : handle) : handle * list nat :=
  if reopen && negb (h_owner h =? p) then (mkH (length (fs_ofds s)) p, fs_ofds s ++ [0]) else (h, fs_ofds s).

Definition fstep (reopen : bool) (content : list Z) (offs : list nat) (s : fstate) (e : fevent) : option fstate :=
  match e with
  | FFork p c =>
      match get_proc s p, get_proc s c with
      | Some pr, None => if p =? c then None else Some (mkFS (fs_ofds s) (set_opt c (mkFP (fp_h pr) None) (fs_procs s)) (fs_out s))
      | _, _ => None
      end
  | FSeek p i =>
      match get_proc s p, nth_error offs i with
      | Some pr, Some off =>
          let '(h, ofds) := reopened reopen s p (fp_h pr) in
          Some (mkFS (set_nth (h_ofd h) off ofds) (set_opt p (mkFP h (Some i)) (fs_procs s)) (fs_out s))
      | _, _ => None
      end
  | FRead p =>
      match get_proc s p with
      | Some pr =>
          match fp_pending pr with
          | Some i =>
              let '(h, ofds) := reopened reopen s p (fp_h pr) in
              let pos := nth (h_ofd h) ofds 0 in
              let line := read_at content pos in
              Some (mkFS (set_nth (h_ofd h) (pos + length line + 1) ofds) (set_opt p (mkFP h None) (fs_procs s))
                         (fs_out s ++ [(p, i, line)]))
          | None => None
          end
      | None => None
      end
  end.

Definition frun (reopen : bool) (content : list Z) (offs : list nat) (s : fstate) (sched : list fevent) : fstate :=
  fold_left (fun s e => match fstep reopen content offs s e with Some s' => s' | None => s end) sched s.

(* ------------------------------------------------------------------ wire *)
Definition dec_fevent (v : val) : fevent :=
  match unL v with
  | [I 0; p; c] => FFork (unN p) (unN c) | [I 1; p; i] => FSeek (unN p) (unN i) | [I 2; p] => FRead (unN p) | _ => FRead 0
  end%Z.
(* which processes share an OFD with which: for every live process the OFD number of its handle and whether it owns it *)
Definition run_forkread (v : val) : val :=
  match unL v with
  | [ro; content; offs; evs] =>
      let s := frun (unB ro) (unZs content) (map unN (unL offs)) finit (map dec_fevent (unL evs)) in
      L [L (map (fun o => L [vN (fst (fst o)); vN (snd (fst o)); vZs (snd o)]) (fs_out s));
         L (map (fun x => match x with Some pr => L [vN (h_ofd (fp_h pr)); vN (h_owner (fp_h pr))] | None => L [] end) (fs_procs s))]
  | _ => L []
  end.
