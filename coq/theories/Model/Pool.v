(* Labelled transition system of FunctorPool / FactoryFunctorPool (windpyutils/parallel/own_proc_pools.py,
   properties C01-C04) at the granularity of the operations that are visible to another thread or process:
   queue puts and gets, writes of the two progress flags, event set/clear/wait, thread and process start/join.
   Thread-local work between two such operations (chunking the input, applying the functor, the reorder buffer,
   yielding) is folded into the adjacent step.  Reads that cannot race (qsize, lock acquire/release around the drain
   loop, the feeder's data_cnt increment which only the consumer reads after the feeder cleared the flag, the
   feeder's stop_event test) are not transitions of their own; DESIGN.md lists the reduction argument for each.
   The functor is uninterpreted: a result chunk is represented by the chunk itself. *)
From Coq Require Import ZArith List Bool Arith.
From WPU Require Import Common.Val.
Import ListNotations.
Open Scope nat_scope.

(* ------------------------------------------------------------------ configuration and history *)
Record config := mkCfg {
  c_workers : nat;              (* number of workers (>= 1) *)
  c_wq_cap : option nat;        (* capacity of the work queue (None = unbounded; int(len*x) <= 0 is unbounded too) *)
  c_rq_cap : option nat;        (* capacity of the results queue = threshold of the flow control *)
  c_factory : bool;             (* FactoryFunctorPool: replace queue, replace thread *)
  c_quota : option nat;         (* max_chunks_per_worker (factory workers); None = unlimited *)
}.
Inductive action := ACall (ordered : bool) (data : list Z) (chunk : nat) | AReady.

(* ------------------------------------------------------------------ state *)
Inductive qitem := QChunk (i : nat) (xs : list Z) | QNone.          (* QNone: stop order / wake-up token *)

(* WHoldR: the worker has computed its last chunk (quota used up) and has announced its retirement on the replace queue;
   the result of that chunk is still to be delivered *)
Inductive wpc := WNew | WBegin | WIdle | WHold (i : nat) (xs : list Z) | WHoldR (i : nat) (xs : list Z) | WEnding | WDead.
Record worker := mkW {
  w_id : nat; w_pc : wpc; w_quota : option nat; w_ready : bool;
  w_log : list nat            (* lifecycle log: 0 = begin, 1 = item chunk, 2 = end *)
}.

Inductive fpc := FOff | FNext (i : nat) (rest : list Z) | FWait (i : nat) (rest : list Z) | FTok | FDone.
Inductive rpc := ROff | RGet | RJoin (w : nat) | RStart (w : nat) | RDone.

Inductive mpc :=
| MEnter (k : nat)                       (* __enter__: starting worker k *)
| MIdle                                  (* between actions *)
| MRepStarted                            (* factory: replace thread started, flags not yet set *)
| MCheck                                 (* loop test *)
| MFetch (batch : list (nat * list Z)) (woken : bool)      (* inside _get_results *)
| MFlow                                  (* ordered: flow-control decision after a batch *)
| MStop | MJoinF | MRepPut | MRepJoin    (* leaving the two `with` blocks *)
| MExitPut (n : nat) | MExitJoin (k : nat) | MDone.

Record state := mkSt {
  s_todo : list action;                  (* remaining history *)
  s_main : mpc;
  s_ordered : bool; s_chunk : nat; s_data : list Z;     (* the current call: ordered?, chunk_size, (ghost) its input *)
  s_sending : bool; s_cnt : nat;         (* _sending_work, _data_cnt *)
  s_finished : nat;
  s_buffer : list (nat * list Z); s_wait : nat;      (* reorder Buffer: storage, waiting_for *)
  s_yield : list Z;                      (* yielded by the current call *)
  s_done_calls : list (list Z);          (* results of the completed calls, oldest first *)
  s_error : bool;                        (* the consumer raised (AttributeError of the buffer, unpacking a token ...) *)
  s_workq : list qitem; s_resq : list qitem; s_replq : list (option nat);
  s_run_ev : bool;
  s_feeder : fpc; s_rep : rpc;
  s_procs : list worker; s_retired : list worker;     (* current workers by slot; replaced ones *)
  s_wid : nat;
}.

Definition full (cap : option nat) (q : list qitem) : bool :=
  match cap with Some c => (c <=? length q) | None => false end.

Definition new_worker (cfg : config) (wid : nat) : worker := mkW wid WNew (c_quota cfg) false [].
Definition init (cfg : config) (hist : list action) : state :=
  mkSt hist (MEnter 0) true 1 [] false 0 0 [] 0 [] [] false [] [] [] true FOff ROff
       (map (new_worker cfg) (seq 0 (c_workers cfg))) [] (c_workers cfg).

(* ------------------------------------------------------------------ events = (thread, parameter) *)
Inductive event :=
| EStartW                      (* main: procs[k].start() *)
| ENext                        (* main: begin the next action (call: [factory: start replace thread]) / leave the pool *)
| ECallInit                    (* main: sending := True; data_cnt := 0; feeder.start() *)
| EReady                       (* main: until_all_ready() returns *)
| ECheck                       (* main: evaluate `sending or finished < data_cnt` *)
| EGet                         (* main: one results_queue.get (non-blocking inside the drain loop, or the blocking one) *)
| EProcess                     (* main: leave _get_results, feed the buffer, yield *)
| EFlow                        (* main: run_event.clear() / set() / nothing *)
| EStopF | EJoinF | ERepPut | ERepJoin
| EExitPut | EExitJoin
| EFPut | EFWake | EFClear | EFTok                      (* feeder *)
| EWBegin (slot : nat) (raises : bool)                  (* worker in slot: begin() *)
| EWTake (slot : nat)                                   (* work_queue.get() *)
| EWFault (slot : nat)                                  (* the functor raises on the chunk just taken *)
| EWResult (slot : nat) | EWRetire (slot : nat) | EWEnd (slot : nat)
| ERGet | ERJoin | ERStart.                             (* replace thread *)

Fixpoint set_nth {A} (n : nat) (x : A) (l : list A) : list A :=
  match l, n with [] , _ => [] | _ :: t, O => x :: t | h :: t, S k => h :: set_nth k x t end.

Definition upd_main (s : state) (m : mpc) : state :=
  mkSt (s_todo s) m (s_ordered s) (s_chunk s) (s_data s) (s_sending s) (s_cnt s) (s_finished s) (s_buffer s) (s_wait s)
       (s_yield s) (s_done_calls s) (s_error s) (s_workq s) (s_resq s) (s_replq s) (s_run_ev s) (s_feeder s) (s_rep s)
       (s_procs s) (s_retired s) (s_wid s).

(* the reorder buffer: insert, then drain the maximal run waiting_for, waiting_for+1, ... *)
Fixpoint buf_get (b : list (nat * list Z)) (i : nat) : option (list Z) :=
  match b with [] => None | (j, x) :: t => if j =? i then Some x else buf_get t i end.
Fixpoint buf_del (b : list (nat * list Z)) (i : nat) : list (nat * list Z) :=
  match b with [] => [] | (j, x) :: t => if j =? i then t else (j, x) :: buf_del t i end.
Definition buf_put (b : list (nat * list Z)) (i : nat) (x : list Z) : list (nat * list Z) :=
  match buf_get b i with Some _ => (i, x) :: buf_del b i | None => b ++ [(i, x)] end.
Fixpoint buf_drain (fuel : nat) (b : list (nat * list Z)) (w : nat) : list (list Z) * list (nat * list Z) * nat :=
  match fuel with
  | O => ([], b, w)
  | S f => match buf_get b w with
           | Some x => let '(out, b', w') := buf_drain f (buf_del b w) (S w) in (x :: out, b', w')
           | None => ([], b, w)
           end
  end.

(* ordered processing of one batch entry: buffer(i, ch) raises AttributeError when i < waiting_for; then every chunk
   the buffer releases counts as finished and its elements are yielded *)
Definition process_ordered (acc : list (nat * list Z) * nat * nat * list Z * bool) (e : nat * list Z)
  : list (nat * list Z) * nat * nat * list Z * bool :=
  let '(b, w, fin, ys, er) := acc in
  if er then acc
  else if fst e <? w then (b, w, fin, ys, true)
  else
    let b1 := buf_put b (fst e) (snd e) in
    let '(out, b2, w2) := buf_drain (S (length b1)) b1 w in
    (b2, w2, fin + length out, ys ++ concat out, false).

Definition worker_step (cfg : config) (w : worker) (ev_kind : nat) (raises : bool) (s : state)
  : option (worker * state) :=
  (* ev_kind: 0 begin, 1 take, 2 result, 3 retire, 4 end, 5 functor fault *)
  match ev_kind, w_pc w with
  | 0, WBegin =>
      if raises then Some (mkW (w_id w) WEnding (w_quota w) false (w_log w ++ [0]), s)
      else Some (mkW (w_id w) WIdle (w_quota w) true (w_log w ++ [0]), s)
  | 1, WIdle =>
      match s_workq s with
      | [] => None                                                    (* get() blocks *)
      | QNone :: q =>
          Some (mkW (w_id w) WEnding (w_quota w) (w_ready w) (w_log w),
                mkSt (s_todo s) (s_main s) (s_ordered s) (s_chunk s) (s_data s) (s_sending s) (s_cnt s) (s_finished s) (s_buffer s)
                     (s_wait s) (s_yield s) (s_done_calls s) (s_error s) q (s_resq s) (s_replq s) (s_run_ev s)
                     (s_feeder s) (s_rep s) (s_procs s) (s_retired s) (s_wid s))
      | QChunk i xs :: q =>
          let s' := mkSt (s_todo s) (s_main s) (s_ordered s) (s_chunk s) (s_data s) (s_sending s) (s_cnt s) (s_finished s) (s_buffer s)
                         (s_wait s) (s_yield s) (s_done_calls s) (s_error s) q (s_resq s) (s_replq s) (s_run_ev s)
                         (s_feeder s) (s_rep s) (s_procs s) (s_retired s) (s_wid s) in
          Some (mkW (w_id w) (WHold i xs) (w_quota w) (w_ready w) (w_log w ++ [1]), s')
      end
  | 2, WHold i xs =>
      (* a factory worker on its last allowed chunk announces its retirement first (step 3) *)
      if c_factory cfg && (match w_quota w with Some 1 => true | _ => false end) then None
      else if full (c_rq_cap cfg) (s_resq s) then None                       (* the fallback put() blocks *)
      else
        let q' := match w_quota w with Some n => Some (n - 1) | None => None end in
        let pc' := match q' with Some O => WEnding | _ => WIdle end in
        Some (mkW (w_id w) pc' q' (w_ready w) (w_log w),
              mkSt (s_todo s) (s_main s) (s_ordered s) (s_chunk s) (s_data s) (s_sending s) (s_cnt s) (s_finished s) (s_buffer s)
                   (s_wait s) (s_yield s) (s_done_calls s) (s_error s) (s_workq s) (s_resq s ++ [QChunk i xs]) (s_replq s)
                   (s_run_ev s) (s_feeder s) (s_rep s) (s_procs s) (s_retired s) (s_wid s))
  | 2, WHoldR i xs =>
      if full (c_rq_cap cfg) (s_resq s) then None
      else
        Some (mkW (w_id w) WEnding (w_quota w) (w_ready w) (w_log w),
              mkSt (s_todo s) (s_main s) (s_ordered s) (s_chunk s) (s_data s) (s_sending s) (s_cnt s) (s_finished s) (s_buffer s)
                   (s_wait s) (s_yield s) (s_done_calls s) (s_error s) (s_workq s) (s_resq s ++ [QChunk i xs]) (s_replq s)
                   (s_run_ev s) (s_feeder s) (s_rep s) (s_procs s) (s_retired s) (s_wid s))
  | 3, WHold i xs =>
      (* max_chunks_per_worker -= 1 reaches 0: the retirement notice goes to the replace queue BEFORE the last result is
         delivered, so it is in front of the stop token that the consumer sends after it has got that result *)
      if c_factory cfg && (match w_quota w with Some 1 => true | _ => false end) then
        Some (mkW (w_id w) (WHoldR i xs) (Some 0) (w_ready w) (w_log w),
              mkSt (s_todo s) (s_main s) (s_ordered s) (s_chunk s) (s_data s) (s_sending s) (s_cnt s) (s_finished s) (s_buffer s)
                   (s_wait s) (s_yield s) (s_done_calls s) (s_error s) (s_workq s) (s_resq s) (s_replq s ++ [Some (w_id w)])
                   (s_run_ev s) (s_feeder s) (s_rep s) (s_procs s) (s_retired s) (s_wid s))
      else None
  | 4, WEnding => Some (mkW (w_id w) WDead (w_quota w) (w_ready w) (w_log w ++ [2]), s)
  | 5, WHold _ _ => Some (mkW (w_id w) WEnding (w_quota w) (w_ready w) (w_log w), s)
  | _, _ => None
  end.

Definition with_procs (s : state) (ps : list worker) : state :=
  mkSt (s_todo s) (s_main s) (s_ordered s) (s_chunk s) (s_data s) (s_sending s) (s_cnt s) (s_finished s) (s_buffer s) (s_wait s)
       (s_yield s) (s_done_calls s) (s_error s) (s_workq s) (s_resq s) (s_replq s) (s_run_ev s) (s_feeder s) (s_rep s)
       ps (s_retired s) (s_wid s).
Definition slot_step (cfg : config) (s : state) (slot kind : nat) (raises : bool) : option state :=
  match nth_error (s_procs s) slot with
  | None => None
  | Some w => match worker_step cfg w kind raises s with
              | Some (w', s') => Some (with_procs s' (set_nth slot w' (s_procs s')))
              | None => None end
  end.
Definition is_dead (w : worker) : bool := match w_pc w with WDead => true | _ => false end.
Definition slot_of (ps : list worker) (wid : nat) : option nat :=
  (fix go (i : nat) (l : list worker) := match l with [] => None | w :: t => if w_id w =? wid then Some i else go (S i) t end) 0 ps.

Definition step (cfg : config) (s : state) (e : event) : option state :=
  match e with
  (* ---------------- main thread ---------------- *)
  | EStartW =>
      match s_main s with
      | MEnter k =>
          match nth_error (s_procs s) k with
          | Some w => match w_pc w with
                      | WNew => Some (upd_main (with_procs s (set_nth k (mkW (w_id w) WBegin (w_quota w) false (w_log w)) (s_procs s)))
                                               (if S k <? length (s_procs s) then MEnter (S k) else MIdle))
                      | _ => None end
          | None => None
          end
      | _ => None
      end
  | ENext =>
      match s_main s, s_todo s with
      | MIdle, ACall o d c :: rest =>
          let s1 := mkSt rest (if c_factory cfg then MRepStarted else MIdle) o c d (s_sending s) (s_cnt s) (s_finished s) (s_buffer s)
                         (s_wait s) (s_yield s) (s_done_calls s) (s_error s) (s_workq s) (s_resq s) (s_replq s) (s_run_ev s)
                         (FNext 0 d) (if c_factory cfg then RGet else s_rep s) (s_procs s) (s_retired s) (s_wid s) in
          (* the feeder is created here but runs only after ECallInit; FNext 0 d records its input *)
          if c_factory cfg then Some s1
          else Some (mkSt rest MCheck o c d true 0 0 [] 0 [] (s_done_calls s) (s_error s) (s_workq s) (s_resq s) (s_replq s) true
                          (FNext 0 d) (s_rep s) (s_procs s) (s_retired s) (s_wid s))
      | MIdle, [] => Some (upd_main s (MExitPut (length (s_procs s))))
      | _, _ => None
      end
  | ECallInit =>
      match s_main s with
      | MRepStarted =>
          Some (mkSt (s_todo s) MCheck (s_ordered s) (s_chunk s) (s_data s) true 0 0 [] 0 [] (s_done_calls s) (s_error s) (s_workq s) (s_resq s)
                     (s_replq s) true (s_feeder s) (s_rep s) (s_procs s) (s_retired s) (s_wid s))
      | _ => None
      end
  | EReady =>
      match s_main s, s_todo s with
      | MIdle, AReady :: rest =>
          if forallb w_ready (s_procs s)
          then Some (mkSt rest MIdle (s_ordered s) (s_chunk s) (s_data s) (s_sending s) (s_cnt s) (s_finished s) (s_buffer s) (s_wait s)
                          (s_yield s) (s_done_calls s) (s_error s) (s_workq s) (s_resq s) (s_replq s) (s_run_ev s) (s_feeder s)
                          (s_rep s) (s_procs s) (s_retired s) (s_wid s))
          else None
      | _, _ => None
      end
  | ECheck =>
      match s_main s with
      | MCheck => if s_sending s || (s_finished s <? s_cnt s) then Some (upd_main s (MFetch [] false))
                  else Some (upd_main s MStop)
      | _ => None
      end
  | EGet =>
      match s_main s, s_resq s with
      | MFetch batch woken, it :: q =>
          let s1 := mkSt (s_todo s) (match it with QChunk i xs => MFetch (batch ++ [(i, xs)]) woken | QNone => MFetch batch true end)
                         (s_ordered s) (s_chunk s) (s_data s) (s_sending s) (s_cnt s) (s_finished s) (s_buffer s) (s_wait s) (s_yield s)
                         (s_done_calls s) (s_error s) (s_workq s) q (s_replq s) (s_run_ev s) (s_feeder s) (s_rep s) (s_procs s)
                         (s_retired s) (s_wid s) in
          Some s1
      | _, _ => None
      end
  | EProcess =>
      match s_main s with
      | MFetch batch woken =>
          match batch, woken with
          | [], false => None                                  (* nothing obtained yet: still inside _get_results *)
          | _, _ =>
              if s_ordered s then
                let '(b, w, fin, ys, er) :=
                  fold_left process_ordered batch (s_buffer s, s_wait s, s_finished s, s_yield s, s_error s) in
                Some (mkSt (s_todo s) MFlow (s_ordered s) (s_chunk s) (s_data s) (s_sending s) (s_cnt s) fin b w ys (s_done_calls s) er
                           (s_workq s) (s_resq s) (s_replq s) (s_run_ev s) (s_feeder s) (s_rep s) (s_procs s) (s_retired s) (s_wid s))
              else
                Some (mkSt (s_todo s) MCheck (s_ordered s) (s_chunk s) (s_data s) (s_sending s) (s_cnt s) (s_finished s + length batch)
                           (s_buffer s) (s_wait s) (s_yield s ++ concat (map snd batch)) (s_done_calls s) (s_error s)
                           (s_workq s) (s_resq s) (s_replq s) (s_run_ev s) (s_feeder s) (s_rep s) (s_procs s) (s_retired s) (s_wid s))
          end
      | _ => None
      end
  | EFlow =>
      match s_main s with
      | MFlow =>
          let ev' := match c_rq_cap cfg with
                     | Some c => if c <=? length (s_buffer s) then false else true
                     | None => true end in
          Some (mkSt (s_todo s) MCheck (s_ordered s) (s_chunk s) (s_data s) (s_sending s) (s_cnt s) (s_finished s) (s_buffer s) (s_wait s)
                     (s_yield s) (s_done_calls s) (s_error s) (s_workq s) (s_resq s) (s_replq s) ev' (s_feeder s) (s_rep s)
                     (s_procs s) (s_retired s) (s_wid s))
      | _ => None
      end
  | EStopF => match s_main s with MStop => Some (upd_main s MJoinF) | _ => None end
  | EJoinF =>
      match s_main s, s_feeder s with
      | MJoinF, FDone =>
          let s1 := mkSt (s_todo s) (if c_factory cfg then MRepPut else MIdle) (s_ordered s) (s_chunk s) (s_data s) (s_sending s) (s_cnt s)
                         (s_finished s) (s_buffer s) (s_wait s) (s_yield s)
                         (if c_factory cfg then s_done_calls s else s_done_calls s ++ [s_yield s]) (s_error s)
                         (s_workq s) (s_resq s) (s_replq s) (s_run_ev s) FOff (s_rep s) (s_procs s) (s_retired s) (s_wid s) in
          Some s1
      | _, _ => None
      end
  | ERepPut =>
      match s_main s with
      | MRepPut => Some (mkSt (s_todo s) MRepJoin (s_ordered s) (s_chunk s) (s_data s) (s_sending s) (s_cnt s) (s_finished s) (s_buffer s)
                              (s_wait s) (s_yield s) (s_done_calls s) (s_error s) (s_workq s) (s_resq s) (s_replq s ++ [None])
                              (s_run_ev s) (s_feeder s) (s_rep s) (s_procs s) (s_retired s) (s_wid s))
      | _ => None
      end
  | ERepJoin =>
      match s_main s, s_rep s with
      | MRepJoin, RDone =>
          Some (mkSt (s_todo s) MIdle (s_ordered s) (s_chunk s) (s_data s) (s_sending s) (s_cnt s) (s_finished s) (s_buffer s) (s_wait s)
                     (s_yield s) (s_done_calls s ++ [s_yield s]) (s_error s) (s_workq s) (s_resq s) (s_replq s) (s_run_ev s)
                     (s_feeder s) ROff (s_procs s) (s_retired s) (s_wid s))
      | _, _ => None
      end
  | EExitPut =>
      match s_main s with
      | MExitPut (S n) =>
          if full (c_wq_cap cfg) (s_workq s) then None
          else Some (mkSt (s_todo s) (match n with O => MExitJoin 0 | _ => MExitPut n end) (s_ordered s) (s_chunk s) (s_data s) (s_sending s)
                          (s_cnt s) (s_finished s) (s_buffer s) (s_wait s) (s_yield s) (s_done_calls s) (s_error s)
                          (s_workq s ++ [QNone]) (s_resq s) (s_replq s) (s_run_ev s) (s_feeder s) (s_rep s) (s_procs s)
                          (s_retired s) (s_wid s))
      | _ => None
      end
  | EExitJoin =>
      match s_main s with
      | MExitJoin k =>
          match nth_error (s_procs s) k with
          | Some w => if is_dead w then Some (upd_main s (if S k <? length (s_procs s) then MExitJoin (S k) else MDone)) else None
          | None => Some (upd_main s MDone)
          end
      | _ => None
      end
  (* ---------------- feeder ---------------- *)
  | EFPut =>
      match s_feeder s, s_main s with
      | FNext i (x :: rest), (MCheck | MFetch _ _ | MFlow | MStop | MJoinF) =>
          if full (c_wq_cap cfg) (s_workq s) then None
          else
            let data := x :: rest in
            let ch := firstn (s_chunk s) data in
            Some (mkSt (s_todo s) (s_main s) (s_ordered s) (s_chunk s) (s_data s) (s_sending s) (S (s_cnt s)) (s_finished s) (s_buffer s)
                       (s_wait s) (s_yield s) (s_done_calls s) (s_error s) (s_workq s ++ [QChunk i ch]) (s_resq s) (s_replq s)
                       (s_run_ev s) (FWait (S i) (skipn (s_chunk s) data)) (s_rep s) (s_procs s) (s_retired s) (s_wid s))
      | _, _ => None
      end
  | EFWake =>
      match s_feeder s with
      | FWait i rest =>
          if s_run_ev s then
            Some (mkSt (s_todo s) (s_main s) (s_ordered s) (s_chunk s) (s_data s) (s_sending s) (s_cnt s) (s_finished s) (s_buffer s)
                       (s_wait s) (s_yield s) (s_done_calls s) (s_error s) (s_workq s) (s_resq s) (s_replq s) (s_run_ev s)
                       (FNext i rest) (s_rep s) (s_procs s) (s_retired s) (s_wid s))
          else None
      | _ => None
      end
  | EFClear =>
      match s_feeder s, s_main s with
      | FNext i [], (MCheck | MFetch _ _ | MFlow | MStop | MJoinF) =>
          Some (mkSt (s_todo s) (s_main s) (s_ordered s) (s_chunk s) (s_data s) false (s_cnt s) (s_finished s) (s_buffer s)
                     (s_wait s) (s_yield s) (s_done_calls s) (s_error s) (s_workq s) (s_resq s) (s_replq s) (s_run_ev s)
                     FTok (s_rep s) (s_procs s) (s_retired s) (s_wid s))
      | _, _ => None
      end
  | EFTok =>
      match s_feeder s with
      | FTok =>
          Some (mkSt (s_todo s) (s_main s) (s_ordered s) (s_chunk s) (s_data s) (s_sending s) (s_cnt s) (s_finished s) (s_buffer s)
                     (s_wait s) (s_yield s) (s_done_calls s) (s_error s) (s_workq s)
                     (if full (c_rq_cap cfg) (s_resq s) then s_resq s else s_resq s ++ [QNone]) (s_replq s) (s_run_ev s)
                     FDone (s_rep s) (s_procs s) (s_retired s) (s_wid s))
      | _ => None
      end
  (* ---------------- workers ---------------- *)
  | EWBegin k r => slot_step cfg s k 0 r
  | EWTake k => slot_step cfg s k 1 false
  | EWFault k => slot_step cfg s k 5 false
  | EWResult k => slot_step cfg s k 2 false
  | EWRetire k => slot_step cfg s k 3 false
  | EWEnd k => slot_step cfg s k 4 false
  (* ---------------- replace thread ---------------- *)
  | ERGet =>
      match s_rep s, s_replq s with
      | RGet, it :: q =>
          Some (mkSt (s_todo s) (s_main s) (s_ordered s) (s_chunk s) (s_data s) (s_sending s) (s_cnt s) (s_finished s) (s_buffer s)
                     (s_wait s) (s_yield s) (s_done_calls s) (s_error s) (s_workq s) (s_resq s) q (s_run_ev s) (s_feeder s)
                     (match it with Some w => RJoin w | None => RDone end) (s_procs s) (s_retired s) (s_wid s))
      | _, _ => None
      end
  | ERJoin =>
      match s_rep s with
      | RJoin wid =>
          match slot_of (s_procs s) wid with
          | Some k => match nth_error (s_procs s) k with
                      | Some w => if is_dead w then
                            Some (mkSt (s_todo s) (s_main s) (s_ordered s) (s_chunk s) (s_data s) (s_sending s) (s_cnt s) (s_finished s)
                                       (s_buffer s) (s_wait s) (s_yield s) (s_done_calls s) (s_error s) (s_workq s) (s_resq s)
                                       (s_replq s) (s_run_ev s) (s_feeder s) (RStart k) (s_procs s) (s_retired s) (s_wid s))
                          else None
                      | None => None end
          | None => None
          end
      | _ => None
      end
  | ERStart =>
      match s_rep s with
      | RStart k =>
          match nth_error (s_procs s) k with
          | Some old =>
              if is_dead old then     (* it was joined at ERJoin *)
              Some (mkSt (s_todo s) (s_main s) (s_ordered s) (s_chunk s) (s_data s) (s_sending s) (s_cnt s) (s_finished s) (s_buffer s)
                         (s_wait s) (s_yield s) (s_done_calls s) (s_error s) (s_workq s) (s_resq s) (s_replq s) (s_run_ev s)
                         (s_feeder s) RGet
                         (set_nth k (mkW (s_wid s) WBegin (c_quota cfg) false []) (s_procs s))
                         (s_retired s ++ [old]) (S (s_wid s)))
              else None
          | None => None
          end
      | _ => None
      end
  end.

(* a schedule is any list of events; an event that is not enabled is a stutter *)
Definition run (cfg : config) (s : state) (sched : list event) : state :=
  fold_left (fun s e => match step cfg s e with Some s' => s' | None => s end) sched s.

(* ------------------------------------------------------------------ trace acceptance (correspondence check) *)
(* replay a recorded event sequence: how many events were enabled in turn, and the state reached *)
Fixpoint accept (cfg : config) (s : state) (evs : list event) (n : nat) : nat * state :=
  match evs with
  | [] => (n, s)
  | e :: r => match step cfg s e with Some s' => accept cfg s' r (S n) | None => (n, s) end
  end.

Definition dec_optnat (v : val) : option nat := match unL v with [x] => Some (unN x) | _ => None end.
Definition dec_action (v : val) : action :=
  match unL v with
  | [I 0; o; d; c] => ACall (unB o) (unZs d) (unN c)
  | _ => AReady
  end.
Definition dec_event (v : val) : event :=
  match unL v with
  | [I 0] => EStartW | [I 1] => ENext | [I 2] => ECallInit | [I 3] => EReady | [I 4] => ECheck | [I 5] => EGet
  | [I 6] => EProcess | [I 7] => EFlow | [I 8] => EStopF | [I 9] => EJoinF | [I 10] => ERepPut | [I 11] => ERepJoin
  | [I 12] => EExitPut | [I 13] => EExitJoin | [I 14] => EFPut | [I 15] => EFWake | [I 16] => EFClear | [I 17] => EFTok
  | [I 18; k; r] => EWBegin (unN k) (unB r) | [I 19; k] => EWTake (unN k) | [I 26; k] => EWFault (unN k) | [I 20; k] => EWResult (unN k)
  | [I 21; k] => EWRetire (unN k) | [I 22; k] => EWEnd (unN k)
  | [I 23] => ERGet | [I 24] => ERJoin | _ => ERStart
  end.
Definition mpc_code (m : mpc) : Z :=
  match m with MEnter _ => 0 | MIdle => 1 | MRepStarted => 2 | MCheck => 3 | MFetch _ _ => 4 | MFlow => 5 | MStop => 6
             | MJoinF => 7 | MRepPut => 8 | MRepJoin => 9 | MExitPut _ => 10 | MExitJoin _ => 11 | MDone => 12 end%Z.
Definition payloads (q : list qitem) : nat := length (filter (fun it => match it with QChunk _ _ => true | QNone => false end) q).
(* [[workers, wq_cap?, rq_cap?, factory, quota?], history, events]
   -> [accepted events, results of completed calls, error, main pc, payloads left in the results queue,
       stop tokens left in the replace queue, every worker ever started is dead, lifecycle logs] *)
Definition run_pool (v : val) : val :=
  match unL v with
  | [c; h; evs] =>
      match unL c with
      | [nw; wq; rq; fa; qu] =>
          let cfg := mkCfg (unN nw) (dec_optnat wq) (dec_optnat rq) (unB fa) (dec_optnat qu) in
          let '(n, s) := accept cfg (init cfg (map dec_action (unL h))) (map dec_event (unL evs)) O in
          L [vN n; L (map vZs (s_done_calls s)); vB (s_error s); I (mpc_code (s_main s)); vN (payloads (s_resq s));
             vN (length (filter (fun o => match o with None => true | _ => false end) (s_replq s)));
             vB (forallb is_dead (s_procs s ++ s_retired s));
             L (map (fun w => vNs (w_log w)) (s_retired s ++ s_procs s))]
      | _ => L []
      end
  | _ => L []
  end.
