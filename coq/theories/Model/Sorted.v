(* Model of windpyutils/structures/sorted.py (property C09).  Numeric keys are integers (the harness also feeds the
   implementation equal floats); a probe that cannot be ordered against numbers ("a", None, a tuple) is [Foreign]. *)
From Coq Require Import ZArith List Bool.
From WPU Require Import Common.Val Common.Dict Common.Bisect Model.Generic.
Import ListNotations.
Open Scope Z_scope.

Inductive key := Num (z : Z) | Foreign.

Definition insert_at {A} (i : nat) (x : A) (l : list A) : list A := firstn i l ++ x :: skipn i l.
Definition delete_at {A} (i : nat) (l : list A) : list A := firstn i l ++ skipn (S i) l.

(* insertions_index for a numeric x: bisect_left, then "is the element there equal to x" *)
Definition ins_index (l : list Z) (x : Z) : nat * bool :=
  let i := bisect_left l x in
  (i, match nth_error l i with Some y => y =? x | None => false end).

(* ------------------------------------------------------------------ SortedSet *)
Fixpoint zinsert (x : Z) (l : list Z) : list Z :=
  match l with [] => [x] | y :: t => if x <=? y then x :: y :: t else y :: zinsert x t end.
Definition zsort (l : list Z) : list Z := fold_right zinsert [] l.
(* keep sorted_vals[0], then every element different from its left neighbour *)
Fixpoint dedup_go (prev : Z) (r : list Z) : list Z :=
  match r with [] => [] | y :: r' => if y =? prev then dedup_go y r' else y :: dedup_go y r' end.
Definition dedup_adj (l : list Z) : list Z := match l with [] => [] | x :: t => x :: dedup_go x t end.
Definition set_init (vs : list Z) : list Z := dedup_adj (zsort vs).

Inductive sres := SUnit | SBool (b : bool) | SVal (z : Z) | SKeyErr | STypeErr.

Definition set_add (l : list Z) (x : Z) : list Z :=
  let '(i, found) := ins_index l x in if found then l else insert_at i x l.
Definition set_discard (l : list Z) (x : Z) : list Z :=
  let '(i, found) := ins_index l x in if found then delete_at i l else l.
Definition set_contains (l : list Z) (x : Z) : bool := snd (ins_index l x).

Inductive sop :=
| SAdd (x : Z) | SDiscard (x : key) | SRemove (x : key) | SContains (x : key) | SPop | SClear
| SIor (xs : list Z) | SIsub (xs : list Z).

(* a foreign probe raises TypeError inside bisect exactly when there is something to compare with *)
Definition set_step (l : list Z) (op : sop) : list Z * sres :=
  match op with
  | SAdd x => (set_add l x, SUnit)
  | SDiscard (Num x) => (set_discard l x, SUnit)
  | SDiscard Foreign => (l, match l with [] => SUnit | _ => STypeErr end)
  | SRemove (Num x) => if set_contains l x then (set_discard l x, SUnit) else (l, SKeyErr)
  | SRemove Foreign => (l, SKeyErr)                  (* `value not in self` -> KeyError *)
  | SContains (Num x) => (l, SBool (set_contains l x))
  | SContains Foreign => (l, SBool false)
  | SPop => match l with [] => (l, SKeyErr) | x :: _ => (set_discard l x, SVal x) end
  | SClear => ([], SUnit)                            (* pop() until KeyError *)
  | SIor xs => (fold_left set_add xs l, SUnit)
  | SIsub xs => (fold_left set_discard xs l, SUnit)
  end.

(* ------------------------------------------------------------------ SortedMap *)
Record smap := mkSM { sm_keys : list Z; sm_vals : list Z }.

(* dict(init_values): later pairs win, first-insertion order; then keys sorted with arg_sort *)
Definition map_init (pairs : list (Z * Z)) : smap :=
  let d := fold_left (fun (d : dict Z) kv => dset d (fst kv) (snd kv)) pairs [] in
  let ks := map fst d in let vs := map snd d in
  let idx := arg_sort ks false in
  mkSM (map (fun i => nth i ks 0) idx) (map (fun i => nth i vs 0) idx).

Definition map_get (m : smap) (k : Z) : option Z :=
  let '(i, found) := ins_index (sm_keys m) k in if found then nth_error (sm_vals m) i else None.
Definition map_set (m : smap) (k v : Z) : smap :=
  let '(i, found) := ins_index (sm_keys m) k in
  if found then mkSM (sm_keys m) (firstn i (sm_vals m) ++ v :: skipn (S i) (sm_vals m))
  else mkSM (insert_at i k (sm_keys m)) (insert_at i v (sm_vals m)).
Definition map_del (m : smap) (k : Z) : smap * bool :=
  let '(i, found) := ins_index (sm_keys m) k in
  if found then (mkSM (delete_at i (sm_keys m)) (delete_at i (sm_vals m)), true) else (m, false).

Inductive mop :=
| MGet (k : key) | MSet (k : key) (v : Z) | MDel (k : key) | MContains (k : key) | MGetD (k : key) (d : Z)
| MPop (k : key) | MPopD (k : key) (d : Z) | MPopitem | MClear | MUpdate (kvs : list (Z * Z)) | MSetdefault (k d : Z)
| MItems | MEqDict (kvs : list (Z * Z)).

Definition opt_or (o : option Z) (d : Z) : Z := match o with Some v => v | None => d end.
Definition vOptKey (o : option Z) : val := match o with Some v => vOk (I v) | None => vErr E_Key end.

Definition map_step (m : smap) (op : mop) : smap * val :=
  match op with
  | MGet (Num k) => (m, vOptKey (map_get m k))
  | MGet Foreign => (m, vErr E_Key)
  | MSet (Num k) v => (map_set m k v, vOk (L []))
  | MSet Foreign _ => (m, vErr E_Type)
  | MDel (Num k) => let '(m1, okk) := map_del m k in (m1, if okk then vOk (L []) else vErr E_Key)
  | MDel Foreign => (m, vErr E_Key)
  | MContains (Num k) => (m, vB (match map_get m k with Some _ => true | None => false end))
  | MContains Foreign => (m, vB false)
  | MGetD (Num k) d => (m, I (opt_or (map_get m k) d))
  | MGetD Foreign d => (m, I d)
  | MPop (Num k) => match map_get m k with Some v => (fst (map_del m k), vOk (I v)) | None => (m, vErr E_Key) end
  | MPop Foreign => (m, vErr E_Key)
  | MPopD (Num k) d => match map_get m k with Some v => (fst (map_del m k), I v) | None => (m, I d) end
  | MPopD Foreign d => (m, I d)
  | MPopitem =>
      match sm_keys m with
      | [] => (m, vErr E_Key)
      | k :: _ => (fst (map_del m k), vOk (L [I k; I (opt_or (map_get m k) 0)]))
      end
  | MClear => (mkSM [] [], vOk (L []))
  | MUpdate kvs => (fold_left (fun s kv => map_set s (fst kv) (snd kv)) kvs m, vOk (L []))
  | MSetdefault k d => match map_get m k with Some v => (m, I v) | None => (map_set m k d, I d) end
  | MItems => (m, L (map (fun kv => L [I (fst kv); I (snd kv)]) (combine (sm_keys m) (sm_vals m))))
  | MEqDict kvs =>
      let d := fold_left (fun (d : dict Z) kv => dset d (fst kv) (snd kv)) kvs [] in
      (m, vB ((length (sm_keys m) =? length d)%nat
              && forallb (fun kv => match dget d (fst kv) with Some v => v =? snd kv | None => false end)
                         (combine (sm_keys m) (sm_vals m))))
  end.

(* ------------------------------------------------------------------ wire format *)
Definition dec_key (v : val) : key := match v with I z => Num z | L _ => Foreign end.
Definition enc_sres (r : sres) : val :=
  match r with SUnit => vOk (L []) | SBool b => vB b | SVal z => vOk (I z) | SKeyErr => vErr E_Key | STypeErr => vErr E_Type end.
Definition dec_sop (v : val) : sop :=
  match unL v with
  | [I 0; I x] => SAdd x
  | [I 1; x] => SDiscard (dec_key x)
  | [I 2; x] => SRemove (dec_key x)
  | [I 3; x] => SContains (dec_key x)
  | [I 4] => SPop
  | [I 5] => SClear
  | [I 6; xs] => SIor (unZs xs)
  | [I 7; xs] => SIsub (unZs xs)
  | _ => SClear
  end.
(* [init, ops] -> [list after init, [[result, list, len] ...]] *)
Fixpoint s_trace (l : list Z) (ops : list sop) : list val :=
  match ops with
  | [] => []
  | op :: r => let '(l1, res) := set_step l op in L [enc_sres res; vZs l1; vN (length l1)] :: s_trace l1 r
  end.
Definition run_sorted_set (v : val) : val :=
  match unL v with
  | [ini; ops] => let l0 := set_init (unZs ini) in L [vZs l0; L (s_trace l0 (map dec_sop (unL ops)))]
  | _ => L []
  end.

Definition dec_pairs (v : val) : list (Z * Z) :=
  map (fun p => match unL p with [a; b] => (unI a, unI b) | _ => (0, 0) end) (unL v).
Definition dec_mop (v : val) : mop :=
  match unL v with
  | [I 0; k] => MGet (dec_key k)
  | [I 1; k; x] => MSet (dec_key k) (unI x)
  | [I 2; k] => MDel (dec_key k)
  | [I 3; k] => MContains (dec_key k)
  | [I 4; k; d] => MGetD (dec_key k) (unI d)
  | [I 5; k] => MPop (dec_key k)
  | [I 6; k; d] => MPopD (dec_key k) (unI d)
  | [I 7] => MPopitem
  | [I 8] => MClear
  | [I 9; kvs] => MUpdate (dec_pairs kvs)
  | [I 10; k; d] => MSetdefault (unI k) (unI d)
  | [I 11] => MItems
  | [I 12; kvs] => MEqDict (dec_pairs kvs)
  | _ => MItems
  end.
Fixpoint m_trace (m : smap) (ops : list mop) : list val :=
  match ops with
  | [] => []
  | op :: r => let '(m1, res) := map_step m op in
               L [res; vZs (sm_keys m1); vZs (sm_vals m1); vN (length (sm_keys m1))] :: m_trace m1 r
  end.
Definition run_sorted_map (v : val) : val :=
  match unL v with
  | [ini; ops] => let m0 := map_init (dec_pairs ini) in
                  L [vZs (sm_keys m0); vZs (sm_vals m0); L (m_trace m0 (map dec_mop (unL ops)))]
  | _ => L []
  end.
