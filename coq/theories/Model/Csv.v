(* Model of the record codecs of windpyutils/files.py (property C13): CPython's csv writer (QUOTE_MINIMAL, doublequote,
   lineterminator CRLF) and the csv reader state machine of Modules/_csv.c (default dialect), over code points, for an
   arbitrary delimiter D different from the quote, CR and LF; and the class-level shared StringIO of CSVRecord. *)
From Coq Require Import List ZArith Lia Bool.
From WPU Require Import Common.Val.
Import ListNotations.
Open Scope Z_scope.
(* characters are code points *)
Definition ch := Z.
Definition Q : ch := 34.   (* double quote *)
Definition CR : ch := 13.
Definition LF : ch := 10.

Section Csv.
Variable D : ch.                      (* delimiter: 44 or 9 *)

(* ---------------- writer: csv.writer, QUOTE_MINIMAL, doublequote, lineterminator CRLF ---------------- *)
Definition special (c : ch) : bool := (c =? D) || (c =? Q) || (c =? CR) || (c =? LF).
Definition needs_quote (f : list ch) : bool := existsb special f.
Fixpoint dbl (f : list ch) : list ch :=
  match f with [] => [] | c :: r => if c =? Q then Q :: Q :: dbl r else c :: dbl r end.
Definition wfield (f : list ch) : list ch := if needs_quote f then Q :: dbl f ++ [Q] else f.
Fixpoint wjoin (fs : list (list ch)) : list ch :=
  match fs with
  | [] => []
  | [f] => wfield f
  | f :: r => wfield f ++ D :: wjoin r
  end.
Definition wrow (fs : list (list ch)) : list ch :=
  match fs with
  | [[]] => [Q; Q; CR; LF]           (* a single empty field is written quoted *)
  | _ => wjoin fs ++ [CR; LF]
  end.

(* ---------------- reader: the state machine of Modules/_csv.c, default dialect ---------------- *)
Inductive rstate := START_RECORD | START_FIELD | IN_FIELD | IN_QUOTED | QUOTE_IN_QUOTED | EAT_CRNL | ERR.
Record rd := mkrd { st : rstate; cur : list ch (* reversed *); done : list (list ch) (* reversed *) }.
Definition save (r : rd) (s : rstate) : rd := mkrd s [] (rev (cur r) :: done r).
Definition addc (r : rd) (c : ch) (s : rstate) : rd := mkrd s (c :: cur r) (done r).
Definition isnl (c : ch) : bool := (c =? CR) || (c =? LF).

Definition start_field (r : rd) (c : ch) : rd :=
  if isnl c then save r EAT_CRNL
  else if c =? Q then mkrd IN_QUOTED (cur r) (done r)
  else if c =? D then save r START_FIELD
  else addc r c IN_FIELD.

Definition pchar (r : rd) (c : ch) : rd :=
  match st r with
  | START_RECORD => if isnl c then mkrd EAT_CRNL (cur r) (done r) else start_field r c
  | START_FIELD => start_field r c
  | IN_FIELD => if isnl c then save r EAT_CRNL else if c =? D then save r START_FIELD else addc r c IN_FIELD
  | IN_QUOTED => if c =? Q then mkrd QUOTE_IN_QUOTED (cur r) (done r) else addc r c IN_QUOTED
  | QUOTE_IN_QUOTED => if c =? Q then addc r c IN_QUOTED
                       else if c =? D then save r START_FIELD
                       else if isnl c then save r EAT_CRNL
                       else addc r c IN_FIELD
  | EAT_CRNL => if isnl c then r else mkrd ERR (cur r) (done r)
  | ERR => r
  end.
(* end of the input line *)
Definition peol (r : rd) : rd :=
  match st r with
  | START_RECORD | EAT_CRNL => mkrd START_RECORD (cur r) (done r)
  | START_FIELD | IN_FIELD | QUOTE_IN_QUOTED => save r START_RECORD
  | IN_QUOTED => r          (* would continue on the next line *)
  | ERR => r
  end.
Definition rinit : rd := mkrd START_RECORD [] [].
Definition read (s : list ch) : option (list (list ch)) :=
  let r := peol (fold_left pchar s rinit) in
  match st r with START_RECORD => Some (rev (done r)) | _ => None end.


(* the row as it stands in a line file: save() output with the final LF stripped by rstrip("\n") *)
Definition wbody (fs : list (list ch)) : list ch := match fs with [[]] => [Q; Q] | _ => wjoin fs end.
End Csv.

(* ---------------- the shared result buffer: cls._res_io = StringIO(), one for all CSV/TSV record classes ---------------- *)
Record sio := mkSio { s_buf : list ch; s_pos : nat }.
Definition sio_write (s : sio) (data : list ch) : sio :=
  let padded := s_buf s ++ repeat 0 (s_pos s - length (s_buf s)) in
  mkSio (firstn (s_pos s) padded ++ data ++ skipn (s_pos s + length data) padded) (s_pos s + length data).
Definition sio_getvalue (s : sio) : list ch := s_buf s.
Definition sio_truncate0 (s : sio) : sio := mkSio [] (s_pos s).
Definition sio_seek0 (s : sio) : sio := mkSio (s_buf s) O.
(* _dict_to_string: writer.writerow(d); res = getvalue(); truncate(0); seek(0) *)
Definition dict_to_string (s : sio) (D : ch) (fs : list (list ch)) : sio * list ch :=
  let s1 := sio_write s (wrow D fs) in (sio_seek0 (sio_truncate0 s1), sio_getvalue s1).
Fixpoint save_seq (s : sio) (calls : list (ch * list (list ch))) : list (list ch) :=
  match calls with
  | [] => []
  | (D, fs) :: r => let '(s1, out) := dict_to_string s D fs in out :: save_seq s1 r
  end.

(* ---------------- wire format ---------------- *)
Definition enc_fields (o : option (list (list ch))) : val :=
  match o with Some fs => vOk (L (map vZs fs)) | None => vErr E_Other end.
(* [[delim, [field ...]] ...] -> for every call: [saved string, fields read back from it, fields read back from body+CR,
   the saved record occupies a single line] *)
Definition run_csv_seq (v : val) : val :=
  let calls := map (fun c => match unL c with [d; fs] => (unI d, map unZs (unL fs)) | _ => (44, []) end) (unL v) in
  L (map (fun p => let '((D, fs), out) := p in
               L [vZs out; enc_fields (read D out); enc_fields (read D (wbody D fs ++ [CR]));
                  vB (negb (existsb (fun c => (c =? CR) || (c =? LF)) (wbody D fs)))])
         (combine calls (save_seq (mkSio [] O) calls))).

(* JSON records: the codec is assumed (see Properties/C13.v); the expected observation is constant *)
Definition run_json_assumed (v : val) : val := L [I 1; I 1].
