(* Model of windpyutils/buffers.py (Buffer, PrintBuffer) and structures/circular_buffer.py.
   Payloads are integers.  One constructor per public operation, transcribed from the code. *)
From Coq Require Import ZArith List Bool.
From WPU Require Import Common.Val Common.Dict Common.ListX.
Import ListNotations.
Open Scope Z_scope.

(* ------------------------------------------------------------------ Buffer *)
Record bst := mkB { b_wait : Z; b_sto : dict Z }.
Definition b_init : bst := mkB 0 [].

Inductive bop := BCall (i x : Z) | BDrain | BFlush.
Inductive bout := BUnit | BAttrErr | BEmit (xs : list Z).

(* __iter__ run to completion: while waiting_for in storage: yield; del; waiting_for += 1.
   Every round deletes one stored key, so [length storage] rounds always suffice (b_drain_fuel_enough). *)
Fixpoint b_drain (fuel : nat) (w : Z) (s : dict Z) : list Z * Z * dict Z :=
  match fuel with
  | O => ([], w, s)
  | S f =>
      match dget s w with
      | Some x => let '(out, w', s') := b_drain f (w + 1) (ddel s w) in (x :: out, w', s')
      | None => ([], w, s)
      end
  end.

Definition b_step (st : bst) (op : bop) : bst * bout :=
  match op with
  | BCall i x =>
      if i <? b_wait st then (st, BAttrErr)
      else (mkB (b_wait st) (dset (b_sto st) i x), BUnit)
  | BDrain =>
      let '(out, w, s) := b_drain (length (b_sto st)) (b_wait st) (b_sto st) in
      (mkB w s, BEmit out)
  | BFlush => (b_init, BUnit)
  end.

Definition b_len (st : bst) : Z := Z.of_nat (length (b_sto st)).

(* run collecting outputs *)
Fixpoint b_exec (st : bst) (ops : list bop) : bst * list bout :=
  match ops with
  | [] => (st, [])
  | op :: ops' =>
      let '(st1, o) := b_step st op in
      let '(st2, os) := b_exec st1 ops' in (st2, o :: os)
  end.

Definition emitted_of (o : bout) : list Z := match o with BEmit xs => xs | _ => [] end.

(* ------------------------------------------------------------------ PrintBuffer *)
Record pst := mkP { p_wait : Z; p_buf : dict Z }.
Definition p_init : pst := mkP 0 [].

Inductive pop := PPrint (sn v : Z) | PFlush | PClear.
(* output of an operation: what was written to the file, and print's boolean *)
Record pout := mkPO { po_printed : list Z; po_ret : bool }.

(* sorted(self._buffer.keys()) : insertion sort of the entries by key *)
Fixpoint ins_by_key (e : Z * Z) (l : list (Z * Z)) : list (Z * Z) :=
  match l with
  | [] => [e]
  | h :: t => if fst e <=? fst h then e :: h :: t else h :: ins_by_key e t
  end.
Definition sort_by_key (l : list (Z * Z)) : list (Z * Z) := fold_right ins_by_key [] l.

Definition p_step (st : pst) (op : pop) : pst * pout :=
  match op with
  | PPrint sn v =>
      if sn =? p_wait st then
        let '(out, w, s) := b_drain (length (p_buf st)) (p_wait st + 1) (p_buf st) in
        (mkP w s, mkPO (v :: out) true)
      else (mkP (p_wait st) (dset (p_buf st) sn v), mkPO [] false)
  | PFlush =>
      let srt := sort_by_key (p_buf st) in
      let w := match rev srt with [] => p_wait st | (k, _) :: _ => k + 1 end in
      (mkP w [], mkPO (map snd srt) false)
  | PClear => (p_init, mkPO [] false)
  end.

Definition p_len (st : pst) : Z := Z.of_nat (length (p_buf st)).

Fixpoint p_exec (st : pst) (ops : list pop) : pst * list pout :=
  match ops with
  | [] => (st, [])
  | op :: ops' =>
      let '(st1, o) := p_step st op in
      let '(st2, os) := p_exec st1 ops' in (st2, o :: os)
  end.

(* ------------------------------------------------------------------ CircularBuffer *)
Record rst := mkR { r_buf : list Z; r_size : Z; r_off : Z }.
Definition r_cap (st : rst) : Z := Z.of_nat (length (r_buf st)).
Definition r_init (c : nat) : rst := mkR (repeat 0 c) 0 0.

Inductive rop := RPut (e : Z) | RClear.

Definition r_step (st : rst) (op : rop) : rst :=
  match op with
  | RPut e =>
      mkR (upd (Z.to_nat (r_off st)) e (r_buf st))
          (if r_size st <? r_cap st then r_size st + 1 else r_size st)
          ((r_off st + 1) mod r_cap st)
  | RClear => mkR (r_buf st) 0 0
  end.

(* __getitem__: None = IndexError *)
Definition r_get (st : rst) (i : Z) : option Z :=
  if (i >=? r_size st) || (0 >? i) then None
  else Some (nth (Z.to_nat ((r_off st - r_size st + i) mod r_cap st)) (r_buf st) 0).

Definition r_to_list (st : rst) : list Z :=
  map (fun j => match r_get st (Z.of_nat j) with Some x => x | None => 0 end)
      (seq 0 (Z.to_nat (r_size st))).

(* ------------------------------------------------------------------ wire format (harness only) *)
Definition dec_bop (v : val) : bop :=
  match unL v with
  | [I 0; I i; I x] => BCall i x
  | [I 1] => BDrain
  | _ => BFlush
  end.
Definition enc_bout (o : bout) : val :=
  match o with BUnit => vOk (L []) | BAttrErr => vErr E_Attribute | BEmit xs => vOk (vZs xs) end.
(* observation after every op: result, len, waiting_for *)
Fixpoint b_trace (st : bst) (ops : list bop) : list val :=
  match ops with
  | [] => []
  | op :: ops' =>
      let '(st1, o) := b_step st op in
      L [enc_bout o; I (b_len st1); I (b_wait st1)] :: b_trace st1 ops'
  end.
Definition run_buffer (v : val) : val := L (b_trace b_init (map dec_bop (unL v))).

Definition dec_pop (v : val) : pop :=
  match unL v with
  | [I 0; I i; I x] => PPrint i x
  | [I 1] => PFlush
  | _ => PClear
  end.
Fixpoint p_trace (st : pst) (ops : list pop) : list val :=
  match ops with
  | [] => []
  | op :: ops' =>
      let '(st1, o) := p_step st op in
      L [vZs (po_printed o); vB (po_ret o); I (p_len st1); I (p_wait st1)] :: p_trace st1 ops'
  end.
Definition run_printbuffer (v : val) : val := L (p_trace p_init (map dec_pop (unL v))).

Definition dec_rop (v : val) : rop :=
  match unL v with
  | [I 0; I e] => RPut e
  | _ => RClear
  end.
(* observation after every op: len, list(buffer), get(-1), get(len), get(len+1) *)
Definition r_obs (st : rst) : val :=
  L [I (r_size st); vZs (r_to_list st); vOptZ (r_get st (-1)); vOptZ (r_get st (r_size st));
     vOptZ (r_get st (r_size st + 1))].
Fixpoint r_trace (st : rst) (ops : list rop) : list val :=
  match ops with
  | [] => []
  | op :: ops' => let st1 := r_step st op in r_obs st1 :: r_trace st1 ops'
  end.
Definition run_ring (v : val) : val :=
  match unL v with
  | [c; ops] => L (r_trace (r_init (unN c)) (map dec_rop (unL ops)))
  | _ => L []
  end.
