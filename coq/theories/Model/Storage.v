(* TextFileStorage (windpyutils/parallel/storage.py), property C14: a labelled transition system of any number of
   processes that share the storage.  Shared: the index (manager list), the two counters (multiprocessing.Value), the
   re-entrant lock, the per-writer files.  Every process runs a program of operations; an event is "process p makes its
   next step", so a schedule is a list of process numbers.  Steps are the accesses to shared state:
     write g t : [open: take a writer number, under the lock] acquire; check / extend the index and set index[g];
                 stored_cnt += 1; advance waiting_for; append the line to the own file and flush; release
     read g    : acquire; look the index up; release; then - outside the lock - seek and read the line
     len       : one read of stored_cnt;   is_contiguous : a read of waiting_for, then a read of stored_cnt
     iterate   : the whole iteration holds the lock
   Files are byte lists; texts are single-line (no 10, no 13). *)
From Coq Require Import ZArith List Bool Arith.
From WPU Require Import Common.Val Model.Pool.
Import ListNotations.
Open Scope nat_scope.

Inductive sop := SWrite (g : nat) (t : list Z) | SRead (g : nat) | SLen | SContig | SIter.
Inductive sres :=
| RUnit | RValueError | RIndexError | RText (t : list Z) | RNat (n : nat) | RBool (b : bool) | RTexts (l : list (list Z)).

Inductive spc :=
| PIdle
| PW1 (g : nat) (t : list Z) | PW2 (g : nat) (t : list Z) | PW3 (g : nat) (t : list Z) | PW3L (g : nat) (t : list Z)
| PW4 (g : nat) (t : list Z) | PW5 (g : nat) (t : list Z)
| PR1 (g : nat) | PR2 (g w off : nat)
| PC2 (wf : nat).

Record sproc := mkP { p_wid : option nat; p_todo : list sop; p_pc : spc; p_out : list (sop * sres) }.

Record sstate := mkSS {
  ss_index : list (option (nat * nat));
  ss_files : list (list Z);
  ss_cnt : nat; ss_wf : nat;
  ss_lock : option nat;
  ss_procs : list sproc;
  ss_texts : list (nat * list Z);        (* ghost: what has been stored under which identifier *)
}.

Definition sinit (presize : nat) (progs : list (list sop)) : sstate :=
  mkSS (repeat None presize) [] 0 0 None (map (fun pr => mkP None pr PIdle []) progs) [].


(* readline from a byte offset, then rstrip of the line terminators *)
Fixpoint take_line (l : list Z) : list Z :=
  match l with [] => [] | c :: t => if (c =? 10)%Z then [] else c :: take_line t end.
Fixpoint rstrip_cr (l : list Z) : list Z :=      (* str.rstrip of carriage returns, on the reversed list *)
  match l with c :: t => if (c =? 13)%Z then rstrip_cr t else l | [] => [] end.
Definition line_at (f : list Z) (off : nat) : list Z := rev (rstrip_cr (rev (take_line (skipn off f)))).

Definition extend (idx : list (option (nat * nat))) (g : nat) : list (option (nat * nat)) :=
  if length idx <=? g then idx ++ repeat None (g - length idx + 1) else idx.
Definition idx_get (idx : list (option (nat * nat))) (g : nat) : option (nat * nat) :=
  match nth_error idx g with Some (Some e) => Some e | _ => None end.

Definition iter_texts (idx : list (option (nat * nat))) (files : list (list Z)) : list (list Z) :=
  flat_map (fun e => match e with Some (w, off) => [line_at (nth w files []) off] | None => [] end) idx.

Definition upd_proc (s : sstate) (p : nat) (pr : sproc) : sstate :=
  mkSS (ss_index s) (ss_files s) (ss_cnt s) (ss_wf s) (ss_lock s) (set_nth p pr (ss_procs s)) (ss_texts s).
Definition finish (pr : sproc) (o : sop) (r : sres) (rest : list sop) : sproc :=
  mkP (p_wid pr) rest PIdle (p_out pr ++ [(o, r)]).
Definition lock_free_for (s : sstate) (p : nat) : bool := match ss_lock s with None => true | Some _ => false end.

Definition sstep (s : sstate) (p : nat) : option sstate :=
  match nth_error (ss_procs s) p with
  | None => None
  | Some pr =>
      match p_pc pr, p_todo pr with
      | PIdle, SWrite g t :: rest =>
          if lock_free_for s p then
            match p_wid pr with
            | None =>       (* open(): the writer number is the number of files so far; the file is created empty *)
                Some (mkSS (ss_index s) (ss_files s ++ [[]]) (ss_cnt s) (ss_wf s) (ss_lock s)
                           (set_nth p (mkP (Some (length (ss_files s))) (p_todo pr) PIdle (p_out pr)) (ss_procs s)) (ss_texts s))
            | Some _ =>     (* acquire *)
                Some (mkSS (ss_index s) (ss_files s) (ss_cnt s) (ss_wf s) (Some p)
                           (set_nth p (mkP (p_wid pr) (p_todo pr) (PW1 g t) (p_out pr)) (ss_procs s)) (ss_texts s))
            end
          else None
      | PW1 g t, o :: rest =>
          let idx := extend (ss_index s) g in
          match idx_get idx g, p_wid pr with
          | Some _, _ =>    (* ValueError, the with-block releases the lock *)
              Some (mkSS idx (ss_files s) (ss_cnt s) (ss_wf s) None (set_nth p (finish pr o RValueError rest) (ss_procs s)) (ss_texts s))
          | None, Some w =>
              Some (mkSS (set_nth g (Some (w, length (nth w (ss_files s) []))) idx) (ss_files s) (ss_cnt s) (ss_wf s) (ss_lock s)
                         (set_nth p (mkP (p_wid pr) (p_todo pr) (PW2 g t) (p_out pr)) (ss_procs s)) (ss_texts s ++ [(g, t)]))
          | None, None => None
          end
      | PW2 g t, _ =>
          Some (mkSS (ss_index s) (ss_files s) (S (ss_cnt s)) (ss_wf s) (ss_lock s)
                     (set_nth p (mkP (p_wid pr) (p_todo pr) (PW3 g t) (p_out pr)) (ss_procs s)) (ss_texts s))
      | PW3 g t, _ =>        (* if global_identifier == waiting_for: waiting_for += 1, then the loop *)
          if g =? ss_wf s
          then Some (mkSS (ss_index s) (ss_files s) (ss_cnt s) (S (ss_wf s)) (ss_lock s)
                          (set_nth p (mkP (p_wid pr) (p_todo pr) (PW3L g t) (p_out pr)) (ss_procs s)) (ss_texts s))
          else Some (upd_proc s p (mkP (p_wid pr) (p_todo pr) (PW4 g t) (p_out pr)))
      | PW3L g t, _ =>       (* while waiting_for < len(self) and index[waiting_for] is not None: waiting_for += 1 -- one iteration per step *)
          if (ss_wf s <? ss_cnt s) && (match idx_get (ss_index s) (ss_wf s) with Some _ => true | None => false end)
          then Some (mkSS (ss_index s) (ss_files s) (ss_cnt s) (S (ss_wf s)) (ss_lock s) (ss_procs s) (ss_texts s))
          else Some (upd_proc s p (mkP (p_wid pr) (p_todo pr) (PW4 g t) (p_out pr)))
      | PW4 g t, _ =>
          match p_wid pr with
          | Some w =>
              Some (mkSS (ss_index s) (set_nth w (nth w (ss_files s) [] ++ t ++ [10%Z]) (ss_files s)) (ss_cnt s) (ss_wf s) (ss_lock s)
                         (set_nth p (mkP (p_wid pr) (p_todo pr) (PW5 g t) (p_out pr)) (ss_procs s)) (ss_texts s))
          | None => None
          end
      | PW5 g t, o :: rest =>
          Some (mkSS (ss_index s) (ss_files s) (ss_cnt s) (ss_wf s) None (set_nth p (finish pr o RUnit rest) (ss_procs s)) (ss_texts s))
      | PIdle, SRead g :: rest =>
          if lock_free_for s p then
            Some (mkSS (ss_index s) (ss_files s) (ss_cnt s) (ss_wf s) (Some p)
                       (set_nth p (mkP (p_wid pr) (p_todo pr) (PR1 g) (p_out pr)) (ss_procs s)) (ss_texts s))
          else None
      | PR1 g, o :: rest =>
          match idx_get (ss_index s) g with
          | None => Some (mkSS (ss_index s) (ss_files s) (ss_cnt s) (ss_wf s) None (set_nth p (finish pr o RIndexError rest) (ss_procs s)) (ss_texts s))
          | Some (w, off) =>
              Some (mkSS (ss_index s) (ss_files s) (ss_cnt s) (ss_wf s) None
                         (set_nth p (mkP (p_wid pr) (p_todo pr) (PR2 g w off) (p_out pr)) (ss_procs s)) (ss_texts s))
          end
      | PR2 g w off, o :: rest =>
          Some (upd_proc s p (finish pr o (RText (line_at (nth w (ss_files s) []) off)) rest))
      | PIdle, SLen :: rest => Some (upd_proc s p (finish pr SLen (RNat (ss_cnt s)) rest))
      | PIdle, SContig :: rest => Some (upd_proc s p (mkP (p_wid pr) (p_todo pr) (PC2 (ss_wf s)) (p_out pr)))
      | PC2 wf, o :: rest => Some (upd_proc s p (finish pr o (RBool (wf =? ss_cnt s)) rest))
      | PIdle, SIter :: rest =>
          if lock_free_for s p then Some (upd_proc s p (finish pr SIter (RTexts (iter_texts (ss_index s) (ss_files s))) rest)) else None
      | _, _ => None
      end
  end.

Definition srun (s : sstate) (sched : list nat) : sstate :=
  fold_left (fun s p => match sstep s p with Some s' => s' | None => s end) sched s.
Fixpoint saccept (s : sstate) (evs : list nat) (n : nat) : nat * sstate :=
  match evs with
  | [] => (n, s)
  | p :: r => match sstep s p with Some s' => saccept s' r (S n) | None => (n, s) end
  end.

(* flush(): only with the storage closed in all processes (no operation in progress).  The files are removed, index and
   counters reset; the writer numbers stay assigned (a process that stores again creates its file anew).  A new epoch
   begins: the outputs of the operations completed before the flush have been judged against the texts of their epoch. *)
Definition sflush (s : sstate) : sstate :=
  mkSS [] (map (fun _ => []) (ss_files s)) 0 0 None (map (fun pr => mkP (p_wid pr) (p_todo pr) PIdle []) (ss_procs s)) [].

(* ------------------------------------------------------------------ wire *)
Definition dec_sop (v : val) : sop :=
  match unL v with
  | [I 0; g; t] => SWrite (unN g) (unZs t) | [I 1; g] => SRead (unN g) | [I 2] => SLen | [I 3] => SContig | _ => SIter
  end%Z.
Definition enc_sres (r : sres) : val :=
  match r with
  | RUnit => L [I 0] | RValueError => L [I 1] | RIndexError => L [I 2] | RText t => L [I 3; vZs t] | RNat n => L [I 4; vN n]
  | RBool b => L [I 5; vB b] | RTexts l => L [I 6; L (map vZs l)]
  end%Z.
(* [presize, programs, schedule] -> [accepted, outputs per process, index, files, cnt, wf, lock free] *)
Definition run_storage (v : val) : val :=
  match unL v with
  | [ps; progs; evs] =>
      let '(n, s) := saccept (sinit (unN ps) (map (fun pr => map dec_sop (unL pr)) (unL progs))) (map unN (unL evs)) O in
      L [vN n; L (map (fun pr => L (map (fun e => enc_sres (snd e)) (p_out pr))) (ss_procs s));
         L (map (fun e => match e with Some (w, off) => L [vN w; vN off] | None => L [] end) (ss_index s));
         L (map vZs (ss_files s)); vN (ss_cnt s); vN (ss_wf s); vB (match ss_lock s with None => true | Some _ => false end)]
  | _ => L []
  end.
