(* Model of the sequence helpers of windpyutils/generic.py (property C19). *)
From Coq Require Import ZArith List Bool.
From WPU Require Import Common.Val.
Import ListNotations.
Open Scope Z_scope.

(* ------------------------------------------------------------------ Roman numerals *)
Inductive rch := RI | RV | RX | RL | RC | RD | RM.
Definition rval (c : rch) : Z :=
  match c with RI => 1 | RV => 5 | RX => 10 | RL => 50 | RC => 100 | RD => 500 | RM => 1000 end.

Definition rtable : list (Z * list rch) :=
  [(1000, [RM]); (900, [RC; RM]); (500, [RD]); (400, [RC; RD]); (100, [RC]); (90, [RX; RC]); (50, [RL]);
   (40, [RX; RL]); (10, [RX]); (9, [RI; RX]); (5, [RV]); (4, [RI; RV]); (1, [RI])].

Fixpoint rrepeat (r : list rch) (n : nat) : list rch :=
  match n with O => [] | S k => r ++ rrepeat r k end.

(* the generator: times, remainder = divmod(remainder, v); yield r * times; if remainder == 0: break *)
Fixpoint rgen (tbl : list (Z * list rch)) (rem : Z) : list rch :=
  match tbl with
  | [] => []
  | (v, r) :: tbl' =>
      let times := rem / v in
      let rem' := rem mod v in
      rrepeat r (Z.to_nat times) ++ (if rem' =? 0 then [] else rgen tbl' rem')
  end.
Definition int_2_roman (n : Z) : list rch := rgen rtable n.

(* sum(-x if i < len(n)-1 and x < c[i+1] else x) *)
Fixpoint roman_sum (c : list Z) : Z :=
  match c with
  | [] => 0
  | x :: rest =>
      (match rest with y :: _ => if x <? y then - x else x | [] => x end) + roman_sum rest
  end.
Definition roman_2_int (s : list rch) : Z := roman_sum (map rval s).

(* ------------------------------------------------------------------ arg_sort *)
(* sorted(range(len(elements)), key=lambda x: elements[x], reverse=reverse): CPython's sort is stable, also with
   reverse=True (equal keys keep their original order).  Modelled as insertion sort building from the right. *)
Definition key_of (els : list Z) (i : nat) : Z := nth i els 0.

Fixpoint ins_idx (rev : bool) (els : list Z) (x : nat) (l : list nat) : list nat :=
  match l with
  | [] => [x]
  | y :: t =>
      if (if rev then key_of els y <=? key_of els x else key_of els x <=? key_of els y)
      then x :: y :: t else y :: ins_idx rev els x t
  end.
Definition arg_sort (els : list Z) (rev : bool) : list nat :=
  fold_right (ins_idx rev els) [] (seq 0 (length els)).

(* ------------------------------------------------------------------ sub_seq / search_sub_seq *)
Fixpoint zlist_eqb (a b : list Z) : bool :=
  match a, b with
  | [], [] => true
  | x :: a', y :: b' => (x =? y) && zlist_eqb a' b'
  | _, _ => false
  end.
(* s2[off : off+n] *)
Definition window (s2 : list Z) (off n : nat) : list Z := firstn n (skipn off s2).

Definition sub_seq (s1 s2 : list Z) : bool :=
  (length s1 <=? length s2)%nat &&
  existsb (fun off => zlist_eqb s1 (window s2 off (length s1))) (seq 0 (length s2 - length s1 + 1)).

(* None = ValueError *)
Definition search_sub_seq (s1 s2 : list Z) : option (list (nat * nat)) :=
  match s1, s2 with
  | [], _ | _, [] => None
  | _, _ =>
      if (length s1 <=? length s2)%nat then
        Some (map (fun off => (off, off + length s1)%nat)
                  (filter (fun off => zlist_eqb s1 (window s2 off (length s1)))
                          (seq 0 (length s2 - length s1 + 1))))
      else Some []
  end.

(* ------------------------------------------------------------------ compare_pos_in_iterables *)
(* list.remove(x): drop the first equal element; None = ValueError *)
Fixpoint remove_first (x : Z) (b : list Z) : option (list Z) :=
  match b with
  | [] => None
  | y :: t => if x =? y then Some t else option_map (cons y) (remove_first x t)
  end.
Fixpoint compare_pos (a b : list Z) : bool :=
  match a with
  | [] => match b with [] => true | _ => false end
  | x :: a' => match remove_first x b with Some b' => compare_pos a' b' | None => false end
  end.

(* ------------------------------------------------------------------ Batcher / BatcherIter *)
Section Batch.
Context {A : Type}.

(* __len__ : -(-samples // batch_size) *)
Definition batcher_len (n b : Z) : Z := - ((- n) / b).

(* __getitem__ for 0 <= item: None = IndexError; data[offset : offset + batch_size] *)
Definition batcher_get (data : list A) (b : Z) (item : Z) : option (list A) :=
  if item >=? batcher_len (Z.of_nat (length data)) b then None
  else Some (firstn (Z.to_nat b) (skipn (Z.to_nat (item * b)) data)).

Definition list_nonempty (l : list A) : bool := match l with [] => false | _ => true end.

(* BatcherIter.__iter__ on a single iterable *)
Fixpoint biter_go (b : nat) (acc : list A) (l : list A) : list (list A) :=
  match l with
  | [] => if list_nonempty acc then [acc] else []
  | x :: t =>
      let acc' := acc ++ [x] in
      if (length acc' =? b)%nat then acc' :: biter_go b [] t else biter_go b acc' t
  end.
Definition biter (b : nat) (l : list A) : list (list A) := biter_go b [] l.
End Batch.

(* tuple inputs: zip of the columns gives rows; a batch of rows is handed out column-wise *)
Fixpoint zip_rows (cols : list (list Z)) (fuel : nat) : list (list Z) :=
  match fuel with
  | O => []
  | S f =>
      if forallb (fun c => match c with [] => false | _ => true end) cols
      then map (fun c => hd 0 c) cols :: zip_rows (map (@tl Z) cols) f
      else []
  end.
Definition min_len (cols : list (list Z)) : nat :=
  match cols with [] => O | c :: cs => fold_left (fun m x => Nat.min m (length x)) cs (length c) end.
Definition rows_of (cols : list (list Z)) : list (list Z) := zip_rows cols (min_len cols).
Definition cols_of (ncols : nat) (rows : list (list Z)) : list (list Z) :=
  map (fun c => map (fun r => nth c r 0) rows) (seq 0 ncols).
Definition biter_tuple (b : nat) (cols : list (list Z)) : list (list (list Z)) :=
  map (cols_of (length cols)) (biter b (rows_of cols)).

(* ------------------------------------------------------------------ wire format (harness only) *)
Definition rch_code (c : rch) : Z :=
  match c with RI => 73 | RV => 86 | RX => 88 | RL => 76 | RC => 67 | RD => 68 | RM => 77 end.
Definition rch_of_code (z : Z) : option rch :=
  if z =? 73 then Some RI else if z =? 86 then Some RV else if z =? 88 then Some RX else if z =? 76 then Some RL
  else if z =? 67 then Some RC else if z =? 68 then Some RD else if z =? 77 then Some RM else None.
Fixpoint dec_roman (l : list Z) : option (list rch) :=
  match l with
  | [] => Some []
  | z :: t => match rch_of_code z, dec_roman t with Some c, Some r => Some (c :: r) | _, _ => None end
  end.
Definition run_int_2_roman (v : val) : val := vZs (map rch_code (int_2_roman (unI v))).
Definition run_roman_2_int (v : val) : val :=
  match dec_roman (unZs v) with Some s => vOk (I (roman_2_int s)) | None => vErr E_Key end.
(* the complete table, both directions: for n in lo..hi: [numeral, roman_2_int numeral] *)
Definition run_roman_all (v : val) : val :=
  match unL v with
  | [lo; hi] =>
      L (map (fun k => let n := unI lo + Z.of_nat k in
                       let r := int_2_roman n in L [vZs (map rch_code r); I (roman_2_int r)])
             (seq 0 (Z.to_nat (unI hi - unI lo + 1))))
  | _ => L []
  end.
Definition run_arg_sort (v : val) : val :=
  match unL v with [els; rev] => vNs (arg_sort (unZs els) (unB rev)) | _ => L [] end.
Definition run_sub_seq (v : val) : val :=
  match unL v with [a; b] => vB (sub_seq (unZs a) (unZs b)) | _ => L [] end.
Definition run_search_sub_seq (v : val) : val :=
  match unL v with
  | [a; b] => match search_sub_seq (unZs a) (unZs b) with
              | Some r => vOk (L (map (fun p => L [vN (fst p); vN (snd p)]) r))
              | None => vErr E_Value
              end
  | _ => L []
  end.
Definition run_compare_pos (v : val) : val :=
  match unL v with [a; b] => vB (compare_pos (unZs a) (unZs b)) | _ => L [] end.
Definition enc_get (o : option (list Z)) : val := match o with Some l => vOk (vZs l) | None => vErr E_Index end.
(* [data; b; idxs] -> ValueError when b <= 0, else [len, [getitem i ...]] *)
Definition run_batcher (v : val) : val :=
  match unL v with
  | [data; b; idxs] =>
      if unI b <=? 0 then vErr E_Value
      else vOk (L [I (batcher_len (Z.of_nat (length (unZs data))) (unI b));
                   L (map (fun i => enc_get (batcher_get (unZs data) (unI b) (unI i))) (unL idxs))])
  | _ => L []
  end.
Definition run_batcher_iter (v : val) : val :=
  match unL v with
  | [data; b] => if unI b <=? 0 then vErr E_Value else vOk (L (map vZs (biter (unN b) (unZs data))))
  | _ => L []
  end.
Definition all_same_len (cols : list (list Z)) : bool :=
  match cols with [] => true | c :: cs => forallb (fun x => (length x =? length c)%nat) cs end.
Definition run_batcher_tuple (v : val) : val :=
  match unL v with
  | [cols; b; idxs] =>
      let cs := map unZs (unL cols) in
      if negb (all_same_len cs) then vErr E_Value
      else if unI b <=? 0 then vErr E_Value
      else vOk (L [I (batcher_len (Z.of_nat (length (hd [] cs))) (unI b));
                   L (map (fun i => if unI i >=? batcher_len (Z.of_nat (length (hd [] cs))) (unI b) then vErr E_Index
                                    else vOk (L (map (fun c => match batcher_get c (unI b) (unI i) with
                                                               | Some l => vZs l | None => L [] end) cs)))
                          (unL idxs))])
  | _ => L []
  end.
Definition run_batcher_iter_tuple (v : val) : val :=
  match unL v with
  | [cols; b] =>
      if unI b <=? 0 then vErr E_Value
      else vOk (L (map (fun batch => L (map vZs batch)) (biter_tuple (unN b) (map unZs (unL cols)))))
  | _ => L []
  end.
