(* Labelled transition system of FunctorMap (windpyutils/parallel/pools.py) and mul_p_map (parallel/maps.py with
   parallel/workers.py), property C05.  One main thread and W worker processes that share a bounded work queue and an
   unbounded results queue; events are the queue operations and process start / join.
     kind = true  : FunctorMap - workers started once (__enter__), any number of calls, stop orders and joins in __exit__;
                    results pass through the reorder Buffer and are yielded as soon as they are contiguous
     kind = false : mul_p_map  - every call starts its own workers on the class-level queues, one item per chunk, the stop
                    orders are put BEFORE the remaining results are collected, results are sorted by index at the end
   The function applied to the items is uninterpreted (a result chunk is represented by the chunk).  A non-blocking get may
   report Empty although an item is on its way (multiprocessing.Queue hands items to a feeder thread): MEmpty is enabled
   in every state of the drain loop.  A worker process that has left its loop (took its stop order) can only exit - and so
   be joined - when the feeder thread of its results queue has flushed what it put: the pipe behind the queue is bounded,
   so not while more than m_pipe results are waiting to be read (m_pipe = None: no bound). *)
From Coq Require Import ZArith List Bool Arith.
From WPU Require Import Common.Val Model.Pool.
Import ListNotations.
Open Scope nat_scope.

Record mcfg := mkMCfg { m_workers : nat; m_cap : option nat; m_kind : bool; m_pipe : option nat }.

Inductive mwpc := MWNew | MWIdle | MWHold (i : nat) (xs : list Z) | MWExiting | MWDead.    (* MWExiting: run() returned; MWDead: the process has exited *)

Inductive mmpc :=
| MmEnter (k : nat)
| MmIdle
| MmPut (i : nat) (rest : list Z)            (* rest <> [] : the next chunk is cut from it *)
| MmDrain (i : nat) (rest : list Z)          (* non-blocking gets after the put of chunk i-1 *)
| MmNones (n : nat)                          (* stop orders still to put *)
| MmFinal                                    (* blocking gets while finished < cnt *)
| MmJoin (k : nat)
| MmDone.

Record mstate := mkMS {
  ms_todo : list (list Z * nat);             (* remaining calls: data, chunk size (1 for mul_p_map) *)
  ms_main : mmpc;
  ms_chunk : nat; ms_data : list Z;
  ms_cnt : nat; ms_finished : nat;
  ms_buffer : list (nat * list Z); ms_wait : nat;    (* FunctorMap: reorder buffer; mul_p_map: the list res, in arrival order *)
  ms_yield : list Z;
  ms_done : list (list Z);
  ms_err : bool;
  ms_workq : list qitem; ms_resq : list qitem;
  ms_procs : list mwpc;
}.

Definition minit (cfg : mcfg) (hist : list (list Z * nat)) : mstate :=
  mkMS hist (if m_kind cfg then MmEnter 0 else MmIdle) 1 [] 0 0 [] 0 [] [] false [] []
       (if m_kind cfg then repeat MWNew (m_workers cfg) else []).

Inductive mevent :=
| MStart | MNext | MPut | MTry | MEmpty | MGet | MEnd | MNone | MJoin
| MWTake (k : nat) | MWRes (k : nat) | MWExit (k : nat).

(* stable insertion sort of (index, chunk) pairs by index: sorted(res, key=lambda x: x[0]) *)
Fixpoint ins_by_idx (e : nat * list Z) (l : list (nat * list Z)) : list (nat * list Z) :=
  match l with
  | [] => [e]
  | h :: t => if fst e <? fst h then e :: h :: t else h :: ins_by_idx e t
  end.
Definition sort_by_idx (l : list (nat * list Z)) : list (nat * list Z) := fold_left (fun acc e => ins_by_idx e acc) l [].

(* one result taken from the results queue *)
Definition absorb (kind : bool) (s : mstate) (i : nat) (xs : list Z) : mstate :=
  if kind then
    let '(b, w, fin, ys, er) := process_ordered (ms_buffer s, ms_wait s, ms_finished s, ms_yield s, ms_err s) (i, xs) in
    mkMS (ms_todo s) (ms_main s) (ms_chunk s) (ms_data s) (ms_cnt s) fin b w ys (ms_done s) er (ms_workq s) (ms_resq s) (ms_procs s)
  else
    mkMS (ms_todo s) (ms_main s) (ms_chunk s) (ms_data s) (ms_cnt s) (S (ms_finished s)) (ms_buffer s ++ [(i, xs)]) (ms_wait s)
         (ms_yield s) (ms_done s) (ms_err s) (ms_workq s) (ms_resq s) (ms_procs s).

Definition set_main (s : mstate) (m : mmpc) : mstate :=
  mkMS (ms_todo s) m (ms_chunk s) (ms_data s) (ms_cnt s) (ms_finished s) (ms_buffer s) (ms_wait s) (ms_yield s) (ms_done s)
       (ms_err s) (ms_workq s) (ms_resq s) (ms_procs s).
Definition set_resq (s : mstate) (q : list qitem) : mstate :=
  mkMS (ms_todo s) (ms_main s) (ms_chunk s) (ms_data s) (ms_cnt s) (ms_finished s) (ms_buffer s) (ms_wait s) (ms_yield s) (ms_done s)
       (ms_err s) (ms_workq s) q (ms_procs s).
Definition set_workq (s : mstate) (q : list qitem) : mstate :=
  mkMS (ms_todo s) (ms_main s) (ms_chunk s) (ms_data s) (ms_cnt s) (ms_finished s) (ms_buffer s) (ms_wait s) (ms_yield s) (ms_done s)
       (ms_err s) q (ms_resq s) (ms_procs s).
Definition set_procs (s : mstate) (ps : list mwpc) : mstate :=
  mkMS (ms_todo s) (ms_main s) (ms_chunk s) (ms_data s) (ms_cnt s) (ms_finished s) (ms_buffer s) (ms_wait s) (ms_yield s) (ms_done s)
       (ms_err s) (ms_workq s) (ms_resq s) ps.

(* where the per-item loop goes when the input is exhausted *)
Definition after_loop (cfg : mcfg) : mmpc := if m_kind cfg then MmFinal else MmNones (m_workers cfg).
Definition begin_call (cfg : mcfg) (s : mstate) (d : list Z) (c : nat) (rest : list (list Z * nat)) (ps : list mwpc) (m : mmpc) : mstate :=
  mkMS rest m c d 0 0 [] 0 [] (ms_done s) (ms_err s) (ms_workq s) (ms_resq s) ps.
Definition first_pc (cfg : mcfg) (d : list Z) : mmpc := match d with [] => after_loop cfg | _ => MmPut 0 d end.
Definition mdead (w : mwpc) : bool := match w with MWExiting | MWDead => true | _ => false end.    (* left its loop *)
Definition mgone (w : mwpc) : bool := match w with MWDead => true | _ => false end.
Definition pipe_room (cfg : mcfg) (s : mstate) : bool := match m_pipe cfg with None => true | Some p => length (ms_resq s) <=? p end.

Definition mstep (cfg : mcfg) (s : mstate) (e : mevent) : option mstate :=
  match e with
  | MStart =>
      match ms_main s with
      | MmEnter k =>
          match nth_error (ms_procs s) k with
          | Some MWNew =>
              let ps := set_nth k MWIdle (ms_procs s) in
              Some (set_main (set_procs s ps)
                      (if S k <? length ps then MmEnter (S k)
                       else if m_kind cfg then MmIdle else first_pc cfg (ms_data s)))
          | _ => None
          end
      | _ => None
      end
  | MNext =>
      match ms_main s, ms_todo s with
      | MmIdle, (d, c) :: rest =>
          if m_kind cfg then Some (begin_call cfg s d c rest (ms_procs s) (first_pc cfg d))
          else Some (begin_call cfg s d c rest (repeat MWNew (m_workers cfg)) (MmEnter 0))
      | MmIdle, [] => Some (set_main s (if m_kind cfg then MmNones (m_workers cfg) else MmDone))
      | _, _ => None
      end
  | MPut =>
      match ms_main s with
      | MmPut i (x :: r) =>
          if full (m_cap cfg) (ms_workq s) then None
          else
            let data := x :: r in
            Some (mkMS (ms_todo s) (MmDrain (S i) (skipn (ms_chunk s) data)) (ms_chunk s) (ms_data s) (S (ms_cnt s)) (ms_finished s)
                       (ms_buffer s) (ms_wait s) (ms_yield s) (ms_done s) (ms_err s)
                       (ms_workq s ++ [QChunk i (firstn (ms_chunk s) data)]) (ms_resq s) (ms_procs s))
      | _ => None
      end
  | MTry =>
      match ms_main s, ms_resq s with
      | MmDrain _ _, QChunk i xs :: q => Some (absorb (m_kind cfg) (set_resq s q) i xs)
      | _, _ => None
      end
  | MEmpty =>
      match ms_main s with
      | MmDrain i rest => Some (set_main s (match rest with [] => after_loop cfg | _ => MmPut i rest end))
      | _ => None
      end
  | MGet =>
      match ms_main s, ms_resq s with
      | MmFinal, QChunk i xs :: q =>
          if ms_finished s <? ms_cnt s then Some (absorb (m_kind cfg) (set_resq s q) i xs) else None
      | _, _ => None
      end
  | MEnd =>
      match ms_main s with
      | MmFinal =>
          if ms_finished s <? ms_cnt s then None
          else if m_kind cfg then
            Some (mkMS (ms_todo s) MmIdle (ms_chunk s) (ms_data s) (ms_cnt s) (ms_finished s) (ms_buffer s) (ms_wait s) (ms_yield s)
                       (ms_done s ++ [ms_yield s]) (ms_err s) (ms_workq s) (ms_resq s) (ms_procs s))
          else Some (set_main s (MmJoin 0))
      | _ => None
      end
  | MNone =>
      match ms_main s with
      | MmNones (S n) =>
          if full (m_cap cfg) (ms_workq s) then None
          else Some (set_main (set_workq s (ms_workq s ++ [QNone]))
                       (match n with O => if m_kind cfg then MmJoin 0 else MmFinal | _ => MmNones n end))
      | _ => None
      end
  | MJoin =>
      match ms_main s with
      | MmJoin k =>
          match nth_error (ms_procs s) k with
          | Some MWDead =>
              if S k <? length (ms_procs s) then Some (set_main s (MmJoin (S k)))
              else if m_kind cfg then Some (set_main s MmDone)
              else Some (mkMS (ms_todo s) MmIdle (ms_chunk s) (ms_data s) (ms_cnt s) (ms_finished s) [] (ms_wait s) (ms_yield s)
                              (ms_done s ++ [concat (map snd (sort_by_idx (ms_buffer s)))]) (ms_err s) (ms_workq s) (ms_resq s) (ms_procs s))
          | _ => None
          end
      | _ => None
      end
  | MWTake k =>
      match nth_error (ms_procs s) k, ms_workq s with
      | Some MWIdle, QChunk i xs :: q => Some (set_procs (set_workq s q) (set_nth k (MWHold i xs) (ms_procs s)))
      | Some MWIdle, QNone :: q => Some (set_procs (set_workq s q) (set_nth k MWExiting (ms_procs s)))
      | _, _ => None
      end
  | MWRes k =>
      match nth_error (ms_procs s) k with
      | Some (MWHold i xs) => Some (set_procs (set_resq s (ms_resq s ++ [QChunk i xs])) (set_nth k MWIdle (ms_procs s)))
      | _ => None
      end
  | MWExit k =>
      match nth_error (ms_procs s) k with
      | Some MWExiting => if pipe_room cfg s then Some (set_procs s (set_nth k MWDead (ms_procs s))) else None
      | _ => None
      end
  end.

Definition mrun (cfg : mcfg) (s : mstate) (sched : list mevent) : mstate :=
  fold_left (fun s e => match mstep cfg s e with Some s' => s' | None => s end) sched s.

Fixpoint maccept (cfg : mcfg) (s : mstate) (evs : list mevent) (n : nat) : nat * mstate :=
  match evs with
  | [] => (n, s)
  | e :: r => match mstep cfg s e with Some s' => maccept cfg s' r (S n) | None => (n, s) end
  end.

(* ------------------------------------------------------------------ wire *)
Definition dec_mevent (v : val) : mevent :=
  match unL v with
  | [I 0] => MStart | [I 1] => MNext | [I 2] => MPut | [I 3] => MTry | [I 4] => MEmpty | [I 5] => MGet | [I 6] => MEnd
  | [I 7] => MNone | [I 8] => MJoin | [I 9; k] => MWTake (unN k) | [I 10; k] => MWRes (unN k) | [I 11; k] => MWExit (unN k) | _ => MEnd
  end%Z.
Definition mmpc_code (m : mmpc) : Z :=
  match m with MmEnter _ => 0 | MmIdle => 1 | MmPut _ _ => 2 | MmDrain _ _ => 3 | MmNones _ => 4 | MmFinal => 5 | MmJoin _ => 6 | MmDone => 7 end%Z.
(* [[workers, cap?, kind, pipe?], [[data, chunk] ...], events] -> [accepted, done calls, error, main pc, |workq|, |resq|, all exited] *)
Definition run_fmap (v : val) : val :=
  match unL v with
  | [c; h; evs] =>
      match unL c with
      | [nw; cap; kd; pp] =>
          let cfg := mkMCfg (unN nw) (dec_optnat cap) (unB kd) (dec_optnat pp) in
          let hist := map (fun x => match unL x with [d; ch] => (unZs d, unN ch) | _ => ([], 1) end) (unL h) in
          let '(n, s) := maccept cfg (minit cfg hist) (map dec_mevent (unL evs)) O in
          L [vN n; L (map vZs (ms_done s)); vB (ms_err s); I (mmpc_code (ms_main s)); vN (length (ms_workq s));
             vN (length (ms_resq s)); vB (forallb mgone (ms_procs s))]
      | _ => L []
      end
  | _ => L []
  end.
