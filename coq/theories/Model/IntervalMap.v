(* Model of windpyutils/structures/maps.py ImmutIntervalMap (property C16).  Ends, keys and values are integers. *)
From Coq Require Import ZArith List Bool.
From WPU Require Import Common.Val Common.Bisect Model.Spans Model.Generic.
Import ListNotations.
Open Scope Z_scope.

Definition entry := ((Z * Z) * Z)%type.   (* ((start, end), value) - the items of the dict, in dict order *)

Record imap := mkIM { im_starts : list Z; im_ends : list Z; im_values : list Z;
                      im_sends : list Z; im_sidx : list nat }.

(* __init__: None = KeyError *)
Definition im_mk (l : list entry) : option imap :=
  if existsb (fun en => fst (fst en) >? snd (fst en)) l then None
  else
    let starts := map (fun en => fst (fst en)) l in
    let ends := map (fun en => snd (fst en)) l in
    if negb (length (build_spans Overlaps (combine starts ends)) =? length l)%nat then None
    else
      (* for i, e in sorted(enumerate(ends), key=lambda x: x[1]) : stable sort of the indices by end *)
      let sidx := arg_sort ends false in
      Some (mkIM starts ends (map (fun en => snd en) l) (map (key_of ends) sidx) sidx).

Definition im_len (m : imap) : nat := length (im_starts m).

(* __getitem__: None = KeyError *)
Definition im_get (m : imap) (key : Z) : option Z :=
  let i := bisect_left (im_sends m) key in
  if (i =? length (im_sends m))%nat then None
  else
    let idx := nth i (im_sidx m) O in
    if key <? nth idx (im_starts m) 0 then None else Some (nth idx (im_values m) 0).

Definition im_contains (m : imap) (key : Z) : bool := match im_get m key with Some _ => true | None => false end.

Definition im_iter (m : imap) : list entry :=
  map (fun p => ((nth (fst p) (im_starts m) 0, snd p), nth (fst p) (im_values m) 0))
      (combine (im_sidx m) (im_sends m)).

(* ------------------------------------------------------------------ wire format *)
Definition dec_entry (v : val) : entry :=
  match unL v with [s; e; x] => ((unI s, unI e), unI x) | _ => ((0, 0), 0) end.
Definition enc_entry (en : entry) : val := L [I (fst (fst en)); I (snd (fst en)); I (snd en)].
(* [entries, probes] -> KeyError | [len, iter, [lookup p ...], [p in m ...]] *)
Definition run_imap (v : val) : val :=
  match unL v with
  | [ents; probes] =>
      match im_mk (map dec_entry (unL ents)) with
      | None => vErr E_Key
      | Some m =>
          vOk (L [vN (im_len m); L (map enc_entry (im_iter m));
                  L (map (fun p => match im_get m (unI p) with Some x => vOk (I x) | None => vErr E_Key end) (unL probes));
                  L (map (fun p => vB (im_contains m (unI p))) (unL probes))])
      end
  | _ => L []
  end.
