(* Model of windpyutils/structures/caches.py (properties C06, C07).
   The linked list of a cache is modelled by its abstract sequence (justified by the C08 refinement); the dict is the
   key set of that sequence.  The primitive operations (__getitem__, __setitem__, __delitem__, __iter__, __len__) are
   transcribed; everything else (keys, values, items, get, pop, popitem, clear, update, setdefault, in, ==) is the
   collections.abc mix-in, expanded exactly as MutableMapping defines it on top of the primitives.
   __iter__ works on a snapshot of the keys, so the mix-in loops are structural recursions over that snapshot. *)
From Coq Require Import ZArith List Bool.
From WPU Require Import Common.Val Common.Dict.
Import ListNotations.
Open Scope Z_scope.

(* ------------------------------------------------------------------ LRU primitives: order = most recent first *)
Record lru := mkLRU { l_cap : Z; l_ord : dict Z }.

Definition lru_get (st : lru) (k : Z) : lru * option Z :=
  match dget (l_ord st) k with
  | None => (st, None)                                            (* KeyError *)
  | Some v => (mkLRU (l_cap st) ((k, v) :: ddel (l_ord st) k), Some v)   (* move_to_front *)
  end.

Definition lru_set (st : lru) (k v : Z) : lru :=
  if dmem (l_ord st) k then mkLRU (l_cap st) ((k, v) :: ddel (l_ord st) k)
  else if Z.of_nat (length (l_ord st)) >=? l_cap st
       then mkLRU (l_cap st) ((k, v) :: removelast (l_ord st))       (* reuse the tail node *)
       else mkLRU (l_cap st) ((k, v) :: l_ord st).

Definition lru_del (st : lru) (k : Z) : lru * bool :=
  if dmem (l_ord st) k then (mkLRU (l_cap st) (ddel (l_ord st) k), true) else (st, false).

(* ------------------------------------------------------------------ LFU primitives: order = least used first *)
Record item := mkI { i_key : Z; i_val : Z; i_cnt : Z }.
Record lfu := mkLFU { f_cap : Z; f_ord : list item }.

Fixpoint f_find (l : list item) (k : Z) : option item :=
  match l with [] => None | it :: t => if i_key it =? k then Some it else f_find t k end.
Fixpoint f_remove (l : list item) (k : Z) : list item :=
  match l with [] => [] | it :: t => if i_key it =? k then t else it :: f_remove t k end.
(* the node hops over the following nodes whose count is smaller than its new count *)
Fixpoint f_insert_after_smaller (it : item) (l : list item) : list item :=
  match l with
  | [] => [it]
  | x :: t => if i_cnt x <? i_cnt it then x :: f_insert_after_smaller it t else it :: x :: t
  end.
(* _inc_freq(node): count += 1, then move_after the last following node with a smaller count.
   [pre] are the nodes in front of it: they stay where they are *)
Fixpoint f_inc (l : list item) (k : Z) (newval : option Z) : list item :=
  match l with
  | [] => []
  | it :: t =>
      if i_key it =? k
      then f_insert_after_smaller (mkI k (match newval with Some v => v | None => i_val it end) (i_cnt it + 1)) t
      else it :: f_inc t k newval
  end.

Definition lfu_get (st : lfu) (k : Z) : lfu * option Z :=
  match f_find (f_ord st) k with
  | None => (st, None)
  | Some it => (mkLFU (f_cap st) (f_inc (f_ord st) k None), Some (i_val it))
  end.

Definition lfu_set (st : lfu) (k v : Z) : lfu :=
  match f_find (f_ord st) k with
  | Some _ => mkLFU (f_cap st) (f_inc (f_ord st) k (Some v))
  | None =>
      if Z.of_nat (length (f_ord st)) >=? f_cap st
      then mkLFU (f_cap st) (mkI k v 1 :: tl (f_ord st))           (* reuse the head node *)
      else mkLFU (f_cap st) (mkI k v 1 :: f_ord st)
  end.

Definition lfu_del (st : lfu) (k : Z) : lfu * bool :=
  match f_find (f_ord st) k with
  | Some _ => (mkLFU (f_cap st) (f_remove (f_ord st) k), true)
  | None => (st, false)
  end.

(* ------------------------------------------------------------------ MutableMapping mix-ins over any cache core *)
Section Mixins.
Variable T : Type.
Variable cget : T -> Z -> T * option Z.       (* __getitem__ *)
Variable cset : T -> Z -> Z -> T.             (* __setitem__ *)
Variable cdel : T -> Z -> T * bool.           (* __delitem__ : false = KeyError *)
Variable ckeys : T -> list Z.                 (* list(iter(self)) *)
Variable clen : T -> Z.

(* values() / items(): for key in self: yield self[key] - iterate the snapshot, look every key up *)
Fixpoint mx_lookup_all (st : T) (ks : list Z) : T * list (Z * Z) :=
  match ks with
  | [] => (st, [])
  | k :: r =>
      let '(st1, o) := cget st k in
      let '(st2, rest) := mx_lookup_all st1 r in
      (st2, match o with Some v => (k, v) :: rest | None => rest end)
  end.
Definition mx_items (st : T) : T * list (Z * Z) := mx_lookup_all st (ckeys st).

(* pop(key): value = self[key]; del self[key] *)
Definition mx_pop (st : T) (k : Z) : T * option Z :=
  let '(st1, o) := cget st k in
  match o with None => (st1, None) | Some v => (fst (cdel st1 k), Some v) end.

(* popitem(): key = next(iter(self)); value = self[key]; del self[key] *)
Definition mx_popitem (st : T) : T * option (Z * Z) :=
  match ckeys st with
  | [] => (st, None)
  | k :: _ =>
      let '(st1, o) := cget st k in
      match o with None => (st1, None) | Some v => (fst (cdel st1 k), Some (k, v)) end
  end.

(* clear(): while True: self.popitem()  until KeyError; at most len+1 rounds *)
Fixpoint mx_clear (fuel : nat) (st : T) : T :=
  match fuel with
  | O => st
  | S f => let '(st1, o) := mx_popitem st in match o with None => st1 | Some _ => mx_clear f st1 end
  end.

(* update(pairs): for key, value in pairs: self[key] = value *)
Definition mx_update (st : T) (kvs : list (Z * Z)) : T := fold_left (fun s kv => cset s (fst kv) (snd kv)) kvs st.

(* setdefault(key, default) *)
Definition mx_setdefault (st : T) (k d : Z) : T * Z :=
  let '(st1, o) := cget st k in
  match o with Some v => (st1, v) | None => (cset st1 k d, d) end.
End Mixins.

(* dict(pairs): later pairs win; two dicts are equal when they hold the same key -> value map *)
Definition dict_of (kvs : list (Z * Z)) : dict Z := fold_left (fun d kv => dset d (fst kv) (snd kv)) kvs [].
Definition opt_z_eqb (a b : option Z) : bool :=
  match a, b with Some x, Some y => x =? y | None, None => true | _, _ => false end.
Definition dict_eqb (d1 d2 : dict Z) : bool :=
  (length d1 =? length d2)%nat && forallb (fun kv => opt_z_eqb (dget d2 (fst kv)) (Some (snd kv))) d1.

(* ------------------------------------------------------------------ operations on a pair of caches (A, B) *)
Inductive cop :=
| OGet (k : Z) | OSet (k v : Z) | ODel (k : Z) | OLen | OIter | OContains (k : Z) | OKeys | OValues | OItems
| OGetD (k d : Z) | OPop (k : Z) | OPopD (k d : Z) | OPopitem | OClear | OUpdate (kvs : list (Z * Z))
| OSetdefault (k d : Z) | OEqOther | OUpdateFromOther | OEqDict (kvs : list (Z * Z)).

Section Runner.
Variable T : Type.
Variable cget : T -> Z -> T * option Z.
Variable cset : T -> Z -> Z -> T.
Variable cdel : T -> Z -> T * bool.
Variable ckeys : T -> list Z.
Variable clen : T -> Z.
Variable cpeek : T -> Z -> option Z.     (* the stored value, without counting as a use *)
(* the two choices the property leaves open *)
Variable cc : bool.     (* a membership test counts as a use (it is implemented through __getitem__) *)
Variable vt : bool.     (* values()/items()/== look every key up through __getitem__ *)

Definition peek_all (st : T) : list (Z * Z) :=
  flat_map (fun k => match cpeek st k with Some v => [(k, v)] | None => [] end) (ckeys st).
Definition items_of (st : T) : T * list (Z * Z) :=
  if vt then mx_items T cget ckeys st else (st, peek_all st).

(* one operation on cache [a] with [b] as "the other one"; returns new a, new b, result *)
Definition c_step (a b : T) (op : cop) : T * T * val :=
  match op with
  | OGet k => let '(a1, o) := cget a k in (a1, b, match o with Some v => vOk (I v) | None => vErr E_Key end)
  | OSet k v => (cset a k v, b, vOk (L []))
  | ODel k => let '(a1, okk) := cdel a k in (a1, b, if okk then vOk (L []) else vErr E_Key)
  | OLen => (a, b, I (clen a))
  | OIter | OKeys => (a, b, vZs (ckeys a))
  | OContains k =>
      if cc then let '(a1, o) := cget a k in (a1, b, vB (match o with Some _ => true | None => false end))
      else (a, b, vB (match cpeek a k with Some _ => true | None => false end))
  | OValues => let '(a1, its) := items_of a in (a1, b, vZs (map snd its))
  | OItems => let '(a1, its) := items_of a in (a1, b, L (map (fun kv => L [I (fst kv); I (snd kv)]) its))
  | OGetD k d => let '(a1, o) := cget a k in (a1, b, I (match o with Some v => v | None => d end))
  | OPop k => let '(a1, o) := mx_pop T cget cdel a k in (a1, b, match o with Some v => vOk (I v) | None => vErr E_Key end)
  | OPopD k d => let '(a1, o) := mx_pop T cget cdel a k in (a1, b, I (match o with Some v => v | None => d end))
  | OPopitem =>
      let '(a1, o) := mx_popitem T cget cdel ckeys a in
      (a1, b, match o with Some kv => vOk (L [I (fst kv); I (snd kv)]) | None => vErr E_Key end)
  | OClear => (mx_clear T cget cdel ckeys (S (length (ckeys a))) a, b, vOk (L []))
  | OUpdate kvs => (mx_update T cset a kvs, b, vOk (L []))
  | OSetdefault k d => let '(a1, v) := mx_setdefault T cget cset a k d in (a1, b, I v)
  | OEqOther =>
      let '(a1, ia) := items_of a in let '(b1, ib) := items_of b in
      (a1, b1, vB (dict_eqb (dict_of ia) (dict_of ib)))
  | OUpdateFromOther =>
      (* for key in other: self[key] = other[key] *)
      let '(a1, b1) :=
        fold_left (fun ab k => let '(b2, o) := cget (snd ab) k in
                               match o with Some v => (cset (fst ab) k v, b2) | None => (fst ab, b2) end)
                  (ckeys b) (a, b) in
      (a1, b1, vOk (L []))
  | OEqDict kvs => let '(a1, ia) := items_of a in (a1, b, vB (dict_eqb (dict_of ia) (dict_of kvs)))
  end.

(* ops carry the target: false = A, true = B.  After each op: result, list(A), len(A), list(B), len(B) *)
Fixpoint c_trace (a b : T) (ops : list (bool * cop)) : list val :=
  match ops with
  | [] => []
  | (tgt, op) :: r =>
      let '(x1, y1, res) := if tgt then c_step b a op else c_step a b op in
      let a1 := if tgt then y1 else x1 in let b1 := if tgt then x1 else y1 in
      L [res; vZs (ckeys a1); I (clen a1); vZs (ckeys b1); I (clen b1)] :: c_trace a1 b1 r
  end.
End Runner.

Definition lru_keys (st : lru) : list Z := dkeys (l_ord st).
Definition lru_len (st : lru) : Z := Z.of_nat (length (l_ord st)).
Definition lru_peek (st : lru) (k : Z) : option Z := dget (l_ord st) k.
Definition lfu_keys (st : lfu) : list Z := map i_key (f_ord st).
Definition lfu_len (st : lfu) : Z := Z.of_nat (length (f_ord st)).
Definition lfu_peek (st : lfu) (k : Z) : option Z := option_map i_val (f_find (f_ord st) k).

Definition lru_step := c_step lru lru_get lru_set lru_del lru_keys lru_len lru_peek.
Definition lfu_step := c_step lfu lfu_get lfu_set lfu_del lfu_keys lfu_len lfu_peek.

(* ------------------------------------------------------------------ wire format *)
Definition dec_pairs (v : val) : list (Z * Z) :=
  map (fun p => match unL p with [a; b] => (unI a, unI b) | _ => (0, 0) end) (unL v).
Definition dec_cop (v : val) : bool * cop :=
  match unL v with
  | tgt :: I c :: args =>
      (unB tgt,
       match c, args with
       | 0, [k] => OGet (unI k)
       | 1, [k; x] => OSet (unI k) (unI x)
       | 2, [k] => ODel (unI k)
       | 3, _ => OLen
       | 4, _ => OIter
       | 5, [k] => OContains (unI k)
       | 6, _ => OKeys
       | 7, _ => OValues
       | 8, _ => OItems
       | 9, [k; d] => OGetD (unI k) (unI d)
       | 10, [k] => OPop (unI k)
       | 11, [k; d] => OPopD (unI k) (unI d)
       | 12, _ => OPopitem
       | 13, _ => OClear
       | 14, [kvs] => OUpdate (dec_pairs kvs)
       | 15, [k; d] => OSetdefault (unI k) (unI d)
       | 16, _ => OEqOther
       | 17, _ => OUpdateFromOther
       | 18, [kvs] => OEqDict (dec_pairs kvs)
       | _, _ => OLen
       end)
  | _ => (false, OLen)
  end.
(* [kind, capA, capB, cc, vt, ops] *)
Definition run_cache (v : val) : val :=
  match unL v with
  | [kind; ca; cb; cc; vt; ops] =>
      let os := map dec_cop (unL ops) in
      if unI kind =? 0
      then L (c_trace lru lru_get lru_set lru_del lru_keys lru_len lru_peek (unB cc) (unB vt)
                      (mkLRU (unI ca) []) (mkLRU (unI cb) []) os)
      else L (c_trace lfu lfu_get lfu_set lfu_del lfu_keys lfu_len lfu_peek (unB cc) (unB vt)
                      (mkLFU (unI ca) []) (mkLFU (unI cb) []) os)
  | _ => L []
  end.
