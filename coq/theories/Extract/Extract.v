(* Extraction of the executable model.  Only ExtrOcamlBasic: bool, option, list, prod, unit, sumbool map to
   OCaml's; Z / positive / nat stay the extracted inductive types.  No Extract Constant / Inductive of ours. *)
From Coq Require Import ExtrOcamlBasic.
From WPU Require Import Common.Val Extract.Entry.
Extraction "model.ml" dispatch.
