(* Entry points of the executable model, addressed by a numeric code (table mirrored in the harness). *)
From Coq Require Import ZArith List.
From WPU Require Import Common.Val Model.Buffers Model.Generic Model.Spans Model.IntervalMap Model.Combos Model.DLL Model.Caches Model.Sorted Model.LineFile Model.Csv Model.TmpPool Model.Pool Model.FMap Model.Storage Model.ForkRead.
Import ListNotations.
Open Scope Z_scope.

Definition table : list (Z * (val -> val)) :=
  [ (1500, run_buffer); (1501, run_printbuffer); (1502, run_ring);
    (1900, run_int_2_roman); (1901, run_roman_2_int); (1902, run_arg_sort); (1903, run_sub_seq);
    (1904, run_search_sub_seq); (1905, run_compare_pos); (1906, run_batcher); (1907, run_batcher_iter);
    (1908, run_batcher_tuple); (1909, run_batcher_iter_tuple); (1910, run_roman_all);
    (1000, run_spans); (1600, run_imap);
    (1700, run_sorted_combinations); (1701, run_min_combinations);
    (800, run_dll); (600, run_cache);
    (900, run_sorted_set); (901, run_sorted_map);
    (1100, run_linefile); (1200, run_mutfile);
    (1300, run_csv_seq); (1301, run_json_assumed);
    (2000, run_tmppool); (2001, run_filepool); (2002, run_two_tmppools);
    (100, run_pool); (500, run_fmap); (1400, run_storage); (1800, run_forkread) ].

Fixpoint lookup (t : list (Z * (val -> val))) (code : Z) : option (val -> val) :=
  match t with
  | [] => None
  | (c, f) :: t' => if c =? code then Some f else lookup t' code
  end.

Definition dispatch (code : Z) (v : val) : val :=
  match lookup table code with Some f => f v | None => L [] end.
