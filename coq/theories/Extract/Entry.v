(* Entry points of the executable model, addressed by a numeric code (table mirrored in harness/core.py). *)
From Coq Require Import ZArith List.
From WPU Require Import Common.Val Model.Buffers.
Open Scope Z_scope.

Definition dispatch (code : Z) (v : val) : val :=
  if code =? 1500 then run_buffer v
  else if code =? 1501 then run_printbuffer v
  else if code =? 1502 then run_ring v
  else L nil.
