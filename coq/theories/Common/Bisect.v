(* bisect.bisect_left as CPython runs it: lo = 0; hi = len(a); while lo < hi: mid = (lo+hi)//2;
   if a[mid] < x: lo = mid+1 else: hi = mid.  Structural recursion on fuel; len(a)+1 rounds always suffice. *)
From Coq Require Import ZArith List Bool Lia ZifyBool Sorted.
Import ListNotations.
Open Scope Z_scope.

Fixpoint bisect_go (fuel : nat) (a : list Z) (x : Z) (lo hi : nat) : nat :=
  match fuel with
  | O => lo
  | S f =>
      if (lo <? hi)%nat then
        let mid := ((lo + hi) / 2)%nat in
        if nth mid a 0 <? x then bisect_go f a x (S mid) hi else bisect_go f a x lo mid
      else lo
  end.
Definition bisect_left (a : list Z) (x : Z) : nat := bisect_go (S (length a)) a x 0 (length a).

Definition nondecr (a : list Z) : Prop := forall i j, (i <= j < length a)%nat -> nth i a 0 <= nth j a 0.

Lemma bisect_go_spec a x : nondecr a -> forall fuel lo hi,
  (lo <= hi <= length a)%nat -> (hi - lo < fuel)%nat ->
  (forall j, (j < lo)%nat -> nth j a 0 < x) -> (forall j, (hi <= j < length a)%nat -> x <= nth j a 0) ->
  let r := bisect_go fuel a x lo hi in
  (r <= length a)%nat /\ (forall j, (j < r)%nat -> nth j a 0 < x) /\ (forall j, (r <= j < length a)%nat -> x <= nth j a 0).
Proof.
  intros Hs. induction fuel as [|f IH]; intros lo hi Hb Hf Hlo Hhi; [lia|]. cbn [bisect_go]. cbv zeta.
  destruct (lo <? hi)%nat eqn:E.
  - apply Nat.ltb_lt in E.
    assert (Hm : (lo <= (lo + hi) / 2 < hi)%nat).
    { split; [apply Nat.div_le_lower_bound; lia | apply Nat.div_lt_upper_bound; lia]. }
    set (mid := ((lo + hi) / 2)%nat) in *.
    destruct (nth mid a 0 <? x) eqn:C.
    + apply IH; try lia; auto. intros j Hj.
      assert (nth j a 0 <= nth mid a 0) by (apply Hs; lia). lia.
    + apply IH; try lia; auto. intros j Hj.
      assert (nth mid a 0 <= nth j a 0) by (apply Hs; lia). lia.
  - apply Nat.ltb_ge in E. assert (lo = hi) by lia. subst. repeat split; auto; lia.
Qed.

(* on a non-decreasing list the result is the first position whose element is >= x *)
Theorem bisect_left_spec a x : nondecr a ->
  let r := bisect_left a x in
  (r <= length a)%nat /\ (forall j, (j < r)%nat -> nth j a 0 < x) /\ (forall j, (r <= j < length a)%nat -> x <= nth j a 0).
Proof.
  intros Hs. unfold bisect_left. apply bisect_go_spec; auto; try lia.
Qed.
