(* A tactic for Permutation goals over ++ and :: (associativity/commutativity by AAC tactics; axiom-free). *)
From Coq Require Export List Permutation.
From AAC_tactics Require Export AAC Instances.
Export Instances.Lists.
Import ListNotations.

Ltac perm :=
  rewrite ?app_nil_r;
  repeat match goal with
  | |- context [?x :: ?l] => lazymatch l with [] => fail | _ => change (x :: l) with ([x] ++ l) end
  end;
  first [reflexivity | aac_reflexivity].
