(* Small list toolkit shared by the models. *)
From Coq Require Import ZArith List Bool Lia Permutation.
Import ListNotations.

Section ListX.
Context {A : Type}.

Fixpoint upd (n : nat) (x : A) (l : list A) : list A :=
  match l, n with
  | [], _ => []
  | _ :: t, O => x :: t
  | h :: t, S n' => h :: upd n' x t
  end.

Definition lastn (n : nat) (l : list A) : list A := skipn (length l - n) l.

Lemma upd_length n x l : length (upd n x l) = length l.
Proof. revert n; induction l as [|h t IH]; intros [|n]; simpl; auto. Qed.

Lemma nth_upd_same n x l d : n < length l -> nth n (upd n x l) d = x.
Proof. revert n; induction l as [|h t IH]; intros [|n]; simpl; intros H; try lia; auto. apply IH; lia. Qed.

Lemma nth_upd_other n m x l d : n <> m -> nth m (upd n x l) d = nth m l d.
Proof. revert n m; induction l as [|h t IH]; intros [|n] [|m]; simpl; intros H; try lia; auto. Qed.

Lemma lastn_all n l : length l <= n -> lastn n l = l.
Proof. intros H. unfold lastn. replace (length l - n) with 0 by lia. reflexivity. Qed.

Lemma lastn_length n l : length (lastn n l) = Nat.min n (length l).
Proof. unfold lastn. rewrite skipn_length. lia. Qed.

Lemma nth_lastn n l j d : n <= length l -> nth j (lastn n l) d = nth (length l - n + j) l d.
Proof.
  intros _. unfold lastn. generalize (length l - n). clear n.
  intros k. revert l. induction k as [|k IH]; intros [|h t]; simpl; auto.
  destruct j; reflexivity.
Qed.

Lemma nth_ext_eq (l1 l2 : list A) d :
  length l1 = length l2 -> (forall j, j < length l1 -> nth j l1 d = nth j l2 d) -> l1 = l2.
Proof. intros H1 H2. apply (nth_ext l1 l2 d d); assumption. Qed.

Lemma NoDup_app_l (l1 l2 : list A) : NoDup (l1 ++ l2) -> NoDup l1.
Proof.
  induction l1 as [|h t IH]; simpl; intros H; [constructor|].
  inversion H as [|? ? Hn Hd]; subst. constructor; [|apply IH; exact Hd].
  intros Hi. apply Hn. apply in_or_app; left; exact Hi.
Qed.

Lemma map_seq_nth_eq (f : nat -> A) (l : list A) d k :
  (forall j, j < length l -> f (k + j) = nth j l d) -> map f (seq k (length l)) = l.
Proof.
  revert k; induction l as [|h t IH]; intros k H; simpl; [reflexivity|].
  f_equal.
  - specialize (H 0). simpl in H. rewrite Nat.add_0_r in H. apply H. lia.
  - apply IH. intros j Hj. specialize (H (S j)). simpl in H. rewrite <- H by lia. f_equal. lia.
Qed.

Lemma skipn_skipn_add (a b : nat) (l : list A) : skipn a (skipn b l) = skipn (b + a) l.
Proof.
  revert l; induction b as [|b IH]; intros l; simpl; [reflexivity|].
  destruct l as [|h t]; [destruct a; reflexivity | apply IH].
Qed.

Lemma app_inv_length (x1 x2 y1 y2 : list A) :
  x1 ++ x2 = y1 ++ y2 -> length x1 = length y1 -> x1 = y1 /\ x2 = y2.
Proof.
  revert y1; induction x1 as [|a x1 IH]; intros [|b y1]; simpl; intros H L; try discriminate; auto.
  injection H as -> H. destruct (IH y1 H) as [-> ->]; [lia | auto].
Qed.

Lemma nth_map_seq (f : nat -> A) (st k j : nat) d : j < k -> nth j (map f (seq st k)) d = f (st + j).
Proof.
  revert st j; induction k as [|k IH]; intros st j H; simpl; [lia|].
  destruct j as [|j]; simpl; [f_equal; lia|]. rewrite IH by lia. f_equal; lia.
Qed.

End ListX.

Lemma flat_map_ext_in {A B : Type} (f g : A -> list B) (l : list A) :
  (forall a, In a l -> f a = g a) -> flat_map f l = flat_map g l.
Proof.
  induction l as [|x t IH]; simpl; intros H; [reflexivity|].
  rewrite (H x (or_introl eq_refl)), IH; [reflexivity|]. intros a Ha. apply H. right; exact Ha.
Qed.

Lemma NoDup_app_r {A : Type} (l1 l2 : list A) : NoDup (l1 ++ l2) -> NoDup l2.
Proof. induction l1 as [|h t IH]; simpl; intros H; [exact H|]. inversion H; subst. apply IH. assumption. Qed.
