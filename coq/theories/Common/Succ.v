(* Successor / predecessor of an element in a duplicate-free list, and how they change under the list operations a
   doubly linked list performs (delete, cons, snoc, insert-after).  Pure list theory used by Proofs/DLLP.v. *)
From Coq Require Import Arith List Bool Lia.
Import ListNotations.

Fixpoint succ_in (l : list nat) (m : nat) : option nat :=
  match l with [] => None | a :: t => if a =? m then hd_error t else succ_in t m end.
Fixpoint pred_aux (p : option nat) (l : list nat) (m : nat) : option nat :=
  match l with [] => None | a :: t => if a =? m then p else pred_aux (Some a) t m end.
Definition pred_in (l : list nat) (m : nat) : option nat := pred_aux None l m.
Fixpoint last_error (l : list nat) : option nat :=
  match l with [] => None | a :: t => match t with [] => Some a | _ => last_error t end end.
Definition del (k : nat) (l : list nat) : list nat := filter (fun x => negb (x =? k)) l.
Fixpoint ins_after (j k : nat) (l : list nat) : list nat :=
  match l with [] => [] | a :: t => if a =? j then a :: k :: t else a :: ins_after j k t end.

Definition oeq (a b : option nat) : bool :=
  match a, b with Some x, Some y => x =? y | None, None => true | _, _ => false end.
Lemma oeq_true a b : oeq a b = true <-> a = b.
Proof.
  destruct a as [x|], b as [y|]; simpl; split; try discriminate; auto.
  - intros H. apply Nat.eqb_eq in H. congruence.
  - intros H. injection H as ->. apply Nat.eqb_refl.
Qed.
Lemma oeq_false a b : oeq a b = false <-> a <> b.
Proof. destruct (oeq a b) eqn:E; split; try discriminate; try congruence.
  - apply oeq_true in E. congruence.
  - intros _ H. apply oeq_true in H. congruence.
Qed.

Ltac nb := repeat match goal with
  | H : (_ =? _) = true |- _ => apply Nat.eqb_eq in H
  | H : (_ =? _) = false |- _ => apply Nat.eqb_neq in H
  | H : oeq _ _ = true |- _ => apply oeq_true in H
  | H : oeq _ _ = false |- _ => apply oeq_false in H
  end.

(* ------------------------------------------------------------------ basics *)
Lemma succ_notin l m : ~ In m l -> succ_in l m = None.
Proof. induction l as [|a t IH]; simpl; intros H; [reflexivity|]. destruct (a =? m) eqn:E; nb; [tauto | apply IH; tauto]. Qed.

Lemma succ_some_in l m b : succ_in l m = Some b -> In b l /\ In m l.
Proof.
  induction l as [|a t IH]; simpl; [discriminate|]. destruct (a =? m) eqn:E; nb; intros H.
  - subst. split; [right; destruct t; [discriminate | injection H as ->; left; reflexivity] | left; reflexivity].
  - destruct (IH H). split; right; assumption.
Qed.

Lemma pred_aux_shift p l m :
  pred_aux p l m = match l with a :: t => if a =? m then p else pred_aux (Some a) t m | [] => None end.
Proof. destruct l; reflexivity. Qed.

Lemma pred_aux_indep p q l m : hd_error l <> Some m -> pred_aux p l m = pred_aux q l m.
Proof. destruct l as [|a t]; simpl; intros H; [reflexivity|]. destruct (a =? m) eqn:E; nb; [congruence | reflexivity]. Qed.

Lemma pred_aux_notin p l m : ~ In m l -> pred_aux p l m = None.
Proof. revert p; induction l as [|a t IH]; simpl; intros p H; [reflexivity|]. destruct (a =? m) eqn:E; nb; [tauto | apply IH; tauto]. Qed.

Lemma pred_aux_some p l m b : pred_aux p l m = Some b -> (p = Some b /\ hd_error l = Some m) \/ (In b l /\ In m l).
Proof.
  revert p; induction l as [|a t IH]; simpl; intros p; [discriminate|]. destruct (a =? m) eqn:E; nb; intros H.
  - subst. left. auto.
  - destruct (IH _ H) as [[H1 H2]|[H1 H2]].
    + injection H1 as ->. right. split; [left; reflexivity | right; destruct t; [discriminate | injection H2 as ->; left; reflexivity]].
    + right. split; right; assumption.
Qed.

Lemma pred_some_in l m b : pred_in l m = Some b -> In b l /\ In m l.
Proof. unfold pred_in. intros H. apply pred_aux_some in H. destruct H as [[H _]|H]; [discriminate | exact H]. Qed.

Lemma del_in k l x : In x (del k l) <-> x <> k /\ In x l.
Proof. unfold del. rewrite filter_In. split; intros [H1 H2]; split; auto; destruct (x =? k) eqn:E; nb; simpl in *; congruence. Qed.
Lemma del_notin k l : ~ In k l -> del k l = l.
Proof.
  induction l as [|a t IH]; simpl; intros H; [reflexivity|].
  destruct (a =? k) eqn:E; nb; simpl; [tauto | f_equal; apply IH; tauto].
Qed.
Lemma del_nodup k l : NoDup l -> NoDup (del k l).
Proof. apply NoDup_filter. Qed.
Lemma del_cons_same k t : ~ In k t -> del k (k :: t) = t.
Proof. intros H. unfold del. simpl. rewrite Nat.eqb_refl. simpl. apply del_notin. exact H. Qed.
Lemma del_cons_other k a t : a <> k -> del k (a :: t) = a :: del k t.
Proof. intros H. unfold del. simpl. destruct (a =? k) eqn:E; nb; [congruence | reflexivity]. Qed.
Lemma del_length k l : NoDup l -> In k l -> S (length (del k l)) = length l.
Proof.
  induction l as [|a t IH]; intros Hn Hi; [destruct Hi|]. inversion Hn; subst.
  destruct (Nat.eq_dec a k) as [->|Hne].
  - rewrite del_cons_same by assumption. reflexivity.
  - rewrite del_cons_other by assumption. simpl. rewrite IH; auto. destruct Hi; [congruence | assumption].
Qed.

Lemma last_error_app x l : last_error (l ++ [x]) = Some x.
Proof. induction l as [|a t IH]; simpl; [reflexivity|]. destruct (t ++ [x]) eqn:E; [destruct t; discriminate | exact IH]. Qed.
Lemma last_error_cons a t : t <> [] -> last_error (a :: t) = last_error t.
Proof. destruct t; [congruence | reflexivity]. Qed.
Lemma last_error_in l a : last_error l = Some a -> In a l.
Proof.
  induction l as [|b t IH]; simpl; [discriminate|]. destruct t; [intros H; injection H as ->; left; reflexivity|].
  intros H. right. apply IH. exact H.
Qed.
Lemma hd_error_in (l : list nat) a : hd_error l = Some a -> In a l.
Proof. destruct l; simpl; [discriminate | intros H; injection H as ->; left; reflexivity]. Qed.

(* ------------------------------------------------------------------ duality and end points *)
Lemma succ_pred_dual l a b : NoDup l -> (succ_in l a = Some b <-> pred_in l b = Some a).
Proof.
  unfold pred_in. induction l as [|x t IH]; intros Hn; simpl; [split; discriminate|].
  inversion Hn as [|? ? Hx Ht]; subst. specialize (IH Ht).
  destruct t as [|y t'].
  - simpl. destruct (x =? a), (x =? b); split; discriminate.
  - destruct (x =? a) eqn:Ea; nb.
    + subst x. simpl. destruct (a =? b) eqn:Eb; nb.
      * subst b. split; [|discriminate]. intros H. injection H as ->. exfalso. apply Hx. left; reflexivity.
      * destruct (y =? b) eqn:Ey; nb; [subst; split; reflexivity|].
        split; [intros H; injection H as ->; congruence|].
        intros H. apply pred_aux_some in H. exfalso. apply Hx. destruct H as [[H _]|[H _]].
        -- injection H as ->. left; reflexivity.
        -- right; exact H.
    + destruct (x =? b) eqn:Eb; nb.
      * subst x. split; [|discriminate]. intros H. apply succ_some_in in H. destruct H as [H _]. contradiction.
      * change (succ_in (y :: t') a = Some b <-> pred_aux (Some x) (y :: t') b = Some a).
        rewrite IH. simpl. destruct (y =? b) eqn:Ey; nb; [|reflexivity].
        subst y. split; [discriminate|]. intros H. injection H as ->. congruence.
Qed.

Lemma pred_none_hd l k : NoDup l -> In k l -> (pred_in l k = None <-> hd_error l = Some k).
Proof.
  unfold pred_in. destruct l as [|x t]; intros Hn Hi; [destruct Hi|]. simpl.
  destruct (x =? k) eqn:E; nb; [subst; split; reflexivity|].
  split; [|intros H; injection H; congruence].
  intros H. exfalso. destruct Hi as [Hi|Hi]; [congruence|]. clear Hn E.
  revert x H. induction t as [|y t IH]; intros x H; [destruct Hi|]. simpl in H.
  destruct (y =? k) eqn:Ey; nb; [discriminate|]. destruct Hi as [Hi|Hi]; [congruence|]. eapply IH; eauto.
Qed.

Lemma succ_none_last l k : In k l -> NoDup l -> (succ_in l k = None <-> last_error l = Some k).
Proof.
  induction l as [|x t IH]; intros Hi Hn; [destruct Hi|]. inversion Hn as [|? ? Hx Ht]; subst. simpl.
  destruct (x =? k) eqn:E; nb.
  - subst x. destruct t as [|y t']; simpl; [split; reflexivity|]. split; [discriminate|].
    intros H. exfalso. apply Hx. apply (last_error_in (y :: t')). exact H.
  - destruct Hi as [Hi|Hi]; [congruence|]. rewrite (IH Hi Ht). destruct t; [destruct Hi | reflexivity].
Qed.

(* ------------------------------------------------------------------ delete *)
Lemma succ_del k l m : NoDup l -> m <> k ->
  succ_in (del k l) m = if oeq (succ_in l m) (Some k) then succ_in l k else succ_in l m.
Proof.
  induction l as [|a t IH]; intros Hn Hm; [reflexivity|]. inversion Hn as [|? ? Ha Ht]; subst.
  destruct (Nat.eq_dec a k) as [->|Hak].
  - rewrite del_cons_same by exact Ha. simpl. rewrite Nat.eqb_refl.
    destruct (k =? m) eqn:E; nb; [congruence|].
    destruct (oeq (succ_in t m) (Some k)) eqn:O; nb; [|reflexivity].
    apply succ_some_in in O. destruct O; contradiction.
  - rewrite del_cons_other by exact Hak. simpl.
    destruct (a =? k) eqn:E1; nb; [congruence|].
    destruct (a =? m) eqn:E2; nb.
    + subst a. destruct t as [|b t']; [reflexivity|].
      destruct (Nat.eq_dec b k) as [->|Hbk].
      * inversion Ht; subst. rewrite del_cons_same by assumption. simpl. rewrite !Nat.eqb_refl. reflexivity.
      * rewrite del_cons_other by exact Hbk. simpl. destruct (b =? k) eqn:E3; nb; [congruence | reflexivity].
    + apply IH; assumption.
Qed.

Lemma pred_aux_del p k l m : NoDup l -> m <> k -> p <> Some k ->
  pred_aux p (del k l) m = if oeq (pred_aux p l m) (Some k) then pred_aux p l k else pred_aux p l m.
Proof.
  revert p; induction l as [|a t IH]; intros p Hn Hm Hp; [reflexivity|]. inversion Hn as [|? ? Ha Ht]; subst.
  destruct (Nat.eq_dec a k) as [->|Hak].
  - rewrite del_cons_same by exact Ha. simpl. rewrite Nat.eqb_refl.
    destruct (k =? m) eqn:E; nb; [congruence|].
    rewrite (pred_aux_shift (Some k) t m), (pred_aux_shift p t m).
    destruct t as [|b t']; [reflexivity|].
    destruct (b =? m) eqn:E2; nb.
    + simpl. rewrite Nat.eqb_refl. reflexivity.
    + destruct (oeq (pred_aux (Some b) t' m) (Some k)) eqn:O; nb; [|reflexivity].
      apply pred_aux_some in O. exfalso. apply Ha. destruct O as [[O _]|[O _]].
      * injection O as ->. left; reflexivity.
      * right; exact O.
  - rewrite del_cons_other by exact Hak. simpl.
    destruct (a =? k) eqn:E1; nb; [congruence|].
    destruct (a =? m) eqn:E2; nb.
    + destruct (oeq p (Some k)) eqn:O; nb; [congruence | reflexivity].
    + apply IH; auto. congruence.
Qed.

Lemma pred_del k l m : NoDup l -> m <> k ->
  pred_in (del k l) m = if oeq (pred_in l m) (Some k) then pred_in l k else pred_in l m.
Proof. intros Hn Hm. apply pred_aux_del; auto. discriminate. Qed.

Lemma hd_del k l : NoDup l -> hd_error (del k l) = if oeq (hd_error l) (Some k) then succ_in l k else hd_error l.
Proof.
  destruct l as [|a t]; intros Hn; [reflexivity|]. inversion Hn; subst.
  destruct (Nat.eq_dec a k) as [->|Hak].
  - rewrite del_cons_same by assumption. simpl. rewrite !Nat.eqb_refl. reflexivity.
  - rewrite del_cons_other by assumption. simpl. destruct (a =? k) eqn:E; nb; [congruence | reflexivity].
Qed.

Lemma last_error_del_notlast k l : NoDup l -> last_error l <> Some k -> last_error (del k l) = last_error l.
Proof.
  induction l as [|a t IH]; intros Hn Hl; [reflexivity|]. inversion Hn as [|? ? Ha Ht]; subst.
  destruct (Nat.eq_dec a k) as [->|Hak].
  - rewrite del_cons_same by exact Ha. destruct t; [simpl in Hl; congruence | reflexivity].
  - rewrite del_cons_other by exact Hak. destruct t as [|b t']; [reflexivity|].
    assert (Hl' : last_error (b :: t') <> Some k) by exact Hl.
    specialize (IH Ht Hl').
    destruct (del k (b :: t')) eqn:D.
    + exfalso. assert (In b (b :: t')) by (left; reflexivity).
      destruct (Nat.eq_dec b k) as [->|Hbk].
      * inversion Ht; subst. rewrite del_cons_same in D by assumption. subst t'. simpl in Hl. congruence.
      * rewrite del_cons_other in D by exact Hbk. discriminate.
    + rewrite last_error_cons by discriminate. rewrite IH. reflexivity.
Qed.

Lemma last_error_del_last k l : NoDup l -> last_error l = Some k -> last_error (del k l) = pred_in l k.
Proof.
  unfold pred_in. intros Hn Hl.
  assert (G : forall p, (match del k l with [] => p | _ => last_error (del k l) end) = pred_aux p l k).
  { revert Hn Hl. induction l as [|a t IH]; intros Hn Hl p; [discriminate|]. inversion Hn as [|? ? Ha Ht]; subst.
    destruct t as [|b t'].
    - simpl in Hl. injection Hl as ->. unfold del. simpl. rewrite Nat.eqb_refl. reflexivity.
    - assert (Hl' : last_error (b :: t') = Some k) by exact Hl.
      assert (Hak : a <> k). { intros ->. apply Ha. apply last_error_in. exact Hl'. }
      rewrite del_cons_other by exact Hak. simpl. destruct (a =? k) eqn:E; nb; [congruence|].
      specialize (IH Ht Hl' (Some a)). simpl in IH. rewrite <- IH.
      destruct (del k (b :: t')); reflexivity. }
  specialize (G None). destruct (del k l) eqn:D; [|exact G].
  rewrite <- G. reflexivity.
Qed.

Lemma last_del k l : NoDup l -> last_error (del k l) = if oeq (last_error l) (Some k) then pred_in l k else last_error l.
Proof.
  intros Hn. destruct (oeq (last_error l) (Some k)) eqn:O; nb.
  - apply last_error_del_last; assumption.
  - apply last_error_del_notlast; assumption.
Qed.

(* ------------------------------------------------------------------ cons / snoc *)
Lemma pred_cons x l m : pred_in (x :: l) m =
  if x =? m then None else if oeq (hd_error l) (Some m) then Some x else pred_in l m.
Proof.
  unfold pred_in. simpl. destruct (x =? m) eqn:E; [reflexivity|].
  destruct l as [|a t]; [reflexivity|]. simpl. destruct (a =? m); reflexivity.
Qed.

Lemma succ_snoc x l m : NoDup l -> ~ In x l ->
  succ_in (l ++ [x]) m = if m =? x then None else if oeq (last_error l) (Some m) then Some x else succ_in l m.
Proof.
  intros Hn Hx. induction l as [|a t IH]; simpl.
  - rewrite (Nat.eqb_sym x m). destruct (m =? x); reflexivity.
  - inversion Hn as [|? ? Ha Ht]; subst.
    assert (Hax : a <> x) by (intros ->; apply Hx; left; reflexivity).
    assert (Hxt : ~ In x t) by (intros H; apply Hx; right; exact H).
    destruct (a =? m) eqn:E; nb.
    + subst a. destruct (m =? x) eqn:E2; nb; [congruence|].
      destruct t as [|b t']; simpl; [rewrite Nat.eqb_refl; reflexivity|].
      change (Some b = if oeq (last_error (b :: t')) (Some m) then Some x else Some b).
      destruct (oeq (last_error (b :: t')) (Some m)) eqn:O; nb; [|reflexivity].
      apply last_error_in in O. contradiction.
    + rewrite (IH Ht Hxt). destruct (m =? x); [reflexivity|].
      destruct t as [|b t']; simpl; [destruct (a =? m) eqn:E3; nb; [congruence | reflexivity] | reflexivity].
Qed.

Lemma pred_aux_snoc (p : option nat) x (l : list nat) m : ~ In x l ->
  pred_aux p (l ++ [x]) m = if m =? x then (match l with [] => p | _ => last_error l end) else pred_aux p l m.
Proof.
  intros Hx. revert p. induction l as [|a t IH]; intros p; simpl.
  - rewrite (Nat.eqb_sym x m). destruct (m =? x); reflexivity.
  - assert (Hax : a <> x) by (intros ->; apply Hx; left; reflexivity).
    assert (Hxt : ~ In x t) by (intros H; apply Hx; right; exact H).
    destruct (a =? m) eqn:E; nb.
    + subst a. destruct (m =? x) eqn:E2; nb; [congruence | reflexivity].
    + rewrite (IH Hxt). destruct (m =? x); [|reflexivity]. destruct t; reflexivity.
Qed.
Lemma pred_snoc x l m : ~ In x l -> pred_in (l ++ [x]) m = if m =? x then last_error l else pred_in l m.
Proof. intros Hx. unfold pred_in. rewrite pred_aux_snoc by exact Hx. destruct l; reflexivity. Qed.

Lemma hd_snoc (x : nat) (l : list nat) : hd_error (l ++ [x]) = match hd_error l with Some a => Some a | None => Some x end.
Proof. destruct l; reflexivity. Qed.

(* ------------------------------------------------------------------ insert after *)
Lemma ins_after_in j k l x : In j l -> (In x (ins_after j k l) <-> x = k \/ In x l).
Proof.
  induction l as [|a t IH]; intros Hj; [destruct Hj|]. simpl. destruct (a =? j) eqn:E; nb.
  - simpl. intuition.
  - destruct Hj as [Hj|Hj]; [congruence|]. simpl. rewrite (IH Hj). intuition.
Qed.
Lemma ins_after_nodup j k l : NoDup l -> In j l -> ~ In k l -> NoDup (ins_after j k l).
Proof.
  induction l as [|a t IH]; intros Hn Hj Hk; [destruct Hj|]. inversion Hn as [|? ? Ha Ht]; subst. simpl.
  destruct (a =? j) eqn:E; nb.
  - subst a. constructor; [intros [H|H]; [subst; apply Hk; left; reflexivity | contradiction]|].
    constructor; [intros H; apply Hk; right; exact H | exact Ht].
  - destruct Hj as [Hj|Hj]; [congruence|]. constructor.
    + rewrite (ins_after_in j k t a Hj). intros [->|H]; [apply Hk; left; reflexivity | contradiction].
    + apply IH; auto. intros H; apply Hk; right; exact H.
Qed.
Lemma ins_after_length j k l : NoDup l -> In j l -> length (ins_after j k l) = S (length l).
Proof.
  induction l as [|a t IH]; intros Hn Hj; [destruct Hj|]. inversion Hn; subst. simpl.
  destruct (a =? j) eqn:E; nb; [reflexivity|]. destruct Hj as [Hj|Hj]; [congruence|]. simpl. rewrite IH; auto.
Qed.

Lemma succ_ins_after j k l m : NoDup l -> In j l -> ~ In k l ->
  succ_in (ins_after j k l) m = if m =? j then Some k else if m =? k then succ_in l j else succ_in l m.
Proof.
  induction l as [|a t IH]; intros Hn Hj Hk; [destruct Hj|]. inversion Hn as [|? ? Ha Ht]; subst.
  assert (Hak : a <> k) by (intros ->; apply Hk; left; reflexivity).
  assert (Hkt : ~ In k t) by (intros H; apply Hk; right; exact H).
  simpl. destruct (a =? j) eqn:E; nb.
  - subst a. simpl. destruct (j =? m) eqn:E2; nb.
    + subst m. rewrite Nat.eqb_refl. reflexivity.
    + rewrite (Nat.eqb_sym m j). destruct (j =? m) eqn:E3; nb; [congruence|].
      destruct (k =? m) eqn:E4; nb.
      * subst m. rewrite Nat.eqb_refl. reflexivity.
      * rewrite (Nat.eqb_sym m k). destruct (k =? m) eqn:E5; nb; [congruence | reflexivity].
  - destruct Hj as [Hj|Hj]; [congruence|]. simpl. destruct (a =? m) eqn:E2; nb.
    + subst m. destruct (a =? j) eqn:E3; nb; [congruence|]. destruct (a =? k) eqn:E4; nb; [congruence|].
      destruct t as [|b t']; [destruct Hj|]. simpl. destruct (b =? j); reflexivity.
    + rewrite (IH Ht Hj Hkt). destruct (m =? j); [reflexivity|]. destruct (m =? k); [|reflexivity].
      destruct (a =? j) eqn:E3; nb; [congruence | reflexivity].
Qed.

Lemma pred_aux_ins_after p j k l m : NoDup l -> In j l -> ~ In k l -> p <> Some j ->
  pred_aux p (ins_after j k l) m =
  if m =? k then Some j else if oeq (succ_in l j) (Some m) then Some k else pred_aux p l m.
Proof.
  revert p. induction l as [|a t IH]; intros p Hn Hj Hk Hp; [destruct Hj|]. inversion Hn as [|? ? Ha Ht]; subst.
  assert (Hak : a <> k) by (intros ->; apply Hk; left; reflexivity).
  assert (Hkt : ~ In k t) by (intros H; apply Hk; right; exact H).
  simpl. destruct (a =? j) eqn:E; nb.
  - subst a. simpl. destruct (j =? m) eqn:E2; nb.
    + subst m. destruct (j =? k) eqn:E3; nb; [congruence|].
      destruct (oeq (hd_error t) (Some j)) eqn:O; nb; [|reflexivity].
      apply hd_error_in in O. contradiction.
    + destruct (k =? m) eqn:E4; nb.
      * subst m. rewrite Nat.eqb_refl. reflexivity.
      * rewrite (Nat.eqb_sym m k). destruct (k =? m) eqn:E5; nb; [congruence|].
        rewrite (pred_aux_shift (Some k) t m), (pred_aux_shift (Some j) t m).
        destruct t as [|b t']; [reflexivity|]. simpl. destruct (b =? m); reflexivity.
  - destruct Hj as [Hj|Hj]; [congruence|]. simpl. destruct (a =? m) eqn:E2; nb.
    + subst m. destruct (a =? k) eqn:E3; nb; [congruence|].
      destruct (oeq (succ_in t j) (Some a)) eqn:O; nb; [|reflexivity].
      apply succ_some_in in O. destruct O; contradiction.
    + apply IH; auto. congruence.
Qed.
Lemma pred_ins_after j k l m : NoDup l -> In j l -> ~ In k l ->
  pred_in (ins_after j k l) m =
  if m =? k then Some j else if oeq (succ_in l j) (Some m) then Some k else pred_in l m.
Proof. intros. apply pred_aux_ins_after; auto. discriminate. Qed.

Lemma hd_ins_after j k l : hd_error (ins_after j k l) = hd_error l.
Proof. destruct l as [|a t]; [reflexivity|]. simpl. destruct (a =? j); reflexivity. Qed.

Lemma last_ins_after j k l : NoDup l -> In j l ->
  last_error (ins_after j k l) = if oeq (last_error l) (Some j) then Some k else last_error l.
Proof.
  induction l as [|a t IH]; intros Hn Hj; [destruct Hj|]. inversion Hn as [|? ? Ha Ht]; subst. simpl.
  destruct (a =? j) eqn:E; nb.
  - subst a. destruct t as [|b t']; [simpl; rewrite Nat.eqb_refl; reflexivity|].
    change (last_error (b :: t') = if oeq (last_error (b :: t')) (Some j) then Some k else last_error (b :: t')).
    destruct (oeq (last_error (b :: t')) (Some j)) eqn:O; nb; [|reflexivity].
    apply last_error_in in O. contradiction.
  - destruct Hj as [Hj|Hj]; [congruence|]. specialize (IH Ht Hj).
    destruct t as [|b t']; [destruct Hj|].
    assert (ins_after j k (b :: t') <> []) by (simpl; destruct (b =? j); discriminate).
    rewrite last_error_cons by assumption. rewrite IH. reflexivity.
Qed.

Lemma succ_in_irrefl l k : NoDup l -> succ_in l k <> Some k.
Proof.
  induction l as [|x r IH]; intros Hn; simpl; [discriminate|]. inversion Hn; subst.
  destruct (x =? k) eqn:E; nb; [subst; intros H; apply hd_error_in in H; contradiction | apply IH; assumption].
Qed.
