(* A Python dict with integer keys as an insertion-ordered association list. *)
From Coq Require Import ZArith List Bool Lia.
Import ListNotations.
Open Scope Z_scope.

Section Dict.
Context {V : Type}.
Definition dict := list (Z * V).

Fixpoint dget (d : dict) (k : Z) : option V :=
  match d with
  | [] => None
  | (k', v) :: d' => if k' =? k then Some v else dget d' k
  end.

Definition dmem (d : dict) (k : Z) : bool :=
  match dget d k with Some _ => true | None => false end.

Fixpoint dset (d : dict) (k : Z) (v : V) : dict :=
  match d with
  | [] => [(k, v)]
  | (k', v') :: d' => if k' =? k then (k, v) :: d' else (k', v') :: dset d' k v
  end.

Fixpoint ddel (d : dict) (k : Z) : dict :=
  match d with
  | [] => []
  | (k', v') :: d' => if k' =? k then d' else (k', v') :: ddel d' k
  end.

Definition dkeys (d : dict) : list Z := map fst d.

Lemma dget_dset_same d k v : dget (dset d k v) k = Some v.
Proof.
  induction d as [|[k' v'] d IH]; simpl.
  - rewrite Z.eqb_refl; reflexivity.
  - destruct (k' =? k) eqn:E; simpl; [rewrite Z.eqb_refl; reflexivity | rewrite E; exact IH].
Qed.

Lemma dget_dset_other d k v k2 : k2 <> k -> dget (dset d k v) k2 = dget d k2.
Proof.
  intros Hne. induction d as [|[k' v'] d IH]; simpl.
  - destruct (k =? k2) eqn:E; [apply Z.eqb_eq in E; congruence | reflexivity].
  - destruct (k' =? k) eqn:E; simpl.
    + apply Z.eqb_eq in E; subst k'.
      destruct (k =? k2) eqn:E2; [apply Z.eqb_eq in E2; congruence | reflexivity].
    + destruct (k' =? k2); [reflexivity | exact IH].
Qed.

Lemma dget_ddel_other d k k2 : k2 <> k -> dget (ddel d k) k2 = dget d k2.
Proof.
  intros Hne. induction d as [|[k' v'] d IH]; simpl; [reflexivity|].
  destruct (k' =? k) eqn:E; simpl.
  - apply Z.eqb_eq in E; subst k'.
    destruct (k =? k2) eqn:E2; [apply Z.eqb_eq in E2; congruence | reflexivity].
  - destruct (k' =? k2); [reflexivity | exact IH].
Qed.

Lemma dget_none_notin d k : dget d k = None <-> ~ In k (dkeys d).
Proof.
  induction d as [|[k' v'] d IH]; simpl; [tauto|].
  destruct (k' =? k) eqn:E.
  - apply Z.eqb_eq in E. split; [discriminate | intros H; exfalso; apply H; left; exact E].
  - apply Z.eqb_neq in E. rewrite IH. tauto.
Qed.

Lemma dget_some_in d k v : dget d k = Some v -> In k (dkeys d).
Proof.
  intros H. destruct (in_dec Z.eq_dec k (dkeys d)) as [Hi|Hn]; [exact Hi|].
  apply dget_none_notin in Hn. congruence.
Qed.

Lemma dmem_in d k : dmem d k = true <-> In k (dkeys d).
Proof.
  unfold dmem. destruct (dget d k) eqn:E.
  - split; [intros _; eapply dget_some_in; exact E | reflexivity].
  - split; [discriminate | intros H; apply dget_none_notin in E; contradiction].
Qed.

Lemma dget_ddel_same d k : NoDup (dkeys d) -> dget (ddel d k) k = None.
Proof.
  induction d as [|[k' v'] d IH]; simpl; intros Hnd; [reflexivity|].
  inversion Hnd as [|? ? Hni Hnd']; subst.
  destruct (k' =? k) eqn:E; simpl.
  - apply Z.eqb_eq in E; subst k'. apply dget_none_notin; exact Hni.
  - rewrite E. apply IH; exact Hnd'.
Qed.

Lemma dkeys_dset_in d k v k2 : In k2 (dkeys (dset d k v)) <-> k2 = k \/ In k2 (dkeys d).
Proof.
  induction d as [|[k' v'] d IH]; simpl.
  - intuition.
  - destruct (k' =? k) eqn:E; simpl.
    + apply Z.eqb_eq in E; subst. intuition.
    + rewrite IH. intuition.
Qed.

Lemma dkeys_ddel_in d k k2 : NoDup (dkeys d) -> (In k2 (dkeys (ddel d k)) <-> k2 <> k /\ In k2 (dkeys d)).
Proof.
  induction d as [|[k' v'] d IH]; simpl; intros Hnd.
  - intuition.
  - inversion Hnd as [|? ? Hni Hnd']; subst.
    destruct (k' =? k) eqn:E; simpl.
    + apply Z.eqb_eq in E; subst k'. split.
      * intros Hi. split; [intros ->; contradiction | right; exact Hi].
      * intros [Hne [He|Hi]]; [congruence | exact Hi].
    + apply Z.eqb_neq in E. rewrite (IH Hnd'). split.
      * intros [He|[Hne Hi]]; [subst; split; [congruence | left; reflexivity] | split; [exact Hne | right; exact Hi]].
      * intros [Hne [He|Hi]]; [left; exact He | right; split; assumption].
Qed.

Lemma dset_nodup d k v : NoDup (dkeys d) -> NoDup (dkeys (dset d k v)).
Proof.
  induction d as [|[k' v'] d IH]; simpl; intros Hnd.
  - constructor; [intros [] | constructor].
  - inversion Hnd as [|? ? Hni Hnd']; subst.
    destruct (k' =? k) eqn:E; simpl.
    + apply Z.eqb_eq in E; subst k'. constructor; assumption.
    + apply Z.eqb_neq in E. constructor; [|apply IH; exact Hnd'].
      rewrite dkeys_dset_in. intros [He|Hi]; [congruence | contradiction].
Qed.

Lemma ddel_nodup d k : NoDup (dkeys d) -> NoDup (dkeys (ddel d k)).
Proof.
  induction d as [|[k' v'] d IH]; simpl; intros Hnd; [constructor|].
  inversion Hnd as [|? ? Hni Hnd']; subst.
  destruct (k' =? k) eqn:E; simpl; [exact Hnd'|].
  constructor; [|apply IH; exact Hnd'].
  rewrite (dkeys_ddel_in _ _ _ Hnd'). intros [_ Hi]; contradiction.
Qed.

Lemma dset_length d k v :
  length (dset d k v) = if dmem d k then length d else S (length d).
Proof.
  unfold dmem. induction d as [|[k' v'] d IH]; simpl; [reflexivity|].
  destruct (k' =? k) eqn:E; simpl; [reflexivity|].
  rewrite IH. destruct (dget d k); reflexivity.
Qed.

Lemma ddel_length d k :
  length (ddel d k) = if dmem d k then pred (length d) else length d.
Proof.
  unfold dmem. induction d as [|[k' v'] d IH]; simpl; [reflexivity|].
  destruct (k' =? k) eqn:E; simpl; [reflexivity|].
  rewrite IH. destruct (dget d k) eqn:G; [|reflexivity].
  destruct d; [discriminate G | reflexivity].
Qed.

End Dict.
Arguments dict : clear implicits.
