(* Universal wire value shared by the model runner, the Coq-side cross-check and the Python harness.
   A case and an observation are both [val]s: an integer or a list of values.  Strings are lists of
   code points, exceptions are small tagged lists.  Nothing here is part of a property statement. *)
From Coq Require Import ZArith List Bool.
Import ListNotations.
Open Scope Z_scope.

Inductive val := I (z : Z) | L (l : list val).

Fixpoint val_eqb (a b : val) {struct a} : bool :=
  match a, b with
  | I x, I y => Z.eqb x y
  | L xs, L ys =>
      (fix go (xs ys : list val) {struct xs} : bool :=
         match xs, ys with
         | [], [] => true
         | x :: xs', y :: ys' => val_eqb x y && go xs' ys'
         | _, _ => false
         end) xs ys
  | _, _ => false
  end.

Definition unI (v : val) : Z := match v with I z => z | L _ => 0 end.
Definition unL (v : val) : list val := match v with L l => l | I _ => [] end.
Definition unN (v : val) : nat := Z.to_nat (unI v).
Definition unB (v : val) : bool := negb (unI v =? 0).
Definition unZs (v : val) : list Z := map unI (unL v).
Definition vZs (l : list Z) : val := L (map I l).
Definition vN (n : nat) : val := I (Z.of_nat n).
Definition vB (b : bool) : val := I (if b then 1 else 0).
Definition vNs (l : list nat) : val := L (map vN l).
Definition vnth (v : val) (n : nat) : val := nth n (unL v) (I 0).
Definition vOptZ (o : option Z) : val := match o with Some z => L [I z] | None => L [] end.

(* results of operations that may raise: [L [I 0; v]] = returned v, [L [I 1; I code]] = raised *)
Definition vOk (v : val) : val := L [I 0; v].
Definition vErr (code : Z) : val := L [I 1; I code].

(* exception codes, shared with harness/canon.py *)
Definition E_Index : Z := 1.
Definition E_Key : Z := 2.
Definition E_Value : Z := 3.
Definition E_Type : Z := 4.
Definition E_Runtime : Z := 5.
Definition E_Attribute : Z := 6.
Definition E_Recursion : Z := 7.
Definition E_Assertion : Z := 8.
Definition E_StopIteration : Z := 9.
Definition E_Other : Z := 99.
Definition E_Diverges : Z := 100.
