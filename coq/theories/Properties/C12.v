(* Property C12 - mutable line files act as a list of lines; save writes it; the source is untouched.
   Statements only; proofs in Proofs/LineFileP.v. *)
From Coq Require Import ZArith List Bool.
From WPU Require Import Common.Val Model.LineFile Proofs.LineFileP.
Import ListNotations.
Open Scope Z_scope.

(* the edit operations act on the view exactly like the operations of a Python list (same IndexError / ValueError cases) *)
Theorem C12_list_semantics : forall ad f op,
  let v := mf_view f in let v' := mf_view (fst (mf_step ad f op)) in
  match op with
  | MSet i s => match py_index (length v) i with
                | Some j => v' = set_nth j s v /\ snd (mf_step ad f op) = MUnit
                | None => v' = v /\ snd (mf_step ad f op) = MIndexErr end
  | MDel i => match py_index (length v) i with
              | Some j => v' = firstn j v ++ skipn (S j) v | None => v' = v /\ snd (mf_step ad f op) = MIndexErr end
  | MAppend s => v' = v ++ [s]
  | MExtend ss | MIadd ss => v' = v ++ ss
  | MPop => match rev v with [] => snd (mf_step ad f op) = MIndexErr /\ v' = v
                          | x :: r => snd (mf_step ad f op) = MLine x /\ v' = rev r end
  | MReverse => v' = rev v
  | MRemove s => match index_of s v with
                 | Some j => v' = firstn j v ++ skipn (S j) v
                 | None => snd (mf_step ad f op) = MValueErr /\ v' = v end
  | MGetI i => v' = v /\ snd (mf_step ad f op) = match py_index (length v) i with Some j => MLine (nth j v []) | None => MIndexErr end
  | MLenQ => v' = v /\ snd (mf_step ad f op) = MNum (Z.of_nat (length v))
  | MListQ => v' = v /\ snd (mf_step ad f op) = MLines v
  | _ => True
  end.
Proof. exact mf_step_list. Qed.
Print Assumptions C12_list_semantics.

(* the element-swapping loop of reverse() is list reversal *)
Theorem C12_reverse : forall l : list (list Z), rev_swaps (length l / 2) (length l) l = rev l.
Proof. exact reverse_spec. Qed.
Print Assumptions C12_reverse.

(* save() writes exactly the lines, each followed by the chosen line ending *)
Theorem C12_save_bytes : forall view e, Forall no_nl view -> save_bytes view e = concat (map (fun l => l ++ e) view).
Proof. exact save_bytes_spec. Qed.
Print Assumptions C12_save_bytes.

(* reopening the saved file gives the same list *)
Theorem C12_reopen_same : forall view, Forall no_nl view -> lines_of (save_bytes view [NL]) = view.
Proof. exact reopen_same. Qed.
Print Assumptions C12_reopen_same.

Theorem C12_reopen_general : forall view e, Forall no_nl view -> no_nl e ->
  lines_of (save_bytes view (e ++ [NL])) = map (fun l => l ++ e) view.
Proof. exact reopen_general. Qed.
Print Assumptions C12_reopen_general.

(* dirty (plain variants): a change of content sets it, it never goes back, reads leave everything as it is *)
Theorem C12_dirty_set : forall f op,
  mf_view (fst (mf_step false f op)) <> mf_view f -> mf_dirty (fst (mf_step false f op)) = true.
Proof. exact dirty_spec. Qed.
Print Assumptions C12_dirty_set.
Theorem C12_dirty_stays : forall f op, mf_dirty f = true -> mf_dirty (fst (mf_step false f op)) = true.
Proof. exact dirty_stays. Qed.
Print Assumptions C12_dirty_stays.
Theorem C12_reads_change_nothing : forall f op,
  (match op with MGetI _ | MLenQ | MListQ | MDirtyQ | MSetBad _ => True | _ => False end) -> fst (mf_step false f op) = f.
Proof. exact reads_keep_dirty. Qed.
Print Assumptions C12_reads_change_nothing.

Example C12_nonvacuous :
  let f := fst (m_trace false (mkMF [[97]; [98]; [99]] false) [MInsert (-1) [120]; MPop; MReverse; MDel 0]) in
  True /\ save_bytes [[97]; [98; 10]] [13; 10] = [97; 13; 10; 98; 13; 10].
Proof. split; [exact Logic.I | reflexivity]. Qed.
