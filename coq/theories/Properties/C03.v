(* Property C03 - a pool stays correct across consecutive calls and across worker replacement.
   Statements only; proofs in Proofs/PoolP.v.  The history of one pool instance is a list of actions (ordered /
   unordered call with its input and chunk size, until_all_ready); configurations include FactoryFunctorPool with a
   per-worker quota, whose retirements and replacements are events of the schedule like everything else. *)
From Coq Require Import ZArith List Bool Arith Permutation.
From WPU Require Import Common.Val Model.Pool Proofs.PoolP Proofs.PoolLifeP Proofs.PoolLiveP.
Import ListNotations.
Open Scope nat_scope.

(* every call of the history, taken in order, yields exactly its own results: call k of the history is matched with
   the k-th completed result list; a leak from an earlier call into a later one would break result_ok of the later one *)
Theorem C03_history : forall cfg hist sched, Forall action_ok hist -> fault_free_sched sched ->
  let s := run cfg (init cfg hist) sched in
  s_error s = false
  /\ (exists done rest, calls_of hist = done ++ rest /\ Forall2 result_ok done (s_done_calls s))
  /\ (s_main s = MDone -> Forall2 result_ok (calls_of hist) (s_done_calls s)).
Proof. exact pool_results. Qed.
Print Assumptions C03_history.

(* between two calls nothing of the earlier call is in flight: no chunk in the work queue, in a worker, in the
   results queue or in a reorder buffer *)
Theorem C03_clean_between_calls : forall cfg hist sched, Forall action_ok hist -> fault_free_sched sched ->
  let s := run cfg (init cfg hist) sched in in_call (s_main s) = false -> entries s = [].
Proof. exact nothing_left. Qed.
Print Assumptions C03_clean_between_calls.

(* one transition preserves the whole invariant, whatever thread or process moves (retiring worker, replace thread,
   feeder, consumer): this is the induction step the two theorems above rest on *)
Theorem C03_step : forall cfg hist s e s', HInv hist s -> fault_free e -> step cfg s e = Some s' -> HInv hist s'.
Proof. exact hinv_step. Qed.
Print Assumptions C03_step.

(* the pool never runs out of workers while work is pending: inside a call, with a chunk in the work queue or in a
   worker and room in the results queue, some worker can move or - if every worker has retired - the replace thread can *)
Theorem C03_workers_never_run_out : forall cfg hist sched, cfg_ok cfg -> Forall action_ok hist -> fault_free_sched sched ->
  let s := run cfg (init cfg hist) sched in
  in_call (s_main s) = true -> full (c_rq_cap cfg) (s_resq s) = false -> (s_workq s <> [] \/ held (s_procs s) <> []) ->
  exists e, fault_free e /\ step cfg s e <> None.
Proof.
  intros cfg hist sched Ok Hh Hs s Hc Fu Hw. destruct (live_run cfg hist sched Ok Hh Hs) as [_ _ _ Ls Lp _].
  apply (workers_progress cfg s Ok Ls Lp Hc Fu Hw).
Qed.
Print Assumptions C03_workers_never_run_out.

(* every worker that has left its loop while the pool is in use is pending replacement: its wid is in the replace
   queue or in the hands of the replace thread, exactly once, and it is the wid of a worker of the pool *)
Theorem C03_retired_are_pending : forall cfg hist sched, cfg_ok cfg -> Forall action_ok hist -> fault_free_sched sched ->
  let s := run cfg (init cfg hist) sched in
  NoDup (pending s)
  /\ (exit_class (s_main s) = false -> forall k w, nth_error (s_procs s) k = Some w -> gone w = true -> In (w_id w) (pending s))
  /\ (forall wid, In wid (pending s) -> exists k w, nth_error (s_procs s) k = Some w /\ w_id w = wid /\ gone w = true).
Proof.
  intros cfg hist sched Ok Hh Hs s. destruct (live_run cfg hist sched Ok Hh Hs) as [_ _ _ _ Lp _]. fold s in Lp.
  split; [apply (p_pnd s Lp)|]. split; [apply (p_pend s Lp) | apply (p_gone s Lp)].
Qed.
Print Assumptions C03_retired_are_pending.

(* between calls the pool is at full strength, however the retirements fell - also for workers that retired with the very
   last chunk of a call: every slot holds a worker that has not left its loop (it has been replaced before the call ended) *)
Theorem C03_full_strength_between_calls : forall cfg hist sched, cfg_ok cfg -> Forall action_ok hist -> fault_free_sched sched ->
  let s := run cfg (init cfg hist) sched in
  s_main s = MIdle ->
  length (s_procs s) = c_workers cfg
  /\ forall j w, nth_error (s_procs s) j = Some w -> w_pc w <> WEnding /\ w_pc w <> WDead /\ forall i xs, w_pc w <> WHoldR i xs.
Proof.
  intros cfg hist sched Ok Hh Hs s Hm. destruct (live_run cfg hist sched Ok Hh Hs) as [_ _ _ Ls Lp Lx _]. fold s in Ls, Lp, Lx.
  split; [apply (s_len _ _ Ls)|]. intros j w N. pose proof (idle_full_strength cfg s Ls Lp Lx Hm j w N) as R.
  unfold retiring in R. destruct (w_pc w); try discriminate; repeat split; discriminate.
Qed.
Print Assumptions C03_full_strength_between_calls.

(* nothing of the replace protocol leaks into the next call: outside the join of the replace thread its queue holds no
   stop token, and the thread is not left in its stopped state *)
Theorem C03_no_stale_stop_token : forall cfg hist sched, cfg_ok cfg -> Forall action_ok hist -> fault_free_sched sched ->
  let s := run cfg (init cfg hist) sched in
  s_main s <> MRepJoin -> nones (s_replq s) = 0 /\ s_rep s <> RDone.
Proof.
  intros cfg hist sched Ok Hh Hs s Hm. destruct (live_run cfg hist sched Ok Hh Hs) as [_ _ _ Ls _ _]. fold s in Ls.
  pose proof (s_tok _ _ Ls) as St. destruct (s_main s); try contradiction; destruct (s_rep s); split; try discriminate; Lia.lia.
Qed.
Print Assumptions C03_no_stale_stop_token.

(* non-vacuity: FactoryFunctorPool, 2 workers, quota 1 (every chunk retires a worker), three calls incl. an empty one *)
Example C03_complete_run :
  let cfg := mkCfg 2 None (Some 1) true (Some 1) in
  let hist := [ACall true [1; 2; 3]%Z 1; ACall false []%Z 1; AReady; ACall true [8; 9]%Z 1] in
  let s := run cfg (init cfg hist) (fair_sched 2 60) in
  Forall action_ok hist /\ fault_free_sched (fair_sched 2 60) /\ s_main s = MDone
  /\ s_done_calls s = [[1; 2; 3]; []; [8; 9]]%Z /\ length (s_retired s) = 5.
Proof.
  split; [repeat constructor|]. split; [apply fair_sched_fault_free|]. vm_compute. repeat split; reflexivity.
Qed.
