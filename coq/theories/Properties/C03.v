(* Property C03 - a pool stays correct across consecutive calls and across worker replacement.
   Statements only; proofs in Proofs/PoolP.v.  The history of one pool instance is a list of actions (ordered /
   unordered call with its input and chunk size, until_all_ready); configurations include FactoryFunctorPool with a
   per-worker quota, whose retirements and replacements are events of the schedule like everything else. *)
From Coq Require Import ZArith List Bool Arith Permutation.
From WPU Require Import Common.Val Model.Pool Proofs.PoolP.
Import ListNotations.
Open Scope nat_scope.

(* every call of the history, taken in order, yields exactly its own results: call k of the history is matched with
   the k-th completed result list; a leak from an earlier call into a later one would break result_ok of the later one *)
Theorem C03_history : forall cfg hist sched, Forall action_ok hist -> fault_free_sched sched ->
  let s := run cfg (init cfg hist) sched in
  s_error s = false
  /\ (exists done rest, calls_of hist = done ++ rest /\ Forall2 result_ok done (s_done_calls s))
  /\ (s_main s = MDone -> Forall2 result_ok (calls_of hist) (s_done_calls s)).
Proof. exact pool_results. Qed.
Print Assumptions C03_history.

(* between two calls nothing of the earlier call is in flight: no chunk in the work queue, in a worker, in the
   results queue or in a reorder buffer *)
Theorem C03_clean_between_calls : forall cfg hist sched, Forall action_ok hist -> fault_free_sched sched ->
  let s := run cfg (init cfg hist) sched in in_call (s_main s) = false -> entries s = [].
Proof. exact nothing_left. Qed.
Print Assumptions C03_clean_between_calls.

(* one transition preserves the whole invariant, whatever thread or process moves (retiring worker, replace thread,
   feeder, consumer): this is the induction step the two theorems above rest on *)
Theorem C03_step : forall cfg hist s e s', HInv hist s -> fault_free e -> step cfg s e = Some s' -> HInv hist s'.
Proof. exact hinv_step. Qed.
Print Assumptions C03_step.

(* non-vacuity: FactoryFunctorPool, 2 workers, quota 1 (every chunk retires a worker), three calls incl. an empty one *)
Example C03_complete_run :
  let cfg := mkCfg 2 None (Some 1) true (Some 1) in
  let hist := [ACall true [1; 2; 3]%Z 1; ACall false []%Z 1; AReady; ACall true [8; 9]%Z 1] in
  let s := run cfg (init cfg hist) (fair_sched 2 60) in
  Forall action_ok hist /\ fault_free_sched (fair_sched 2 60) /\ s_main s = MDone
  /\ s_done_calls s = [[1; 2; 3]; []; [8; 9]]%Z /\ length (s_retired s) = 5.
Proof.
  split; [repeat constructor|]. split; [apply fair_sched_fault_free|]. vm_compute. repeat split; reflexivity.
Qed.
