(* Property C19 - generic sequence helpers equal their brute-force definitions.
   Statements only; proofs are in Proofs/GenericP.v. *)
From Coq Require Import ZArith List Permutation Sorted.
From WPU Require Import Common.Val Common.ListX Model.Generic Proofs.GenericP.
Import ListNotations.
Open Scope Z_scope.

(* Roman numerals: the domain 1..3999 is finite; proved by complete evaluation (forallb + vm_compute). *)
Theorem C19_roman_roundtrip : forall n, 1 <= n <= 3999 -> roman_2_int (int_2_roman n) = n.
Proof. exact roman_roundtrip. Qed.
Print Assumptions C19_roman_roundtrip.

Theorem C19_roman_canonical : forall n, 1 <= n <= 3999 ->
  int_2_roman n =
  nth (Z.to_nat (n / 1000)) thousands [] ++ nth (Z.to_nat ((n / 100) mod 10)) hundreds []
  ++ nth (Z.to_nat ((n / 10) mod 10)) tens [] ++ nth (Z.to_nat (n mod 10)) ones [].
Proof. exact roman_canonical. Qed.
Print Assumptions C19_roman_canonical.

Theorem C19_roman_inverse_on_image : forall s n,
  1 <= n <= 3999 -> s = int_2_roman n -> int_2_roman (roman_2_int s) = s.
Proof. exact roman_inverse_on_image. Qed.
Print Assumptions C19_roman_inverse_on_image.

Theorem C19_arg_sort_spec : forall els rev,
  Permutation (arg_sort els rev) (seq 0 (length els))
  /\ StronglySorted (idx_lt rev els) (arg_sort els rev).
Proof. exact arg_sort_spec. Qed.
Print Assumptions C19_arg_sort_spec.

Theorem C19_arg_sort_unique : forall els rev l,
  Permutation l (seq 0 (length els)) -> StronglySorted (idx_lt rev els) l -> l = arg_sort els rev.
Proof. exact arg_sort_unique. Qed.
Print Assumptions C19_arg_sort_unique.

Theorem C19_sub_seq_iff : forall s1 s2, sub_seq s1 s2 = true <-> exists pre post, s2 = pre ++ s1 ++ post.
Proof. exact sub_seq_iff. Qed.
Print Assumptions C19_sub_seq_iff.

Theorem C19_search_sub_seq_spec : forall s1 s2 res,
  search_sub_seq s1 s2 = Some res ->
  s1 <> [] /\ s2 <> []
  /\ (forall a b, In (a, b) res <-> (b = a + length s1 /\ b <= length s2 /\ window s2 a (length s1) = s1)%nat)
  /\ StronglySorted (fun p q => (fst p < fst q)%nat) res.
Proof. exact search_sub_seq_spec. Qed.
Print Assumptions C19_search_sub_seq_spec.

Theorem C19_search_sub_seq_value_error : forall s1 s2, search_sub_seq s1 s2 = None <-> s1 = [] \/ s2 = [].
Proof. exact search_sub_seq_value_error. Qed.
Print Assumptions C19_search_sub_seq_value_error.

Theorem C19_compare_pos_iff : forall a b, compare_pos a b = true <-> Permutation a b.
Proof. exact compare_pos_iff. Qed.
Print Assumptions C19_compare_pos_iff.

(* Batcher: the batches handed out by index are consecutive, concatenate to the input, all have batch_size items
   except possibly a shorter non-empty last one; such a decomposition is unique; len = ceil(n / batch_size). *)
Theorem C19_batcher_partition : forall (A : Type) (data : list A) (b : nat), (0 < b)%nat ->
  concat (batcher_all data b) = data /\ ok_batches b (batcher_all data b).
Proof. intros A data b Hb. split; [apply batcher_concat | apply batcher_ok]; exact Hb. Qed.
Print Assumptions C19_batcher_partition.

Theorem C19_batches_unique : forall (A : Type) (b : nat) (bs1 bs2 : list (list A)), (0 < b)%nat ->
  ok_batches b bs1 -> ok_batches b bs2 -> concat bs1 = concat bs2 -> bs1 = bs2.
Proof. intros A. exact ok_batches_unique. Qed.
Print Assumptions C19_batches_unique.

Theorem C19_batcher_len_ceil : forall n b, 0 <= n -> 0 < b ->
  (batcher_len n b - 1) * b < n <= batcher_len n b * b.
Proof. exact batcher_len_ceil. Qed.
Print Assumptions C19_batcher_len_ceil.

Theorem C19_batcher_get_spec : forall (A : Type) (data : list A) (b i : Z), 0 < b -> 0 <= i ->
  batcher_get data b i =
  if i <? batcher_len (Z.of_nat (length data)) b
  then Some (nth (Z.to_nat i) (batcher_all data (Z.to_nat b)) []) else None.
Proof. intros A. exact batcher_get_spec. Qed.
Print Assumptions C19_batcher_get_spec.

(* the iterator variant yields exactly the same batches; tuple inputs are batched as rows (zip), i.e. in lock-step *)
Theorem C19_batcher_iter_eq : forall (A : Type) (data : list A) (b : nat), (0 < b)%nat ->
  biter b data = batcher_all data b.
Proof. intros A. exact batcher_iter_eq. Qed.
Print Assumptions C19_batcher_iter_eq.

Example C19_nonvacuous :
  int_2_roman 1994 = [RM; RC; RM; RX; RC; RI; RV] /\ arg_sort [3; 1; 3; 1] true = [0; 2; 1; 3]%nat
  /\ biter 2 [1; 2; 3; 4; 5] = [[1; 2]; [3; 4]; [5]] /\ search_sub_seq [1; 1] [1; 1; 1] = Some [(0, 2); (1, 3)]%nat.
Proof. repeat split; reflexivity. Qed.
