(* Property C14 - TextFileStorage: what is stored under an id is what any process reads back.
   Statements only; proofs in Proofs/StorageP.v.  Model/Storage.v: any number of processes, each running a program of
   write / read / len / is_contiguous / iterate operations, share the index, the counters, the lock and the per-writer
   files; an event is "process p makes its next access to shared state", a schedule is an arbitrary list of process
   numbers (a step that is not enabled - a lock that is held - is a stutter).  Texts are single-line (no \n, no \r). *)
From Coq Require Import ZArith List Bool Arith.
From WPU Require Import Common.Val Model.Pool Model.Storage Proofs.StorageP Proofs.StorageLiveP.
Import ListNotations.
Open Scope nat_scope.

(* for every set of programs and every interleaving: every completed operation of every process satisfies its contract -
   a read of g raised IndexError or returned EXACTLY the text stored under g (never empty, partial or another id's text);
   a write either stored its text under g or raised ValueError because g was taken *)
Theorem C14_outputs : forall presize progs sched, progs_ok progs ->
  let s := srun (sinit presize progs) sched in
  forall p pr o r, nth_error (ss_procs s) p = Some pr -> In (o, r) (p_out pr) -> out_spec (ss_texts s) o r.
Proof. intros presize progs sched Ok s. apply (b_out _ (sa_b _ (sall_run presize progs sched Ok))). Qed.
Print Assumptions C14_outputs.

Theorem C14_out_spec_def : forall texts o r, out_spec texts o r <->
  match o with
  | SRead g => r = RIndexError \/ exists t, r = RText t /\ In (g, t) texts
  | SWrite g t => (r = RUnit /\ In (g, t) texts) \/ (r = RValueError /\ In g (map fst texts))
  | _ => True end.
Proof. intros; reflexivity. Qed.
Print Assumptions C14_out_spec_def.

(* one text per identifier, for ever *)
Theorem C14_one_text_per_id : forall presize progs sched g t t', progs_ok progs ->
  let s := srun (sinit presize progs) sched in In (g, t) (ss_texts s) -> In (g, t') (ss_texts s) -> t = t'.
Proof. intros presize progs sched g t t' Ok s. apply texts_unique. apply sall_run. exact Ok. Qed.
Print Assumptions C14_one_text_per_id.

(* a reader that has looked an entry up (under the lock) and has not read the file yet: the complete line is there, and no
   later write can change what it will read *)
Theorem C14_reader_sees_complete_line : forall presize progs sched p pr g w off, progs_ok progs ->
  let s := srun (sinit presize progs) sched in
  nth_error (ss_procs s) p = Some pr -> p_pc pr = PR2 g w off ->
  exists t, In (g, t) (ss_texts s) /\ written (nth w (ss_files s) []) off t /\ line_at (nth w (ss_files s) []) off = t.
Proof.
  intros presize progs sched p pr g w off Ok s N Pc. pose proof (sall_run presize progs sched Ok) as SA. fold s in SA.
  destruct (b_rd _ (sa_b _ SA) p pr g w off N Pc) as (t & Hin & Hw). exists t. repeat split; auto.
  apply line_at_written; auto. pose proof (b_tok _ (sa_b _ SA)) as Bt. rewrite Forall_forall in Bt. apply (Bt (g, t) Hin).
Qed.
Print Assumptions C14_reader_sees_complete_line.

Theorem C14_duplicate_write : forall s p pr g t o rest s', nth_error (ss_procs s) p = Some pr -> p_pc pr = PW1 g t -> p_todo pr = o :: rest ->
  stored (ss_index s) g -> sstep s p = Some s' ->
  (forall i, idx_get (ss_index s') i = idx_get (ss_index s) i) /\ ss_files s' = ss_files s /\ ss_cnt s' = ss_cnt s /\ ss_wf s' = ss_wf s
  /\ ss_texts s' = ss_texts s /\ ss_lock s' = None
  /\ exists pr', nth_error (ss_procs s') p = Some pr' /\ p_out pr' = p_out pr ++ [(o, RValueError)] /\ p_pc pr' = PIdle /\ p_todo pr' = rest.
Proof. exact duplicate_write. Qed.
Print Assumptions C14_duplicate_write.

(* whenever no operation is inside its critical section: len() is the number of stored ids, waiting_for is the smallest id
   not stored, every stored text is completely in its file at the recorded offset *)
Theorem C14_quiescent : forall presize progs sched, progs_ok progs ->
  let s := srun (sinit presize progs) sched in ss_lock s = None ->
  ss_cnt s = length (ss_texts s)
  /\ (forall i, i < ss_wf s -> stored (ss_index s) i) /\ ~ stored (ss_index s) (ss_wf s)
  /\ (forall g, stored (ss_index s) g <-> In g (map fst (ss_texts s)))
  /\ (forall g t, In (g, t) (ss_texts s) -> exists w off, idx_get (ss_index s) g = Some (w, off) /\ line_at (nth w (ss_files s) []) off = t).
Proof.
  intros presize progs sched Ok s Lk. pose proof (sall_run presize progs sched Ok) as SA. fold s in SA.
  destruct (quiescent s SA Lk) as (H1 & H2 & H3 & H4). repeat split; auto; apply (b_idx _ (sa_b _ SA)).
Qed.
Print Assumptions C14_quiescent.

Theorem C14_is_contiguous : forall presize progs sched, progs_ok progs ->
  let s := srun (sinit presize progs) sched in ss_lock s = None ->
  ((ss_wf s =? ss_cnt s) = true <-> forall g, stored (ss_index s) g <-> g < ss_cnt s).
Proof. intros presize progs sched Ok s Lk. apply contiguous_spec; auto. apply sall_run. exact Ok. Qed.
Print Assumptions C14_is_contiguous.

Theorem C14_iteration : forall presize progs sched, progs_ok progs ->
  let s := srun (sinit presize progs) sched in ss_lock s = None ->
  iter_texts (ss_index s) (ss_files s) =
  flat_map (fun g => match text_of (ss_texts s) g with Some t => [t] | None => [] end) (seq 0 (length (ss_index s))).
Proof. intros presize progs sched Ok s Lk. apply iter_spec; auto. apply sall_run. exact Ok. Qed.
Print Assumptions C14_iteration.

Theorem C14_len_any_time : forall presize progs sched, progs_ok progs ->
  let s := srun (sinit presize progs) sched in ss_cnt s <= length (ss_texts s) <= S (ss_cnt s).
Proof. intros presize progs sched Ok s. apply len_bounds. apply sall_run. exact Ok. Qed.
Print Assumptions C14_len_any_time.

Theorem C14_flush : forall s, let s' := sflush s in
  ss_index s' = [] /\ Forall (fun f => f = []) (ss_files s') /\ length (ss_files s') = length (ss_files s)
  /\ ss_cnt s' = 0 /\ ss_wf s' = 0 /\ ss_texts s' = [] /\ (forall g, ~ stored (ss_index s') g).
Proof. exact flush_resets. Qed.
Print Assumptions C14_flush.

(* a flush between operations starts a new epoch in which every invariant holds again (the writer numbers of the processes
   stay valid), so all of the above holds for whatever is stored and read afterwards *)
Theorem C14_flush_epoch : forall s, SAll s -> (forall p pr, nth_error (ss_procs s) p = Some pr -> p_pc pr = PIdle) -> SAll (sflush s).
Proof. exact flush_epoch. Qed.
Print Assumptions C14_flush_epoch.

(* every operation completes: while some process still has an operation to run some process can make a step (the lock is
   always released by its holder), every step decreases a measure, hence under every scheduler that picks a process that
   can move whenever there is one all programs run to completion *)
Theorem C14_no_deadlock : forall presize progs sched, progs_ok progs ->
  let s := srun (sinit presize progs) sched in
  (exists p pr, nth_error (ss_procs s) p = Some pr /\ p_todo pr <> []) -> exists q, sstep s q <> None.
Proof. intros presize progs sched Ok s. apply storage_no_deadlock. apply sall_run. exact Ok. Qed.
Print Assumptions C14_no_deadlock.

Theorem C14_measure : forall presize progs sched p s', progs_ok progs ->
  let s := srun (sinit presize progs) sched in sstep s p = Some s' -> smu s' < smu s.
Proof. intros presize progs sched p s' Ok s. apply smu_step. apply sall_run. exact Ok. Qed.
Print Assumptions C14_measure.

Theorem C14_terminates : forall presize progs pick, progs_ok progs ->
  (forall s, (exists q, sstep s q <> None) -> sstep s (pick s) <> None) ->
  let s := sdrive pick (smu (sinit presize progs)) (sinit presize progs) in
  SAll s /\ forall p pr, nth_error (ss_procs s) p = Some pr -> p_todo pr = [].
Proof. exact storage_terminates. Qed.
Print Assumptions C14_terminates.

(* non-vacuity: two writers (gap, reversed order, duplicate), a concurrent reader, pre-sized index; a concrete interleaving *)
Example C14_concrete :
  let progs := [[SWrite 2 [97; 98]%Z; SWrite 0 [99]%Z]; [SWrite 0 [100]%Z; SWrite 3 []]; [SRead 2; SRead 1; SContig; SIter]] in
  let sched := [0; 0; 0; 2; 0; 0; 1; 0; 0; 0; 2; 2; 1; 0; 0; 0; 0; 0; 0; 0; 1; 1; 1; 1; 1; 1; 1; 1; 1; 2; 2; 2; 2; 2; 2; 2; 2; 2; 2; 0; 1; 2; 2] in
  let s := srun (sinit 2 progs) sched in
  progs_ok progs /\ ss_lock s = None
  /\ map (fun pr => map snd (p_out pr)) (ss_procs s)
     = [[RUnit; RUnit]; [RValueError; RUnit]; [RText [97; 98]%Z; RIndexError; RBool false; RTexts [[99]; [97; 98]; []]%Z]].
Proof.
  cbv zeta. split.
  - repeat constructor; simpl; intuition discriminate.
  - vm_compute. split; reflexivity.
Qed.
