From Coq Require Import List.
