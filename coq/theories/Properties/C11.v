(* Property C11 - line files: indexing, slicing and iteration return exactly the file's lines.
   Statements only; proofs in Proofs/LineFileP.v.  A file is its list of bytes; NL = 10. *)
From Coq Require Import ZArith List Bool.
From WPU Require Import Common.Val Model.LineFile Proofs.LineFileP.
Import ListNotations.
Open Scope Z_scope.

(* what the lines of a file are: '\n'-free pieces which, joined by '\n', give the file back - with one '\n' added
   exactly when the last line is unterminated (it counts); a final '\n' adds no line; and conversely *)
Theorem C11_lines_characterised : forall c,
  Forall no_nl (lines_of c) /\ join (lines_of c) = (if tail_open c then c ++ [NL] else c).
Proof. exact lines_join. Qed.
Print Assumptions C11_lines_characterised.

Theorem C11_lines_of_join : forall ls, Forall no_nl ls -> lines_of (join ls) = ls.
Proof. exact lines_of_join. Qed.
Print Assumptions C11_lines_of_join.

(* len(f) = number of lines; the i-th offset of the built index is the start of the i-th line *)
Theorem C11_index : forall c,
  length (index_file c) = length (lines_of c)
  /\ forall i, (i < length (index_file c))%nat ->
       read_line_at c (nth i (index_file c) 0) = nth i (lines_of c) [] /\ no_nl (nth i (lines_of c) []).
Proof. intros c. split; [apply index_len | intros i; apply index_read_spec]. Qed.
Print Assumptions C11_index.

(* f[i], positive and negative i, for ANY offset index (built, caller-supplied list or index file, a subset, a
   permutation): the line starting at the i-th offset of that index, IndexError outside -len..len-1 - independent of
   where earlier accesses left the read position *)
Theorem C11_getitem : forall f i,
  match py_index (length (rf_index f)) i with
  | Some j => snd (rf_get f i) = Some (read_line_at (rf_content f) (nth j (rf_index f) 0))
  | None => snd (rf_get f i) = None
  end.
Proof. exact rf_get_spec. Qed.
Print Assumptions C11_getitem.

Theorem C11_py_index : forall n i,
  py_index n i = if (0 <=? i) && (i <? Z.of_nat n) then Some (Z.to_nat i)
                 else if (- Z.of_nat n <=? i) && (i <? 0) then Some (Z.to_nat (Z.of_nat n + i)) else None.
Proof. exact py_index_spec. Qed.
Print Assumptions C11_py_index.

(* slices, index iterables and list(f) select element-wise like single accesses *)
Theorem C11_select : forall is f, snd (rf_get_all f is) = sel_lines (rf_content f) (rf_index f) is.
Proof. exact rf_get_all_spec. Qed.
Print Assumptions C11_select.

(* iteration yields f[0], f[1], ... also when random accesses or other iterations are interleaved with it *)
Theorem C11_iter_next : forall f it n stop,
  rf_closed f = false -> nth it (rf_iters f) ItDone = ItRun n stop -> (n < stop)%nat -> (it < length (rf_iters f))%nat ->
  snd (rf_step f (RIterNext it)) = ROk (read_line_at (rf_content f) (nth n (rf_index f) 0))
  /\ nth it (rf_iters (fst (rf_step f (RIterNext it)))) ItDone = ItRun (S n) stop
  /\ (forall it', it' <> it -> nth it' (rf_iters (fst (rf_step f (RIterNext it)))) ItDone = nth it' (rf_iters f) ItDone)
  /\ rf_content (fst (rf_step f (RIterNext it))) = rf_content f /\ rf_index (fst (rf_step f (RIterNext it))) = rf_index f.
Proof. exact iter_next_spec. Qed.
Print Assumptions C11_iter_next.

Theorem C11_iter_first : forall f it,
  rf_closed f = false -> nth it (rf_iters f) ItDone = ItNew -> (it < length (rf_iters f))%nat ->
  match rf_index f with
  | [] => snd (rf_step f (RIterNext it)) = RStop
  | off :: _ => snd (rf_step f (RIterNext it)) = ROk (read_line_at (rf_content f) off)
                /\ nth it (rf_iters (fst (rf_step f (RIterNext it)))) ItDone = ItRun 1 (length (rf_index f))
  end.
Proof. exact iter_first_spec. Qed.
Print Assumptions C11_iter_first.

Theorem C11_other_ops_leave_iterators : forall f op, (forall it, op <> RIterNext it) -> op <> RIterNew ->
  forall it, nth it (rf_iters (fst (rf_step f op))) ItDone = nth it (rf_iters f) ItDone.
Proof. exact other_ops_frame. Qed.
Print Assumptions C11_other_ops_leave_iterators.

Example C11_nonvacuous :
  lines_of [97; 13; 98; 10; 10; 99] = [[97; 13; 98]; []; [99]] /\ index_file [97; 13; 98; 10; 10; 99] = [0; 4; 5]
  /\ lines_of [] = [] /\ lines_of [10] = [[]]
  /\ slice_indices 5 false 0 false 0 (-2) = [4; 2; 0].
Proof. vm_compute. repeat split; reflexivity. Qed.
