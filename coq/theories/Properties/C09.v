(* Property C09 - SortedSet / SortedMap stay sorted, duplicate-free and equivalent to set / dict.
   Statements only; proofs in Proofs/SortedP.v.  [ssorted] = strictly ascending (hence duplicate-free);
   [mget m k] = the value the two parallel lists of a SortedMap associate with k. *)
From Coq Require Import ZArith List Bool Sorted.
From WPU Require Import Common.Val Common.Dict Model.Sorted Proofs.SortedP.
Import ListNotations.
Open Scope Z_scope.

(* SortedSet: construction from any initial values *)
Theorem C09_set_init : forall vs, ssorted (set_init vs) /\ (forall y, In y (set_init vs) <-> In y vs).
Proof. exact set_init_spec. Qed.
Print Assumptions C09_set_init.

(* SortedSet: every operation keeps strict order and acts on the membership like the builtin set; foreign probes
   report absent and change nothing *)
Theorem C09_set_step : forall l op, ssorted l ->
  let l' := fst (set_step l op) in
  ssorted l' /\ (forall y, In y l' <-> ref_set_step (fun z => In z l) op y)
  /\ match op with
     | SContains (Num x) => snd (set_step l op) = SBool true <-> In x l
     | SRemove (Num x) => snd (set_step l op) = SKeyErr <-> ~ In x l
     | SPop => match l with [] => snd (set_step l op) = SKeyErr
                        | m :: _ => snd (set_step l op) = SVal m /\ forall z, In z l -> m <= z end
     | SContains Foreign => snd (set_step l op) = SBool false /\ l' = l
     | SRemove Foreign => snd (set_step l op) = SKeyErr /\ l' = l
     | SDiscard Foreign => l' = l
     | _ => True
     end.
Proof. exact set_step_refines. Qed.
Print Assumptions C09_set_step.

(* iteration = THE strictly ascending enumeration of the content: two such lists with equal membership are equal *)
Theorem C09_sorted_unique : forall l1 l2, ssorted l1 -> ssorted l2 -> (forall x, In x l1 <-> In x l2) -> l1 = l2.
Proof. exact ssorted_unique. Qed.
Print Assumptions C09_sorted_unique.

(* SortedMap: construction = dict(pairs) (later pairs win), keys strictly ascending *)
Theorem C09_map_init : forall pairs,
  let d := fold_left (fun (d : dict Z) kv => dset d (fst kv) (snd kv)) pairs [] in
  MInv (map_init pairs) /\ (forall k, mget (map_init pairs) k = dget d k)
  /\ (forall k, In k (sm_keys (map_init pairs)) <-> In k (dkeys d)).
Proof. exact map_init_spec. Qed.
Print Assumptions C09_map_init.

Theorem C09_map_get : forall m k, MInv m -> map_get m k = mget m k.
Proof. exact map_get_spec. Qed.
Print Assumptions C09_map_get.

Theorem C09_map_set : forall m k v, MInv m ->
  MInv (map_set m k v) /\ mget (map_set m k v) k = Some v
  /\ (forall k', k' <> k -> mget (map_set m k v) k' = mget m k')
  /\ (forall y, In y (sm_keys (map_set m k v)) <-> y = k \/ In y (sm_keys m)).
Proof. exact map_set_spec. Qed.
Print Assumptions C09_map_set.

Theorem C09_map_del : forall m k, MInv m ->
  MInv (fst (map_del m k)) /\ (snd (map_del m k) = true <-> In k (sm_keys m))
  /\ mget (fst (map_del m k)) k = None /\ (forall k', k' <> k -> mget (fst (map_del m k)) k' = mget m k').
Proof. exact map_del_spec. Qed.
Print Assumptions C09_map_del.

(* the public mapping interface incl. pop / get / setdefault / in and the foreign-key probes *)
Theorem C09_map_step : forall m op, MInv m ->
  MInv (fst (map_step m op))
  /\ match op with
     | MGet (Num k) => snd (map_step m op) = vOptKey (mget m k) /\ fst (map_step m op) = m
     | MContains (Num k) => snd (map_step m op) = vB (match mget m k with Some _ => true | None => false end)
     | MGetD (Num k) d => snd (map_step m op) = I (opt_or (mget m k) d)
     | MSet (Num k) v => mget (fst (map_step m op)) k = Some v
                         /\ forall k', k' <> k -> mget (fst (map_step m op)) k' = mget m k'
     | MDel (Num k) => (snd (map_step m op) = vErr E_Key <-> mget m k = None)
                       /\ mget (fst (map_step m op)) k = None
                       /\ forall k', k' <> k -> mget (fst (map_step m op)) k' = mget m k'
     | MPop (Num k) => snd (map_step m op) = vOptKey (mget m k) /\ mget (fst (map_step m op)) k = None
                       /\ forall k', k' <> k -> mget (fst (map_step m op)) k' = mget m k'
     | MSetdefault k d => snd (map_step m op) = I (opt_or (mget m k) d)
                          /\ mget (fst (map_step m op)) k = Some (opt_or (mget m k) d)
     | MGet Foreign | MDel Foreign | MPop Foreign => snd (map_step m op) = vErr E_Key /\ fst (map_step m op) = m
     | MContains Foreign => snd (map_step m op) = vB false /\ fst (map_step m op) = m
     | MSet Foreign _ => snd (map_step m op) = vErr E_Type /\ fst (map_step m op) = m
     | MGetD Foreign d | MPopD Foreign d => snd (map_step m op) = I d /\ fst (map_step m op) = m
     | _ => True
     end.
Proof. exact map_step_spec. Qed.
Print Assumptions C09_map_step.

Example C09_nonvacuous :
  set_init [3; 1; 3; 2; 1] = [1; 2; 3] /\ set_init [] = []
  /\ sm_keys (map_init [(2, 20); (1, 10); (2, 21)]) = [1; 2] /\ sm_vals (map_init [(2, 20); (1, 10); (2, 21)]) = [10; 21]
  /\ map_init [] = mkSM [] [].
Proof. vm_compute. repeat split; reflexivity. Qed.
