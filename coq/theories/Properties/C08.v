(* Property C08 - DoublyLinkedList behaves as a sequence and keeps its links and length consistent.
   Statements only; proofs in Proofs/DLLP.v.  h is the heap (the three node fields as maps, head, tail, size);
   l is the reference sequence of node addresses. *)
From Coq Require Import ZArith Arith List Bool.
From WPU Require Import Common.Val Common.Succ Model.DLL Proofs.DLLP.
Import ListNotations.

(* every single operation on member nodes: the heap stays well-formed against the reference operation's result
   (head, tail, size, every next and every prev link), returns what the reference returns, and changes no payload *)
Theorem C08_step_refines : forall h l op, wf h l -> op_ok l op ->
  wf (fst (h_step h op)) (ref_step l (fresh h) op)
  /\ snd (h_step h op) = ref_res h l op
  /\ fresh (fst (h_step h op)) = ref_fresh (fresh h) op
  /\ (forall m, m < fresh h -> dat (fst (h_step h op)) m = dat h m).
Proof. exact step_refines. Qed.
Print Assumptions C08_step_refines.

(* what well-formedness means for an observer: forward walk = the sequence, backward walk = its reverse,
   len() = number of elements, head/tail = its ends *)
Theorem C08_wf_observable : forall h l, wf h l ->
  forward h = l /\ backward h = rev l /\ size h = Z.of_nat (length l)
  /\ head h = hd_error l /\ tail h = last_error l.
Proof. exact wf_observable. Qed.
Print Assumptions C08_wf_observable.

(* every history *)
Theorem C08_history : forall ops, ops_ok [] 0 ops ->
  let h := fst (h_exec h_init ops) in let l := ref_exec [] 0 ops in
  forward h = l /\ backward h = rev l /\ size h = Z.of_nat (length l) /\ head h = hd_error l /\ tail h = last_error l.
Proof. exact dll_history. Qed.
Print Assumptions C08_history.

(* the outcome depends on node identity only: other payloads, same movements *)
Theorem C08_identity_only : forall ops1 ops2 l f,
  Forall2 same_shape ops1 ops2 -> ref_exec l f ops1 = ref_exec l f ops2.
Proof. exact identity_only. Qed.
Print Assumptions C08_identity_only.

Example C08_nonvacuous :
  let ops := [DExtend [7; 7; 7; 7]%Z; DMoveAfter 0 2; DMoveToFront 3; DRotate true; DRemove 1; DMoveToBack 3] in
  ops_ok [] 0 ops /\ ref_exec [] 0 ops = [2; 0; 3] /\ forward (fst (h_exec h_init ops)) = [2; 0; 3]
  /\ size (fst (h_exec h_init ops)) = 3%Z.
Proof. vm_compute. repeat split; auto. Qed.

(* value view.  Unconditionally (whatever the links): an operation stores exactly the payloads of the nodes it creates,
   at the next unused addresses in creation order, and changes no other payload *)
Theorem C08_step_payloads : forall h op,
  fresh (fst (h_step h op)) = fresh h + length (new_vals op)
  /\ (forall m, m < fresh h -> dat (fst (h_step h op)) m = dat h m)
  /\ (forall i, i < length (new_vals op) -> dat (fst (h_step h op)) (fresh h + i) = nth i (new_vals op) 0%Z).
Proof. exact step_payloads. Qed.
Print Assumptions C08_step_payloads.

(* every history: iterating the list (`__iter__`) yields the payloads given at creation time, arranged exactly as the
   reference sequence of node identities says; the number of nodes ever created is the number of payloads given *)
Theorem C08_values : forall ops, ops_ok [] 0 ops ->
  let h := fst (h_exec h_init ops) in
  map (dat h) (forward h) = map (fun a => nth a (payloads ops) 0%Z) (ref_exec [] 0 ops)
  /\ fresh h = length (payloads ops).
Proof. exact dll_values. Qed.
Print Assumptions C08_values.

Example C08_values_nonvacuous :
  let ops := [DExtend [5; 6; 7; 8]%Z; DMoveAfter 0 2; DPrepend 9%Z; DRotate true; DRemove 1; DMoveToBack 3] in
  ops_ok [] 0 ops /\ payloads ops = [5; 6; 7; 8; 9]%Z
  /\ map (dat (fst (h_exec h_init ops))) (forward (fst (h_exec h_init ops))) = [7; 5; 9; 8]%Z.
Proof. vm_compute. repeat split; auto. Qed.
