(* Property C08 - DoublyLinkedList behaves as a sequence and keeps its links and length consistent.
   Statements only; proofs in Proofs/DLLP.v.  h is the heap (the three node fields as maps, head, tail, size);
   l is the reference sequence of node addresses. *)
From Coq Require Import ZArith Arith List Bool.
From WPU Require Import Common.Val Common.Succ Model.DLL Proofs.DLLP.
Import ListNotations.

(* every single operation on member nodes: the heap stays well-formed against the reference operation's result
   (head, tail, size, every next and every prev link), returns what the reference returns, and changes no payload *)
Theorem C08_step_refines : forall h l op, wf h l -> op_ok l op ->
  wf (fst (h_step h op)) (ref_step l (fresh h) op)
  /\ snd (h_step h op) = ref_res h l op
  /\ fresh (fst (h_step h op)) = ref_fresh (fresh h) op
  /\ (forall m, m < fresh h -> dat (fst (h_step h op)) m = dat h m).
Proof. exact step_refines. Qed.
Print Assumptions C08_step_refines.

(* what well-formedness means for an observer: forward walk = the sequence, backward walk = its reverse,
   len() = number of elements, head/tail = its ends *)
Theorem C08_wf_observable : forall h l, wf h l ->
  forward h = l /\ backward h = rev l /\ size h = Z.of_nat (length l)
  /\ head h = hd_error l /\ tail h = last_error l.
Proof. exact wf_observable. Qed.
Print Assumptions C08_wf_observable.

(* every history *)
Theorem C08_history : forall ops, ops_ok [] 0 ops ->
  let h := fst (h_exec h_init ops) in let l := ref_exec [] 0 ops in
  forward h = l /\ backward h = rev l /\ size h = Z.of_nat (length l) /\ head h = hd_error l /\ tail h = last_error l.
Proof. exact dll_history. Qed.
Print Assumptions C08_history.

(* the outcome depends on node identity only: other payloads, same movements *)
Theorem C08_identity_only : forall ops1 ops2 l f,
  Forall2 same_shape ops1 ops2 -> ref_exec l f ops1 = ref_exec l f ops2.
Proof. exact identity_only. Qed.
Print Assumptions C08_identity_only.

Example C08_nonvacuous :
  let ops := [DExtend [7; 7; 7; 7]%Z; DMoveAfter 0 2; DMoveToFront 3; DRotate true; DRemove 1; DMoveToBack 3] in
  ops_ok [] 0 ops /\ ref_exec [] 0 ops = [2; 0; 3] /\ forward (fst (h_exec h_init ops)) = [2; 0; 3]
  /\ size (fst (h_exec h_init ops)) = 3%Z.
Proof. vm_compute. repeat split; auto. Qed.
