(* Property C07 - LFUCache evicts a least frequently used key and keeps the latest stored value.
   Statements only; proofs in Proofs/CachesP.v.  A state is (max_size, entries least-used-first), an entry is
   (key, value, use count). *)
From Coq Require Import ZArith List Bool Sorted Lia.
From WPU Require Import Common.Val Common.Dict Model.Caches Proofs.CachesP.
Import ListNotations.
Open Scope Z_scope.

Notation fprun := (prun lfu lfu_get lfu_set lfu_del).
Notation fstep := (c_step lfu lfu_get lfu_set lfu_del lfu_keys lfu_len lfu_peek).

Theorem C07_ops_are_primitive_sequences : forall cc vt a b op,
  reach lfu lfu_get lfu_set lfu_del a (fst (fst (fstep cc vt a b op)))
  /\ reach lfu lfu_get lfu_set lfu_del b (snd (fst (fstep cc vt a b op))).
Proof. exact (c_step_reach lfu lfu_get lfu_set lfu_del lfu_keys lfu_len lfu_peek). Qed.
Print Assumptions C07_ops_are_primitive_sequences.

(* every reachable state: at most max_size entries, one entry per key, iteration in non-decreasing use count,
   every count >= 1 *)
Theorem C07_invariant : forall ps cap, 1 <= cap -> FInv (fprun ps (mkLFU cap [])).
Proof. exact (fun ps cap H => lfu_inv_reachable ps (mkLFU cap []) (finv_init cap H)). Qed.
Print Assumptions C07_invariant.

(* a successful lookup returns the stored value, adds exactly one to that key's count, changes nothing else *)
Theorem C07_lookup : forall st k, FInv st ->
  snd (lfu_get st k) = lfu_peek st k
  /\ (forall k', f_find (f_ord (fst (lfu_get st k))) k' =
        match f_find (f_ord st) k with
        | Some it => if k' =? k then Some (bumped it None) else f_find (f_ord st) k'
        | None => f_find (f_ord st) k'
        end).
Proof. exact lfu_get_spec. Qed.
Print Assumptions C07_lookup.

(* a store: present key -> new value, count + 1; new key -> count 1; a full cache drops the first entry of the order,
   whose count is the smallest among the entries present; every other entry is untouched *)
Theorem C07_store : forall st k v, FInv st ->
  let st' := lfu_set st k v in
  match f_find (f_ord st) k with
  | Some it => forall k', f_find (f_ord st') k' = if k' =? k then Some (bumped it (Some v)) else f_find (f_ord st) k'
  | None =>
      f_find (f_ord st') k = Some (mkI k v 1)
      /\ if Z.of_nat (length (f_ord st)) >=? f_cap st
         then exists victim rest, f_ord st = victim :: rest
                /\ (forall it, In it (f_ord st) -> i_cnt victim <= i_cnt it)
                /\ f_ord st' = mkI k v 1 :: rest
                /\ (forall k', k' <> k -> k' <> i_key victim -> f_find (f_ord st') k' = f_find (f_ord st) k')
         else forall k', k' <> k -> f_find (f_ord st') k' = f_find (f_ord st) k'
  end.
Proof. exact lfu_set_spec. Qed.
Print Assumptions C07_store.

Theorem C07_store_then_lookup : forall st k v, FInv st -> snd (lfu_get (lfu_set st k v) k) = Some v.
Proof. exact lfu_store_then_lookup. Qed.
Print Assumptions C07_store_then_lookup.

Theorem C07_delete : forall st k, FInv st ->
  snd (lfu_del st k) = (match lfu_peek st k with Some _ => true | None => false end)
  /\ lfu_peek (fst (lfu_del st k)) k = None /\ (forall k', k' <> k -> lfu_peek (fst (lfu_del st k)) k' = lfu_peek st k').
Proof. exact lfu_del_spec'. Qed.
Print Assumptions C07_delete.

Theorem C07_items : forall vt st, FInv st ->
  let r := items_of lfu lfu_get lfu_keys lfu_peek vt st in
  snd r = content_list lfu lfu_peek st (lfu_keys st) /\ FInv (fst r) /\ same_content lfu lfu_peek (fst r) st.
Proof. exact (fun vt => items_spec lfu lfu_get lfu_keys lfu_peek vt FInv finv_get lfu_get_spec'). Qed.
Print Assumptions C07_items.

Theorem C07_eq : forall cc vt a b, FInv a -> FInv b ->
  snd (fstep cc vt a b OEqOther) = vB true <-> same_content lfu lfu_peek a b.
Proof.
  exact (fun cc vt => eq_spec lfu lfu_get lfu_set lfu_del lfu_keys lfu_len lfu_peek cc vt FInv finv_get
           (fun st H => fi_nodup st H) (fun st k _ => lfu_peek_keys st k) lfu_get_spec').
Qed.
Print Assumptions C07_eq.

Theorem C07_pop : forall st k, FInv st ->
  let r := mx_pop lfu lfu_get lfu_del st k in
  snd r = lfu_peek st k /\ FInv (fst r) /\ lfu_peek (fst r) k = None
  /\ (forall k', k' <> k -> lfu_peek (fst r) k' = lfu_peek st k').
Proof. exact (pop_spec lfu lfu_get lfu_del lfu_peek FInv finv_get finv_del lfu_get_spec' lfu_del_spec'). Qed.
Print Assumptions C07_pop.

Theorem C07_popitem : forall st, FInv st ->
  let r := mx_popitem lfu lfu_get lfu_del lfu_keys st in
  match lfu_keys st with
  | [] => snd r = None
  | k :: _ => exists v, lfu_peek st k = Some v /\ snd r = Some (k, v) /\ lfu_peek (fst r) k = None
                        /\ (forall k', k' <> k -> lfu_peek (fst r) k' = lfu_peek st k')
  end /\ FInv (fst r).
Proof.
  exact (popitem_spec lfu lfu_get lfu_del lfu_keys lfu_peek FInv finv_get finv_del
           (fun st k _ => lfu_peek_keys st k) lfu_get_spec' lfu_del_spec').
Qed.
Print Assumptions C07_popitem.

Theorem C07_setdefault : forall st k d, FInv st ->
  let r := mx_setdefault lfu lfu_get lfu_set st k d in
  snd r = (match lfu_peek st k with Some v => v | None => d end) /\ FInv (fst r) /\ lfu_peek (fst r) k = Some (snd r).
Proof. exact (setdefault_spec lfu lfu_get lfu_set lfu_peek FInv finv_get finv_set lfu_get_spec' lfu_set_spec'). Qed.
Print Assumptions C07_setdefault.

Theorem C07_ops_keep_invariant : forall cc vt a b op, FInv a -> FInv b ->
  FInv (fst (fst (fstep cc vt a b op))) /\ FInv (snd (fst (fstep cc vt a b op))).
Proof.
  exact (fun cc vt => c_step_inv lfu lfu_get lfu_set lfu_del lfu_keys lfu_len lfu_peek cc vt FInv finv_get finv_set finv_del).
Qed.
Print Assumptions C07_ops_keep_invariant.

Example C07_nonvacuous :
  let st := fprun [PSet 1 10; PSet 2 20; PGet 1; PSet 1 11; PSet 3 30] (mkLFU 2 []) in
  f_ord st = [mkI 3 30 1; mkI 1 11 3] /\ FInv st.
Proof. split; [reflexivity | apply lfu_inv_reachable; apply finv_init; lia]. Qed.
