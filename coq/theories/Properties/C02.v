(* Property C02 - imap and imap_unordered always terminate on finite input (no deadlock).
   Statements only; proofs in Proofs/PoolLiveP.v.

   Model/Pool.v is a labelled transition system whose events are the operations of the consumer, the feeding thread,
   the replace thread and the worker processes that another thread or process can observe; an input iterable that
   produces its items or its exhaustion late is the feeder simply not being scheduled (EFPut / EFClear arbitrarily
   late), a paused feeder is FWait with run_event cleared.  Termination is stated for every scheduler, i.e. every
   function from states to events that picks an enabled event whenever one exists: deadlock freedom (some event is
   enabled in every reachable unfinished state) together with a natural-number measure that every step decreases. *)
From Coq Require Import ZArith List Bool Arith.
From WPU Require Import Common.Val Model.Pool Proofs.PoolP Proofs.PoolLifeP Proofs.PoolLiveP.
Import ListNotations.
Open Scope nat_scope.

(* configurations of the property: workers >= 1, queue bounds >= 1 when given, quota >= 1 and only with the factory pool *)
Theorem C02_cfg_ok_def : forall cfg, cfg_ok cfg <->
  1 <= c_workers cfg
  /\ (forall c, c_wq_cap cfg = Some c -> 1 <= c) /\ (forall c, c_rq_cap cfg = Some c -> 1 <= c)
  /\ (forall k, c_quota cfg = Some k -> 1 <= k /\ c_factory cfg = true).
Proof. intros; reflexivity. Qed.
Print Assumptions C02_cfg_ok_def.

(* in every reachable state in which the run is not over some thread or process can move: the consumer is never left
   blocked on a result that will not come, a paused feeder is always resumed, a full queue is always drained, retired
   workers are always replaced, every stop order is taken (C02_no_deadlock below) *)

(* every step of every thread decreases the measure mu: there is no infinite run *)
Theorem C02_measure : forall cfg hist sched e s', cfg_ok cfg -> Forall action_ok hist -> fault_free_sched sched ->
  let s := run cfg (init cfg hist) sched in
  step cfg s e = Some s' -> mu s' < mu s.
Proof.
  intros cfg hist sched e s' Ok Hh Hs s H. apply (mu_step cfg s e s'); auto.
  apply (live_chunk cfg hist). apply live_run; auto.
Qed.
Print Assumptions C02_measure.

Theorem C02_steps_bounded : forall cfg hist sched, cfg_ok cfg -> Forall action_ok hist -> fault_free_sched sched ->
  effective cfg (init cfg hist) sched + mu (run cfg (init cfg hist) sched) <= mu (init cfg hist).
Proof. exact steps_bounded. Qed.
Print Assumptions C02_steps_bounded.

(* hence: under every scheduler every call of the history terminates, with exactly its results *)
Theorem C02_calls_terminate : forall cfg hist pick, cfg_ok cfg -> Forall action_ok hist ->
  (forall s, fault_free (pick s)) ->
  (forall s, (exists e, enabled cfg s e) -> step cfg s (pick s) <> None) ->
  let s := drive cfg pick (mu (init cfg hist)) (init cfg hist) in
  exit_class (s_main s) = true /\ Forall2 result_ok (calls_of hist) (s_done_calls s).
Proof. exact calls_terminate. Qed.
Print Assumptions C02_calls_terminate.

(* ... and the pool context can be left.  No condition on the capacity of the work queue: a worker that reaches its quota
   announces its retirement before it delivers its last result, so the notice is in the replace queue in front of the
   stop token that the consumer puts after that result; in every reachable state nothing follows the stop token, and
   once the replace thread has taken it no notice is left - every slot holds a worker that takes its stop order. *)
Theorem C02_notices_before_token : forall cfg hist sched, cfg_ok cfg -> Forall action_ok hist -> fault_free_sched sched ->
  let s := run cfg (init cfg hist) sched in
  after_none (s_replq s) = [] /\ (rep_live (s_rep s) = false -> somes (s_replq s) = []).
Proof.
  intros cfg hist sched Ok Hh Hs s. destruct (lv_x cfg hist s (live_run cfg hist sched Ok Hh Hs)) as [Xa Xq]. split; assumption.
Qed.
Print Assumptions C02_notices_before_token.

Theorem C02_no_deadlock : forall cfg hist sched, cfg_ok cfg -> Forall action_ok hist -> fault_free_sched sched ->
  let s := run cfg (init cfg hist) sched in
  s_main s <> MDone -> exists e, fault_free e /\ step cfg s e <> None.
Proof.
  intros cfg hist sched Ok Hh Hs s Hx. apply (deadlock_free cfg hist s Ok); auto. apply live_run; auto.
Qed.
Print Assumptions C02_no_deadlock.

Theorem C02_pool_terminates : forall cfg hist pick, cfg_ok cfg -> Forall action_ok hist ->
  (forall s, fault_free (pick s)) ->
  (forall s, (exists e, enabled cfg s e) -> step cfg s (pick s) <> None) ->
  s_main (drive cfg pick (mu (init cfg hist)) (init cfg hist)) = MDone.
Proof. exact pool_terminates. Qed.
Print Assumptions C02_pool_terminates.

(* the scheduler hypotheses are satisfiable (first enabled event of a fixed enumeration) *)
Theorem C02_scheduler_exists : forall cfg,
  (forall s, fault_free (pick_first cfg s)) /\ (forall s, (exists e, enabled cfg s e) -> step cfg s (pick_first cfg s) <> None).
Proof. intros cfg. split; [apply pick_first_fault_free | apply pick_first_enabled]. Qed.
Print Assumptions C02_scheduler_exists.

(* non-vacuity: configurations with every bound at its minimum, flow control and retiring workers, driven by the scheduler
   above; the second one is the configuration and history on which leaving the pool used to block (fixed finding) *)
Example C02_concrete :
  let cfg := mkCfg 2 (Some 1) (Some 1) true (Some 1) in
  let hist := [ACall true [1; 2; 3]%Z 1; ACall false [4; 5]%Z 2] in
  cfg_ok cfg /\ Forall action_ok hist
  /\ s_main (drive cfg (pick_first cfg) (mu (init cfg hist)) (init cfg hist)) = MDone.
Proof.
  split; [|split].
  - unfold cfg_ok; simpl. split; [auto|]. split; [intros c H; injection H as <-; auto|]. split; [intros c H; injection H as <-; auto|].
    intros k H; injection H as <-; auto.
  - repeat constructor.
  - vm_compute. reflexivity.
Qed.
Example C02_concrete_former_hang :
  let cfg := mkCfg 2 (Some 1) None true (Some 1) in
  let hist := [ACall true [1; 2]%Z 1] in
  let s := drive cfg (pick_first cfg) (mu (init cfg hist)) (init cfg hist) in
  s_main s = MDone /\ s_done_calls s = [[1; 2]%Z].
Proof. vm_compute. split; reflexivity. Qed.
