(* Property C06 - LRUCache is a bounded mapping that evicts exactly the least recently used key.
   Statements only; proofs in Proofs/CachesP.v.  A state is (max_size, entries most-recent-first); histories are
   sequences of the three primitives every public operation is made of (C06_ops_are_primitive_sequences). *)
From Coq Require Import ZArith List Bool Sorted Lia.
From WPU Require Import Common.Val Common.Dict Model.Caches Proofs.CachesP.
Import ListNotations.
Open Scope Z_scope.

Notation lprun := (prun lru lru_get lru_set lru_del).
Notation lstep := (c_step lru lru_get lru_set lru_del lru_keys lru_len lru_peek).

(* every public operation (views, get, pop, popitem, clear, update, setdefault, in, ==, update from another cache)
   moves each cache along a finite sequence of __getitem__/__setitem__/__delitem__ calls - in particular it terminates *)
Theorem C06_ops_are_primitive_sequences : forall cc vt a b op,
  reach lru lru_get lru_set lru_del a (fst (fst (lstep cc vt a b op)))
  /\ reach lru lru_get lru_set lru_del b (snd (fst (lstep cc vt a b op))).
Proof. exact (c_step_reach lru lru_get lru_set lru_del lru_keys lru_len lru_peek). Qed.
Print Assumptions C06_ops_are_primitive_sequences.

(* never more than max_size entries, never two values for one key - in every reachable state *)
Theorem C06_bounded : forall ps cap, 1 <= cap ->
  let st := lprun ps (mkLRU cap []) in
  NoDup (dkeys (l_ord st)) /\ Z.of_nat (length (l_ord st)) <= cap.
Proof. exact lru_bounded. Qed.
Print Assumptions C06_bounded.

(* a lookup returns the stored value and changes no value *)
Theorem C06_lookup : forall st k, NoDup (dkeys (l_ord st)) ->
  snd (lru_get st k) = dget (l_ord st) k
  /\ (forall k', dget (l_ord (fst (lru_get st k))) k' = dget (l_ord st) k')
  /\ dkeys (l_ord (fst (lru_get st k))) = if dmem (l_ord st) k then k :: dkeys (ddel (l_ord st) k) else dkeys (l_ord st).
Proof. exact lru_get_spec. Qed.
Print Assumptions C06_lookup.

(* a store: the key holds the value and becomes the most recent; a new key in a full cache removes exactly the last
   key of the order and nothing else; surviving keys keep their values *)
Theorem C06_store : forall st k v, NoDup (dkeys (l_ord st)) ->
  let st' := lru_set st k v in
  dget (l_ord st') k = Some v
  /\ dkeys (l_ord st') =
       k :: (if dmem (l_ord st) k then dkeys (ddel (l_ord st) k)
             else if Z.of_nat (length (l_ord st)) >=? l_cap st then removelast (dkeys (l_ord st))
             else dkeys (l_ord st))
  /\ (forall k', k' <> k -> In k' (dkeys (l_ord st')) -> dget (l_ord st') k' = dget (l_ord st) k').
Proof. exact lru_set_spec. Qed.
Print Assumptions C06_store.

Theorem C06_delete : forall st k, NoDup (dkeys (l_ord st)) ->
  snd (lru_del st k) = dmem (l_ord st) k
  /\ dkeys (l_ord (fst (lru_del st k))) = dkeys (ddel (l_ord st) k)
  /\ dget (l_ord (fst (lru_del st k))) k = None
  /\ (forall k', k' <> k -> dget (l_ord (fst (lru_del st k))) k' = dget (l_ord st) k').
Proof. exact lru_del_spec. Qed.
Print Assumptions C06_delete.

(* the order IS recency: with a ghost clock stamping every use (store or successful lookup), in every reachable state
   each key was last used strictly later than all keys after it; the last key - the one a full cache drops -
   is therefore the least recently used; iteration lists keys from most to least recently used *)
Theorem C06_order_is_recency : forall ps cap,
  let g := grun ps (mkLRU cap [], 0, fun _ => 0) in
  fst (fst g) = lprun ps (mkLRU cap [])
  /\ StronglySorted (newer (snd g)) (dkeys (l_ord (fst (fst g)))).
Proof. exact lru_order_is_recency. Qed.
Print Assumptions C06_order_is_recency.

(* views: items() (hence values() and ==) returns exactly the content in iteration order and changes no value *)
Theorem C06_items : forall vt st, LInv st ->
  let r := items_of lru lru_get lru_keys lru_peek vt st in
  snd r = content_list lru lru_peek st (lru_keys st) /\ LInv (fst r) /\ same_content lru lru_peek (fst r) st.
Proof. exact (fun vt => items_spec lru lru_get lru_keys lru_peek vt LInv linv_get lru_get_spec'). Qed.
Print Assumptions C06_items.

Theorem C06_eq : forall cc vt a b, LInv a -> LInv b ->
  snd (lstep cc vt a b OEqOther) = vB true <-> same_content lru lru_peek a b.
Proof.
  exact (fun cc vt => eq_spec lru lru_get lru_set lru_del lru_keys lru_len lru_peek cc vt LInv linv_get
           (fun st H => li_nodup st H) (fun st k _ => lru_peek_keys st k) lru_get_spec').
Qed.
Print Assumptions C06_eq.

Theorem C06_pop : forall st k, LInv st ->
  let r := mx_pop lru lru_get lru_del st k in
  snd r = lru_peek st k /\ LInv (fst r) /\ lru_peek (fst r) k = None
  /\ (forall k', k' <> k -> lru_peek (fst r) k' = lru_peek st k').
Proof. exact (pop_spec lru lru_get lru_del lru_peek LInv linv_get linv_del lru_get_spec' lru_del_spec'). Qed.
Print Assumptions C06_pop.

Theorem C06_popitem : forall st, LInv st ->
  let r := mx_popitem lru lru_get lru_del lru_keys st in
  match lru_keys st with
  | [] => snd r = None
  | k :: _ => exists v, lru_peek st k = Some v /\ snd r = Some (k, v) /\ lru_peek (fst r) k = None
                        /\ (forall k', k' <> k -> lru_peek (fst r) k' = lru_peek st k')
  end /\ LInv (fst r).
Proof.
  exact (popitem_spec lru lru_get lru_del lru_keys lru_peek LInv linv_get linv_del
           (fun st k _ => lru_peek_keys st k) lru_get_spec' lru_del_spec').
Qed.
Print Assumptions C06_popitem.

Theorem C06_setdefault : forall st k d, LInv st ->
  let r := mx_setdefault lru lru_get lru_set st k d in
  snd r = (match lru_peek st k with Some v => v | None => d end) /\ LInv (fst r) /\ lru_peek (fst r) k = Some (snd r).
Proof. exact (setdefault_spec lru lru_get lru_set lru_peek LInv linv_get linv_set lru_get_spec' lru_set_spec'). Qed.
Print Assumptions C06_setdefault.

(* every operation of the interface keeps the invariant (bounded, one value per key) on both caches involved *)
Theorem C06_ops_keep_invariant : forall cc vt a b op, LInv a -> LInv b ->
  LInv (fst (fst (lstep cc vt a b op))) /\ LInv (snd (fst (lstep cc vt a b op))).
Proof.
  exact (fun cc vt => c_step_inv lru lru_get lru_set lru_del lru_keys lru_len lru_peek cc vt LInv linv_get linv_set linv_del).
Qed.
Print Assumptions C06_ops_keep_invariant.

Example C06_nonvacuous :
  let st := lprun [PSet 1 10; PSet 2 20; PGet 1; PSet 3 30] (mkLRU 2 []) in
  l_ord st = [(3, 30); (1, 10)] /\ LInv st.
Proof. split; [reflexivity | apply lru_inv_reachable; apply linv_init; lia]. Qed.
