(* Property C20 - TmpPool and FilePool leave nothing behind.
   Statements only; proofs in Proofs/TmpPoolP.v.  An operation is tagged with the process that performs it; all
   processes of a multi_proc pool share one listing (the repaired flush clears it in place). *)
From Coq Require Import ZArith List Bool Arith.
From WPU Require Import Common.Val Model.TmpPool Proofs.TmpPoolP.
Import ListNotations.
Open Scope nat_scope.

Theorem C20_create_fresh : forall st pid, TInv st ->
  let r := tp_step true st pid TCreate in
  snd r = TPath (tp_next st) /\ In (tp_next st) (tp_fs (fst r)) /\ In (tp_next st) (cur_list (fst r) pid)
  /\ ~ In (tp_next st) (tp_fs st) /\ tp_next (fst r) = S (tp_next st).
Proof. exact create_fresh. Qed.
Print Assumptions C20_create_fresh.

Theorem C20_invariant : forall ops, Forall (fun o => atomic (snd o)) ops -> TInv (fst (tp_run true tp_init ops)).
Proof. exact (fun ops H => tinv_run ops tp_init tinv_init H). Qed.
Print Assumptions C20_invariant.

(* after any sequence of create/remove/flush (by any of the forked processes): listed = exists *)
Theorem C20_listing : forall ops, Forall (fun o => no_ext (snd o)) ops ->
  let st := fst (tp_run true tp_init ops) in
  forall pid p, In p (cur_list st pid) <-> In p (tp_fs st).
Proof. exact listing_inv. Qed.
Print Assumptions C20_listing.

(* leaving the context - normally or through an exception at any point of the body (the history simply ends there),
   also with files created by child processes and files deleted behind the pool's back - leaves no pool file *)
Theorem C20_exit_cleans : forall ops pid, Forall (fun o => atomic (snd o)) ops ->
  let st := fst (tp_run true tp_init ops) in
  tp_fs (fst (tp_step true st pid TFlush)) = [] /\ cur_list (fst (tp_step true st pid TFlush)) pid = [].
Proof. exact exit_cleans. Qed.
Print Assumptions C20_exit_cleans.

Theorem C20_filepool : forall n hs,
  (Forall (fun c => c = false) (fp_open n) /\ length (fp_open n) = n)
  /\ (Forall (fun c => c = true) (fp_exit hs) /\ length (fp_exit hs) = length hs).
Proof. intros n hs. split; [apply filepool_open_all | apply filepool_exit_closes]. Qed.
Print Assumptions C20_filepool.

(* however it is left, part 2: when one of the paths cannot be opened the with-statement raises before the body; none of the
   k handles opened before the failure stays open (for every k), and after a normal exit no handle is open whatever the body did *)
Theorem C20_filepool_failing_open : forall k hs,
  (count_open (fp_open_failing k) = 0 /\ length (fp_open_failing k) = k) /\ count_open (fp_exit hs) = 0.
Proof. intros k hs. split; [apply filepool_failing_open_leaks_nothing | apply filepool_exit_none_open]. Qed.
Print Assumptions C20_filepool_failing_open.

(* regression witness of the repaired defect (history): with the original flush a child's later file survived *)
Theorem C20_orig_flush_leaks :
  let ops := [(0, TCreate); (0, TFork); (0, TFlush); (1, TCreate); (0, TFlush)] in
  tp_fs (fst (tp_run false tp_init ops)) = [1] /\ tp_fs (fst (tp_run true tp_init ops)) = [].
Proof. exact orig_flush_leaks. Qed.
Print Assumptions C20_orig_flush_leaks.
