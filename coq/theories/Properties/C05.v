(* Property C05 - FunctorMap and mul_p_map return map(f, data) in input order.
   Statements only; proofs in Proofs/FMapP.v.  Model/FMap.v is the labelled transition system of the main thread and
   the worker processes of windpyutils/parallel/pools.py (kind = true) and parallel/maps.py + workers.py (kind = false);
   a schedule is an arbitrary list of events, an event that is not enabled being a stutter.  The mapped function is
   uninterpreted (a result chunk is represented by the chunk).  A history is a list of calls (input, chunk size) on
   one FunctorMap inside one `with` block, resp. a sequence of mul_p_map calls sharing the class-level queues.
   A worker process that has left its loop exits (and can be joined) only when at most m_pipe results are waiting in the
   results queue - the bounded pipe behind multiprocessing.Queue; m_pipe is arbitrary in every theorem (None = no bound,
   Some 0 = only when the queue has been read empty). *)
From Coq Require Import ZArith List Bool Arith.
From WPU Require Import Common.Val Model.Pool Model.FMap Proofs.FMapP.
Import ListNotations.
Open Scope nat_scope.

(* after any schedule: no error in the main thread; the calls completed so far returned exactly their inputs, in order and
   call by call (independence of repeated calls); when everything is over that covers every call of the history *)
Theorem C05_results : forall cfg hist sched, Forall mact_ok hist ->
  let s := mrun cfg (minit cfg hist) sched in
  ms_err s = false
  /\ (exists done rest, hist = done ++ rest /\ ms_done s = map fst done)
  /\ (ms_main s = MmDone -> ms_done s = map fst hist).
Proof. exact fmap_results. Qed.
Print Assumptions C05_results.

(* sorted(res, key=index) of a permutation of 0..n-1 with the right payloads is the input order (mul_p_map's last line) *)
Theorem C05_sorted_by_index : forall (ch : nat -> list Z) l n, Permutation.Permutation (map fst l) (seq 0 n) ->
  Forall (fun e => snd e = ch (fst e)) l -> concat (map snd (sort_by_idx l)) = concat (map ch (seq 0 n)).
Proof. exact sort_by_idx_spec. Qed.
Print Assumptions C05_sorted_by_index.

(* workers >= 1 and a work queue bound >= 1: in every reachable unfinished state some thread or process can move *)
Theorem C05_no_deadlock : forall cfg hist sched, mcfg_ok cfg -> Forall mact_ok hist ->
  let s := mrun cfg (minit cfg hist) sched in ms_main s <> MmDone -> exists e, mstep cfg s e <> None.
Proof. exact fmap_no_deadlock. Qed.
Print Assumptions C05_no_deadlock.

(* why the bounded pipe never bites: whenever the main thread is joining the worker processes, every result has been
   collected - nothing is waiting in the results queue *)
Theorem C05_joins_after_collecting : forall cfg hist sched k, mcfg_ok cfg -> Forall mact_ok hist ->
  let s := mrun cfg (minit cfg hist) sched in ms_main s = MmJoin k -> ms_resq s = [].
Proof.
  intros cfg hist sched k Ok Hh s M. destruct (mall_run cfg hist sched Ok Hh) as [MI L _]. exact (join_resq_nil cfg hist s k MI L M).
Qed.
Print Assumptions C05_joins_after_collecting.

(* every step decreases the measure *)
Theorem C05_measure : forall cfg hist sched e s', mcfg_ok cfg -> Forall mact_ok hist ->
  let s := mrun cfg (minit cfg hist) sched in mstep cfg s e = Some s' -> mmu cfg s' < mmu cfg s.
Proof. exact fmap_measure. Qed.
Print Assumptions C05_measure.

(* hence, under every scheduler that picks an enabled event whenever there is one: every call terminates, all workers are
   stopped and joined, and the results are exactly the inputs *)
Theorem C05_terminates : forall cfg hist pick, mcfg_ok cfg -> Forall mact_ok hist ->
  (forall s, (exists e, menabled cfg s e) -> mstep cfg s (pick s) <> None) ->
  let s := mdrive cfg pick (mmu cfg (minit cfg hist)) (minit cfg hist) in
  ms_main s = MmDone /\ ms_done s = map fst hist /\ ms_err s = false.
Proof. exact fmap_terminates. Qed.
Print Assumptions C05_terminates.

Theorem C05_scheduler_exists : forall cfg s, (exists e, menabled cfg s e) -> mstep cfg s (mpick_first cfg s) <> None.
Proof. exact mpick_first_enabled. Qed.
Print Assumptions C05_scheduler_exists.

(* non-vacuity: data shorter than the worker count, an empty call, chunk sizes 1..3, both kinds, tight pipes *)
Example C05_functor_map :
  let cfg := mkMCfg 3 (Some 3) true (Some 0) in
  let hist := [([1; 2]%Z, 1); ([], 2); ([3; 4; 5; 6; 7]%Z, 3)] in
  let s := mdrive cfg (mpick_first cfg) (mmu cfg (minit cfg hist)) (minit cfg hist) in
  mcfg_ok cfg /\ Forall mact_ok hist /\ ms_main s = MmDone /\ ms_done s = [[1; 2]; []; [3; 4; 5; 6; 7]]%Z.
Proof.
  cbv zeta. split; [split; [simpl; auto | intros c H; injection H as <-; auto]|]. split; [repeat constructor|]. vm_compute. split; reflexivity.
Qed.
Example C05_mul_p_map :
  let cfg := mkMCfg 2 (Some 1) false (Some 1) in
  let hist := [([5; 6; 7]%Z, 1); ([], 1); ([8]%Z, 1)] in
  let s := mdrive cfg (mpick_first cfg) (mmu cfg (minit cfg hist)) (minit cfg hist) in
  mcfg_ok cfg /\ Forall mact_ok hist /\ ms_main s = MmDone /\ ms_done s = [[5; 6; 7]; []; [8]]%Z.
Proof.
  cbv zeta. split; [split; [simpl; auto | intros c H; injection H as <-; auto]|]. split; [repeat constructor|]. vm_compute. split; reflexivity.
Qed.
