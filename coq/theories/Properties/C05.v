(* placeholder replaced below *)
From Coq Require Import List.
