(* Property C04 - worker lifecycle: begin first once, end last once, quota kept, none left running.
   Statements only; proofs in Proofs/PoolLifeP.v.  These theorems hold for EVERY schedule, fault events included
   (EWBegin k true: begin() raises in the worker of slot k; EWFault k: the functor raises on the chunk just taken).
   Every worker carries its lifecycle log (0 = begin, 1 = a chunk of items, 2 = end) as ghost state. *)
From Coq Require Import ZArith List Bool Arith.
From WPU Require Import Common.Val Model.Pool Proofs.PoolP Proofs.PoolLifeP.
Import ListNotations.
Open Scope nat_scope.

(* for all workers ever started (current and replaced ones), in every reachable state:
   - the log is [], or begin followed by chunks, or begin, chunks, end: begin at most once and first, end at most once and last
   - end has run exactly in the workers that are finished
   - a worker with quota k has taken at most k chunks
   replaced workers are all finished; once the pool context has been left, every worker is *)
Theorem C04_lifecycle : forall cfg hist sched, quota_ok cfg ->
  let s := run cfg (init cfg hist) sched in
  Forall (fun w => life_ok (w_log w)
                   /\ (is_dead w = true <-> In 2 (w_log w))
                   /\ (forall k, c_quota cfg = Some k -> items (w_log w) <= k)) (all_workers s)
  /\ Forall (fun w => is_dead w = true) (s_retired s)
  /\ (s_main s = MDone -> Forall (fun w => is_dead w = true) (all_workers s)).
Proof. exact lifecycle. Qed.
Print Assumptions C04_lifecycle.

Theorem C04_until_all_ready : forall cfg hist sched s', quota_ok cfg ->
  let s := run cfg (init cfg hist) sched in
  step cfg s EReady = Some s' ->
  Forall (fun w => w_ready w = true /\ (exists l, w_log w = 0 :: l) /\ w_pc w <> WNew /\ w_pc w <> WBegin) (s_procs s).
Proof. exact ready_sound. Qed.
Print Assumptions C04_until_all_ready.

Theorem C04_begin_fault : forall cfg s k s' w', step cfg s (EWBegin k true) = Some s' -> nth_error (s_procs s') k = Some w' ->
  w_ready w' = false /\ w_pc w' = WEnding.
Proof. exact begin_fault_not_ready. Qed.
Print Assumptions C04_begin_fault.

Theorem C04_functor_fault : forall cfg s k s', step cfg s (EWFault k) = Some s' ->
  exists w', nth_error (s_procs s') k = Some w' /\ w_pc w' = WEnding.
Proof. exact fault_leads_to_end. Qed.
Print Assumptions C04_functor_fault.

Theorem C04_end_runs : forall cfg s k w, nth_error (s_procs s) k = Some w -> w_pc w = WEnding ->
  exists s' w', step cfg s (EWEnd k) = Some s' /\ nth_error (s_procs s') k = Some w' /\ w_log w' = w_log w ++ [2] /\ is_dead w' = true.
Proof. exact end_always_enabled. Qed.
Print Assumptions C04_end_runs.

(* non-vacuity: factory pool, quota 2, one worker whose begin() raises and one functor fault; complete logs *)
Example C04_logs :
  let cfg := mkCfg 2 None None true (Some 2) in
  let hist := [ACall false [1; 2; 3; 4; 5]%Z 1] in
  let s := run cfg (init cfg hist) ([EStartW; EStartW; EWBegin 1 true; EWEnd 1; EWBegin 0 false; ENext; ECallInit; EFPut; EWTake 0; EWFault 0; EWEnd 0]) in
  quota_ok cfg /\ map w_log (s_procs s) = [[0; 1; 2]; [0; 2]].
Proof. vm_compute. split; [repeat constructor | reflexivity]. Qed.
