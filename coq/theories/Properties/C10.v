(* Property C10 - SpanSet operators follow their membership-based definitions for every relation.
   Statements only; proofs in Proofs/SpansP.v.  "x in S" is [contains S x]; a set is (relation, spans). *)
From Coq Require Import ZArith List Bool.
From WPU Require Import Common.Val Model.Spans Proofs.SpansP.
Import ListNotations.
Open Scope Z_scope.

Theorem C10_contains_iff : forall s x,
  contains s x = true <-> exists y, In y (s_spans s) /\ holds (s_rel s) x y = true.
Proof. exact contains_iff. Qed.
Print Assumptions C10_contains_iff.

(* construction keeps a span only if it is not already in the set built so far *)
Theorem C10_build_snoc : forall r l x,
  build_spans r (l ++ [x]) = if contains (build r l) x then build_spans r l else build_spans r l ++ [x].
Proof. exact build_snoc. Qed.
Print Assumptions C10_build_snoc.

Theorem C10_build_no_earlier_related : forall r l pre x post,
  build_spans r l = pre ++ x :: post -> existsb (fun y => holds r x y) pre = false.
Proof. exact build_no_earlier_related. Qed.
Print Assumptions C10_build_no_earlier_related.

Theorem C10_build_covers : forall r l x,
  In x l -> In x (build_spans r l) \/ contains (build r l) x = true.
Proof. exact build_covers. Qed.
Print Assumptions C10_build_covers.

(* A op B: exactly the spans of A and B satisfying the membership formula, each once, as an ordinary (Exact) set;
   for all 4 x 4 combinations of relations (the relations are fields of a and b) *)
Theorem C10_op_spec : forall phi a b,
  s_rel (op_filter phi a b) = Exact
  /\ NoDup (s_spans (op_filter phi a b))
  /\ forall x, In x (s_spans (op_filter phi a b)) <->
               (In x (s_spans a) \/ In x (s_spans b)) /\ phi (contains a x) (contains b x) = true.
Proof. exact op_filter_spec. Qed.
Print Assumptions C10_op_spec.

Theorem C10_and_spec : forall a b x, In x (s_spans (s_and a b)) <->
  (In x (s_spans a) \/ In x (s_spans b)) /\ contains a x = true /\ contains b x = true.
Proof. exact and_spec. Qed.
Print Assumptions C10_and_spec.
Theorem C10_or_spec : forall a b x, In x (s_spans (s_or a b)) <->
  (In x (s_spans a) \/ In x (s_spans b)) /\ (contains a x = true \/ contains b x = true).
Proof. exact or_spec. Qed.
Print Assumptions C10_or_spec.
Theorem C10_sub_spec : forall a b x, In x (s_spans (s_sub a b)) <->
  (In x (s_spans a) \/ In x (s_spans b)) /\ contains a x = true /\ contains b x = false.
Proof. exact sub_spec. Qed.
Print Assumptions C10_sub_spec.
Theorem C10_xor_spec : forall a b x, In x (s_spans (s_xor a b)) <->
  (In x (s_spans a) \/ In x (s_spans b)) /\ contains a x <> contains b x.
Proof. exact xor_spec. Qed.
Print Assumptions C10_xor_spec.

(* comparisons are exactly the quantified membership statements of their definitions *)
Theorem C10_le_iff : forall a b, s_le a b = true <-> forall x, In x (s_spans a) -> contains b x = true.
Proof. exact le_iff. Qed.
Print Assumptions C10_le_iff.
Theorem C10_eq_iff : forall a b, s_eq a b = true <->
  (forall x, In x (s_spans a) -> contains b x = true) /\ (forall x, In x (s_spans b) -> contains a x = true).
Proof. exact eq_iff. Qed.
Print Assumptions C10_eq_iff.
Theorem C10_lt_iff : forall a b, s_lt a b = true <-> s_le a b = true /\ s_eq a b = false.
Proof. exact lt_iff. Qed.
Print Assumptions C10_lt_iff.
Theorem C10_derived : forall a b,
  s_ne a b = negb (s_eq a b) /\ s_ge a b = s_le b a /\ s_gt a b = s_lt b a
  /\ s_issubset a b = s_le a b /\ s_issuperset a b = s_le b a.
Proof. intros a b. repeat split; reflexivity. Qed.
Print Assumptions C10_derived.
Theorem C10_isdisjoint_iff : forall a it, s_isdisjoint a it = true <-> forall x, In x it -> contains a x = false.
Proof. exact isdisjoint_iff. Qed.
Print Assumptions C10_isdisjoint_iff.

(* geometric meaning of the four relations *)
Theorem C10_relations : forall xs xe ys ye,
  (holds Exact (xs, xe) (ys, ye) = true <-> (xs, xe) = (ys, ye))
  /\ (holds PartOf (xs, xe) (ys, ye) = true <-> ys <= xs /\ xe <= ye)
  /\ (holds Includes (xs, xe) (ys, ye) = true <-> xs <= ys /\ ye <= xe)
  /\ (xs <= xe -> ys <= ye ->
      (holds Overlaps (xs, xe) (ys, ye) = true <-> exists p, xs <= p <= xe /\ ys <= p <= ye)).
Proof.
  intros xs xe ys ye. split; [apply holds_exact_iff|]. split; [apply holds_partof_iff|].
  split; [apply holds_includes_iff | apply holds_overlaps_iff].
Qed.
Print Assumptions C10_relations.

Example C10_nonvacuous :
  let a := build PartOf [(0, 5); (1, 2); (7, 9)] in let b := build Exact [(1, 2); (8, 8)] in
  s_spans a = [(0, 5); (7, 9)] /\ s_spans (s_and a b) = [(1, 2); (8, 8)] /\ s_spans (s_xor a b) = [(0, 5); (7, 9)].
Proof. repeat split; reflexivity. Qed.
