(* Property C17 - sorted_combinations is complete and key-ordered; the min-combination search is exact.
   Statements only; proofs in Proofs/CombosP.v.  [subl] is the textbook list of all sub-lists (combinations in index
   order); an entry carries the combination, its key and (ghost) the positions it was built from. *)
From Coq Require Import ZArith List Bool Permutation Sorted.
From WPU Require Import Common.Val Model.Combos Proofs.CombosP.
Import ListNotations.
Open Scope Z_scope.

(* termination and completeness, for EVERY key function and element list: 2^n pops suffice and leave the queue empty;
   the position lists yielded are exactly the non-empty sub-lists of 0..n-1, each once *)
Theorem C17_complete_once : forall key els,
  snd (sc_run key els (Nat.pow 2 (length els)) (sc_init key els)) = []
  /\ Permutation ([] :: map e_path (sorted_combinations key els)) (subl (seq 0 (length els))).
Proof. exact sc_complete_once. Qed.
Print Assumptions C17_complete_once.

Theorem C17_subl_nodup : forall l, NoDup l -> NoDup (subl l).
Proof. exact subl_nodup. Qed.
Print Assumptions C17_subl_nodup.

Theorem C17_subl_length : forall l, length (subl l) = Nat.pow 2 (length l).
Proof. exact subl_length. Qed.
Print Assumptions C17_subl_length.

(* each yielded tuple holds the elements at its positions, in index order, with its key alongside *)
Theorem C17_entries : forall key els e, In e (sorted_combinations key els) ->
  e_comb e = map (fun i => nth i els 0) (e_path e) /\ e_key e = key (e_comb e).
Proof. exact sc_entries_wf. Qed.
Print Assumptions C17_entries.

(* non-decreasing key order, for a key that never decreases when an element is appended *)
Theorem C17_sorted : forall key els, (forall c x, key c <= key (c ++ [x])) ->
  StronglySorted (fun a c => e_key a <= e_key c) (sorted_combinations key els).
Proof. exact sc_sorted. Qed.
Print Assumptions C17_sorted.

Theorem C17_min_scan_exact : forall (A : Type) (score : A -> Z) lo hi l,
  StronglySorted (fun a b => score a <= score b) l ->
  (exists P, min_scan score lo hi None l = filter P l)
  /\ forall x, In x (min_scan score lo hi None l) <->
       In x l /\ lo <= score x < hi /\ (forall y, In y l -> lo <= score y < hi -> score x <= score y).
Proof. intros A. exact (@min_scan_exact A). Qed.
Print Assumptions C17_min_scan_exact.

Theorem C17_min_combinations_exact : forall scores lo hi, (forall s, In s scores -> 0 <= s) ->
  let stream := sorted_combinations (score_key scores) (positions scores) in
  (exists P, min_combinations scores lo hi = map (fun e => (e_comb e, e_key e)) (filter P stream))
  /\ forall c s, In (c, s) (min_combinations scores lo hi) <->
       exists e, In e stream /\ c = e_comb e /\ s = e_key e /\ lo <= s < hi
                 /\ forall e', In e' stream -> lo <= e_key e' < hi -> s <= e_key e'.
Proof. exact min_combinations_exact. Qed.
Print Assumptions C17_min_combinations_exact.

Example C17_nonvacuous :
  map (fun e => (e_comb e, e_key e)) (sorted_combinations zsum [1; 1; 2])
    = [([1], 1); ([1], 1); ([2], 2); ([1; 1], 2); ([1; 2], 3); ([1; 2], 3); ([1; 1; 2], 4)]
  /\ min_combinations [0; 1; 2] 0 3 = [([0], 0)]
  /\ min_combinations [2; 1; 2] 3 5 = [([0; 1], 3); ([1; 2], 3)].
Proof. vm_compute. repeat split; reflexivity. Qed.
