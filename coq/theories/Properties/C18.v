(* Property C18 - one opened line / map file can be read from many forked processes at once.
   Statements only; proofs in Proofs/ForkReadP.v.  Model/ForkRead.v: open file descriptions with one position each, shared
   through fork; file objects that remember the pid they were opened in and reopen themselves before every seek and every
   readline when os.getpid() differs; a schedule is an arbitrary list of fork / seek / read events of any processes. *)
From Coq Require Import ZArith List Bool Arith.
From WPU Require Import Common.Val Model.Pool Model.Storage Model.ForkRead Proofs.ForkReadP.
From WPU Require Model.LineFile.
Import ListNotations.
Open Scope nat_scope.

(* for every file content, every offset index, every tree of forks and every interleaving of the processes' seeks and reads:
   every read returns what readline returns at the offset of the item that very process sought - the single-process result *)
Theorem C18_reads : forall content offs sched,
  let s := frun true content offs finit sched in
  forall p i line, In (p, i, line) (fs_out s) -> exists off, nth_error offs i = Some off /\ line = read_at content off.
Proof. exact fork_reads. Qed.
Print Assumptions C18_reads.

(* a process that has used the file since it was forked owns its open file description: no two such processes share one, so
   nobody can disturb another's read position *)
Theorem C18_own_description : forall content offs sched,
  let s := frun true content offs finit sched in
  forall p q prp prq, get_proc s p = Some prp -> get_proc s q = Some prq ->
    h_owner (fp_h prp) = p -> h_owner (fp_h prq) = q -> h_ofd (fp_h prp) = h_ofd (fp_h prq) -> p = q.
Proof. exact fork_own_description. Qed.
Print Assumptions C18_own_description.

(* one step preserves the invariant (descriptor table well-formed, exclusive use, position = sought offset while a read is pending) *)
Theorem C18_step : forall content offs s e s', RInv content offs s -> fstep true content offs s e = Some s' -> RInv content offs s'.
Proof. exact rinv_step. Qed.
Print Assumptions C18_step.

(* with the index the classes build themselves (Model/LineFile.v index_file, the C11 model): what any process reads for item i,
   under any tree of forks and any interleaving, is the i-th line of the file *)
Theorem C18_reads_lines : forall content sched,
  let offs := map Z.to_nat (LineFile.index_file content) in
  let s := frun true content offs finit sched in
  forall p i line, In (p, i, line) (fs_out s) ->
    i < length (LineFile.lines_of content) /\ line = nth i (LineFile.lines_of content) [].
Proof. exact fork_reads_lines. Qed.
Print Assumptions C18_reads_lines.

(* progress of one access, in EVERY reachable state (any tree of forks, any interleaving so far): a process whose seek to item i
   is pending gets its read accepted, and the read appends exactly one record - its own pid, item i, the line at that offset *)
Theorem C18_read_progress : forall content offs sched p pr i,
  let s := frun true content offs finit sched in
  get_proc s p = Some pr -> fp_pending pr = Some i ->
  exists s' off, fstep true content offs s (FRead p) = Some s' /\ nth_error offs i = Some off
    /\ fs_out s' = fs_out s ++ [(p, i, read_at content off)].
Proof. exact fork_read_progress. Qed.
Print Assumptions C18_read_progress.

(* a live process can always seek to an indexed item, in any state at all; nothing is output by a seek *)
Theorem C18_seek_enabled : forall content offs s p pr i off,
  get_proc s p = Some pr -> nth_error offs i = Some off ->
  exists s' pr', fstep true content offs s (FSeek p i) = Some s' /\ get_proc s' p = Some pr' /\ fp_pending pr' = Some i
    /\ fs_out s' = fs_out s.
Proof. exact seek_enabled. Qed.
Print Assumptions C18_seek_enabled.

(* why the mechanism is needed - the same model without reopening: the parent reads the child's line *)
Theorem C18_without_reopen_refuted :
  let content := [97; 10; 98; 10]%Z in let offs := [0; 2] in
  let s := frun false content offs finit [FFork 0 1; FSeek 0 0; FSeek 1 1; FRead 0] in
  fs_out s = [(0, 0, [98%Z])] /\ read_at content 0 = [97%Z].
Proof. exact no_reopen_refuted. Qed.
Print Assumptions C18_without_reopen_refuted.

(* non-vacuity: parent, child and grandchild interleave split accesses *)
Example C18_concrete :
  let content := [97; 48; 10; 98; 98; 49; 10; 99; 50; 10]%Z in let offs := [0; 3; 7] in
  let s := frun true content offs finit
             [FFork 0 1; FSeek 1 0; FFork 1 2; FSeek 2 2; FSeek 0 1; FRead 1; FRead 0; FSeek 1 1; FRead 2; FRead 1] in
  map (fun o => (fst (fst o), snd o)) (fs_out s) = [(1, [97; 48]%Z); (0, [98; 98; 49]%Z); (2, [99; 50]%Z); (1, [98; 98; 49]%Z)].
Proof. vm_compute. reflexivity. Qed.
