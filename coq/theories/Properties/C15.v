(* Property C15 - reorder buffers emit each item once in serial order; ring buffer keeps the last N.
   Statements only; proofs are in Proofs/BuffersP.v. *)
From Coq Require Import ZArith List Permutation Sorted.
From WPU Require Import Common.Val Common.Dict Common.ListX Model.Buffers Proofs.BuffersP.
Import ListNotations.
Open Scope Z_scope.

Theorem C15_buffer_invariant : forall ops st outs,
  valid_feed ops -> b_exec b_init ops = (st, outs) ->
  emitted outs = map (payload ops) (zrange 0 (Z.to_nat (b_wait st)))
  /\ b_wait st = Z.of_nat (length (emitted outs))
  /\ ~ In BAttrErr outs
  /\ (forall i, In i (dkeys (b_sto st)) -> b_wait st <= i /\ In i (map fst (calls ops)))
  /\ b_len st = Z.of_nat (length (calls ops)) - b_wait st.
Proof. exact buffer_invariant. Qed.
Print Assumptions C15_buffer_invariant.

Theorem C15_buffer_permutation_complete : forall (n : nat) ops st outs,
  no_flush ops -> Permutation (map fst (calls ops)) (zrange 0 n) ->
  b_exec b_init (ops ++ [BDrain]) = (st, outs) ->
  emitted outs = map (payload ops) (zrange 0 n) /\ b_wait st = Z.of_nat n /\ b_len st = 0
  /\ ~ In BAttrErr outs.
Proof. exact buffer_permutation_complete. Qed.
Print Assumptions C15_buffer_permutation_complete.

Theorem C15_buffer_flush_restarts : forall pre post st,
  fst (b_exec st (pre ++ BFlush :: post)) = fst (b_exec b_init post).
Proof. exact buffer_flush_restarts. Qed.
Print Assumptions C15_buffer_flush_restarts.

Theorem C15_buffer_rejects_generated : forall st i x,
  i < b_wait st -> b_step st (BCall i x) = (st, BAttrErr).
Proof. exact buffer_rejects_generated. Qed.
Print Assumptions C15_buffer_rejects_generated.

Theorem C15_print_invariant : forall ops st outs,
  pvalid ops -> p_exec p_init ops = (st, outs) ->
  printed outs = map (ppayload ops) (zrange 0 (Z.to_nat (p_wait st)))
  /\ p_wait st = Z.of_nat (length (printed outs))
  /\ (forall i, In i (dkeys (p_buf st)) -> p_wait st < i)
  /\ p_len st = Z.of_nat (length (pfed_of ops)) - p_wait st.
Proof. exact print_invariant. Qed.
Print Assumptions C15_print_invariant.

Theorem C15_print_permutation_complete : forall (n : nat) ops st outs,
  only_prints ops -> Permutation (map fst (pcalls ops)) (zrange 0 n) ->
  p_exec p_init ops = (st, outs) ->
  printed outs = map (ppayload ops) (zrange 0 n) /\ p_wait st = Z.of_nat n /\ p_len st = 0.
Proof. exact print_permutation_complete. Qed.
Print Assumptions C15_print_permutation_complete.

Theorem C15_print_flush_spec : forall st st' o,
  p_step st PFlush = (st', o) ->
  exists srt, Permutation srt (p_buf st) /\ Sorted key_le srt /\ po_printed o = map snd srt
    /\ p_buf st' = []
    /\ p_wait st' = match rev srt with [] => p_wait st | (k, _) :: _ => k + 1 end.
Proof. exact print_flush_spec. Qed.
Print Assumptions C15_print_flush_spec.

Theorem C15_print_clear_spec : forall st, fst (p_step st PClear) = p_init.
Proof. exact print_clear_spec. Qed.
Print Assumptions C15_print_clear_spec.

Theorem C15_ring_last_n : forall (c : nat) (ops : list rop), (0 < c)%nat ->
  let st := fold_left r_step ops (r_init c) in
  let k := length (rputs ops) in
  r_to_list st = lastn (Nat.min k c) (rputs ops)
  /\ r_size st = Z.of_nat (Nat.min k c)
  /\ (forall i, r_get st i = None <-> (i < 0 \/ Z.of_nat (Nat.min k c) <= i)).
Proof. exact ring_last_n. Qed.
Print Assumptions C15_ring_last_n.

(* non-vacuity: a concrete out-of-order feed meets the hypotheses and exercises the buffer *)
Example C15_nonvacuous :
  let ops := [BCall 2 30; BCall 0 10; BDrain; BCall 1 20] in
  no_flush ops /\ Permutation (map fst (calls ops)) (zrange 0 3)
  /\ emitted (snd (b_exec b_init (ops ++ [BDrain]))) = [10; 20; 30].
Proof.
  split; [intros [H|[H|[H|[H|[]]]]]; discriminate|]. split; [|reflexivity].
  simpl. apply perm_trans with [0; 2; 1]; [apply perm_swap | apply perm_skip, perm_swap].
Qed.
Example C15_ring_nonvacuous :
  r_to_list (fold_left r_step [RPut 1; RPut 2; RPut 3; RPut 4] (r_init 3)) = [2; 3; 4].
Proof. reflexivity. Qed.
