(* Property C01 - imap yields exactly map(f, data), once each, in input order; imap_unordered the same multiset with
   every chunk kept whole.  Statements only; proofs in Proofs/PoolP.v.

   The theorems quantify over EVERY configuration (workers, queue bounds, factory, quota), EVERY history of calls on
   one pool, and EVERY schedule: a schedule is an arbitrary list of events (thread or process x parameter) of the
   labelled transition system Model/Pool.v, an event that is not enabled being a stutter.  The functor is
   uninterpreted: the result chunk of a chunk is represented by the chunk itself (f is applied element-wise by one
   process to a chunk it owns, no other thread sees the elements in between). *)
From Coq Require Import ZArith List Bool Arith Permutation.
From WPU Require Import Common.Val Model.Pool Proofs.PoolP.
Import ListNotations.
Open Scope nat_scope.

(* what a fully consumed call must have yielded *)
Theorem C01_result_ok_ordered : forall d c ys, result_ok (ACall true d c) ys <-> ys = d.
Proof. intros; reflexivity. Qed.
Print Assumptions C01_result_ok_ordered.

Theorem C01_result_ok_unordered : forall d c ys, result_ok (ACall false d c) ys ->
  Permutation ys d
  /\ exists pi n, Permutation pi (seq 0 n) /\ skipn (n * c) d = []
                  /\ ys = concat (map (fun j => firstn c (skipn (j * c) d)) pi).
Proof. intros d c ys H. split; [exact (unordered_is_permutation d c ys H) | exact H]. Qed.
Print Assumptions C01_result_ok_unordered.

(* after any schedule: the consumer has not raised; the calls completed so far yielded exactly their results (nothing
   lost, duplicated, reordered or invented); if the pool context has been left, that covers every call *)
Theorem C01_results : forall cfg hist sched, Forall action_ok hist -> fault_free_sched sched ->
  let s := run cfg (init cfg hist) sched in
  s_error s = false
  /\ (exists done rest, calls_of hist = done ++ rest /\ Forall2 result_ok done (s_done_calls s))
  /\ (s_main s = MDone -> Forall2 result_ok (calls_of hist) (s_done_calls s)).
Proof. exact pool_results. Qed.
Print Assumptions C01_results.

(* the invariant behind it, in every reachable state inside a call: the chunk indices handed out so far are, each
   exactly once, either already yielded (in yield order) or in flight with the right payload *)
Theorem C01_conservation : forall cfg hist sched, Forall action_ok hist -> fault_free_sched sched ->
  let s := run cfg (init cfg hist) sched in
  in_call (s_main s) = true ->
  exists pi, Permutation (pi ++ map fst (entries s)) (seq 0 (s_cnt s))
             /\ s_yield s = concat (map (chunk s) pi) /\ s_finished s = length pi
             /\ (s_ordered s = true -> pi = seq 0 (s_wait s))
             /\ Forall (fun e => snd e = chunk s (fst e)) (entries s).
Proof.
  intros cfg hist sched Hh Hs s Hc. destruct (hinv_run cfg hist sched Hh Hs) as [IV _ _ _]. fold s in IV.
  pose proof (i_call s IV) as Ic. rewrite Hc in Ic. destruct Ic as [(pi & P1 & P2 & P3 & P4) Hp _ _ _].
  exists pi. repeat split; auto.
Qed.
Print Assumptions C01_conservation.

(* no result chunk is left behind when a call is over: queues, workers, batch and reorder buffer hold no payload *)
Theorem C01_nothing_left : forall cfg hist sched, Forall action_ok hist -> fault_free_sched sched ->
  let s := run cfg (init cfg hist) sched in in_call (s_main s) = false -> entries s = [].
Proof. exact nothing_left. Qed.
Print Assumptions C01_nothing_left.

(* non-vacuity: a complete fair run of a concrete pool (2 workers, work queue of 1, results queue / flow control 1)
   over an ordered and an unordered call reaches the end with exactly the expected results *)
Example C01_complete_run :
  let cfg := mkCfg 2 (Some 1) (Some 1) false None in
  let hist := [ACall true [1; 2; 3; 4; 5]%Z 2; ACall false [6; 7; 8]%Z 1] in
  let s := run cfg (init cfg hist) (fair_sched 2 40) in
  Forall action_ok hist /\ fault_free_sched (fair_sched 2 40) /\ s_main s = MDone
  /\ s_done_calls s = [[1; 2; 3; 4; 5]; [6; 7; 8]]%Z.
Proof.
  split; [repeat constructor|]. split; [apply fair_sched_fault_free|]. vm_compute. split; reflexivity.
Qed.
