(* Property C13 - records survive save/load and record files are sequences of records.
   Statements only; proofs in Proofs/CsvP.v (codec) and Proofs/LineFileP.v (files).
   CSV / TSV: proved about a model of CPython's csv writer and reader, for every delimiter other than quote, CR, LF and
   for ALL field strings.  JSON: json.dumps/loads are assumed to round-trip (C13_abstract_codec takes that as a
   hypothesis); the correspondence run exercises it. *)
From Coq Require Import ZArith List Bool.
From WPU Require Import Common.Val Model.Csv Model.LineFile Proofs.CsvP Proofs.LineFileP.
Import ListNotations.
Open Scope Z_scope.

Theorem C13_csv_roundtrip : forall D, D <> Q /\ D <> CR /\ D <> LF ->
  forall fs, fs <> [] -> read D (wrow D fs) = Some fs.
Proof. exact csv_roundtrip. Qed.
Print Assumptions C13_csv_roundtrip.

(* the same row as it stands in a saved line file (final LF stripped) *)
Theorem C13_csv_line_roundtrip : forall D, D <> Q /\ D <> CR /\ D <> LF ->
  forall fs, fs <> [] -> read D (wbody D fs ++ [CR]) = Some fs.
Proof. exact read_body_cr. Qed.
Print Assumptions C13_csv_line_roundtrip.

(* fields without line breaks: the record occupies a single line *)
Theorem C13_csv_single_line : forall D, D <> Q /\ D <> CR /\ D <> LF ->
  forall fs, Forall plain fs ->
    wrow D fs = wbody D fs ++ [CR; LF] /\ forall c, In c (wbody D fs) -> c <> CR /\ c <> LF.
Proof. intros D HD fs H. split; [apply wrow_body | apply csv_single_line; assumption]. Qed.
Print Assumptions C13_csv_single_line.

(* the class-level shared buffer never mixes records: any sequence of save() calls on any mix of classes *)
Theorem C13_shared_buffer : forall calls,
  save_seq (mkSio [] O) calls = map (fun c => wrow (fst c) (snd c)) calls.
Proof. exact shared_buffer_inv. Qed.
Print Assumptions C13_shared_buffer.

(* records through any codec that round-trips on single lines (the JSON case) *)
Theorem C13_abstract_codec : forall (R : Type) (enc : R -> list Z) (dec : list Z -> option R),
  (forall r, dec (enc r) = Some r) -> forall rs : list R, map dec (map enc rs) = map Some rs.
Proof. exact record_lines_roundtrip. Qed.
Print Assumptions C13_abstract_codec.

(* a mutable record file that is edited, saved and reopened holds the same lines (then C13_csv_line_roundtrip /
   the codec hypothesis turn equal lines into equal records) *)
Theorem C13_edit_save_reopen : forall view e, Forall no_nl view -> no_nl e ->
  lines_of (save_bytes view (e ++ [NL])) = map (fun l => l ++ e) view.
Proof. exact reopen_general. Qed.
Print Assumptions C13_edit_save_reopen.

Example C13_nonvacuous :
  wrow 44 [[97; 44; 98]; []; [34]; [32; 120; 32]] = [34; 97; 44; 98; 34; 44; 44; 34; 34; 34; 34; 44; 32; 120; 32; 13; 10]
  /\ read 44 (wrow 44 [[97; 44; 98]; []; [34]; [32; 120; 32]]) = Some [[97; 44; 98]; []; [34]; [32; 120; 32]]
  /\ wrow 9 [[]] = [34; 34; 13; 10].
Proof. vm_compute. repeat split; reflexivity. Qed.
