(* Property C16 - ImmutIntervalMap returns the value of the one interval containing the key.
   Statements only; proofs in Proofs/IntervalMapP.v.  The argument l is the dict's item list (distinct keys). *)
From Coq Require Import ZArith List Bool Permutation Sorted.
From WPU Require Import Common.Val Model.Spans Model.IntervalMap Proofs.IntervalMapP.
Import ListNotations.
Open Scope Z_scope.

(* construction succeeds (no KeyError) exactly when every interval has start <= end and no two share a point *)
Theorem C16_mk_ok_iff : forall l,
  (exists m, im_mk l = Some m) <->
  (forall en, In en l -> fst (fst en) <= snd (fst en))
  /\ (forall pre x mid y post, map fst l = pre ++ x :: mid ++ y :: post -> holds Overlaps y x = false).
Proof. exact im_mk_ok_iff. Qed.
Print Assumptions C16_mk_ok_iff.

Theorem C16_share_point : forall x y, fst x <= snd x -> fst y <= snd y ->
  ((exists p, fst x <= p <= snd x /\ fst y <= p <= snd y) <-> holds Overlaps x y = true).
Proof. exact share_point_iff_overlaps. Qed.
Print Assumptions C16_share_point.

Theorem C16_lookup_sound : forall l m, im_mk l = Some m ->
  forall k v, im_get m k = Some v -> exists s e, In ((s, e), v) l /\ s <= k <= e.
Proof. exact im_get_sound. Qed.
Print Assumptions C16_lookup_sound.

Theorem C16_lookup_complete : forall l m, im_mk l = Some m ->
  forall s e v k, In ((s, e), v) l -> s <= k <= e -> im_get m k = Some v.
Proof. exact im_get_complete. Qed.
Print Assumptions C16_lookup_complete.

Theorem C16_lookup_keyerror_iff : forall l m, im_mk l = Some m ->
  forall k, im_get m k = None <-> forall s e v, In ((s, e), v) l -> ~ (s <= k <= e).
Proof. exact im_get_none_iff. Qed.
Print Assumptions C16_lookup_keyerror_iff.

Theorem C16_contains_agrees : forall m k, im_contains m k = true <-> exists v, im_get m k = Some v.
Proof. exact im_contains_agrees. Qed.
Print Assumptions C16_contains_agrees.

Theorem C16_len_spec : forall l m, im_mk l = Some m -> im_len m = length l.
Proof. exact im_len_spec. Qed.
Print Assumptions C16_len_spec.

Theorem C16_iter_spec : forall l m, im_mk l = Some m ->
  Permutation (im_iter m) l
  /\ StronglySorted (fun a b : entry => snd (fst a) < fst (fst b)) (im_iter m).
Proof. intros l m H. split; [exact (im_iter_perm l m H) | exact (im_iter_sorted l m H)]. Qed.
Print Assumptions C16_iter_spec.

Example C16_nonvacuous :
  match im_mk [((5, 9), 50); ((0, 0), 7); ((1, 4), 14)] with
  | Some m => im_get m 4 = Some 14 /\ im_get m 0 = Some 7 /\ im_get m 10 = None
              /\ im_iter m = [((0, 0), 7); ((1, 4), 14); ((5, 9), 50)]
  | None => False
  end /\ im_mk [((0, 3), 1); ((3, 5), 2)] = None.
Proof. vm_compute. repeat split; reflexivity. Qed.
