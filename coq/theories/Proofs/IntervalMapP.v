(* Proofs about Model/IntervalMap.v (property C16). *)
From Coq Require Import ZArith List Bool Lia ZifyBool Permutation Sorted.
From WPU Require Import Common.Val Common.ListX Common.Bisect Model.Spans Model.Generic Model.IntervalMap
  Proofs.SpansP Proofs.GenericP.
Import ListNotations.
Open Scope Z_scope.

Definition d0 : entry := ((0, 0), 0).
Definition spans_of (l : list entry) : list span := map fst l.

(* no two intervals (at different positions) share a point *)
Definition share_point (x y : span) : Prop := exists p, fst x <= p <= snd x /\ fst y <= p <= snd y.
Definition pairwise_apart (sp : list span) : Prop :=
  forall pre x mid y post, sp = pre ++ x :: mid ++ y :: post -> holds Overlaps y x = false.
Definition wf_entries (l : list entry) : Prop := forall en, In en l -> fst (fst en) <= snd (fst en).

Lemma overlaps_sym x y : holds Overlaps x y = holds Overlaps y x.
Proof. destruct x, y; simpl. apply andb_comm. Qed.

Lemma overlaps_false x y : holds Overlaps x y = false <-> snd x < fst y \/ snd y < fst x.
Proof. destruct x, y; simpl. lia. Qed.

Lemma pairwise_apart_prefix sp z : pairwise_apart (sp ++ [z]) -> pairwise_apart sp.
Proof.
  intros H pre x mid y post E. apply (H pre x mid y (post ++ [z])).
  rewrite E. rewrite <- !app_assoc. simpl. rewrite <- app_assoc. reflexivity.
Qed.

Lemma build_id_of_apart sp : pairwise_apart sp -> build_spans Overlaps sp = sp.
Proof.
  induction sp as [|z sp IH] using rev_ind; intros H; [reflexivity|].
  rewrite build_snoc. unfold contains. simpl. rewrite (IH (pairwise_apart_prefix _ _ H)).
  destruct (existsb (fun y => holds Overlaps z y) sp) eqn:E; [|reflexivity]. exfalso.
  apply existsb_exists in E. destruct E as (x & Hx & Hh).
  apply in_split in Hx. destruct Hx as (pre & mid & ->).
  rewrite (H pre x mid z []) in Hh; [discriminate|]. rewrite <- app_assoc. reflexivity.
Qed.

Lemma build_length_le r sp : (length (build_spans r sp) <= length sp)%nat.
Proof.
  induction sp as [|z sp IH] using rev_ind; [simpl; lia|].
  rewrite build_snoc, app_length. simpl. destruct (contains _ _); [lia | rewrite app_length; simpl; lia].
Qed.

Lemma apart_of_build_length sp : length (build_spans Overlaps sp) = length sp -> pairwise_apart sp.
Proof.
  induction sp as [|z sp IH] using rev_ind; intros H.
  - intros pre x mid y post E. destruct pre; discriminate.
  - rewrite build_snoc in H. rewrite app_length in H. simpl in H.
    pose proof (build_length_le Overlaps sp) as Hle.
    unfold contains in H. simpl in H.
    destruct (existsb (fun y => holds Overlaps z y) (build_spans Overlaps sp)) eqn:E; [lia|].
    rewrite app_length in H. simpl in H. assert (Hl : length (build_spans Overlaps sp) = length sp) by lia.
    specialize (IH Hl). rewrite (build_id_of_apart sp IH) in E.
    intros pre x mid y post Eq.
    destruct post as [|w post] using rev_ind.
    + rewrite app_comm_cons, app_assoc in Eq. apply app_inj_tail in Eq. destruct Eq as [-> <-].
      destruct (holds Overlaps z x) eqn:Hh; [|reflexivity].
      assert (existsb (fun y0 => holds Overlaps z y0) (pre ++ x :: mid) = true); [|congruence].
      apply existsb_exists. exists x. split; [apply in_or_app; right; left; reflexivity | exact Hh].
    + clear IHpost. apply (IH pre x mid y post).
      assert (Eq' : sp ++ [z] = (pre ++ x :: mid ++ y :: post) ++ [w]).
      { rewrite Eq. rewrite <- !app_assoc. simpl. rewrite <- app_assoc. reflexivity. }
      apply app_inj_tail in Eq'. tauto.
Qed.

(* C16: construction succeeds exactly when every interval has start <= end and no two intervals share a point *)
Theorem im_mk_ok_iff l :
  (exists m, im_mk l = Some m) <-> wf_entries l /\ pairwise_apart (spans_of l).
Proof.
  unfold im_mk. cbv zeta.
  assert (Hc : combine (map (fun en : Z * Z * Z => fst (fst en)) l) (map (fun en : Z * Z * Z => snd (fst en)) l) = spans_of l).
  { unfold spans_of. clear. induction l as [|[[s e] v] l IH]; simpl; [reflexivity | f_equal; exact IH]. }
  rewrite Hc.
  assert (Hlen : length (spans_of l) = length l) by (unfold spans_of; apply map_length).
  destruct (existsb (fun en => fst (fst en) >? snd (fst en)) l) eqn:E1.
  - split; [intros (m & H); discriminate|]. intros [Hwf _]. exfalso.
    apply existsb_exists in E1. destruct E1 as (en & Hin & Hgt). specialize (Hwf en Hin). lia.
  - assert (Hwf : wf_entries l).
    { intros en Hin. destruct (Z_le_gt_dec (fst (fst en)) (snd (fst en))) as [|Hgt]; [assumption|]. exfalso.
      assert (existsb (fun en => fst (fst en) >? snd (fst en)) l = true); [|congruence].
      apply existsb_exists. exists en. split; [exact Hin | lia]. }
    destruct (length (build_spans Overlaps (spans_of l)) =? length l)%nat eqn:E2; simpl.
    + split; [|eauto]. intros _. split; [exact Hwf|]. apply apart_of_build_length. apply Nat.eqb_eq in E2. lia.
    + split; [intros (m & H); discriminate|]. intros [_ Hap]. exfalso.
      rewrite (build_id_of_apart _ Hap) in E2. apply Nat.eqb_neq in E2. lia.
Qed.

Theorem share_point_iff_overlaps x y : fst x <= snd x -> fst y <= snd y ->
  (share_point x y <-> holds Overlaps x y = true).
Proof.
  destruct x as [xs xe], y as [ys ye]. unfold share_point. simpl. intros Hx Hy.
  rewrite <- (holds_overlaps_iff xs xe ys ye Hx Hy). simpl. reflexivity.
Qed.

(* index form of pairwise_apart *)
Lemma nth_split2 (sp : list span) i j d : (i < j < length sp)%nat ->
  exists pre mid post, sp = pre ++ nth i sp d :: mid ++ nth j sp d :: post.
Proof.
  intros H.
  destruct (nth_split sp d (n:=j) ltac:(lia)) as (l1 & l2 & E & Hl1).
  assert (Hi : (i < length l1)%nat) by lia.
  destruct (nth_split l1 d (n:=i) Hi) as (l3 & l4 & E3 & Hl3).
  exists l3, l4, l2.
  assert (nth i sp d = nth i l1 d) as ->.
  { rewrite E at 1. apply app_nth1. exact Hi. }
  rewrite E at 1. rewrite E3 at 1. rewrite <- app_assoc. reflexivity.
Qed.

Lemma apart_nth sp i j d : pairwise_apart sp -> (i < length sp)%nat -> (j < length sp)%nat -> i <> j ->
  holds Overlaps (nth i sp d) (nth j sp d) = false.
Proof.
  intros H Hi Hj Hne.
  destruct (Nat.lt_ge_cases i j) as [L|L].
  - destruct (nth_split2 sp i j d ltac:(lia)) as (pre & mid & post & E).
    rewrite overlaps_sym. eapply H. exact E.
  - destruct (nth_split2 sp j i d ltac:(lia)) as (pre & mid & post & E).
    eapply H. exact E.
Qed.

Lemma StronglySorted_nth {A} (R : A -> A -> Prop) (l : list A) d : StronglySorted R l ->
  forall i j, (i < j < length l)%nat -> R (nth i l d) (nth j l d).
Proof.
  induction 1 as [|a l Hs IH Hf]; intros i j Hij; simpl in *; [lia|].
  destruct i as [|i], j as [|j]; try lia.
  - rewrite Forall_forall in Hf. apply Hf. apply nth_In. lia.
  - apply IH. lia.
Qed.

Section Lookup.
Variable l : list entry.
Variable m : imap.
Hypothesis Hmk : im_mk l = Some m.

Let n := length l.
Let ends := map (fun en : entry => snd (fst en)) l.
Let starts := map (fun en : entry => fst (fst en)) l.
Let sidx := arg_sort ends false.

Lemma mk_valid : wf_entries l /\ pairwise_apart (spans_of l).
Proof. apply im_mk_ok_iff. eauto. Qed.

Lemma mk_fields : m = mkIM starts ends (map (fun en => snd en) l) (map (key_of ends) sidx) sidx.
Proof.
  unfold im_mk in Hmk. cbv zeta in Hmk.
  match type of Hmk with (if ?c then _ else _) = _ => destruct c; [discriminate|] end.
  match type of Hmk with (if ?c then _ else _) = _ => destruct c; [discriminate|] end.
  injection Hmk as <-. reflexivity.
Qed.

Lemma ends_len : length ends = n. Proof. apply map_length. Qed.
Lemma sidx_perm : Permutation sidx (seq 0 n).
Proof. unfold sidx. rewrite <- ends_len. apply arg_sort_spec. Qed.
Lemma sidx_len : length sidx = n.
Proof. rewrite (Permutation_length sidx_perm). apply seq_length. Qed.
Lemma sidx_lt q : (q < n)%nat -> (nth q sidx O < n)%nat.
Proof.
  intros H. assert (In (nth q sidx O) (seq 0 n)).
  { eapply Permutation_in; [apply sidx_perm | apply nth_In; rewrite sidx_len; exact H]. }
  apply in_seq in H0. lia.
Qed.
Lemma sends_nth q : (q < n)%nat -> nth q (map (key_of ends) sidx) 0 = nth (nth q sidx O) ends 0.
Proof.
  intros H. rewrite (nth_indep _ 0 (key_of ends O)) by (rewrite map_length, sidx_len; exact H).
  rewrite map_nth. reflexivity.
Qed.
Lemma sends_nondecr : nondecr (map (key_of ends) sidx).
Proof.
  intros i j Hij. rewrite map_length, sidx_len in Hij.
  destruct (Nat.eq_dec i j) as [->|Hne]; [lia|].
  rewrite !sends_nth by lia.
  pose proof (proj2 (arg_sort_spec ends false)) as Hs. fold sidx in Hs.
  pose proof (StronglySorted_nth _ sidx O Hs i j ltac:(rewrite sidx_len; lia)) as R.
  unfold idx_lt, key_of in R. lia.
Qed.

Lemma entry_nth i : (i < n)%nat -> nth i l d0 = ((nth i starts 0, nth i ends 0), nth i (map (fun en => snd en) l) 0).
Proof.
  intros _.
  assert (E1 : nth i starts 0 = fst (fst (nth i l d0))) by (apply (map_nth (fun en : entry => fst (fst en)) l d0 i)).
  assert (E2 : nth i ends 0 = snd (fst (nth i l d0))) by (apply (map_nth (fun en : entry => snd (fst en)) l d0 i)).
  assert (E3 : nth i (map (fun en : entry => snd en) l) 0 = snd (nth i l d0))
    by (apply (map_nth (fun en : entry => snd en) l d0 i)).
  destruct (nth i l d0) as [[s e] v]. simpl in *.
  f_equal; [f_equal; symmetry; assumption | symmetry; exact E3].
Qed.

Lemma span_nth i : (i < n)%nat -> nth i (spans_of l) (0, 0) = (nth i starts 0, nth i ends 0).
Proof.
  intros H. unfold spans_of. change (0, 0) with (fst d0).
  transitivity (fst (nth i l d0)); [apply map_nth | rewrite (entry_nth i H); reflexivity].
Qed.

(* C16: lookup returns the value of an interval that contains the key ... *)
Theorem im_get_sound k v : im_get m k = Some v -> exists s e, In ((s, e), v) l /\ s <= k <= e.
Proof.
  rewrite mk_fields. unfold im_get. simpl.
  pose proof (bisect_left_spec (map (key_of ends) sidx) k sends_nondecr) as (Hp & Hlo & Hhi).
  set (p := bisect_left (map (key_of ends) sidx) k) in *.
  rewrite map_length, sidx_len in *.
  destruct (p =? n)%nat eqn:E; [discriminate|]. apply Nat.eqb_neq in E.
  assert (Hpn : (p < n)%nat) by lia.
  pose proof (sidx_lt p Hpn) as Hidx. set (idx := nth p sidx O) in *.
  destruct (k <? nth idx starts 0) eqn:C; [discriminate|]. intros H. injection H as <-.
  exists (nth idx starts 0), (nth idx ends 0). split.
  - rewrite <- (entry_nth idx Hidx). apply nth_In. exact Hidx.
  - split; [lia|]. specialize (Hhi p ltac:(lia)). rewrite sends_nth in Hhi by exact Hpn. exact Hhi.
Qed.

(* ... and every interval containing the key is found (so, the intervals being apart, it is the unique one) *)
Theorem im_get_complete s e v k : In ((s, e), v) l -> s <= k <= e -> im_get m k = Some v.
Proof.
  intros Hin Hk. destruct mk_valid as [Hwf Hap].
  destruct (In_nth l _ d0 Hin) as (i0 & Hi0 & Hn0). fold n in Hi0.
  assert (Hq : In i0 sidx) by (eapply Permutation_in; [symmetry; apply sidx_perm | apply in_seq; lia]).
  destruct (In_nth sidx i0 O Hq) as (q0 & Hq0 & Hnq0). rewrite sidx_len in Hq0.
  pose proof (entry_nth i0 Hi0) as En0. rewrite Hn0 in En0. injection En0 as Es Ee Ev.
  rewrite mk_fields. unfold im_get. simpl.
  pose proof (bisect_left_spec (map (key_of ends) sidx) k sends_nondecr) as (Hp & Hlo & Hhi).
  set (p := bisect_left (map (key_of ends) sidx) k) in *.
  rewrite map_length, sidx_len in *.
  assert (Hpq : (p <= q0)%nat).
  { destruct (Nat.le_gt_cases p q0) as [|Hgt]; [assumption|]. exfalso.
    specialize (Hlo q0 Hgt). rewrite sends_nth, Hnq0 in Hlo by exact Hq0. lia. }
  destruct (p =? n)%nat eqn:E; [apply Nat.eqb_eq in E; lia|].
  assert (Hpn : (p < n)%nat) by lia.
  pose proof (sidx_lt p Hpn) as Hidx. set (idx := nth p sidx O) in *.
  assert (He' : k <= nth idx ends 0).
  { specialize (Hhi p ltac:(lia)). rewrite sends_nth in Hhi by exact Hpn. exact Hhi. }
  assert (Hee : nth idx ends 0 <= e).
  { pose proof (sends_nondecr p q0 ltac:(rewrite map_length, sidx_len; lia)) as Hnd.
    rewrite !sends_nth, Hnq0 in Hnd by lia. fold idx in Hnd. lia. }
  destruct (Nat.eq_dec idx i0) as [Heq|Hne].
  - rewrite Heq. destruct (k <? nth i0 starts 0) eqn:C; [lia|]. congruence.
  - exfalso.
    pose proof (apart_nth (spans_of l) idx i0 (0, 0) Hap) as Hd.
    unfold spans_of in Hd at 1 2. rewrite map_length in Hd. specialize (Hd Hidx Hi0 Hne).
    rewrite (span_nth idx Hidx), (span_nth i0 Hi0) in Hd. apply overlaps_false in Hd. simpl in Hd.
    assert (Hwf' : nth idx starts 0 <= nth idx ends 0).
    { specialize (Hwf (nth idx l d0) (nth_In _ _ Hidx)). rewrite (entry_nth idx Hidx) in Hwf. exact Hwf. }
    lia.
Qed.

Theorem im_get_none_iff k : im_get m k = None <-> forall s e v, In ((s, e), v) l -> ~ (s <= k <= e).
Proof.
  split.
  - intros H s e v Hin Hk. rewrite (im_get_complete s e v k Hin Hk) in H. discriminate.
  - intros H. destruct (im_get m k) as [v|] eqn:G; [|reflexivity]. exfalso.
    destruct (im_get_sound k v G) as (s & e & Hin & Hk). exact (H s e v Hin Hk).
Qed.

Theorem im_contains_agrees k : im_contains m k = true <-> exists v, im_get m k = Some v.
Proof. unfold im_contains. destruct (im_get m k); split; eauto; try discriminate. intros (v & H); discriminate. Qed.

Theorem im_len_spec : im_len m = length l.
Proof. rewrite mk_fields. unfold im_len. simpl. apply map_length. Qed.

(* iteration: every (interval, value) exactly once, in ascending order - each interval lies entirely before the next *)
Lemma im_iter_eq : im_iter m = map (fun i => nth i l d0) sidx.
Proof.
  rewrite mk_fields. unfold im_iter. simpl.
  assert (G : forall ix, (forall i, In i ix -> (i < n)%nat) ->
     map (fun p => ((nth (fst p) starts 0, snd p), nth (fst p) (map (fun en => snd en) l) 0))
         (combine ix (map (key_of ends) ix)) = map (fun i => nth i l d0) ix).
  { induction ix as [|i ix IH]; intros H; simpl; [reflexivity|].
    rewrite IH by (intros j Hj; apply H; right; exact Hj).
    f_equal. rewrite (entry_nth i) by (apply H; left; reflexivity). reflexivity. }
  apply G. intros i Hi. eapply Permutation_in in Hi; [|apply sidx_perm]. apply in_seq in Hi. lia.
Qed.

Theorem im_iter_perm : Permutation (im_iter m) l.
Proof.
  rewrite im_iter_eq. rewrite (Permutation_map _ sidx_perm).
  unfold n. rewrite (map_seq_nth_eq (fun i => nth i l d0) l d0 0); [reflexivity|]. intros j Hj. reflexivity.
Qed.

Theorem im_iter_sorted : StronglySorted (fun a b : entry => snd (fst a) < fst (fst b)) (im_iter m).
Proof.
  rewrite im_iter_eq. destruct mk_valid as [Hwf Hap].
  pose proof (proj2 (arg_sort_spec ends false)) as Hs. fold sidx in Hs.
  assert (Hlt : forall i, In i sidx -> (i < n)%nat).
  { intros i Hi. eapply Permutation_in in Hi; [|apply sidx_perm]. apply in_seq in Hi. lia. }
  assert (Hnd : NoDup sidx) by (eapply Permutation_NoDup; [symmetry; apply sidx_perm | apply seq_NoDup]).
  induction Hs as [|i ix Hs IH Hf]; simpl; constructor.
  - apply IH; [intros j Hj; apply Hlt; right; exact Hj | inversion Hnd; assumption].
  - rewrite Forall_forall in *. intros b Hb. apply in_map_iff in Hb. destruct Hb as (j & <- & Hj).
    specialize (Hf j Hj).
    assert (Hi' : (i < n)%nat) by (apply Hlt; left; reflexivity).
    assert (Hj' : (j < n)%nat) by (apply Hlt; right; exact Hj).
    assert (Hne : i <> j) by (inversion Hnd; subst; intros ->; contradiction).
    rewrite (entry_nth i Hi'), (entry_nth j Hj'). simpl.
    pose proof (apart_nth (spans_of l) i j (0, 0) Hap) as Hd.
    unfold spans_of in Hd at 1 2. rewrite map_length in Hd. specialize (Hd Hi' Hj' Hne).
    rewrite (span_nth i Hi'), (span_nth j Hj') in Hd. apply overlaps_false in Hd. simpl in Hd.
    assert (Hwi : nth i starts 0 <= nth i ends 0).
    { specialize (Hwf (nth i l d0) (nth_In _ _ Hi')). rewrite (entry_nth i Hi') in Hwf. exact Hwf. }
    unfold idx_lt, key_of in Hf. lia.
Qed.

End Lookup.
