(* Proofs about Model/Combos.v (property C17). *)
From Coq Require Import ZArith List Bool Lia ZifyBool Permutation Sorted.
From WPU Require Import Common.Val Common.ListX Model.Combos.
Import ListNotations.
Open Scope Z_scope.

(* textbook definition: all sub-lists (= combinations, in index order) of a list *)
Fixpoint subl (l : list nat) : list (list nat) :=
  match l with
  | [] => [[]]
  | x :: xs => map (cons x) (subl xs) ++ subl xs
  end.

Lemma subl_length l : length (subl l) = Nat.pow 2 (length l).
Proof. induction l as [|x xs IH]; simpl; [reflexivity|]. rewrite app_length, map_length, IH. lia. Qed.

Lemma subl_elems l p : In p (subl l) -> forall y, In y p -> In y l.
Proof.
  revert p; induction l as [|x xs IH]; simpl; intros p H y Hy.
  - destruct H as [<-|[]]. exact Hy.
  - apply in_app_or in H. destruct H as [H|H].
    + apply in_map_iff in H. destruct H as (q & <- & Hq). destruct Hy as [<-|Hy]; [left; reflexivity|].
      right. eapply IH; eauto.
    + right. eapply IH; eauto.
Qed.

Lemma NoDup_app_intro {A} (l1 l2 : list A) :
  NoDup l1 -> NoDup l2 -> (forall x, In x l1 -> ~ In x l2) -> NoDup (l1 ++ l2).
Proof.
  induction l1 as [|a l1 IH]; simpl; intros H1 H2 Hd; [exact H2|].
  inversion H1; subst. constructor.
  - intros Hin. apply in_app_or in Hin. destruct Hin as [Hin|Hin]; [contradiction|]. eapply Hd; [left; reflexivity | exact Hin].
  - apply IH; auto.
Qed.

Lemma subl_nodup l : NoDup l -> NoDup (subl l).
Proof.
  induction l as [|x xs IH]; simpl; intros H; [constructor; [intros []|constructor]|].
  inversion H as [|? ? Hx Hxs]; subst. specialize (IH Hxs).
  apply NoDup_app_intro; [|exact IH|].
  - apply FinFun.Injective_map_NoDup; [|exact IH]. intros a b E. injection E; auto.
  - intros p Hp Hq. apply in_map_iff in Hp. destruct Hp as (q & <- & _).
    apply Hx. eapply subl_elems; [exact Hq | left; reflexivity].
Qed.

(* one level of the enumeration tree *)
Lemma subl_seq_decomp : forall k a,
  Permutation (subl (seq a k))
              ([] :: flat_map (fun j => map (cons j) (subl (seq (S j) (a + k - S j)))) (seq a k)).
Proof.
  induction k as [|k IH]; intros a; simpl; [reflexivity|].
  replace (a + S k - S a)%nat with k by lia.
  rewrite (flat_map_ext (fun j => map (cons j) (subl (seq (S j) (a + S k - S j))))
                        (fun j => map (cons j) (subl (seq (S j) (S a + k - S j))))).
  - etransitivity; [apply Permutation_app_head; apply (IH (S a))|].
    symmetry. apply Permutation_middle.
  - intros j. replace (S a + k - S j)%nat with (a + S k - S j)%nat by lia. reflexivity.
Qed.

Section SCP.
Variable key : list Z -> Z.
Variable els : list Z.
Let n := length els.

Notation mk_entry := (mk_entry key els).
Notation children := (children key els).
Notation sc_run := (sc_run key els).
Notation sc_init := (sc_init key els).

(* ------------------------------------------------------------------ the priority queue *)
Lemma entry_le_key a b : (entry_le a b = true -> e_key a <= e_key b) /\ (entry_le a b = false -> e_key b <= e_key a).
Proof.
  unfold entry_le. destruct (e_key a <? e_key b) eqn:E1; [split; [lia | discriminate]|].
  destruct (e_key b <? e_key a) eqn:E2; [split; [discriminate | lia]|]. split; lia.
Qed.

Lemma pop_min_none pq : pop_min pq = None -> pq = [].
Proof. destruct pq as [|a pq]; [reflexivity|]. simpl. destruct (pop_min pq) as [[m r]|]; [destruct (entry_le a m)|]; discriminate. Qed.

Lemma pop_min_spec pq e rest : pop_min pq = Some (e, rest) ->
  Permutation pq (e :: rest) /\ forall x, In x rest -> e_key e <= e_key x.
Proof.
  revert e rest; induction pq as [|a pq IH]; simpl; intros e rest H; [discriminate|].
  destruct (pop_min pq) as [[m rest']|] eqn:P.
  - destruct (IH m rest' eq_refl) as [Hp Hm].
    destruct (entry_le a m) eqn:L; injection H as <- <-.
    + split; [reflexivity|]. intros x Hx.
      eapply Permutation_in in Hx; [|exact Hp].
      pose proof (proj1 (entry_le_key a m) L). destruct Hx as [<-|Hx]; [lia | specialize (Hm x Hx); lia].
    + split; [rewrite Hp; apply perm_swap|]. intros x [<-|Hx]; [apply (proj2 (entry_le_key a m) L) | apply Hm; exact Hx].
  - injection H as <- <-. apply pop_min_none in P. subst pq. split; [reflexivity | intros x []].
Qed.

(* ------------------------------------------------------------------ the enumeration tree *)
Definition subtree (p : list nat) : list (list nat) :=
  map (app p) (subl (seq (S (last p O)) (n - S (last p O)))).
Definition FS (pq : list entry) : list (list nat) := flat_map subtree (map e_path pq).

Lemma subtree_nonempty p : (1 <= length (subtree p))%nat.
Proof. unfold subtree. rewrite map_length, subl_length. pose proof (Nat.pow_nonzero 2 (length (seq (S (last p O)) (n - S (last p O)))) ltac:(lia)). lia. Qed.

Lemma children_paths e : map e_path (children e) = map (fun j => e_path e ++ [j]) (seq (S (e_idx e)) (n - S (e_idx e))).
Proof. unfold Combos.children. rewrite map_map. reflexivity. Qed.

Lemma subtree_unfold e : Permutation (subtree (e_path e)) (e_path e :: FS (children e)).
Proof.
  unfold FS. rewrite children_paths. unfold subtree at 1. fold (e_idx e).
  set (i := e_idx e). rewrite (Permutation_map _ (subl_seq_decomp (n - S i) (S i))). simpl.
  rewrite app_nil_r. constructor.
  rewrite flat_map_concat_map, concat_map, map_map, <- flat_map_concat_map.
  rewrite (flat_map_concat_map subtree), map_map, <- flat_map_concat_map.
  apply Permutation_refl'. apply flat_map_ext_in. intros j Hj. apply in_seq in Hj.
  unfold subtree. rewrite last_last, map_map.
  replace (i + (n - S i) - j)%nat with (n - S j)%nat by lia.
  apply map_ext. intros q. rewrite <- app_assoc. reflexivity.
Qed.

Lemma FS_app a b : FS (a ++ b) = FS a ++ FS b.
Proof. unfold FS. rewrite map_app, flat_map_app. reflexivity. Qed.

Lemma FS_perm a b : Permutation a b -> Permutation (FS a) (FS b).
Proof. intros H. unfold FS. apply Permutation_flat_map. apply Permutation_map. exact H. Qed.

(* conservation: what has been yielded plus what the queue still owes is constant *)
Lemma run_conservation : forall fuel pq outs rest,
  sc_run fuel pq = (outs, rest) -> Permutation (map e_path outs ++ FS rest) (FS pq).
Proof.
  induction fuel as [|f IH]; intros pq outs rest H; simpl in H.
  - injection H as <- <-. reflexivity.
  - destruct (pop_min pq) as [[e r]|] eqn:P.
    + destruct (sc_run f (r ++ children e)) as [o lft] eqn:R. injection H as <- <-.
      destruct (pop_min_spec pq e r P) as [Hp _].
      rewrite (FS_perm _ _ Hp). simpl. specialize (IH _ _ _ R). rewrite IH, FS_app.
      unfold FS at 3. simpl. fold (FS r). rewrite (subtree_unfold e). simpl. constructor.
      apply Permutation_app_comm.
    + injection H as <- <-. apply pop_min_none in P. subst. reflexivity.
Qed.

Lemma FS_nil_inv pq : FS pq = [] -> pq = [].
Proof.
  destruct pq as [|e pq]; [reflexivity|]. unfold FS. simpl. intros H. apply app_eq_nil in H. destruct H as [H _].
  pose proof (subtree_nonempty (e_path e)). rewrite H in H0. simpl in H0. lia.
Qed.

(* termination: the number of combinations still owed is enough fuel; the queue is then empty *)
Lemma run_exhausts : forall fuel pq, (length (FS pq) <= fuel)%nat -> snd (sc_run fuel pq) = [].
Proof.
  induction fuel as [|f IH]; intros pq H; simpl.
  - apply FS_nil_inv. destruct (FS pq); [reflexivity | simpl in H; lia].
  - destruct (pop_min pq) as [[e r]|] eqn:P; [|reflexivity].
    destruct (sc_run f (r ++ children e)) as [o lft] eqn:R. simpl.
    change lft with (snd (o, lft)). rewrite <- R. apply IH.
    destruct (pop_min_spec pq e r P) as [Hp _].
    pose proof (Permutation_length (FS_perm _ _ Hp)) as L. unfold FS at 2 in L. simpl in L. fold (FS r) in L.
    rewrite app_length, (Permutation_length (subtree_unfold e)) in L. simpl in L.
    rewrite FS_app, app_length. lia.
Qed.

Lemma FS_init : Permutation ([] :: FS sc_init) (subl (seq 0 n)).
Proof.
  rewrite (subl_seq_decomp n 0). constructor. unfold FS, Combos.sc_init. rewrite map_map. simpl.
  fold n. apply Permutation_refl'. rewrite (flat_map_concat_map subtree), map_map, <- flat_map_concat_map.
  apply flat_map_ext. intros j. unfold subtree. simpl. reflexivity.
Qed.

Lemma FS_init_length : (length (FS sc_init) < Nat.pow 2 n)%nat.
Proof.
  pose proof (Permutation_length FS_init) as L. simpl in L. rewrite subl_length, seq_length in L. lia.
Qed.

(* C17: 2^n pops suffice, the queue ends empty, and the index paths yielded are exactly the non-empty
   combinations of 0..n-1, each once *)
Theorem sc_complete_once :
  snd (sc_run (Nat.pow 2 n) sc_init) = []
  /\ Permutation ([] :: map e_path (sorted_combinations key els)) (subl (seq 0 n)).
Proof.
  pose proof (run_exhausts (Nat.pow 2 n) sc_init ltac:(pose proof FS_init_length; lia)) as Hex.
  split; [exact Hex|]. unfold sorted_combinations. fold n.
  destruct (sc_run (Nat.pow 2 n) sc_init) as [o lft] eqn:R. simpl in *. subst lft.
  pose proof (run_conservation _ _ _ _ R) as C. unfold FS at 1 in C. simpl in C. rewrite app_nil_r in C.
  rewrite C. exact FS_init.
Qed.

(* every entry ever in the queue is the entry of its path: comb = elements at the path, key = key(comb) *)
Definition wf_entry (e : entry) : Prop := e = mk_entry (e_path e).

Lemma run_wf : forall fuel pq outs rest, Forall wf_entry pq -> sc_run fuel pq = (outs, rest) -> Forall wf_entry outs.
Proof.
  induction fuel as [|f IH]; intros pq outs rest Hw H; simpl in H.
  - injection H as <- <-. constructor.
  - destruct (pop_min pq) as [[e r]|] eqn:P; [|injection H as <- <-; constructor].
    destruct (sc_run f (r ++ children e)) as [o lft] eqn:R. injection H as <- <-.
    destruct (pop_min_spec pq e r P) as [Hp _].
    assert (Hw' : Forall wf_entry (e :: r)).
    { rewrite Forall_forall in *. intros x Hx. apply Hw. eapply Permutation_in; [symmetry; exact Hp | exact Hx]. }
    inversion Hw' as [|? ? He Hr]; subst. constructor; [exact He|].
    eapply IH; [|exact R]. apply Forall_app. split; [exact Hr|].
    apply Forall_forall. intros x Hx. unfold Combos.children in Hx. apply in_map_iff in Hx.
    destruct Hx as (j & <- & _). reflexivity.
Qed.

Lemma init_wf : Forall wf_entry sc_init.
Proof. apply Forall_forall. intros x Hx. unfold Combos.sc_init in Hx. apply in_map_iff in Hx. destruct Hx as (j & <- & _). reflexivity. Qed.

Theorem sc_entries_wf : forall e, In e (sorted_combinations key els) ->
  e_comb e = map (fun i => nth i els 0) (e_path e) /\ e_key e = key (e_comb e).
Proof.
  intros e He. unfold sorted_combinations in He.
  destruct (sc_run (Nat.pow 2 (length els)) sc_init) as [o lft] eqn:R. simpl in He.
  pose proof (run_wf _ _ _ _ init_wf R) as W. rewrite Forall_forall in W. specialize (W e He).
  unfold wf_entry in W. rewrite W. simpl. split; reflexivity.
Qed.

(* ------------------------------------------------------------------ order *)
Hypothesis key_mono : forall c x, key c <= key (c ++ [x]).

Lemma run_sorted : forall fuel pq outs rest b,
  Forall wf_entry pq -> (forall x, In x pq -> b <= e_key x) -> sc_run fuel pq = (outs, rest) ->
  StronglySorted (fun a c => e_key a <= e_key c) outs /\ (forall x, In x outs -> b <= e_key x).
Proof.
  induction fuel as [|f IH]; intros pq outs rest b Hw Hb H; simpl in H.
  - injection H as <- <-. split; [constructor | intros x []].
  - destruct (pop_min pq) as [[e r]|] eqn:P; [|injection H as <- <-; split; [constructor | intros x []]].
    destruct (sc_run f (r ++ children e)) as [o lft] eqn:R. injection H as <- <-.
    destruct (pop_min_spec pq e r P) as [Hp Hmin].
    assert (Hw' : Forall wf_entry (e :: r)).
    { rewrite Forall_forall in *. intros x Hx. apply Hw. eapply Permutation_in; [symmetry; exact Hp | exact Hx]. }
    inversion Hw' as [|? ? He Hr]; subst.
    assert (Hbe : b <= e_key e) by (apply Hb; eapply Permutation_in; [symmetry; exact Hp | left; reflexivity]).
    assert (Hw2 : Forall wf_entry (r ++ children e)).
    { apply Forall_app. split; [exact Hr|]. apply Forall_forall. intros x Hx. unfold Combos.children in Hx.
      apply in_map_iff in Hx. destruct Hx as (j & <- & _). reflexivity. }
    assert (Hb2 : forall x, In x (r ++ children e) -> e_key e <= e_key x).
    { intros x Hx. apply in_app_or in Hx. destruct Hx as [Hx|Hx]; [apply Hmin; exact Hx|].
      unfold Combos.children in Hx. apply in_map_iff in Hx. destruct Hx as (j & <- & _).
      unfold Combos.mk_entry. simpl. rewrite map_app. simpl.
      unfold wf_entry in He. rewrite He at 1. simpl. apply key_mono. }
    destruct (IH _ _ _ (e_key e) Hw2 Hb2 R) as [Hs Hall]. split.
    + constructor; [exact Hs | apply Forall_forall; exact Hall].
    + intros x [<-|Hx]; [exact Hbe | specialize (Hall x Hx); lia].
Qed.

(* C17: the combinations come out in non-decreasing key order *)
Theorem sc_sorted : StronglySorted (fun a c => e_key a <= e_key c) (sorted_combinations key els).
Proof.
  unfold sorted_combinations. destruct (sc_run (Nat.pow 2 (length els)) sc_init) as [o lft] eqn:R. simpl.
  destruct o as [|e0 o'] eqn:Eo; [constructor|]. rewrite <- Eo in *.
  assert (exists b, forall x, In x sc_init -> b <= e_key x) as (b & Hb).
  { clear. induction sc_init as [|a l IH]; [exists 0; intros x []|]. destruct IH as (b & Hb).
    exists (Z.min b (e_key a)). intros x [<-|Hx]; [lia | specialize (Hb x Hx); lia]. }
  exact (proj1 (run_sorted _ _ _ _ b init_wf Hb R)).
Qed.

End SCP.

(* ------------------------------------------------------------------ the interval scan *)
Section Scan.
Context {A : Type}.
Variable score : A -> Z.
Variables lo hi : Z.
Definition in_rng (x : A) : bool := (lo <=? score x) && (score x <? hi).
Definition le_score (a b : A) : Prop := score a <= score b.

Lemma filter_none (f : A -> bool) l : (forall x, In x l -> f x = false) -> filter f l = [].
Proof.
  induction l as [|x t IH]; simpl; intros H; [reflexivity|].
  rewrite (H x (or_introl eq_refl)). apply IH. intros y Hy. apply H. right; exact Hy.
Qed.

Lemma scan_phase2 m : lo <= m < hi -> forall l, (forall x, In x l -> m <= score x) ->
  StronglySorted le_score l ->
  min_scan score lo hi (Some m) l = filter (fun x => score x =? m) l.
Proof.
  intros Hm. induction l as [|x t IH]; intros Hge Hs; simpl; [reflexivity|].
  inversion Hs as [|? ? Hs' Hf]; subst.
  pose proof (Hge x (or_introl eq_refl)) as Hx.
  destruct (score x =? m) eqn:E.
  - assert (Hxm : score x = m) by lia.
    replace ((hi <=? score x) || (m <? score x)) with false by lia.
    replace ((lo <=? score x) && (score x <? hi)) with true by lia.
    f_equal. rewrite Hxm. apply IH; [intros y Hy; apply Hge; right; exact Hy | exact Hs'].
  - replace ((hi <=? score x) || (m <? score x)) with true by lia.
    symmetry. apply filter_none. intros y Hy. rewrite Forall_forall in Hf. specialize (Hf y Hy).
    unfold le_score in Hf. lia.
Qed.

(* score of the first in-range element *)
Fixpoint first_in_rng (l : list A) : option Z :=
  match l with [] => None | x :: t => if in_rng x then Some (score x) else first_in_rng t end.

Lemma scan_phase1 : forall l, StronglySorted le_score l ->
  min_scan score lo hi None l =
  match first_in_rng l with
  | None => []
  | Some m => filter (fun x => in_rng x && (score x =? m)) l
  end.
Proof.
  induction l as [|x t IH]; intros Hs; simpl; [reflexivity|].
  inversion Hs as [|? ? Hs' Hf]; subst. rewrite Forall_forall in Hf. unfold in_rng at 1.
  rewrite orb_false_r.
  destruct (hi <=? score x) eqn:Eh.
  - (* everything from here on is >= hi *)
    replace ((lo <=? score x) && (score x <? hi)) with false by lia.
    assert (Hnone : forall y, In y t -> in_rng y = false).
    { intros y Hy. specialize (Hf y Hy). unfold le_score in Hf. unfold in_rng. lia. }
    assert (first_in_rng t = None) as ->.
    { clear -Hnone. induction t as [|y t IH]; simpl; [reflexivity|].
      rewrite (Hnone y (or_introl eq_refl)). apply IH. intros z Hz. apply Hnone. right; exact Hz. }
    reflexivity.
  - destruct ((lo <=? score x) && (score x <? hi)) eqn:Er.
    + assert (in_rng x = true) as Hr by exact Er. rewrite Hr, Z.eqb_refl. simpl. f_equal.
      rewrite scan_phase2; [| unfold in_rng in Hr; lia | intros y Hy; apply Hf; exact Hy | exact Hs'].
      apply filter_ext_in. intros y Hy. specialize (Hf y Hy). unfold le_score in Hf.
      destruct (score y =? score x) eqn:E; [|rewrite andb_false_r; reflexivity].
      unfold in_rng in *. lia.
    + rewrite IH by exact Hs'. destruct (first_in_rng t) as [m|]; [|reflexivity].
      assert (in_rng x = false) as -> by exact Er. reflexivity.
Qed.

Lemma first_in_rng_min : forall l m, StronglySorted le_score l -> first_in_rng l = Some m ->
  (exists x, In x l /\ in_rng x = true /\ score x = m) /\ (forall y, In y l -> in_rng y = true -> m <= score y).
Proof.
  induction l as [|x t IH]; intros m Hs H; simpl in H; [discriminate|].
  inversion Hs as [|? ? Hs' Hf]; subst. rewrite Forall_forall in Hf.
  destruct (in_rng x) eqn:Er.
  - injection H as <-. split; [exists x; split; [left; reflexivity | split; [exact Er | reflexivity]]|].
    intros y [<-|Hy] _; [lia | apply Hf; exact Hy].
  - destruct (IH m Hs' H) as ((x0 & Hin & Hr0 & Hs0) & Hmin). split; [exists x0; split; [right; exact Hin | auto]|].
    intros y [<-|Hy] Hry; [congruence | apply Hmin; assumption].
Qed.

Lemma first_in_rng_none : forall l, first_in_rng l = None -> forall y, In y l -> in_rng y = false.
Proof.
  induction l as [|x t IH]; simpl; intros H y Hy; [contradiction|].
  destruct (in_rng x) eqn:Er; [discriminate|]. destruct Hy as [<-|Hy]; [exact Er | apply IH; assumption].
Qed.

(* C17: on a stream sorted by score the scan returns exactly the members whose score is the smallest score lying
   in [lo, hi) - as a filter of the stream, so each such member as often as it occurs; nothing when none is in range *)
Theorem min_scan_exact : forall l, StronglySorted le_score l ->
  (exists P, min_scan score lo hi None l = filter P l)
  /\ forall x, In x (min_scan score lo hi None l) <->
       In x l /\ lo <= score x < hi /\ (forall y, In y l -> lo <= score y < hi -> score x <= score y).
Proof.
  intros l Hs. rewrite (scan_phase1 l Hs). destruct (first_in_rng l) as [m|] eqn:F.
  - destruct (first_in_rng_min l m Hs F) as ((x0 & Hin0 & Hr0 & Hs0) & Hmin).
    split; [eexists; reflexivity|]. intros x. rewrite filter_In. unfold in_rng in *. split.
    + intros (Hin & Hc). repeat split; auto; try lia. intros y Hy Hry. specialize (Hmin y Hy). lia.
    + intros (Hin & Hr & Hm). split; [exact Hin|]. specialize (Hm x0 Hin0). specialize (Hmin x Hin). lia.
  - split; [exists (fun _ => false); symmetry; apply filter_none; reflexivity|].
    intros x. split; [intros []|]. intros (Hin & Hr & _).
    pose proof (first_in_rng_none l F x Hin) as N. unfold in_rng in N. lia.
Qed.
End Scan.

(* ------------------------------------------------------------------ min_combinations_in_interval_iter_sorted *)
Lemma zsum_app a b : zsum (a ++ b) = zsum a + zsum b.
Proof. induction a as [|x a IH]; simpl; [reflexivity | rewrite IH; lia]. Qed.

Definition score_key (scores : list Z) (comb : list Z) : Z :=
  zsum (map (fun i => nth (Z.to_nat i) scores 0) comb).
Definition positions (scores : list Z) : list Z := map Z.of_nat (seq 0 (length scores)).

Lemma score_key_mono scores : (forall s, In s scores -> 0 <= s) -> forall c x, score_key scores c <= score_key scores (c ++ [x]).
Proof.
  intros Hpos c x. unfold score_key. rewrite map_app, zsum_app. simpl.
  assert (0 <= nth (Z.to_nat x) scores 0); [|lia].
  destruct (Nat.lt_ge_cases (Z.to_nat x) (length scores)) as [L|L].
  - apply Hpos. apply nth_In. exact L.
  - rewrite nth_overflow by exact L. lia.
Qed.

(* C17: exactly the combinations whose score sum is the smallest sum lying in [lo, hi), each with that sum
   (the stream being all combinations, once each, by sc_complete_once); empty iff none falls in the interval *)
Theorem min_combinations_exact scores lo hi : (forall s, In s scores -> 0 <= s) ->
  let stream := sorted_combinations (score_key scores) (positions scores) in
  (exists P, min_combinations scores lo hi = map (fun e => (e_comb e, e_key e)) (filter P stream))
  /\ forall c s, In (c, s) (min_combinations scores lo hi) <->
       exists e, In e stream /\ c = e_comb e /\ s = e_key e /\ lo <= s < hi
                 /\ forall e', In e' stream -> lo <= e_key e' < hi -> s <= e_key e'.
Proof.
  intros Hpos stream.
  pose proof (sc_sorted (score_key scores) (positions scores) (score_key_mono scores Hpos)) as Hs.
  fold stream in Hs.
  destruct (min_scan_exact e_key lo hi stream Hs) as ((P & HP) & Hin).
  unfold min_combinations. fold (score_key scores). fold (positions scores). fold stream. split.
  - exists P. rewrite HP. reflexivity.
  - intros c s. rewrite in_map_iff. split.
    + intros (e & Heq & He). injection Heq as <- <-. apply Hin in He. destruct He as (H1 & H2 & H3).
      exists e. repeat split; auto; lia.
    + intros (e & He & -> & -> & Hr & Hm). exists e. split; [reflexivity|]. apply Hin. auto.
Qed.
