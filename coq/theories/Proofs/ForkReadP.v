(* Proofs about Model/ForkRead.v (property C18). *)
From Coq Require Import ZArith List Bool Arith Lia.
From WPU Require Import Common.Val Model.Pool Model.Storage Model.ForkRead Proofs.PoolLifeP Proofs.StorageP.
Import ListNotations.
Open Scope nat_scope.

Definition getp (l : list (option fproc)) (p : nat) : option fproc := match nth_error l p with Some (Some x) => Some x | _ => None end.
Lemma get_proc_getp s p : get_proc s p = getp (fs_procs s) p.
Proof. reflexivity. Qed.

Lemma getp_set_same l p x : getp (set_opt p x l) p = Some x.
Proof. unfold getp. revert l; induction p as [|p IH]; intros [|h t]; simpl; auto. Qed.
Lemma getp_set_other l p q x : q <> p -> getp (set_opt p x l) q = getp l q.
Proof.
  unfold getp. revert l q; induction p as [|p IH]; intros [|h t] [|q] H; simpl; auto; try contradiction.
  - destruct q; reflexivity.
  - rewrite IH by auto. destruct q; reflexivity.
Qed.

Record RInv (content : list Z) (offs : list nat) (s : fstate) : Prop := {
  r_wf : forall p pr, getp (fs_procs s) p = Some pr ->
           h_ofd (fp_h pr) < length (fs_ofds s) /\ exists po, getp (fs_procs s) (h_owner (fp_h pr)) = Some po;
  r_excl : forall p q prp prq, getp (fs_procs s) p = Some prp -> getp (fs_procs s) q = Some prq ->
           h_owner (fp_h prp) = p -> h_owner (fp_h prq) = q -> h_ofd (fp_h prp) = h_ofd (fp_h prq) -> p = q;
  r_pend : forall p pr i, getp (fs_procs s) p = Some pr -> fp_pending pr = Some i ->
           h_owner (fp_h pr) = p /\ exists off, nth_error offs i = Some off /\ nth (h_ofd (fp_h pr)) (fs_ofds s) 0 = off;
  r_out : forall p i line, In (p, i, line) (fs_out s) -> exists off, nth_error offs i = Some off /\ line = read_at content off;
}.

Lemma nth_set_nth_eq_nat (l : list nat) k x : k < length l -> nth k (set_nth k x l) 0 = x.
Proof. apply nth_set_nth_same. Qed.
Lemma nth_set_nth_neq_nat (l : list nat) k j x : j <> k -> nth j (set_nth k x l) 0 = nth j l 0.
Proof. apply nth_set_nth_other. Qed.

Lemma rinv_init content offs : RInv content offs finit.
Proof.
  unfold finit. constructor; simpl.
  - intros [|p] pr H; [|destruct p; discriminate]. injection H as <-. simpl. split; auto. exists (mkFP (mkH 0 0) None). reflexivity.
  - intros [|p] [|q] prp prq Hp Hq; auto; try (destruct p; discriminate); try (destruct q; discriminate).
  - intros [|p] pr i H; [|destruct p; discriminate]. injection H as <-. discriminate.
  - intros p i line [].
Qed.

Lemma rinv_step content offs s e s' : RInv content offs s -> fstep true content offs s e = Some s' -> RInv content offs s'.
Proof.
  intros [Rw Re Rp Ro] H. destruct e as [p c|p i|p]; simpl in H; rewrite ?get_proc_getp in H.
  - (* fork *)
    destruct (getp (fs_procs s) p) as [pr|] eqn:Gp; [|discriminate]. destruct (getp (fs_procs s) c) as [|] eqn:Gc; [discriminate|].
    destruct (p =? c) eqn:Epc; [discriminate|]. apply Nat.eqb_neq in Epc. injection H as <-.
    destruct (Rw p pr Gp) as (Hlt & po & Go).
    assert (Oc : h_owner (fp_h pr) <> c) by (intros E; rewrite E in Go; congruence).
    assert (G : forall q x, getp (set_opt c (mkFP (fp_h pr) None) (fs_procs s)) q = Some x ->
                (q = c /\ x = mkFP (fp_h pr) None) \/ (q <> c /\ getp (fs_procs s) q = Some x)).
    { intros q x Hq. destruct (Nat.eq_dec q c) as [->|Hne]; [rewrite getp_set_same in Hq; left; split; congruence | rewrite getp_set_other in Hq by auto; right; auto]. }
    constructor; simpl.
    + intros q x Hq. destruct (G q x Hq) as [[-> ->]|[Hne Hq']]; simpl.
      * split; auto. exists po. rewrite getp_set_other by auto. exact Go.
      * destruct (Rw q x Hq') as (L & po' & Go'). split; auto. destruct (Nat.eq_dec (h_owner (fp_h x)) c) as [E|E]; [rewrite E in Go'; congruence|].
        exists po'. rewrite getp_set_other by auto. exact Go'.
    + intros a b pa pb Ha Hb Oa Ob Eo. destruct (G a pa Ha) as [[-> ->]|[Hna Ha']]; [simpl in Oa; contradiction|].
      destruct (G b pb Hb) as [[-> ->]|[Hnb Hb']]; [simpl in Ob; contradiction|]. eapply Re; eauto.
    + intros a pa i Ha Hp. destruct (G a pa Ha) as [[-> ->]|[Hna Ha']]; [discriminate|]. eapply Rp; eauto.
    + exact Ro.
  - (* seek *)
    destruct (getp (fs_procs s) p) as [pr|] eqn:Gp; [|discriminate]. destruct (nth_error offs i) as [off|] eqn:No; [|discriminate].
    destruct (Rw p pr Gp) as (Hlt & po & Go).
    unfold reopened in H. simpl in H.
    destruct (h_owner (fp_h pr) =? p) eqn:Eo; simpl in H; injection H as <-.
    + apply Nat.eqb_eq in Eo.
      assert (G : forall q x, getp (set_opt p (mkFP (fp_h pr) (Some i)) (fs_procs s)) q = Some x ->
                  (q = p /\ x = mkFP (fp_h pr) (Some i)) \/ (q <> p /\ getp (fs_procs s) q = Some x)).
      { intros q x Hq. destruct (Nat.eq_dec q p) as [->|Hne]; [rewrite getp_set_same in Hq; left; split; congruence | rewrite getp_set_other in Hq by auto; right; auto]. }
      constructor; simpl; rewrite ?set_nth_length.
      * intros q x Hq. destruct (G q x Hq) as [[-> ->]|[Hne Hq']]; simpl.
        -- split; auto. rewrite Eo. rewrite getp_set_same. eauto.
        -- destruct (Rw q x Hq') as (L & po' & Go'). split; auto. destruct (Nat.eq_dec (h_owner (fp_h x)) p) as [->|E]; [rewrite getp_set_same; eauto | rewrite getp_set_other by auto; eauto].
      * intros a b pa pb Ha Hb Oa Ob Eq. destruct (G a pa Ha) as [[-> ->]|[Hna Ha']]; destruct (G b pb Hb) as [[-> ->]|[Hnb Hb']]; auto; simpl in *.
        -- eapply (Re p b pr pb); eauto.
        -- eapply (Re a p pa pr); eauto.
        -- eapply Re; eauto.
      * intros a pa j Ha Hp. destruct (G a pa Ha) as [[-> ->]|[Hna Ha']]; simpl in *.
        -- injection Hp as <-. split; auto. exists off. split; auto. apply nth_set_nth_eq_nat. exact Hlt.
        -- destruct (Rp a pa j Ha' Hp) as (Oa & off' & Hn & Hv). split; auto. exists off'. split; auto.
           rewrite nth_set_nth_neq_nat; auto. intros E. apply Hna. eapply (Re a p pa pr); eauto.
      * exact Ro.
    + apply Nat.eqb_neq in Eo.
      assert (G : forall q x, getp (set_opt p (mkFP (mkH (length (fs_ofds s)) p) (Some i)) (fs_procs s)) q = Some x ->
                  (q = p /\ x = mkFP (mkH (length (fs_ofds s)) p) (Some i)) \/ (q <> p /\ getp (fs_procs s) q = Some x)).
      { intros q x Hq. destruct (Nat.eq_dec q p) as [->|Hne]; [rewrite getp_set_same in Hq; left; split; congruence | rewrite getp_set_other in Hq by auto; right; auto]. }
      constructor; simpl; rewrite ?set_nth_length, ?app_length; simpl.
      * intros q x Hq. destruct (G q x Hq) as [[-> ->]|[Hne Hq']]; simpl.
        -- split; [lia|]. rewrite getp_set_same. eauto.
        -- destruct (Rw q x Hq') as (L & po' & Go'). split; [lia|]. destruct (Nat.eq_dec (h_owner (fp_h x)) p) as [->|E]; [rewrite getp_set_same; eauto | rewrite getp_set_other by auto; eauto].
      * intros a b pa pb Ha Hb Oa Ob Eq. destruct (G a pa Ha) as [[-> ->]|[Hna Ha']]; destruct (G b pb Hb) as [[-> ->]|[Hnb Hb']]; auto; simpl in *.
        -- destruct (Rw b pb Hb') as (L & _). lia.
        -- destruct (Rw a pa Ha') as (L & _). lia.
        -- eapply Re; eauto.
      * intros a pa j Ha Hp. destruct (G a pa Ha) as [[-> ->]|[Hna Ha']]; simpl in *.
        -- injection Hp as <-. split; auto. exists off. split; auto. apply nth_set_nth_eq_nat. rewrite app_length. simpl. lia.
        -- destruct (Rp a pa j Ha' Hp) as (Oa & off' & Hn & Hv). split; auto. exists off'. split; auto.
           destruct (Rw a pa Ha') as (L & _). rewrite nth_set_nth_neq_nat by lia. rewrite app_nth1 by lia. exact Hv.
      * exact Ro.
  - (* read *)
    destruct (getp (fs_procs s) p) as [pr|] eqn:Gp; [|discriminate]. destruct (fp_pending pr) as [i|] eqn:Pe; [|discriminate].
    destruct (Rw p pr Gp) as (Hlt & po & Go). destruct (Rp p pr i Gp Pe) as (Op & off & Hn & Hv).
    unfold reopened in H. rewrite Op, Nat.eqb_refl in H. simpl in H. injection H as <-.
    assert (G : forall q x, getp (set_opt p (mkFP (fp_h pr) None) (fs_procs s)) q = Some x ->
                (q = p /\ x = mkFP (fp_h pr) None) \/ (q <> p /\ getp (fs_procs s) q = Some x)).
    { intros q x Hq. destruct (Nat.eq_dec q p) as [->|Hne]; [rewrite getp_set_same in Hq; left; split; congruence | rewrite getp_set_other in Hq by auto; right; auto]. }
    constructor; simpl; rewrite ?set_nth_length.
    + intros q x Hq. destruct (G q x Hq) as [[-> ->]|[Hne Hq']]; simpl.
      * split; auto. rewrite Op, getp_set_same. eauto.
      * destruct (Rw q x Hq') as (L & po' & Go'). split; auto. destruct (Nat.eq_dec (h_owner (fp_h x)) p) as [->|E]; [rewrite getp_set_same; eauto | rewrite getp_set_other by auto; eauto].
    + intros a b pa pb Ha Hb Oa Ob Eq. destruct (G a pa Ha) as [[-> ->]|[Hna Ha']]; destruct (G b pb Hb) as [[-> ->]|[Hnb Hb']]; auto; simpl in *.
      * eapply (Re p b pr pb); eauto.
      * eapply (Re a p pa pr); eauto.
      * eapply Re; eauto.
    + intros a pa j Ha Hp. destruct (G a pa Ha) as [[-> ->]|[Hna Ha']]; simpl in *; [discriminate|].
      destruct (Rp a pa j Ha' Hp) as (Oa & off' & Hn' & Hv'). split; auto. exists off'. split; auto.
      rewrite nth_set_nth_neq_nat; auto. intros E. apply Hna. eapply (Re a p pa pr); eauto.
    + intros q j line Hin. apply in_app_or in Hin. destruct Hin as [Hin|[Hin|[]]]; [eapply Ro; eauto|].
      injection Hin as <- <- <-. exists off. rewrite Hv. split; [exact Hn | reflexivity].
Qed.

(* every read of every process, under every interleaving of forks, seeks and reads: the line a single process would get *)
Theorem fork_reads content offs sched :
  let s := frun true content offs finit sched in
  forall p i line, In (p, i, line) (fs_out s) -> exists off, nth_error offs i = Some off /\ line = read_at content off.
Proof.
  intros s. assert (G : forall sched s0, RInv content offs s0 -> RInv content offs (frun true content offs s0 sched)).
  { clear. induction sched as [|e r IH]; intros s0 I; simpl; auto. apply IH. destruct (fstep true content offs s0 e) eqn:E; auto. eapply rinv_step; eauto. }
  apply (r_out _ _ _ (G sched finit (rinv_init content offs))).
Qed.

(* the descriptors: a process that has used the file since it was forked has an open file description of its own *)
Theorem fork_own_description content offs sched :
  let s := frun true content offs finit sched in
  forall p q prp prq, get_proc s p = Some prp -> get_proc s q = Some prq ->
    h_owner (fp_h prp) = p -> h_owner (fp_h prq) = q -> h_ofd (fp_h prp) = h_ofd (fp_h prq) -> p = q.
Proof.
  intros s. assert (G : forall sched s0, RInv content offs s0 -> RInv content offs (frun true content offs s0 sched)).
  { clear. induction sched as [|e r IH]; intros s0 I; simpl; auto. apply IH. destruct (fstep true content offs s0 e) eqn:E; auto. eapply rinv_step; eauto. }
  apply (r_excl _ _ _ (G sched finit (rinv_init content offs))).
Qed.

(* without the mechanism the property is false: the parent seeks, a child (sharing the description) seeks elsewhere, the
   parent reads the child's line *)
Theorem no_reopen_refuted :
  let content := [97; 10; 98; 10]%Z in let offs := [0; 2] in
  let s := frun false content offs finit [FFork 0 1; FSeek 0 0; FSeek 1 1; FRead 0] in
  fs_out s = [(0, 0, [98%Z])] /\ read_at content 0 = [97%Z].
Proof. vm_compute. split; reflexivity. Qed.

(* ------------------------------------------------------------------ progress of a single access (session 5)
   Safety above says every line that is returned is right; these say that an access is never refused or lost, whatever
   the other processes did in between: a live process can always seek to an indexed item, and once it has, its read is
   accepted in EVERY reachable state and appends exactly one record - (that pid, that item, the line at that offset). *)
Lemma rinv_run content offs sched : forall s0, RInv content offs s0 -> RInv content offs (frun true content offs s0 sched).
Proof.
  induction sched as [|e r IH]; intros s0 I; simpl; auto. apply IH.
  destruct (fstep true content offs s0 e) eqn:E; auto. eapply rinv_step; eauto.
Qed.

Theorem read_enabled_exact content offs s p pr i :
  RInv content offs s -> get_proc s p = Some pr -> fp_pending pr = Some i ->
  exists s' off, fstep true content offs s (FRead p) = Some s' /\ nth_error offs i = Some off
    /\ fs_out s' = fs_out s ++ [(p, i, read_at content off)]
    /\ (exists pr', get_proc s' p = Some pr' /\ fp_pending pr' = None /\ fp_h pr' = fp_h pr).
Proof.
  intros I Hg Hp. pose proof Hg as Hg'. rewrite get_proc_getp in Hg'.
  destruct (r_pend _ _ _ I p pr i Hg' Hp) as (Ho & off & Hn & Hpos).
  unfold fstep. rewrite Hg, Hp. unfold reopened. rewrite Ho, Nat.eqb_refl. cbn [negb andb].
  eexists. exists off. split; [reflexivity|]. cbn [fs_out]. rewrite Hpos. split; [exact Hn|]. split; [reflexivity|].
  eexists. rewrite get_proc_getp. cbn [fs_procs]. rewrite getp_set_same. split; [reflexivity|]. split; reflexivity.
Qed.

Theorem seek_enabled content offs s p pr i off :
  get_proc s p = Some pr -> nth_error offs i = Some off ->
  exists s' pr', fstep true content offs s (FSeek p i) = Some s' /\ get_proc s' p = Some pr' /\ fp_pending pr' = Some i
    /\ fs_out s' = fs_out s.
Proof.
  intros Hg Hn. unfold fstep. rewrite Hg, Hn. destruct (reopened true s p (fp_h pr)) as [h ofds].
  eexists. eexists. split; [reflexivity|]. rewrite get_proc_getp. cbn [fs_procs fs_out]. rewrite getp_set_same.
  split; [reflexivity|]. split; reflexivity.
Qed.

(* lifted to every reachable state: after any schedule, a pending read of any process is accepted and exact *)
Theorem fork_read_progress content offs sched p pr i :
  let s := frun true content offs finit sched in
  get_proc s p = Some pr -> fp_pending pr = Some i ->
  exists s' off, fstep true content offs s (FRead p) = Some s' /\ nth_error offs i = Some off
    /\ fs_out s' = fs_out s ++ [(p, i, read_at content off)].
Proof.
  intros s Hg Hp.
  destruct (read_enabled_exact content offs s p pr i (rinv_run content offs sched finit (rinv_init content offs)) Hg Hp)
    as (s' & off & H1 & H2 & H3 & _).
  exists s', off. auto.
Qed.

(* ------------------------------------------------------------------ tie to the lines of the file (session 5)
   With the index that the classes build themselves (Model/LineFile.v: index_file, proved correct for C11 by
   index_read_spec), "the line at the offset of item i" IS the i-th line of the file. *)
From WPU Require Model.LineFile Proofs.LineFileP.

Lemma take_line_same l : take_line l = LineFile.take_line l.
Proof. induction l as [|b t IH]; simpl; [reflexivity|]. unfold LineFile.NL. rewrite IH. reflexivity. Qed.

Theorem fork_reads_lines content sched :
  let offs := map Z.to_nat (LineFile.index_file content) in
  let s := frun true content offs finit sched in
  forall p i line, In (p, i, line) (fs_out s) ->
    i < length (LineFile.lines_of content) /\ line = nth i (LineFile.lines_of content) [].
Proof.
  intros offs s p i line Hin.
  destruct (fork_reads content offs sched p i line Hin) as (off & Hn & ->).
  unfold offs in Hn. rewrite nth_error_map in Hn.
  destruct (nth_error (LineFile.index_file content) i) as [z|] eqn:Ez; [|discriminate]. injection Hn as <-.
  assert (Hi : i < length (LineFile.index_file content)) by (apply nth_error_Some; congruence).
  split; [unfold LineFile.lines_of, LineFile.index_file in *; rewrite map_length in *; exact Hi|].
  destruct (LineFileP.index_read_spec content i Hi) as [Hr _].
  rewrite (nth_error_nth _ _ 0%Z Ez) in Hr. rewrite <- Hr.
  unfold read_at, LineFile.read_line_at. apply take_line_same.
Qed.
