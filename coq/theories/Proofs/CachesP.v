(* Proofs about Model/Caches.v (properties C06 LRUCache, C07 LFUCache). *)
From Coq Require Import ZArith List Bool Lia ZifyBool Permutation Sorted.
From WPU Require Import Common.Val Common.Dict Common.ListX Model.Caches.
Import ListNotations.
Open Scope Z_scope.

(* ------------------------------------------------------------------ every mix-in is a sequence of primitives *)
Inductive prim := PGet (k : Z) | PSet (k v : Z) | PDel (k : Z).

Section Reach.
Variable T : Type.
Variable cget : T -> Z -> T * option Z.
Variable cset : T -> Z -> Z -> T.
Variable cdel : T -> Z -> T * bool.
Variable ckeys : T -> list Z.
Variable clen : T -> Z.
Variable cpeek : T -> Z -> option Z.
Variables cc vt : bool.

Definition papply (st : T) (p : prim) : T :=
  match p with PGet k => fst (cget st k) | PSet k v => cset st k v | PDel k => fst (cdel st k) end.
Definition prun (ps : list prim) (st : T) : T := fold_left papply ps st.
Definition reach (st st' : T) : Prop := exists ps, st' = prun ps st.

Lemma reach_refl st : reach st st.
Proof. exists []. reflexivity. Qed.
Lemma reach_trans a b c : reach a b -> reach b c -> reach a c.
Proof. intros [p1 ->] [p2 ->]. exists (p1 ++ p2). unfold prun. rewrite fold_left_app. reflexivity. Qed.
Lemma reach_get st k : reach st (fst (cget st k)).
Proof. exists [PGet k]. reflexivity. Qed.
Lemma reach_set st k v : reach st (cset st k v).
Proof. exists [PSet k v]. reflexivity. Qed.
Lemma reach_del st k : reach st (fst (cdel st k)).
Proof. exists [PDel k]. reflexivity. Qed.

Lemma reach_lookup_all ks : forall st, reach st (fst (mx_lookup_all T cget st ks)).
Proof.
  induction ks as [|k r IH]; intros st; simpl; [apply reach_refl|].
  pose proof (reach_get st k) as G. destruct (cget st k) as [st1 o]. simpl in G.
  specialize (IH st1). destruct (mx_lookup_all T cget st1 r) as [st2 rest]. simpl in *.
  eapply reach_trans; eassumption.
Qed.

Lemma reach_pop st k : reach st (fst (mx_pop T cget cdel st k)).
Proof.
  unfold mx_pop. pose proof (reach_get st k) as G. destruct (cget st k) as [st1 [v|]]; simpl in *; [|exact G].
  eapply reach_trans; [exact G | apply reach_del].
Qed.

Lemma reach_popitem st : reach st (fst (mx_popitem T cget cdel ckeys st)).
Proof.
  unfold mx_popitem. destruct (ckeys st) as [|k r]; [apply reach_refl|].
  pose proof (reach_get st k) as G. destruct (cget st k) as [st1 [v|]]; simpl in *; [|exact G].
  eapply reach_trans; [exact G | apply reach_del].
Qed.

Lemma reach_clear fuel : forall st, reach st (mx_clear T cget cdel ckeys fuel st).
Proof.
  induction fuel as [|f IH]; intros st; simpl; [apply reach_refl|].
  pose proof (reach_popitem st) as G. destruct (mx_popitem T cget cdel ckeys st) as [st1 [kv|]]; simpl in *; [|exact G].
  eapply reach_trans; [exact G | apply IH].
Qed.

Lemma reach_update kvs : forall st, reach st (mx_update T cset st kvs).
Proof.
  induction kvs as [|kv r IH]; intros st; [apply reach_refl|].
  unfold mx_update. simpl. eapply reach_trans; [apply reach_set | apply IH].
Qed.

Lemma reach_setdefault st k d : reach st (fst (mx_setdefault T cget cset st k d)).
Proof.
  unfold mx_setdefault. pose proof (reach_get st k) as G. destruct (cget st k) as [st1 [v|]]; simpl in *; [exact G|].
  eapply reach_trans; [exact G | apply reach_set].
Qed.

Lemma reach_items st : reach st (fst (items_of T cget ckeys cpeek vt st)).
Proof. unfold items_of, mx_items. destruct vt; [apply reach_lookup_all | apply reach_refl]. Qed.

Lemma reach_update_from ks : forall a b,
  let r := fold_left (fun ab k => let '(b2, o) := cget (snd ab) k in
                                  match o with Some v => (cset (fst ab) k v, b2) | None => (fst ab, b2) end) ks (a, b) in
  reach a (fst r) /\ reach b (snd r).
Proof.
  induction ks as [|k r IH]; intros a b; simpl; [split; apply reach_refl|].
  pose proof (reach_get b k) as G. destruct (cget b k) as [b2 [v|]]; simpl in *.
  - destruct (IH (cset a k v) b2) as [H1 H2]. split; eapply reach_trans; eauto. apply reach_set.
  - destruct (IH a b2) as [H1 H2]. split; [exact H1 | eapply reach_trans; eauto].
Qed.

(* every operation of the public interface moves each of the two caches along a sequence of primitives *)
Theorem c_step_reach a b op :
  let r := c_step T cget cset cdel ckeys clen cpeek cc vt a b op in
  reach a (fst (fst r)) /\ reach b (snd (fst r)).
Proof.
  destruct op; simpl.
  - pose proof (reach_get a k). destruct (cget a k); simpl in *. split; [assumption | apply reach_refl].
  - split; [apply reach_set | apply reach_refl].
  - pose proof (reach_del a k). destruct (cdel a k); simpl in *. split; [assumption | apply reach_refl].
  - split; apply reach_refl.
  - split; apply reach_refl.
  - destruct cc; [|split; apply reach_refl].
    pose proof (reach_get a k). destruct (cget a k); simpl in *. split; [assumption | apply reach_refl].
  - split; apply reach_refl.
  - pose proof (reach_items a). destruct (items_of _ _ _ _ _ a); simpl in *. split; [assumption | apply reach_refl].
  - pose proof (reach_items a). destruct (items_of _ _ _ _ _ a); simpl in *. split; [assumption | apply reach_refl].
  - pose proof (reach_get a k). destruct (cget a k); simpl in *. split; [assumption | apply reach_refl].
  - pose proof (reach_pop a k). destruct (mx_pop _ _ _ a k); simpl in *. split; [assumption | apply reach_refl].
  - pose proof (reach_pop a k). destruct (mx_pop _ _ _ a k); simpl in *. split; [assumption | apply reach_refl].
  - pose proof (reach_popitem a). destruct (mx_popitem _ _ _ _ a); simpl in *. split; [assumption | apply reach_refl].
  - split; [exact (reach_clear (S (length (ckeys a))) a) | apply reach_refl].
  - split; [apply reach_update | apply reach_refl].
  - pose proof (reach_setdefault a k d). destruct (mx_setdefault _ _ _ a k d); simpl in *. split; [assumption | apply reach_refl].
  - pose proof (reach_items a). destruct (items_of _ _ _ _ _ a) as [a1 ia]; simpl in *.
    pose proof (reach_items b). destruct (items_of _ _ _ _ _ b) as [b1 ib]; simpl in *. split; assumption.
  - pose proof (reach_update_from (ckeys b) a b) as R. simpl in R.
    destruct (fold_left _ (ckeys b) (a, b)) as [a1 b1]. simpl in *. exact R.
  - pose proof (reach_items a). destruct (items_of _ _ _ _ _ a); simpl in *. split; [assumption | apply reach_refl].
Qed.
End Reach.

(* ================================================================== LRU *)
Lemma removelast_in {A} (l : list A) x : In x (removelast l) -> In x l.
Proof.
  induction l as [|a t IH]; simpl; [tauto|]. destruct t as [|b t']; [intros []|].
  intros [<-|H]; [left; reflexivity | right; apply IH; exact H].
Qed.
Lemma removelast_length {A} (l : list A) : length (removelast l) = pred (length l).
Proof. induction l as [|a t IH]; simpl; [reflexivity|]. destruct t; [reflexivity|]. simpl in *. rewrite IH. reflexivity. Qed.
Lemma map_removelast {A B} (f : A -> B) (l : list A) : map f (removelast l) = removelast (map f l).
Proof. induction l as [|a t IH]; simpl; [reflexivity|]. destruct t; [reflexivity|]. simpl in *. rewrite IH. reflexivity. Qed.
Lemma removelast_nodup {A} (l : list A) : NoDup l -> NoDup (removelast l).
Proof.
  induction l as [|a t IH]; intros H; simpl; [constructor|]. inversion H; subst. destruct t as [|b t']; [constructor|].
  constructor; [intros Hin; apply removelast_in in Hin; contradiction | apply IH; assumption].
Qed.
Lemma removelast_ssorted {A} (R : A -> A -> Prop) (l : list A) : StronglySorted R l -> StronglySorted R (removelast l).
Proof.
  induction 1 as [|a t Hs IH Hf]; simpl; [constructor|]. destruct t as [|b t']; [constructor|].
  constructor; [exact IH|]. rewrite Forall_forall in *. intros x Hx. apply Hf. apply removelast_in. exact Hx.
Qed.
Lemma removelast_cons2 {A} (a b : A) t : removelast (a :: b :: t) = a :: removelast (b :: t).
Proof. reflexivity. Qed.
Lemma dget_removelast (d : dict Z) k : NoDup (dkeys d) -> In k (dkeys (removelast d)) -> dget (removelast d) k = dget d k.
Proof.
  induction d as [|[k0 v0] t IH]; intros Hn Hin; [destruct Hin|].
  destruct t as [|p t']; [destruct Hin|].
  rewrite removelast_cons2 in *. remember (p :: t') as t eqn:Et.
  cbn [dget]. cbn [dkeys map fst In] in Hin, Hn. inversion Hn; subst.
  destruct (k0 =? k) eqn:E; [reflexivity|].
  apply IH; [assumption|]. destruct Hin as [Hin|Hin]; [lia | exact Hin].
Qed.

Record LInv (st : lru) : Prop := {
  li_nodup : NoDup (dkeys (l_ord st));
  li_len : Z.of_nat (length (l_ord st)) <= l_cap st;
  li_cap : 1 <= l_cap st;
}.

Lemma dkeys_touch (d : dict Z) k v : NoDup (dkeys d) -> NoDup (dkeys ((k, v) :: ddel d k)).
Proof.
  intros Hn. simpl. constructor; [|apply ddel_nodup; exact Hn].
  rewrite (dkeys_ddel_in d k k Hn). tauto.
Qed.

Lemma linv_get st k : LInv st -> LInv (fst (lru_get st k)).
Proof.
  intros [Hn Hl Hc]. unfold lru_get. destruct (dget (l_ord st) k) as [v|] eqn:G; simpl; [|constructor; assumption].
  constructor; simpl; auto.
  - exact (dkeys_touch _ k v Hn).
  - rewrite ddel_length. unfold dmem. rewrite G. destruct (l_ord st); [discriminate|]. simpl in *. lia.
Qed.

Lemma linv_set st k v : LInv st -> LInv (lru_set st k v).
Proof.
  intros [Hn Hl Hc]. unfold lru_set. destruct (dmem (l_ord st) k) eqn:M.
  - constructor; simpl; auto; [exact (dkeys_touch _ k v Hn)|].
    rewrite ddel_length, M. destruct (l_ord st); [discriminate|]. simpl in *. lia.
  - assert (Hk : ~ In k (dkeys (l_ord st))) by (intros H; apply dmem_in in H; congruence).
    destruct (Z.of_nat (length (l_ord st)) >=? l_cap st) eqn:F; constructor; simpl; auto.
    + constructor.
      * unfold dkeys. rewrite map_removelast. intros H. apply removelast_in in H. contradiction.
      * unfold dkeys. rewrite map_removelast. apply removelast_nodup. exact Hn.
    + rewrite removelast_length. destruct (l_ord st); simpl in *; lia.
    + constructor; assumption.
    + lia.
Qed.

Lemma linv_del st k : LInv st -> LInv (fst (lru_del st k)).
Proof.
  intros [Hn Hl Hc]. unfold lru_del. destruct (dmem (l_ord st) k) eqn:M; simpl; [|constructor; assumption].
  constructor; simpl; auto; [apply ddel_nodup; exact Hn|].
  rewrite ddel_length, M. destruct (l_ord st); simpl in *; lia.
Qed.

Notation lprun := (prun lru lru_get lru_set lru_del).

(* C06: in every reachable state at most max_size entries, one value per key *)
Theorem lru_inv_reachable : forall ps st, LInv st -> LInv (lprun ps st).
Proof.
  induction ps as [|p ps IH]; intros st H; [exact H|]. apply IH.
  destruct p; simpl; [apply linv_get | apply linv_set | apply linv_del]; exact H.
Qed.
Lemma linv_init cap : 1 <= cap -> LInv (mkLRU cap []).
Proof. intros H. constructor; simpl; [constructor | lia | exact H]. Qed.

Theorem lru_bounded : forall ps cap, 1 <= cap ->
  let st := lprun ps (mkLRU cap []) in
  NoDup (dkeys (l_ord st)) /\ Z.of_nat (length (l_ord st)) <= cap.
Proof.
  intros ps cap H. pose proof (lru_inv_reachable ps (mkLRU cap []) (linv_init cap H)) as I.
  split; [exact (li_nodup _ I)|]. pose proof (li_len _ I) as L.
  assert (E : forall ps st, l_cap (lprun ps st) = l_cap st).
  { clear. induction ps as [|p ps IH]; intros st; [reflexivity|]. unfold prun in *. simpl. rewrite IH.
    destruct p; simpl; unfold lru_get, lru_set, lru_del.
    - destruct (dget _ _); reflexivity.
    - destruct (dmem _ _); [reflexivity|]. destruct (_ >=? _); reflexivity.
    - destruct (dmem _ _); reflexivity. }
  rewrite E in L. exact L.
Qed.

(* content: what a lookup returns, and how the primitives change it *)
Theorem lru_get_spec st k : NoDup (dkeys (l_ord st)) ->
  snd (lru_get st k) = dget (l_ord st) k
  /\ (forall k', dget (l_ord (fst (lru_get st k))) k' = dget (l_ord st) k')
  /\ dkeys (l_ord (fst (lru_get st k))) = if dmem (l_ord st) k then k :: dkeys (ddel (l_ord st) k) else dkeys (l_ord st).
Proof.
  intros Hn. unfold lru_get, dmem. destruct (dget (l_ord st) k) as [v|] eqn:G; simpl; [|auto].
  repeat split; auto. intros k'. destruct (k =? k') eqn:E; [assert (k = k') by lia; subst; auto|].
  apply dget_ddel_other. lia.
Qed.

(* C06: a store makes the key the most recent one; when the key is new and the cache is full, exactly the last
   (least recently used) key disappears and nothing else; values of the surviving keys are untouched *)
Theorem lru_set_spec st k v : NoDup (dkeys (l_ord st)) ->
  let st' := lru_set st k v in
  dget (l_ord st') k = Some v
  /\ dkeys (l_ord st') =
       k :: (if dmem (l_ord st) k then dkeys (ddel (l_ord st) k)
             else if Z.of_nat (length (l_ord st)) >=? l_cap st then removelast (dkeys (l_ord st))
             else dkeys (l_ord st))
  /\ (forall k', k' <> k -> In k' (dkeys (l_ord st')) -> dget (l_ord st') k' = dget (l_ord st) k').
Proof.
  intros Hn. unfold lru_set. destruct (dmem (l_ord st) k) eqn:M; simpl.
  - rewrite Z.eqb_refl. repeat split; auto. intros k' Hne _. destruct (k =? k') eqn:E; [lia|]. apply dget_ddel_other. exact Hne.
  - destruct (Z.of_nat (length (l_ord st)) >=? l_cap st) eqn:F; simpl; rewrite Z.eqb_refl; repeat split; auto.
    + unfold dkeys. rewrite map_removelast. reflexivity.
    + intros k' Hne Hin. destruct (k =? k') eqn:E; [lia|]. destruct Hin as [Hin|Hin]; [lia|].
      apply dget_removelast; assumption.
    + intros k' Hne _. destruct (k =? k') eqn:E; [lia | reflexivity].
Qed.

Theorem lru_del_spec st k : NoDup (dkeys (l_ord st)) ->
  snd (lru_del st k) = dmem (l_ord st) k
  /\ dkeys (l_ord (fst (lru_del st k))) = dkeys (ddel (l_ord st) k)
  /\ dget (l_ord (fst (lru_del st k))) k = None
  /\ (forall k', k' <> k -> dget (l_ord (fst (lru_del st k))) k' = dget (l_ord st) k').
Proof.
  intros Hn. unfold lru_del. destruct (dmem (l_ord st) k) eqn:M; simpl.
  - repeat split; auto. apply dget_ddel_same; exact Hn. intros k' Hne. apply dget_ddel_other; exact Hne.
  - assert (Hk : ~ In k (dkeys (l_ord st))) by (intros H; apply dmem_in in H; congruence).
    assert (E : ddel (l_ord st) k = l_ord st).
    { clear -Hk. induction (l_ord st) as [|[k0 v0] t IH]; simpl in *; [reflexivity|].
      destruct (k0 =? k) eqn:E; [exfalso; apply Hk; left; lia | f_equal; apply IH; tauto]. }
    rewrite E. repeat split; auto. apply dget_none_notin; exact Hk.
Qed.

(* ------------------------------------------------------------------ recency: ghost time stamps *)
(* instrumented run: a clock, and for every key the time of its last use (store or successful lookup) *)
Definition gstate := (lru * Z * (Z -> Z))%type.
Definition gstep (g : gstate) (p : prim) : gstate :=
  let '(st, clock, stamp) := g in
  let used k := fun x => if x =? k then clock else stamp x in
  match p with
  | PGet k => (fst (lru_get st k), clock + 1, if dmem (l_ord st) k then used k else stamp)
  | PSet k v => (lru_set st k v, clock + 1, used k)
  | PDel k => (fst (lru_del st k), clock + 1, stamp)
  end.
Definition grun (ps : list prim) (g : gstate) : gstate := fold_left gstep ps g.

Lemma grun_erase ps : forall st c s, fst (fst (grun ps (st, c, s))) = lprun ps st.
Proof.
  induction ps as [|p ps IH]; intros st c s; [reflexivity|]. unfold grun, prun in *. simpl fold_left.
  destruct p; simpl; apply IH.
Qed.

Definition newer (stamp : Z -> Z) (a b : Z) : Prop := stamp b < stamp a.
Record GInv (g : gstate) : Prop := {
  gi_nodup : NoDup (dkeys (l_ord (fst (fst g))));
  gi_past : forall k, In k (dkeys (l_ord (fst (fst g)))) -> snd g k < snd (fst g);
  gi_sorted : StronglySorted (newer (snd g)) (dkeys (l_ord (fst (fst g))));
}.

Lemma ssorted_ddel (R : Z -> Z -> Prop) (d : dict Z) k : StronglySorted R (dkeys d) -> StronglySorted R (dkeys (ddel d k)).
Proof.
  induction d as [|[k0 v0] t IH]; simpl; intros H; [constructor|]. inversion H as [|? ? Hs Hf]; subst.
  destruct (k0 =? k); [exact Hs|]. simpl. constructor; [apply IH; exact Hs|].
  rewrite Forall_forall in *. intros x Hx. apply Hf.
  clear -Hx. induction t as [|[k1 v1] t IH]; simpl in *; [tauto|]. destruct (k1 =? k); [right; exact Hx|].
  destruct Hx as [<-|Hx]; [left; reflexivity | right; apply IH; exact Hx].
Qed.
Lemma dkeys_ddel_sub (d : dict Z) k x : In x (dkeys (ddel d k)) -> In x (dkeys d).
Proof.
  induction d as [|[k1 v1] t IH]; simpl; [tauto|]. destruct (k1 =? k); [intros H; right; exact H|].
  intros [<-|H]; [left; reflexivity | right; apply IH; exact H].
Qed.

Lemma ssorted_restamp stamp clock k l :
  StronglySorted (newer stamp) l -> ~ In k l ->
  StronglySorted (newer (fun x => if x =? k then clock else stamp x)) l.
Proof.
  intros Hs Hk. induction Hs as [|a t Hs IH Hf]; [constructor|].
  constructor; [apply IH; intros H; apply Hk; right; exact H|].
  rewrite Forall_forall in *. intros x Hx. specialize (Hf x Hx). unfold newer in *.
  destruct (x =? k) eqn:E1; [exfalso; apply Hk; right; assert (x = k) by lia; subst; exact Hx|].
  destruct (a =? k) eqn:E2; [exfalso; apply Hk; left; lia | exact Hf].
Qed.

Lemma ginv_touch (clock : Z) (stamp : Z -> Z) (k : Z) (rest : list Z) :
  NoDup (k :: rest) -> (forall x, In x rest -> stamp x < clock) -> StronglySorted (newer stamp) rest ->
  let stamp' := fun x => if x =? k then clock else stamp x in
  (forall x, In x (k :: rest) -> stamp' x < clock + 1) /\ StronglySorted (newer stamp') (k :: rest).
Proof.
  intros Hn Hp Hs stamp'. inversion Hn as [|? ? Hk Hn']; subst. split.
  - intros x [<-|Hx]; unfold stamp'; [rewrite Z.eqb_refl; lia|].
    destruct (x =? k) eqn:E; [lia | specialize (Hp x Hx); lia].
  - constructor; [apply ssorted_restamp; assumption|].
    apply Forall_forall. intros x Hx. unfold newer, stamp'. rewrite Z.eqb_refl.
    destruct (x =? k) eqn:E; [exfalso; apply Hk; assert (x = k) by lia; subst; exact Hx | apply Hp; exact Hx].
Qed.

Lemma ginv_step g p : GInv g -> GInv (gstep g p).
Proof.
  destruct g as [[st clock] stamp]. intros [Hn Hp Hs]. simpl in *.
  destruct p as [k|k v|k]; simpl.
  - unfold lru_get, dmem. destruct (dget (l_ord st) k) as [v|] eqn:G; simpl.
    + pose proof (dkeys_touch (l_ord st) k v Hn) as Hn'. simpl in Hn'.
      destruct (ginv_touch clock stamp k (dkeys (ddel (l_ord st) k)) Hn') as [H1 H2].
      * intros x Hx. apply Hp. eapply dkeys_ddel_sub; exact Hx.
      * apply ssorted_ddel; exact Hs.
      * constructor; simpl; assumption.
    + constructor; simpl; auto. intros x Hx. specialize (Hp x Hx). lia.
  - pose proof (linv_set st k v) as _.
    pose proof (lru_set_spec st k v Hn) as (_ & Hk & _). simpl in Hk.
    assert (Hn' : NoDup (dkeys (l_ord (lru_set st k v)))).
    { unfold lru_set. destruct (dmem (l_ord st) k) eqn:M; simpl; [exact (dkeys_touch _ k v Hn)|].
      assert (Hnk : ~ In k (dkeys (l_ord st))) by (intros H; apply dmem_in in H; congruence).
      destruct (_ >=? _); simpl; constructor; auto.
      - unfold dkeys. rewrite map_removelast. intros H. apply removelast_in in H. contradiction.
      - unfold dkeys. rewrite map_removelast. apply removelast_nodup. exact Hn. }
    rewrite Hk in Hn'.
    destruct (ginv_touch clock stamp k _ Hn') as [H1 H2].
    + intros x Hx. apply Hp. destruct (dmem (l_ord st) k); [eapply dkeys_ddel_sub; exact Hx|].
      destruct (_ >=? _); [apply removelast_in; exact Hx | exact Hx].
    + destruct (dmem (l_ord st) k); [apply ssorted_ddel; exact Hs|].
      destruct (_ >=? _); [apply removelast_ssorted; exact Hs | exact Hs].
    + constructor; simpl; rewrite Hk; assumption.
  - pose proof (lru_del_spec st k Hn) as (_ & Hk & _). constructor; simpl; rewrite Hk.
    + apply ddel_nodup; exact Hn.
    + intros x Hx. apply dkeys_ddel_sub in Hx. specialize (Hp x Hx). lia.
    + apply ssorted_ddel; exact Hs.
Qed.

(* C06: in every reachable state the iteration order is exactly "most recently used first": each key was last used
   strictly later than every key after it - so the key a full cache drops (the last one) is the least recently used *)
Theorem lru_order_is_recency : forall ps cap,
  let g := grun ps (mkLRU cap [], 0, fun _ => 0) in
  fst (fst g) = lprun ps (mkLRU cap [])
  /\ StronglySorted (newer (snd g)) (dkeys (l_ord (fst (fst g)))).
Proof.
  intros ps cap g. split; [apply grun_erase|].
  assert (G : forall ps g0, GInv g0 -> GInv (grun ps g0)).
  { induction ps0 as [|p ps0 IH]; intros g0 H; [exact H|]. apply IH. apply ginv_step. exact H. }
  assert (G0 : GInv (mkLRU cap [], 0, fun _ : Z => 0)).
  { constructor; simpl; [constructor | intros k [] | constructor]. }
  exact (gi_sorted _ (G ps _ G0)).
Qed.

(* ================================================================== views and mix-ins agree with the content *)
(* generic over the cache core: [cpeek st k] is the content (value stored under k), read without counting as a use *)
Lemma dset_notin (d : dict Z) k v : ~ In k (dkeys d) -> dset d k v = d ++ [(k, v)].
Proof.
  induction d as [|[k0 v0] t IH]; simpl; intros H; [reflexivity|].
  destruct (k0 =? k) eqn:E; [exfalso; apply H; left; lia | f_equal; apply IH; tauto].
Qed.
Lemma dict_of_nodup (l : list (Z * Z)) : NoDup (dkeys l) -> dict_of l = l.
Proof.
  unfold dict_of. assert (G : forall (l acc : list (Z * Z)), NoDup (dkeys (acc ++ l)) ->
    fold_left (fun (d : dict Z) kv => dset d (fst kv) (snd kv)) l acc = acc ++ l).
  { clear. induction l as [|[k v] r IH]; intros acc H; simpl; [rewrite app_nil_r; reflexivity|].
    rewrite dset_notin.
    - rewrite IH; rewrite <- app_assoc; [reflexivity | exact H].
    - unfold dkeys in *. rewrite map_app in H. simpl in H. apply NoDup_remove_2 in H.
      intros Hin. apply H. apply in_or_app. left; exact Hin. }
  intros H. apply (G l []). exact H.
Qed.
Lemma dget_in_nodup (d : dict Z) k v : NoDup (dkeys d) -> (dget d k = Some v <-> In (k, v) d).
Proof.
  induction d as [|[k0 v0] t IH]; simpl; intros Hn; [split; [discriminate | tauto]|]. inversion Hn; subst.
  destruct (k0 =? k) eqn:E.
  - assert (k0 = k) by lia. subst. split; [intros H; injection H as ->; left; reflexivity|].
    intros [H|H]; [congruence|]. exfalso. apply H1. apply (in_map fst) in H. exact H.
  - rewrite (IH H2). split; [tauto|]. intros [H|H]; [injection H; lia | exact H].
Qed.
Lemma dict_eqb_spec (d1 d2 : dict Z) : NoDup (dkeys d1) -> NoDup (dkeys d2) ->
  (dict_eqb d1 d2 = true <-> forall k, dget d1 k = dget d2 k).
Proof.
  intros H1 H2. unfold dict_eqb. rewrite andb_true_iff, forallb_forall. split.
  - intros [Hl Hf] k. apply Nat.eqb_eq in Hl.
    assert (Hinc : incl (dkeys d1) (dkeys d2)).
    { intros x Hx. apply in_map_iff in Hx. destruct Hx as ([k0 v0] & <- & Hin). specialize (Hf _ Hin). simpl in *.
      destruct (dget d2 k0) eqn:G; [eapply dget_some_in; exact G | discriminate]. }
    assert (Hinc2 : incl (dkeys d2) (dkeys d1)).
    { apply NoDup_length_incl; auto. unfold dkeys. rewrite !map_length. lia. }
    destruct (dget d1 k) as [v|] eqn:G1.
    + apply (dget_in_nodup d1 k v H1) in G1. specialize (Hf _ G1). simpl in Hf.
      destruct (dget d2 k); simpl in Hf; [f_equal; lia | discriminate].
    + apply dget_none_notin in G1. symmetry. apply dget_none_notin. intros H. apply G1. apply Hinc2. exact H.
  - intros H. split.
    + apply Nat.eqb_eq. rewrite <- (map_length fst d1), <- (map_length fst d2).
      apply Nat.le_antisymm; apply NoDup_incl_length; auto; intros x Hx.
      * destruct (dget d1 x) eqn:G; [|apply dget_none_notin in G; contradiction]. rewrite H in G. eapply dget_some_in; exact G.
      * destruct (dget d2 x) eqn:G; [|apply dget_none_notin in G; contradiction]. rewrite <- H in G. eapply dget_some_in; exact G.
    + intros [k v] Hin. simpl. apply (dget_in_nodup d1 k v H1) in Hin. rewrite <- H, Hin. simpl. lia.
Qed.

Section MixSpec.
Variable T : Type.
Variable cget : T -> Z -> T * option Z.
Variable cset : T -> Z -> Z -> T.
Variable cdel : T -> Z -> T * bool.
Variable ckeys : T -> list Z.
Variable clen : T -> Z.
Variable cpeek : T -> Z -> option Z.
Variables cc vt : bool.
Variable Inv : T -> Prop.
Hypothesis inv_get : forall st k, Inv st -> Inv (fst (cget st k)).
Hypothesis inv_set : forall st k v, Inv st -> Inv (cset st k v).
Hypothesis inv_del : forall st k, Inv st -> Inv (fst (cdel st k)).
Hypothesis keys_nodup : forall st, Inv st -> NoDup (ckeys st).
Hypothesis peek_keys : forall st k, Inv st -> (In k (ckeys st) <-> cpeek st k <> None).
Hypothesis get_spec : forall st k, Inv st ->
  snd (cget st k) = cpeek st k /\ (forall k', cpeek (fst (cget st k)) k' = cpeek st k').
Hypothesis del_spec : forall st k, Inv st ->
  snd (cdel st k) = (match cpeek st k with Some _ => true | None => false end)
  /\ cpeek (fst (cdel st k)) k = None /\ (forall k', k' <> k -> cpeek (fst (cdel st k)) k' = cpeek st k').
Hypothesis set_spec : forall st k v, Inv st -> cpeek (cset st k v) k = Some v.

Definition same_content (a b : T) : Prop := forall k, cpeek a k = cpeek b k.
Definition content_list (st : T) (ks : list Z) : list (Z * Z) :=
  flat_map (fun k => match cpeek st k with Some v => [(k, v)] | None => [] end) ks.

Lemma lookup_all_spec ks : forall st, Inv st ->
  let r := mx_lookup_all T cget st ks in
  snd r = content_list st ks /\ Inv (fst r) /\ same_content (fst r) st.
Proof.
  induction ks as [|k r IH]; intros st Hi; simpl; [repeat split; auto|].
  destruct (get_spec st k Hi) as [Hv Hc]. pose proof (inv_get st k Hi) as Hi1.
  destruct (cget st k) as [st1 o]. simpl in *.
  destruct (IH st1 Hi1) as (Hr & Hi2 & Hs). destruct (mx_lookup_all T cget st1 r) as [st2 rest]. simpl in *.
  split; [|split; [exact Hi2 | intros k'; rewrite Hs; apply Hc]].
  assert (E : content_list st1 r = content_list st r)
    by (apply flat_map_ext_in; intros a _; rewrite Hc; reflexivity).
  subst o rest. rewrite E. unfold content_list. simpl. destruct (cpeek st k); reflexivity.
Qed.

(* C06/C07: items() (and with it values() and ==) terminates - it is a structural recursion over the key snapshot -
   and returns exactly the (key, value) content in iteration order; the content is unchanged by it *)
Theorem items_spec st : Inv st ->
  let r := items_of T cget ckeys cpeek vt st in
  snd r = content_list st (ckeys st) /\ Inv (fst r) /\ same_content (fst r) st.
Proof.
  intros Hi. unfold items_of, mx_items. destruct vt.
  - apply lookup_all_spec; exact Hi.
  - simpl. repeat split; auto.
Qed.

Lemma content_list_keys st ks : dkeys (content_list st ks) = filter (fun k => match cpeek st k with Some _ => true | None => false end) ks.
Proof. induction ks as [|k r IH]; simpl; [reflexivity|]. unfold dkeys in *. rewrite map_app, IH. destruct (cpeek st k); reflexivity. Qed.
Lemma content_list_dget st ks k : NoDup ks -> dget (content_list st ks) k = if in_dec Z.eq_dec k ks then cpeek st k else None.
Proof.
  induction ks as [|a r IH]; intros Hn; simpl; [reflexivity|]. inversion Hn; subst.
  destruct (Z.eq_dec a k) as [->|Hne].
  - destruct (cpeek st k) eqn:P; simpl; [rewrite Z.eqb_refl; reflexivity|].
    rewrite IH by assumption. destruct (in_dec Z.eq_dec k r); [contradiction | reflexivity].
  - assert (G : dget (content_list st r) k = if in_dec Z.eq_dec k r then cpeek st k else None) by (apply IH; assumption).
    destruct (cpeek st a); simpl; [destruct (a =? k) eqn:E; [lia|]|]; rewrite G;
      destruct (in_dec Z.eq_dec k r) as [i|n]; destruct (in_dec Z.eq_dec k (a :: r)) as [i'|n']; try reflexivity;
      try (exfalso; apply n'; right; exact i); destruct i' as [->|i']; try congruence; contradiction.
Qed.

(* the content as a finite map: dict(cache.items()) *)
Lemma content_dict st : Inv st -> NoDup (dkeys (content_list st (ckeys st)))
  /\ forall k, dget (content_list st (ckeys st)) k = cpeek st k.
Proof.
  intros Hi. pose proof (keys_nodup st Hi) as Hn. split.
  - rewrite content_list_keys. apply NoDup_filter. exact Hn.
  - intros k. rewrite content_list_dget by exact Hn. destruct (in_dec Z.eq_dec k (ckeys st)) as [i|n]; [reflexivity|].
    destruct (cpeek st k) eqn:P; [|reflexivity]. exfalso. apply n. apply peek_keys; [exact Hi | congruence].
Qed.

(* C06/C07: a == b is exactly "same key -> value content" *)
Theorem eq_spec a b : Inv a -> Inv b ->
  let r := c_step T cget cset cdel ckeys clen cpeek cc vt a b OEqOther in
  snd r = vB true <-> same_content a b.
Proof.
  intros Ha Hb. simpl.
  destruct (items_spec a Ha) as (Ia & _ & _). destruct (items_spec b Hb) as (Ib & _ & _).
  destruct (items_of T cget ckeys cpeek vt a) as [a1 ia]. destruct (items_of T cget ckeys cpeek vt b) as [b1 ib]. simpl in *.
  subst ia ib. destruct (content_dict a Ha) as [Na Da]. destruct (content_dict b Hb) as [Nb Db].
  rewrite !dict_of_nodup by assumption.
  pose proof (dict_eqb_spec _ _ Na Nb) as S. unfold same_content.
  destruct (dict_eqb _ _) eqn:E; simpl.
  - split; [intros _ k; rewrite <- Da, <- Db; apply S; reflexivity | reflexivity].
  - split; [discriminate|]. intros H. exfalso. assert (false = true); [|discriminate].
    apply S. intros k. rewrite Da, Db. apply H.
Qed.

(* lookups through the mix-ins return the content *)
Theorem contains_get_spec st k d : Inv st ->
  snd (c_step T cget cset cdel ckeys clen cpeek cc vt st st (OContains k))
    = vB (match cpeek st k with Some _ => true | None => false end)
  /\ snd (c_step T cget cset cdel ckeys clen cpeek cc vt st st (OGetD k d))
    = I (match cpeek st k with Some v => v | None => d end)
  /\ snd (c_step T cget cset cdel ckeys clen cpeek cc vt st st (OGet k))
    = match cpeek st k with Some v => vOk (I v) | None => vErr E_Key end.
Proof.
  intros Hi. destruct (get_spec st k Hi) as [Hv _]. simpl.
  destruct cc; destruct (cget st k) as [st1 o]; simpl in *; subst; repeat split; reflexivity.
Qed.

(* pop(k): returns the stored value and removes exactly k *)
Theorem pop_spec st k : Inv st ->
  let r := mx_pop T cget cdel st k in
  snd r = cpeek st k /\ Inv (fst r) /\ cpeek (fst r) k = None /\ (forall k', k' <> k -> cpeek (fst r) k' = cpeek st k').
Proof.
  intros Hi. unfold mx_pop. destruct (get_spec st k Hi) as [Hv Hc]. pose proof (inv_get st k Hi) as Hi1.
  destruct (cget st k) as [st1 o]. simpl in *. subst o. destruct (cpeek st k) as [v|] eqn:P; simpl.
  - destruct (del_spec st1 k Hi1) as (_ & Hn & Ho). repeat split; auto.
    intros k' Hne. rewrite Ho by exact Hne. apply Hc.
  - repeat split; auto. rewrite Hc. exact P.
Qed.

(* popitem(): the first key of the iteration order with its value; KeyError iff empty *)
Theorem popitem_spec st : Inv st ->
  let r := mx_popitem T cget cdel ckeys st in
  match ckeys st with
  | [] => snd r = None
  | k :: _ => exists v, cpeek st k = Some v /\ snd r = Some (k, v) /\ cpeek (fst r) k = None
                        /\ (forall k', k' <> k -> cpeek (fst r) k' = cpeek st k')
  end /\ Inv (fst r).
Proof.
  intros Hi. unfold mx_popitem. destruct (ckeys st) as [|k rest] eqn:K; [split; [reflexivity | exact Hi]|].
  assert (Hk : cpeek st k <> None) by (apply peek_keys; [exact Hi | rewrite K; left; reflexivity]).
  destruct (get_spec st k Hi) as [Hv Hc]. pose proof (inv_get st k Hi) as Hi1.
  destruct (cget st k) as [st1 o]. simpl in *. subst o. destruct (cpeek st k) as [v|] eqn:P; [|congruence]. simpl.
  destruct (del_spec st1 k Hi1) as (_ & Hn & Ho). split; [|apply inv_del; exact Hi1].
  exists v. repeat split; auto. intros k' Hne. rewrite Ho by exact Hne. apply Hc.
Qed.

(* setdefault(k, d) *)
Theorem setdefault_spec st k d : Inv st ->
  let r := mx_setdefault T cget cset st k d in
  snd r = (match cpeek st k with Some v => v | None => d end) /\ Inv (fst r)
  /\ cpeek (fst r) k = Some (snd r).
Proof.
  intros Hi. unfold mx_setdefault. destruct (get_spec st k Hi) as [Hv Hc]. pose proof (inv_get st k Hi) as Hi1.
  destruct (cget st k) as [st1 o]. simpl in *. subst o. destruct (cpeek st k) as [v|] eqn:P; simpl.
  - split; [reflexivity|]. split; [exact Hi1|]. rewrite Hc. exact P.
  - split; [reflexivity|]. split; [apply inv_set; exact Hi1 | apply set_spec; exact Hi1].
Qed.

(* invariants survive every operation of the interface *)
Theorem c_step_inv a b op : Inv a -> Inv b ->
  let r := c_step T cget cset cdel ckeys clen cpeek cc vt a b op in Inv (fst (fst r)) /\ Inv (snd (fst r)).
Proof.
  intros Ha Hb.
  assert (G : forall st st', Inv st -> reach T cget cset cdel st st' -> Inv st').
  { intros st st' Hi [ps ->]. revert st Hi. induction ps as [|p ps IH]; intros st Hi; [exact Hi|]. apply IH.
    destruct p; simpl; auto. }
  destruct (c_step_reach T cget cset cdel ckeys clen cpeek cc vt a b op) as [R1 R2].
  split; [exact (G _ _ Ha R1) | exact (G _ _ Hb R2)].
Qed.
End MixSpec.

(* ================================================================== LRU instance of the mix-in specifications *)
Lemma lru_peek_keys st k : In k (lru_keys st) <-> lru_peek st k <> None.
Proof.
  unfold lru_keys, lru_peek. destruct (dget (l_ord st) k) eqn:G.
  - split; [congruence|]. intros _. eapply dget_some_in; exact G.
  - apply dget_none_notin in G. split; [contradiction | congruence].
Qed.
Lemma lru_get_spec' st k : LInv st ->
  snd (lru_get st k) = lru_peek st k /\ (forall k', lru_peek (fst (lru_get st k)) k' = lru_peek st k').
Proof. intros [Hn _ _]. destruct (lru_get_spec st k Hn) as (H1 & H2 & _). split; assumption. Qed.
Lemma lru_del_spec' st k : LInv st ->
  snd (lru_del st k) = (match lru_peek st k with Some _ => true | None => false end)
  /\ lru_peek (fst (lru_del st k)) k = None /\ (forall k', k' <> k -> lru_peek (fst (lru_del st k)) k' = lru_peek st k').
Proof. intros [Hn _ _]. destruct (lru_del_spec st k Hn) as (H1 & _ & H3 & H4). repeat split; assumption. Qed.
Lemma lru_set_spec' st k v : LInv st -> lru_peek (lru_set st k v) k = Some v.
Proof. intros [Hn _ _]. apply (lru_set_spec st k v Hn). Qed.

(* ================================================================== LFU *)
Definition le_cnt (a b : item) : Prop := i_cnt a <= i_cnt b.
Definition fkeys (l : list item) : list Z := map i_key l.

Lemma f_find_in l k it : NoDup (fkeys l) -> (f_find l k = Some it <-> In it l /\ i_key it = k).
Proof.
  induction l as [|x t IH]; simpl; intros Hn; [split; [discriminate | tauto]|]. inversion Hn; subst.
  destruct (i_key x =? k) eqn:E.
  - split; [intros H; injection H as <-; split; [left; reflexivity | lia]|].
    intros [[<-|Hin] Hk]; [reflexivity|]. exfalso. apply H1. apply in_map_iff. exists it. split; [lia | exact Hin].
  - rewrite (IH H2). split; [tauto|]. intros [[<-|Hin] Hk]; [lia | tauto].
Qed.
Lemma f_find_none l k : f_find l k = None <-> ~ In k (fkeys l).
Proof.
  induction l as [|x t IH]; simpl; [tauto|]. destruct (i_key x =? k) eqn:E.
  - split; [discriminate | intros H; exfalso; apply H; left; lia].
  - rewrite IH. split; [intros H [H1|H1]; [lia | contradiction] | tauto].
Qed.

Lemma fias_perm it t : Permutation (f_insert_after_smaller it t) (it :: t).
Proof. induction t as [|x t IH]; simpl; [reflexivity|]. destruct (i_cnt x <? i_cnt it); [|reflexivity]. rewrite IH. apply perm_swap. Qed.

Lemma fias_sorted it t : StronglySorted le_cnt t -> StronglySorted le_cnt (f_insert_after_smaller it t).
Proof.
  induction 1 as [|x t Hs IH Hf]; simpl; [repeat constructor|].
  destruct (i_cnt x <? i_cnt it) eqn:E.
  - constructor; [exact IH|]. apply Forall_forall. intros y Hy.
    eapply Permutation_in in Hy; [|apply fias_perm]. destruct Hy as [<-|Hy]; [unfold le_cnt; lia|].
    rewrite Forall_forall in Hf. apply Hf; exact Hy.
  - constructor; [constructor; assumption|]. apply Forall_forall. intros y [<-|Hy]; [unfold le_cnt; lia|].
    rewrite Forall_forall in Hf. specialize (Hf y Hy). unfold le_cnt in *. lia.
Qed.

Definition bumped (it : item) (nv : option Z) : item :=
  mkI (i_key it) (match nv with Some v => v | None => i_val it end) (i_cnt it + 1).

Lemma f_inc_perm l k nv it : NoDup (fkeys l) -> f_find l k = Some it ->
  Permutation (f_inc l k nv) (bumped it nv :: f_remove l k).
Proof.
  induction l as [|x t IH]; simpl; intros Hn Hf; [discriminate|]. inversion Hn; subst.
  destruct (i_key x =? k) eqn:E.
  - injection Hf as <-. rewrite fias_perm. unfold bumped. replace (i_key x) with k by lia. reflexivity.
  - rewrite (IH H2 Hf). apply perm_swap.
Qed.

Lemma f_remove_sub l k x : In x (f_remove l k) -> In x l.
Proof.
  induction l as [|y t IH]; simpl; [tauto|]. destruct (i_key y =? k); [intros H; right; exact H|].
  intros [<-|H]; [left; reflexivity | right; apply IH; exact H].
Qed.
Lemma f_remove_keys l k : NoDup (fkeys l) -> forall x, In x (fkeys (f_remove l k)) <-> x <> k /\ In x (fkeys l).
Proof.
  induction l as [|y t IH]; simpl; intros Hn x; [tauto|]. inversion Hn; subst.
  destruct (i_key y =? k) eqn:E.
  - split; [intros H; split; [intros ->; apply H1; replace (i_key y) with k in * by lia; exact H | right; exact H]|].
    intros [Hne [H|H]]; [lia | exact H].
  - simpl. rewrite (IH H2). split; [intros [<-|[A B]]; [split; [lia | left; reflexivity] | tauto]|].
    intros [A [B|B]]; [left; exact B | right; tauto].
Qed.
Lemma f_remove_nodup l k : NoDup (fkeys l) -> NoDup (fkeys (f_remove l k)).
Proof.
  induction l as [|y t IH]; simpl; intros Hn; [constructor|]. inversion Hn; subst.
  destruct (i_key y =? k); [exact H2|]. simpl. constructor; [|apply IH; exact H2].
  rewrite (f_remove_keys t k H2). tauto.
Qed.
Lemma f_remove_sorted l k : StronglySorted le_cnt l -> StronglySorted le_cnt (f_remove l k).
Proof.
  induction 1 as [|y t Hs IH Hf]; simpl; [constructor|]. destruct (i_key y =? k); [exact Hs|].
  constructor; [exact IH|]. rewrite Forall_forall in *. intros x Hx. apply Hf. eapply f_remove_sub; exact Hx.
Qed.
Lemma f_remove_length l k : f_find l k <> None -> S (length (f_remove l k)) = length l.
Proof.
  induction l as [|y t IH]; simpl; [congruence|]. destruct (i_key y =? k); [reflexivity|].
  intros H. simpl. rewrite IH; auto.
Qed.

Lemma f_inc_sorted l k nv : StronglySorted le_cnt l -> StronglySorted le_cnt (f_inc l k nv).
Proof.
  induction 1 as [|x t Hs IH Hf]; simpl; [constructor|].
  destruct (i_key x =? k) eqn:E; [apply fias_sorted; exact Hs|].
  constructor; [exact IH|]. rewrite Forall_forall in *. intros y Hy.
  (* every element of f_inc t is an element of t or a bumped element of t *)
  assert (G : forall t0 y0, In y0 (f_inc t0 k nv) -> In y0 t0 \/ exists z, In z t0 /\ i_cnt y0 = i_cnt z + 1).
  { clear. induction t0 as [|z t0 IH]; simpl; intros y0 H; [tauto|].
    destruct (i_key z =? k).
    - eapply Permutation_in in H; [|apply fias_perm]. destruct H as [<-|H]; [right; exists z; split; [left; reflexivity | reflexivity] | left; right; exact H].
    - destruct H as [<-|H]; [left; left; reflexivity|]. destruct (IH y0 H) as [A|(w & A & B)]; [left; right; exact A | right; exists w; split; [right; exact A | exact B]]. }
  destruct (G t y Hy) as [A|(z & A & B)]; [apply Hf; exact A|].
  specialize (Hf z A). unfold le_cnt in *. lia.
Qed.

Record FInv (st : lfu) : Prop := {
  fi_nodup : NoDup (fkeys (f_ord st));
  fi_len : Z.of_nat (length (f_ord st)) <= f_cap st;
  fi_cap : 1 <= f_cap st;
  fi_sorted : StronglySorted le_cnt (f_ord st);      (* iteration lists keys in non-decreasing use count *)
  fi_pos : Forall (fun it => 1 <= i_cnt it) (f_ord st);
}.

Lemma finv_bump st k nv it : FInv st -> f_find (f_ord st) k = Some it -> FInv (mkLFU (f_cap st) (f_inc (f_ord st) k nv)).
Proof.
  intros [Hn Hl Hc Hs Hp] Hf. pose proof (f_inc_perm (f_ord st) k nv it Hn Hf) as P.
  assert (Hik : i_key it = k) by (apply (f_find_in _ _ _ Hn) in Hf; tauto).
  constructor; simpl; auto.
  - unfold fkeys. rewrite (Permutation_map i_key P). simpl. constructor; [|apply f_remove_nodup; exact Hn].
    rewrite Hik. fold (fkeys (f_remove (f_ord st) k)). rewrite (f_remove_keys _ k Hn). tauto.
  - rewrite (Permutation_length P). pose proof (f_remove_length (f_ord st) k ltac:(congruence)) as L. simpl length. lia.
  - apply f_inc_sorted; exact Hs.
  - rewrite Forall_forall in *. intros x Hx. eapply Permutation_in in Hx; [|exact P].
    destruct Hx as [<-|Hx]; [|apply Hp; eapply f_remove_sub; exact Hx].
    simpl. assert (In it (f_ord st)) by (apply (f_find_in _ _ _ Hn) in Hf; tauto). specialize (Hp it H). simpl in Hp. lia.
Qed.

Lemma finv_get st k : FInv st -> FInv (fst (lfu_get st k)).
Proof. intros H. unfold lfu_get. destruct (f_find (f_ord st) k) eqn:F; simpl; [eapply finv_bump; eauto | exact H]. Qed.

Lemma finv_set st k v : FInv st -> FInv (lfu_set st k v).
Proof.
  intros H. unfold lfu_set. destruct (f_find (f_ord st) k) eqn:F; [eapply finv_bump; eauto|].
  destruct H as [Hn Hl Hc Hs Hp]. apply f_find_none in F.
  destruct (Z.of_nat (length (f_ord st)) >=? f_cap st) eqn:Full; constructor; simpl; auto.
  - constructor.
    + intros Hin. apply F. destruct (f_ord st); [destruct Hin | right; exact Hin].
    + destruct (f_ord st); simpl in *; [constructor | inversion Hn; assumption].
  - destruct (f_ord st); simpl in *; lia.
  - destruct (f_ord st) as [|h t]; simpl; [repeat constructor|]. inversion Hs; subst. inversion Hp; subst.
    constructor; [assumption|]. apply Forall_forall. intros x Hx. unfold le_cnt. simpl.
    rewrite Forall_forall in H4. specialize (H4 x Hx). lia.
  - constructor; [simpl; lia|]. destruct (f_ord st); simpl; [constructor | inversion Hp; assumption].
  - constructor; assumption.
  - lia.
  - constructor; [exact Hs|]. apply Forall_forall. intros x Hx. unfold le_cnt. simpl.
    rewrite Forall_forall in Hp. specialize (Hp x Hx). lia.
  - constructor; [simpl; lia | exact Hp].
Qed.

Lemma finv_del st k : FInv st -> FInv (fst (lfu_del st k)).
Proof.
  intros H. unfold lfu_del. destruct (f_find (f_ord st) k) eqn:F; simpl; [|exact H].
  destruct H as [Hn Hl Hc Hs Hp]. constructor; simpl; auto.
  - apply f_remove_nodup; exact Hn.
  - pose proof (f_remove_length (f_ord st) k ltac:(congruence)). lia.
  - apply f_remove_sorted; exact Hs.
  - rewrite Forall_forall in *. intros x Hx. apply Hp. eapply f_remove_sub; exact Hx.
Qed.

Notation fprun := (prun lfu lfu_get lfu_set lfu_del).
(* C07: every reachable state: at most max_size entries, one entry per key, iteration in non-decreasing use count *)
Theorem lfu_inv_reachable : forall ps st, FInv st -> FInv (fprun ps st).
Proof.
  induction ps as [|p ps IH]; intros st H; [exact H|]. apply IH.
  destruct p; simpl; [apply finv_get | apply finv_set | apply finv_del]; exact H.
Qed.
Lemma finv_init cap : 1 <= cap -> FInv (mkLFU cap []).
Proof. intros H. constructor; simpl; try constructor; lia. Qed.

(* what a use does to the entries: the used key gets count + 1 (and the new value on a store), nothing else changes *)
Lemma f_find_bump l k nv it k' : NoDup (fkeys l) -> f_find l k = Some it ->
  f_find (f_inc l k nv) k' = if k' =? k then Some (bumped it nv) else f_find l k'.
Proof.
  intros Hn Hf. pose proof (f_inc_perm l k nv it Hn Hf) as P.
  assert (Hik : i_key it = k) by (apply (f_find_in _ _ _ Hn) in Hf; tauto).
  assert (Hn' : NoDup (fkeys (f_inc l k nv))).
  { unfold fkeys. rewrite (Permutation_map i_key P). simpl. constructor; [|apply f_remove_nodup; exact Hn].
    rewrite Hik. fold (fkeys (f_remove l k)). rewrite (f_remove_keys _ k Hn). tauto. }
  destruct (k' =? k) eqn:E.
  - assert (k' = k) by lia. subst k'. apply (f_find_in _ _ _ Hn'). split; [|simpl; exact Hik].
    eapply Permutation_in; [symmetry; exact P | left; reflexivity].
  - destruct (f_find l k') as [it'|] eqn:F'.
    + apply (f_find_in _ _ _ Hn'). apply (f_find_in _ _ _ Hn) in F'. destruct F' as [Hin Hk']. split; [|exact Hk'].
      eapply Permutation_in; [symmetry; exact P|]. right.
      clear -Hin Hk' E. induction l as [|y t IH]; simpl in *; [tauto|]. destruct (i_key y =? k) eqn:Ey.
      * destruct Hin as [<-|Hin]; [lia | exact Hin].
      * destruct Hin as [<-|Hin]; [left; reflexivity | right; apply IH; exact Hin].
    + apply f_find_none. apply f_find_none in F'. intros Hin. apply F'.
      unfold fkeys in Hin. rewrite (Permutation_map i_key P) in Hin. simpl in Hin. destruct Hin as [Hin|Hin]; [lia|].
      fold (fkeys (f_remove l k)) in Hin. apply (f_remove_keys _ k Hn) in Hin. tauto.
Qed.

(* C07: a successful lookup returns the stored value, raises the key's count by exactly one, changes nothing else *)
Theorem lfu_get_spec st k : FInv st ->
  snd (lfu_get st k) = lfu_peek st k
  /\ (forall k', f_find (f_ord (fst (lfu_get st k))) k' =
        match f_find (f_ord st) k with
        | Some it => if k' =? k then Some (bumped it None) else f_find (f_ord st) k'
        | None => f_find (f_ord st) k'
        end).
Proof.
  intros [Hn _ _ _ _]. unfold lfu_get, lfu_peek. destruct (f_find (f_ord st) k) as [it|] eqn:F; simpl; [|auto].
  split; [reflexivity|]. intros k'. apply f_find_bump; assumption.
Qed.

(* C07: a store leaves k holding v; on a present key the count goes up by one; a new key starts at count 1;
   when the cache is full the entry dropped is the first of the iteration order, whose count is minimal;
   no other entry changes *)
Theorem lfu_set_spec st k v : FInv st ->
  let st' := lfu_set st k v in
  match f_find (f_ord st) k with
  | Some it => forall k', f_find (f_ord st') k' = if k' =? k then Some (bumped it (Some v)) else f_find (f_ord st) k'
  | None =>
      f_find (f_ord st') k = Some (mkI k v 1)
      /\ if Z.of_nat (length (f_ord st)) >=? f_cap st
         then exists victim rest, f_ord st = victim :: rest
                /\ (forall it, In it (f_ord st) -> i_cnt victim <= i_cnt it)
                /\ f_ord st' = mkI k v 1 :: rest
                /\ (forall k', k' <> k -> k' <> i_key victim -> f_find (f_ord st') k' = f_find (f_ord st) k')
         else forall k', k' <> k -> f_find (f_ord st') k' = f_find (f_ord st) k'
  end.
Proof.
  intros [Hn Hl Hc Hs Hp]. unfold lfu_set. destruct (f_find (f_ord st) k) as [it|] eqn:F; simpl.
  - intros k'. apply f_find_bump; assumption.
  - destruct (Z.of_nat (length (f_ord st)) >=? f_cap st) eqn:Full; simpl; rewrite Z.eqb_refl; (split; [reflexivity|]).
    + destruct (f_ord st) as [|victim rest] eqn:O; [simpl in *; lia|].
      exists victim, rest. split; [reflexivity|]. split.
      * intros it [<-|Hin]; [lia|]. inversion Hs; subst. rewrite Forall_forall in H2. apply H2. exact Hin.
      * split; [reflexivity|]. intros k' H1 H2. simpl. destruct (k =? k') eqn:E1; [lia|].
        destruct (i_key victim =? k') eqn:E2; [lia | reflexivity].
    + intros k' Hne. destruct (k =? k') eqn:E; [lia | reflexivity].
Qed.

Theorem lfu_store_then_lookup st k v : FInv st -> snd (lfu_get (lfu_set st k v) k) = Some v.
Proof.
  intros Hi. pose proof (lfu_set_spec st k v Hi) as S. simpl in S.
  destruct (lfu_get_spec (lfu_set st k v) k (finv_set st k v Hi)) as [G _]. rewrite G. unfold lfu_peek.
  destruct (f_find (f_ord st) k) as [it|] eqn:F.
  - rewrite S, Z.eqb_refl. reflexivity.
  - destruct S as [S _]. rewrite S. reflexivity.
Qed.

(* LFU instance of the mix-in specifications *)
Lemma lfu_peek_keys st k : In k (lfu_keys st) <-> lfu_peek st k <> None.
Proof.
  unfold lfu_keys, lfu_peek. destruct (f_find (f_ord st) k) eqn:G; simpl.
  - split; [congruence|]. intros _. destruct (in_dec Z.eq_dec k (fkeys (f_ord st))) as [yes|no]; [exact yes|].
    apply f_find_none in no. congruence.
  - apply f_find_none in G. split; [contradiction | congruence].
Qed.
Lemma lfu_get_spec' st k : FInv st ->
  snd (lfu_get st k) = lfu_peek st k /\ (forall k', lfu_peek (fst (lfu_get st k)) k' = lfu_peek st k').
Proof.
  intros Hi. destruct (lfu_get_spec st k Hi) as [H1 H2]. split; [exact H1|]. intros k'. unfold lfu_peek. rewrite H2.
  destruct (f_find (f_ord st) k) as [it|] eqn:F; [|reflexivity].
  destruct (k' =? k) eqn:E; [|reflexivity]. assert (k' = k) by lia. subst. rewrite F. reflexivity.
Qed.
Lemma f_find_remove l k k' : NoDup (fkeys l) -> f_find (f_remove l k) k' = if k' =? k then None else f_find l k'.
Proof.
  induction l as [|y t IH]; simpl; intros Hn; [destruct (k' =? k); reflexivity|]. inversion Hn; subst.
  destruct (i_key y =? k) eqn:E.
  - destruct (k' =? k) eqn:E2.
    + apply f_find_none. intros H. apply H1. replace (i_key y) with k' by lia. exact H.
    + destruct (i_key y =? k') eqn:E3; [lia | reflexivity].
  - simpl. rewrite (IH H2). destruct (i_key y =? k') eqn:E3; [|reflexivity]. destruct (k' =? k) eqn:E4; [lia | reflexivity].
Qed.
Lemma lfu_del_spec' st k : FInv st ->
  snd (lfu_del st k) = (match lfu_peek st k with Some _ => true | None => false end)
  /\ lfu_peek (fst (lfu_del st k)) k = None /\ (forall k', k' <> k -> lfu_peek (fst (lfu_del st k)) k' = lfu_peek st k').
Proof.
  intros [Hn _ _ _ _]. unfold lfu_del, lfu_peek. destruct (f_find (f_ord st) k) as [it|] eqn:F; simpl.
  - split; [reflexivity|]. split; [rewrite f_find_remove, Z.eqb_refl by exact Hn; reflexivity|].
    intros k' Hne. rewrite f_find_remove by exact Hn. destruct (k' =? k) eqn:E; [lia | reflexivity].
  - rewrite F. repeat split; auto.
Qed.
Lemma lfu_set_spec' st k v : FInv st -> lfu_peek (lfu_set st k v) k = Some v.
Proof.
  intros Hi. pose proof (lfu_set_spec st k v Hi) as S. simpl in S. unfold lfu_peek.
  destruct (f_find (f_ord st) k) as [it|] eqn:F.
  - rewrite S, Z.eqb_refl. reflexivity.
  - destruct S as [S _]. rewrite S. reflexivity.
Qed.
