(* Proofs about Model/Buffers.v (property C15). *)
From Coq Require Import ZArith List Bool Lia ZifyBool Permutation Sorted.
From WPU Require Import Common.Val Common.Dict Common.ListX Model.Buffers.
Import ListNotations.
Open Scope Z_scope.

(* serial numbers w, w+1, ..., w+k-1 *)
Fixpoint zrange (w : Z) (k : nat) : list Z :=
  match k with O => [] | S k' => w :: zrange (w + 1) k' end.

Lemma zrange_length w k : length (zrange w k) = k.
Proof. revert w; induction k; simpl; auto. Qed.

Lemma zrange_app w a b : zrange w (a + b) = zrange w a ++ zrange (w + Z.of_nat a) b.
Proof.
  revert w; induction a as [|a IH]; intros w; simpl.
  - f_equal; lia.
  - f_equal. rewrite IH. f_equal. f_equal. lia.
Qed.

Lemma zrange_in w k i : In i (zrange w k) <-> w <= i < w + Z.of_nat k.
Proof.
  revert w; induction k as [|k IH]; intros w; simpl; [lia|].
  rewrite IH. lia.
Qed.

Lemma zrange_nodup w k : NoDup (zrange w k).
Proof.
  revert w; induction k as [|k IH]; intros w; simpl; constructor; [|apply IH].
  rewrite zrange_in. lia.
Qed.

(* storage = everything fed with a serial >= w *)
Definition holds_from (fed sto : dict Z) (w : Z) : Prop :=
  forall i, dget sto i = if w <=? i then dget fed i else None.

Lemma drain_spec fed : forall fuel w s,
  holds_from fed s w -> NoDup (dkeys s) -> (length s <= fuel)%nat ->
  let '(out, w', s') := b_drain fuel w s in
  w' = w + Z.of_nat (length out)
  /\ map Some out = map (dget fed) (zrange w (length out))
  /\ holds_from fed s' w' /\ NoDup (dkeys s') /\ dget s' w' = None
  /\ (length s' + length out = length s)%nat.
Proof.
  induction fuel as [|f IH]; intros w s Hh Hnd Hlen; simpl.
  - destruct s; [|simpl in Hlen; lia]. simpl. repeat split; auto; lia.
  - destruct (dget s w) eqn:G.
    + assert (Hh' : holds_from fed (ddel s w) (w + 1)).
      { intros i. destruct (Z.eq_dec i w) as [->|Hne].
        - rewrite dget_ddel_same by exact Hnd.
          destruct (w + 1 <=? w) eqn:E; [lia | reflexivity].
        - rewrite dget_ddel_other by exact Hne. rewrite (Hh i).
          destruct (w <=? i) eqn:E1; destruct (w + 1 <=? i) eqn:E2; try reflexivity; lia. }
      assert (Hm : dmem s w = true) by (unfold dmem; rewrite G; reflexivity).
      assert (Hl' : (length (ddel s w) <= f)%nat).
      { rewrite ddel_length, Hm. destruct s; simpl in *; [discriminate | lia]. }
      specialize (IH (w + 1) (ddel s w) Hh' (ddel_nodup _ _ Hnd) Hl').
      destruct (b_drain f (w + 1) (ddel s w)) as [[out w'] s'].
      destruct IH as (Hw & Hout & Hh2 & Hnd2 & Hnone & Hlen2).
      simpl. repeat split; auto.
      * lia.
      * rewrite Hout. f_equal. pose proof (Hh w) as Hw0. rewrite Z.leb_refl in Hw0. congruence.
      * rewrite ddel_length, Hm in Hlen2. destruct s; simpl in *; [discriminate | lia].
    + simpl. repeat split; auto; lia.
Qed.

(* ------------------------------------------------------------------ Buffer *)
Definition calls (ops : list bop) : list (Z * Z) :=
  flat_map (fun o => match o with BCall i x => [(i, x)] | _ => [] end) ops.
Definition no_flush (ops : list bop) : Prop := ~ In BFlush ops.
Definition emitted (outs : list bout) : list Z := concat (map emitted_of outs).
(* the dict of everything fed so far *)
Definition fed_of (ops : list bop) : dict Z := fold_left (fun d c => dset d (fst c) (snd c)) (calls ops) [].

Record BInv (fed : dict Z) (em : list Z) (st : bst) : Prop := {
  bi_wait : b_wait st = Z.of_nat (length em);
  bi_em : map Some em = map (dget fed) (zrange 0 (length em));
  bi_holds : holds_from fed (b_sto st) (b_wait st);
  bi_nodup : NoDup (dkeys (b_sto st));
  bi_len : (length (b_sto st) + length em = length fed)%nat;
  bi_fnd : NoDup (dkeys fed);
}.

Lemma map_dget_dset_zrange (fed : dict Z) i x w k :
  ~ (w <= i < w + Z.of_nat k) ->
  map (dget (dset fed i x)) (zrange w k) = map (dget fed) (zrange w k).
Proof.
  intros H. apply map_ext_in. intros j Hj. apply zrange_in in Hj.
  apply dget_dset_other. lia.
Qed.

Lemma binv_call fed em st i x :
  BInv fed em st -> 0 <= i -> ~ In i (dkeys fed) ->
  b_step st (BCall i x) = (mkB (b_wait st) (dset (b_sto st) i x), BUnit)
  /\ BInv (dset fed i x) em (mkB (b_wait st) (dset (b_sto st) i x)).
Proof.
  intros [Hw Hem Hh Hnd Hlen Hfnd] Hi Hni.
  assert (Hge : b_wait st <= i).
  { destruct (Z_lt_le_dec i (b_wait st)) as [Hlt|]; [|assumption]. exfalso.
    assert (Hin : In i (zrange 0 (length em))) by (apply zrange_in; lia).
    apply (in_map (dget fed)) in Hin. rewrite <- Hem in Hin.
    apply in_map_iff in Hin. destruct Hin as (y & Hy & _).
    symmetry in Hy. apply dget_some_in in Hy. contradiction. }
  split.
  - simpl. destruct (i <? b_wait st) eqn:E; [lia | reflexivity].
  - constructor; simpl; auto.
    + rewrite Hem. symmetry. apply map_dget_dset_zrange. lia.
    + intros j. destruct (Z.eq_dec j i) as [->|Hne].
      * rewrite !dget_dset_same. destruct (b_wait st <=? i) eqn:E; [reflexivity | lia].
      * rewrite !dget_dset_other by exact Hne. apply Hh.
    + apply dset_nodup; exact Hnd.
    + rewrite !dset_length.
      assert (dmem fed i = false) as ->.
      { destruct (dmem fed i) eqn:E; [apply dmem_in in E; contradiction | reflexivity]. }
      assert (dmem (b_sto st) i = false) as ->.
      { unfold dmem. rewrite (Hh i). apply dget_none_notin in Hni. rewrite Hni.
        destruct (b_wait st <=? i); reflexivity. }
      lia.
    + apply dset_nodup; exact Hfnd.
Qed.

Lemma binv_drain fed em st :
  BInv fed em st ->
  exists out st', b_step st BDrain = (st', BEmit out) /\ BInv fed (em ++ out) st'
                  /\ dget (b_sto st') (b_wait st') = None.
Proof.
  intros [Hw Hem Hh Hnd Hlen Hfnd]. simpl.
  pose proof (drain_spec fed (length (b_sto st)) (b_wait st) (b_sto st) Hh Hnd (le_n _)) as D.
  destruct (b_drain (length (b_sto st)) (b_wait st) (b_sto st)) as [[out w'] s'].
  destruct D as (Hw' & Hout & Hh' & Hnd' & Hnone & Hlen').
  exists out, (mkB w' s'). split; [reflexivity|]. split; [|exact Hnone].
  constructor; simpl; auto.
  - rewrite app_length. lia.
  - rewrite app_length, zrange_app, !map_app, Hem. f_equal.
    rewrite Hout. f_equal. f_equal. lia.
  - rewrite app_length. lia.
Qed.

Lemma b_exec_app st ops1 ops2 :
  b_exec st (ops1 ++ ops2) =
  let '(st1, o1) := b_exec st ops1 in let '(st2, o2) := b_exec st1 ops2 in (st2, o1 ++ o2).
Proof.
  revert st; induction ops1 as [|op ops1 IH]; intros st; simpl.
  - destruct (b_exec st ops2); reflexivity.
  - destruct (b_step st op) as [st1 o]. rewrite IH.
    destruct (b_exec st1 ops1) as [st2 os]. destruct (b_exec st2 ops2); reflexivity.
Qed.

Lemma b_exec_single st o : b_exec st [o] = let '(s, out) := b_step st o in (s, [out]).
Proof. cbn [b_exec]. destruct (b_step st o); reflexivity. Qed.

Lemma fed_of_snoc ops i x : fed_of (ops ++ [BCall i x]) = dset (fed_of ops) i x.
Proof. unfold fed_of, calls. rewrite flat_map_app, fold_left_app. reflexivity. Qed.
Lemma fed_of_snoc_other ops o : (forall i x, o <> BCall i x) -> fed_of (ops ++ [o]) = fed_of ops.
Proof. intros H. unfold fed_of, calls. rewrite flat_map_app. destruct o; simpl; try rewrite app_nil_r; auto. exfalso; eapply H; eauto. Qed.

Lemma dkeys_fold_dset (cs : list (Z * Z)) : forall d i,
  In i (dkeys (fold_left (fun d c => dset d (fst c) (snd c)) cs d)) <-> In i (dkeys d) \/ In i (map fst cs).
Proof.
  induction cs as [|[k v] cs IH]; intros d i; simpl; [tauto|].
  rewrite IH, dkeys_dset_in. intuition (subst; auto).
Qed.
Lemma dkeys_fed_of ops i : In i (dkeys (fed_of ops)) <-> In i (map fst (calls ops)).
Proof. unfold fed_of. rewrite dkeys_fold_dset. simpl. tauto. Qed.

(* Domain of the property: every serial fed at most once, serials non-negative, no flush in between. *)
Definition valid_feed (ops : list bop) : Prop :=
  NoDup (map fst (calls ops)) /\ (forall i, In i (map fst (calls ops)) -> 0 <= i) /\ no_flush ops.

Lemma valid_feed_snoc ops o : valid_feed (ops ++ [o]) -> valid_feed ops.
Proof.
  unfold valid_feed, no_flush, calls. rewrite flat_map_app, map_app. intros (Hnd & Hpos & Hnf).
  repeat split.
  - apply NoDup_app_l in Hnd. exact Hnd.
  - intros i Hi. apply Hpos. apply in_or_app; left; exact Hi.
  - intros Hi. apply Hnf. apply in_or_app; left; exact Hi.
Qed.

Theorem buffer_invariant_lemma : forall ops st outs,
  valid_feed ops -> b_exec b_init ops = (st, outs) ->
  BInv (fed_of ops) (emitted outs) st /\ ~ In BAttrErr outs.
Proof.
  induction ops as [|o ops IH] using rev_ind; intros st outs Hv Hex.
  - simpl in Hex. injection Hex as <- <-. split; [|intros []].
    constructor; simpl; auto; try constructor. intros i. destruct (0 <=? i); reflexivity.
  - rewrite b_exec_app in Hex.
    destruct (b_exec b_init ops) as [st1 o1] eqn:E1.
    specialize (IH st1 o1 (valid_feed_snoc _ _ Hv) eq_refl). destruct IH as [IH Hne].
    destruct Hv as (Hnd & Hpos & Hnf).
    destruct o as [i x| |].
    + assert (Hi : 0 <= i).
      { apply Hpos. unfold calls. rewrite flat_map_app, map_app. apply in_or_app; right; simpl; auto. }
      assert (Hni : ~ In i (dkeys (fed_of ops))).
      { rewrite dkeys_fed_of. unfold calls in Hnd. rewrite flat_map_app, map_app in Hnd. simpl in Hnd.
        apply NoDup_remove_2 in Hnd. rewrite app_nil_r in Hnd. exact Hnd. }
      destruct (binv_call _ _ _ i x IH Hi Hni) as [Hs Hinv].
      rewrite b_exec_single, Hs in Hex. injection Hex as <- <-.
      rewrite fed_of_snoc. unfold emitted. rewrite map_app, concat_app. simpl. rewrite app_nil_r.
      split; [exact Hinv|]. intros Hin. apply in_app_or in Hin. destruct Hin as [Hin|[Hin|[]]]; [auto | discriminate].
    + destruct (binv_drain _ _ _ IH) as (out & st' & Hs & Hinv & _).
      rewrite b_exec_single, Hs in Hex. injection Hex as <- <-.
      rewrite fed_of_snoc_other by discriminate.
      unfold emitted. rewrite map_app, concat_app. simpl. rewrite app_nil_r.
      split; [exact Hinv|]. intros Hin. apply in_app_or in Hin. destruct Hin as [Hin|[Hin|[]]]; [auto | discriminate].
    + exfalso. apply Hnf. apply in_or_app; right; left; reflexivity.
Qed.

(* payload fed under serial i (0 when none) *)
Definition payload (ops : list bop) (i : Z) : Z := match dget (fed_of ops) i with Some x => x | None => 0 end.

Lemma map_some_payload fed em k w :
  map Some em = map (dget fed) (zrange w k) ->
  em = map (fun i => match dget fed i with Some x => x | None => 0 end) (zrange w k).
Proof.
  revert em w; induction k as [|k IH]; intros [|e em] w H; simpl in *; try discriminate; auto.
  injection H as H1 H2. rewrite <- H1. f_equal. apply IH; exact H2.
Qed.

(* C15, Buffer, statement 1: at every point of every valid feed the items emitted so far are exactly the
   payloads of serials 0..waiting_for-1 in ascending order (each once, none before its predecessors),
   nothing raised, every held key is >= waiting_for, and len() = #fed - #emitted. *)
Theorem buffer_invariant : forall ops st outs,
  valid_feed ops -> b_exec b_init ops = (st, outs) ->
  emitted outs = map (payload ops) (zrange 0 (Z.to_nat (b_wait st)))
  /\ b_wait st = Z.of_nat (length (emitted outs))
  /\ ~ In BAttrErr outs
  /\ (forall i, In i (dkeys (b_sto st)) -> b_wait st <= i /\ In i (map fst (calls ops)))
  /\ b_len st = Z.of_nat (length (calls ops)) - b_wait st.
Proof.
  intros ops st outs Hv Hex.
  destruct (buffer_invariant_lemma ops st outs Hv Hex) as [[Hw Hem Hh Hnd Hlen Hfnd] Hne].
  repeat split; auto.
  - rewrite Hw, Nat2Z.id. apply map_some_payload; exact Hem.
  - destruct (dget (b_sto st) i) eqn:G; [|apply dget_none_notin in G; contradiction].
    rewrite (Hh i) in G. destruct (b_wait st <=? i) eqn:E; [lia | discriminate].
  - destruct (dget (b_sto st) i) eqn:G; [|apply dget_none_notin in G; contradiction].
    rewrite (Hh i) in G. destruct (b_wait st <=? i); [|discriminate].
    apply dget_some_in in G. apply dkeys_fed_of; exact G.
  - unfold b_len. rewrite Hw.
    assert (length (fed_of ops) = length (calls ops)) as <-; [|lia].
    destruct Hv as (Hnd0 & _ & _). unfold fed_of. clear -Hnd0.
    assert (G : forall cs (d : dict Z), NoDup (map fst cs) -> (forall i, In i (map fst cs) -> ~ In i (dkeys d)) ->
              length (fold_left (fun d c => dset d (fst c) (snd c)) cs d) = (length d + length cs)%nat).
    { induction cs as [|[k v] cs IH]; intros d Hn Hd; simpl; [lia|].
      inversion Hn as [|? ? Hk Hn']; subst. rewrite IH; auto.
      - rewrite dset_length.
        destruct (dmem d k) eqn:E; [apply dmem_in in E; exfalso; eapply Hd; [left; reflexivity | exact E] | lia].
      - intros i Hi. rewrite dkeys_dset_in. intros [->|Hin]; [contradiction|].
        eapply Hd; [right; exact Hi | exact Hin]. }
    rewrite G; auto.
Qed.

(* C15, Buffer, statement 2: feed any permutation of 0..n-1 with drains anywhere; together with a final
   drain everything comes out exactly once, in serial order, and the buffer is empty. *)
Theorem buffer_permutation_complete : forall (n : nat) ops st outs,
  no_flush ops -> Permutation (map fst (calls ops)) (zrange 0 n) ->
  b_exec b_init (ops ++ [BDrain]) = (st, outs) ->
  emitted outs = map (payload ops) (zrange 0 n) /\ b_wait st = Z.of_nat n /\ b_len st = 0
  /\ ~ In BAttrErr outs.
Proof.
  intros n ops st outs Hnf Hperm Hex.
  assert (Hv : valid_feed ops).
  { repeat split; auto.
    - eapply Permutation_NoDup; [symmetry; exact Hperm | apply zrange_nodup].
    - intros i Hi. eapply Permutation_in in Hi; [|exact Hperm]. apply zrange_in in Hi. lia. }
  rewrite b_exec_app in Hex. destruct (b_exec b_init ops) as [st1 o1] eqn:E1.
  destruct (buffer_invariant_lemma ops st1 o1 Hv E1) as [IH Hne].
  destruct (binv_drain _ _ _ IH) as (out & st' & Hs & Hinv & Hnone).
  rewrite b_exec_single, Hs in Hex. injection Hex as <- <-.
  destruct Hinv as [Hw Hem Hh Hnd Hlen Hfnd].
  assert (Hfl : length (fed_of ops) = n).
  { rewrite <- (zrange_length 0 n). rewrite <- (map_length fst (fed_of ops)).
    apply Permutation_length. apply NoDup_Permutation; [exact Hfnd | apply zrange_nodup|].
    intros i. fold (dkeys (fed_of ops)). rewrite dkeys_fed_of. split; intros Hi.
    - eapply Permutation_in; [exact Hperm | exact Hi].
    - eapply Permutation_in; [symmetry; exact Hperm | exact Hi]. }
  assert (Hk : length (emitted o1 ++ out) = n).
  { destruct (Nat.eq_dec (length (emitted o1 ++ out)) n) as [|Hneq]; [assumption|]. exfalso.
    assert (Hlt : (length (emitted o1 ++ out) < n)%nat) by lia.
    assert (Hin : In (b_wait st') (dkeys (fed_of ops))).
    { rewrite dkeys_fed_of. eapply Permutation_in; [symmetry; exact Hperm|]. apply zrange_in. lia. }
    rewrite (Hh (b_wait st')), Z.leb_refl in Hnone. apply dget_none_notin in Hnone. contradiction. }
  assert (Hemit : emitted (o1 ++ [BEmit out]) = emitted o1 ++ out).
  { unfold emitted. rewrite map_app, concat_app. simpl. rewrite app_nil_r. reflexivity. }
  rewrite Hemit. repeat split.
  - rewrite <- Hk. apply map_some_payload. exact Hem.
  - lia.
  - unfold b_len. lia.
  - intros Hin. apply in_app_or in Hin. destruct Hin as [Hin|[Hin|[]]]; [auto | discriminate].
Qed.

(* flush() as documented: everything forgotten, counting restarts at 0 *)
Theorem buffer_flush_spec : forall st, b_step st BFlush = (b_init, BUnit).
Proof. reflexivity. Qed.
Theorem buffer_flush_restarts : forall pre post st, fst (b_exec st (pre ++ BFlush :: post)) = fst (b_exec b_init post).
Proof.
  intros pre post st. rewrite b_exec_app. destruct (b_exec st pre) as [st1 o1]. simpl.
  destruct (b_exec b_init post); reflexivity.
Qed.
(* an already generated position is rejected and nothing changes *)
Theorem buffer_rejects_generated : forall st i x, i < b_wait st -> b_step st (BCall i x) = (st, BAttrErr).
Proof. intros st i x H. simpl. destruct (i <? b_wait st) eqn:E; [reflexivity | lia]. Qed.

(* ------------------------------------------------------------------ PrintBuffer *)
Definition pcalls (ops : list pop) : list (Z * Z) :=
  flat_map (fun o => match o with PPrint i x => [(i, x)] | _ => [] end) ops.
Definition pfed_of (ops : list pop) : dict Z := fold_left (fun d c => dset d (fst c) (snd c)) (pcalls ops) [].
Definition printed (outs : list pout) : list Z := concat (map po_printed outs).
Definition only_prints (ops : list pop) : Prop := forall o, In o ops -> exists i x, o = PPrint i x.

Record PInv (fed : dict Z) (em : list Z) (st : pst) : Prop := {
  pi_wait : p_wait st = Z.of_nat (length em);
  pi_em : map Some em = map (dget fed) (zrange 0 (length em));
  pi_holds : holds_from fed (p_buf st) (p_wait st);
  pi_nodup : NoDup (dkeys (p_buf st));
  pi_len : (length (p_buf st) + length em = length fed)%nat;
  pi_fnd : NoDup (dkeys fed);
  pi_eager : dget (p_buf st) (p_wait st) = None;
}.

Lemma pinv_print fed em st i x :
  PInv fed em st -> 0 <= i -> ~ In i (dkeys fed) ->
  exists out st', p_step st (PPrint i x) = (st', mkPO out (i =? p_wait st))
    /\ PInv (dset fed i x) (em ++ out) st'
    /\ (i =? p_wait st = false -> out = []).
Proof.
  intros [Hw Hem Hh Hnd Hlen Hfnd Heag] Hi Hni.
  assert (Hge : p_wait st <= i).
  { destruct (Z_lt_le_dec i (p_wait st)) as [Hlt|]; [|assumption]. exfalso.
    assert (Hin : In i (zrange 0 (length em))) by (apply zrange_in; lia).
    apply (in_map (dget fed)) in Hin. rewrite <- Hem in Hin.
    apply in_map_iff in Hin. destruct Hin as (y & Hy & _).
    symmetry in Hy. apply dget_some_in in Hy. contradiction. }
  assert (Hfm : dmem fed i = false).
  { destruct (dmem fed i) eqn:E; [apply dmem_in in E; contradiction | reflexivity]. }
  assert (Hbm : dget (p_buf st) i = None).
  { rewrite (Hh i). apply dget_none_notin in Hni. rewrite Hni. destruct (p_wait st <=? i); reflexivity. }
  simpl. destruct (i =? p_wait st) eqn:E.
  - apply Z.eqb_eq in E. subst i.
    assert (Hh1 : holds_from (dset fed (p_wait st) x) (p_buf st) (p_wait st + 1)).
    { intros j. rewrite (Hh j). destruct (Z.eq_dec j (p_wait st)) as [->|Hne].
      - rewrite Z.leb_refl. destruct (p_wait st + 1 <=? p_wait st) eqn:E; [lia|].
        apply dget_none_notin in Hni. exact Hni.
      - rewrite dget_dset_other by exact Hne.
        destruct (p_wait st <=? j) eqn:E1; destruct (p_wait st + 1 <=? j) eqn:E2; try reflexivity; lia. }
    pose proof (drain_spec _ (length (p_buf st)) (p_wait st + 1) (p_buf st) Hh1 Hnd (le_n _)) as D.
    destruct (b_drain (length (p_buf st)) (p_wait st + 1) (p_buf st)) as [[out w'] s'].
    destruct D as (Hw' & Hout & Hh' & Hnd' & Hnone & Hlen').
    exists (x :: out), (mkP w' s'). split; [reflexivity|]. split; [|discriminate].
    constructor; simpl; auto.
    + rewrite app_length. simpl. lia.
    + rewrite app_length. simpl length. rewrite zrange_app, !map_app.
      rewrite (map_dget_dset_zrange fed (p_wait st) x 0 (length em)) by lia. rewrite <- Hem. f_equal.
      replace (0 + Z.of_nat (length em)) with (p_wait st) by lia.
      cbn [zrange map]. rewrite dget_dset_same. f_equal. exact Hout.
    + rewrite dset_length, Hfm, app_length. simpl. lia.
    + apply dset_nodup; exact Hfnd.
  - apply Z.eqb_neq in E.
    exists [], (mkP (p_wait st) (dset (p_buf st) i x)). split; [reflexivity|]. split; [|reflexivity].
    rewrite app_nil_r. constructor; simpl; auto.
    + rewrite Hem. symmetry. apply map_dget_dset_zrange. lia.
    + intros j. destruct (Z.eq_dec j i) as [->|Hne].
      * rewrite !dget_dset_same. destruct (p_wait st <=? i) eqn:E2; [reflexivity | lia].
      * rewrite !dget_dset_other by exact Hne. apply Hh.
    + apply dset_nodup; exact Hnd.
    + rewrite !dset_length, Hfm. unfold dmem. rewrite Hbm. lia.
    + apply dset_nodup; exact Hfnd.
    + rewrite dget_dset_other by congruence. exact Heag.
Qed.

Lemma p_exec_app st ops1 ops2 :
  p_exec st (ops1 ++ ops2) =
  let '(st1, o1) := p_exec st ops1 in let '(st2, o2) := p_exec st1 ops2 in (st2, o1 ++ o2).
Proof.
  revert st; induction ops1 as [|op ops1 IH]; intros st; simpl.
  - destruct (p_exec st ops2); reflexivity.
  - destruct (p_step st op) as [st1 o]. rewrite IH.
    destruct (p_exec st1 ops1) as [st2 os]. destruct (p_exec st2 ops2); reflexivity.
Qed.

Lemma p_exec_single st o : p_exec st [o] = let '(s, out) := p_step st o in (s, [out]).
Proof. cbn [p_exec]. destruct (p_step st o); reflexivity. Qed.

Definition pvalid (ops : list pop) : Prop :=
  NoDup (map fst (pcalls ops)) /\ (forall i, In i (map fst (pcalls ops)) -> 0 <= i) /\ only_prints ops.

Lemma pfed_of_snoc ops i x : pfed_of (ops ++ [PPrint i x]) = dset (pfed_of ops) i x.
Proof. unfold pfed_of, pcalls. rewrite flat_map_app, fold_left_app. reflexivity. Qed.
Lemma dkeys_pfed_of ops i : In i (dkeys (pfed_of ops)) <-> In i (map fst (pcalls ops)).
Proof. unfold pfed_of. rewrite dkeys_fold_dset. simpl. tauto. Qed.

Lemma print_invariant_lemma : forall ops st outs,
  pvalid ops -> p_exec p_init ops = (st, outs) ->
  PInv (pfed_of ops) (printed outs) st.
Proof.
  induction ops as [|o ops IH] using rev_ind; intros st outs Hv Hex.
  - simpl in Hex. injection Hex as <- <-.
    constructor; simpl; auto; try constructor. intros i. destruct (0 <=? i); reflexivity.
  - rewrite p_exec_app in Hex.
    destruct (p_exec p_init ops) as [st1 o1] eqn:E1.
    destruct Hv as (Hnd & Hpos & Hop).
    assert (Hv1 : pvalid ops).
    { unfold pcalls in *. rewrite flat_map_app, map_app in Hnd, Hpos. repeat split.
      - apply NoDup_app_l in Hnd; exact Hnd.
      - intros i Hi. apply Hpos. apply in_or_app; left; exact Hi.
      - intros o' Ho'. apply Hop. apply in_or_app; left; exact Ho'. }
    specialize (IH st1 o1 Hv1 eq_refl).
    destruct (Hop o) as (i & x & ->); [apply in_or_app; right; left; reflexivity|].
    assert (Hi : 0 <= i).
    { apply Hpos. unfold pcalls. rewrite flat_map_app, map_app. apply in_or_app; right; simpl; auto. }
    assert (Hni : ~ In i (dkeys (pfed_of ops))).
    { rewrite dkeys_pfed_of. unfold pcalls in Hnd. rewrite flat_map_app, map_app in Hnd. simpl in Hnd.
      apply NoDup_remove_2 in Hnd. rewrite app_nil_r in Hnd. exact Hnd. }
    destruct (pinv_print _ _ _ i x IH Hi Hni) as (out & st' & Hs & Hinv & _).
    rewrite p_exec_single, Hs in Hex. injection Hex as <- <-.
    rewrite pfed_of_snoc. unfold printed. rewrite map_app, concat_app. simpl. rewrite app_nil_r.
    exact Hinv.
Qed.

Definition ppayload (ops : list pop) (i : Z) : Z := match dget (pfed_of ops) i with Some x => x | None => 0 end.

(* C15, PrintBuffer: after any sequence of prints with distinct serials, what has been written is exactly
   payload 0, 1, ..., waiting_for-1 in that order; held items all have serial > waiting_for (so nothing that
   could be printed is held back), and len() = #fed - #printed. *)
Theorem print_invariant : forall ops st outs,
  pvalid ops -> p_exec p_init ops = (st, outs) ->
  printed outs = map (ppayload ops) (zrange 0 (Z.to_nat (p_wait st)))
  /\ p_wait st = Z.of_nat (length (printed outs))
  /\ (forall i, In i (dkeys (p_buf st)) -> p_wait st < i)
  /\ p_len st = Z.of_nat (length (pfed_of ops)) - p_wait st.
Proof.
  intros ops st outs Hv Hex.
  destruct (print_invariant_lemma ops st outs Hv Hex) as [Hw Hem Hh Hnd Hlen Hfnd Heag].
  repeat split.
  - rewrite Hw, Nat2Z.id. apply map_some_payload; exact Hem.
  - exact Hw.
  - intros i Hi. destruct (dget (p_buf st) i) eqn:G; [|apply dget_none_notin in G; contradiction].
    pose proof G as G'. rewrite (Hh i) in G. destruct (p_wait st <=? i) eqn:E; [|discriminate].
    destruct (Z.eq_dec i (p_wait st)) as [->|]; [congruence | lia].
  - unfold p_len. lia.
Qed.

(* every permutation of 0..n-1: all printed, in order, nothing left *)
Theorem print_permutation_complete : forall (n : nat) ops st outs,
  only_prints ops -> Permutation (map fst (pcalls ops)) (zrange 0 n) ->
  p_exec p_init ops = (st, outs) ->
  printed outs = map (ppayload ops) (zrange 0 n) /\ p_wait st = Z.of_nat n /\ p_len st = 0.
Proof.
  intros n ops st outs Hop Hperm Hex.
  assert (Hv : pvalid ops).
  { repeat split; auto.
    - eapply Permutation_NoDup; [symmetry; exact Hperm | apply zrange_nodup].
    - intros i Hi. eapply Permutation_in in Hi; [|exact Hperm]. apply zrange_in in Hi. lia. }
  destruct (print_invariant_lemma ops st outs Hv Hex) as [Hw Hem Hh Hnd Hlen Hfnd Heag].
  assert (Hfl : length (pfed_of ops) = n).
  { rewrite <- (zrange_length 0 n). rewrite <- (map_length fst (pfed_of ops)).
    apply Permutation_length. apply NoDup_Permutation; [exact Hfnd | apply zrange_nodup|].
    intros i. fold (dkeys (pfed_of ops)). rewrite dkeys_pfed_of. split; intros Hi.
    - eapply Permutation_in; [exact Hperm | exact Hi].
    - eapply Permutation_in; [symmetry; exact Hperm | exact Hi]. }
  assert (Hk : length (printed outs) = n).
  { destruct (Nat.eq_dec (length (printed outs)) n) as [|Hneq]; [assumption|]. exfalso.
    assert (Hin : In (p_wait st) (dkeys (pfed_of ops))).
    { rewrite dkeys_pfed_of. eapply Permutation_in; [symmetry; exact Hperm|]. apply zrange_in. lia. }
    rewrite (Hh (p_wait st)), Z.leb_refl in Heag. apply dget_none_notin in Heag. contradiction. }
  repeat split.
  - rewrite <- Hk. apply map_some_payload. exact Hem.
  - lia.
  - unfold p_len. lia.
Qed.

Theorem print_returns_whether_printed : forall st i x,
  po_ret (snd (p_step st (PPrint i x))) = negb (match po_printed (snd (p_step st (PPrint i x))) with [] => true | _ => false end).
Proof.
  intros st i x. simpl. destruct (i =? p_wait st).
  - destruct (b_drain _ _ _) as [[out w] s]. reflexivity.
  - reflexivity.
Qed.

(* flush(): everything held is written in ascending serial order, the buffer is empty afterwards and
   waiting_for is one past the biggest held serial (unchanged when nothing was held); clear() resets. *)
Lemma ins_by_key_perm e l : Permutation (ins_by_key e l) (e :: l).
Proof.
  induction l as [|h t IH]; simpl; [reflexivity|].
  destruct (fst e <=? fst h); [reflexivity|].
  rewrite IH. apply perm_swap.
Qed.
Lemma sort_by_key_perm l : Permutation (sort_by_key l) l.
Proof. induction l as [|h t IH]; simpl; [reflexivity|]. rewrite ins_by_key_perm. constructor; exact IH. Qed.

Definition key_le (a b : Z * Z) : Prop := fst a <= fst b.
Lemma ins_by_key_sorted e l : Sorted key_le l -> Sorted key_le (ins_by_key e l).
Proof.
  induction l as [|h t IH]; simpl; intros Hs; [repeat constructor|].
  destruct (fst e <=? fst h) eqn:E.
  - constructor; [exact Hs|]. constructor. unfold key_le; lia.
  - inversion Hs as [|? ? Hs' Hhd]; subst. constructor; [apply IH; exact Hs'|].
    destruct t as [|h2 t2]; simpl.
    + constructor. unfold key_le; lia.
    + destruct (fst e <=? fst h2) eqn:E2; constructor; unfold key_le.
      * lia.
      * inversion Hhd; subst. assumption.
Qed.
Lemma sort_by_key_sorted l : Sorted key_le (sort_by_key l).
Proof. induction l as [|h t IH]; simpl; [constructor | apply ins_by_key_sorted; exact IH]. Qed.

Theorem print_flush_spec : forall st st' o,
  p_step st PFlush = (st', o) ->
  exists srt, Permutation srt (p_buf st) /\ Sorted key_le srt /\ po_printed o = map snd srt
    /\ p_buf st' = []
    /\ p_wait st' = match rev srt with [] => p_wait st | (k, _) :: _ => k + 1 end.
Proof.
  intros st st' o H. simpl in H. injection H as <- <-.
  exists (sort_by_key (p_buf st)). repeat split; auto using sort_by_key_perm, sort_by_key_sorted.
Qed.
Theorem print_clear_spec : forall st, fst (p_step st PClear) = p_init.
Proof. reflexivity. Qed.

(* ------------------------------------------------------------------ CircularBuffer *)
Definition rputs (ops : list rop) : list Z :=
  fold_left (fun h o => match o with RPut e => h ++ [e] | RClear => [] end) ops [].

Record RInv (c : nat) (h : list Z) (st : rst) : Prop := {
  ri_cap : length (r_buf st) = c;
  ri_size : r_size st = Z.of_nat (Nat.min (length h) c);
  ri_off : r_off st = Z.of_nat (length h) mod Z.of_nat c;
  ri_buf : forall m, (length h - c <= m < length h)%nat ->
           nth (Z.to_nat (Z.of_nat m mod Z.of_nat c)) (r_buf st) 0 = nth m h 0;
}.

Lemma mod_neq a b c : 0 < c -> 0 < a - b < c -> a mod c <> b mod c.
Proof.
  intros Hc Hab Heq.
  pose proof (Z.div_mod a c ltac:(lia)) as Ha. pose proof (Z.div_mod b c ltac:(lia)) as Hb.
  assert (a - b = c * (a / c - b / c)) by lia.
  assert (0 < a / c - b / c < 1) by nia. lia.
Qed.

Lemma rinv_step c h st op : (0 < c)%nat -> RInv c h st ->
  RInv c (match op with RPut e => h ++ [e] | RClear => [] end) (r_step st op).
Proof.
  intros Hc [Hcap Hsize Hoff Hbuf]. destruct op as [e|]; simpl.
  - assert (Hoffr : 0 <= r_off st < Z.of_nat c) by (rewrite Hoff; apply Z.mod_pos_bound; lia).
    constructor; simpl.
    + rewrite upd_length; exact Hcap.
    + unfold r_cap. rewrite Hcap, Hsize, app_length. simpl.
      destruct (Z.of_nat (Nat.min (length h) c) <? Z.of_nat c) eqn:E; lia.
    + unfold r_cap. rewrite Hcap, Hoff, app_length. simpl.
      rewrite Zplus_mod_idemp_l. f_equal. lia.
    + intros m Hm. rewrite app_length in Hm. simpl in Hm.
      destruct (Nat.eq_dec m (length h)) as [->|Hne].
      * rewrite <- Hoff. rewrite nth_upd_same by lia. rewrite app_nth2 by lia. rewrite Nat.sub_diag. reflexivity.
      * rewrite nth_upd_other.
        -- rewrite app_nth1 by lia. apply Hbuf. lia.
        -- rewrite Hoff. intros Heq. apply Z2Nat.inj in Heq; try (apply Z.mod_pos_bound; lia).
           revert Heq. apply mod_neq; lia.
  - constructor; simpl; auto.
    all: try (intros m Hm; lia).
    all: try (rewrite Z.mod_0_l by lia; reflexivity).
Qed.

Lemma rinv_run c : (0 < c)%nat -> forall ops h st, RInv c h st ->
  RInv c (fold_left (fun h o => match o with RPut e => h ++ [e] | RClear => [] end) ops h) (fold_left r_step ops st).
Proof.
  intros Hc. induction ops as [|o ops IH]; intros h st Hi; simpl; [exact Hi|].
  apply IH. apply rinv_step; assumption.
Qed.

Lemma rinv_init c : (0 < c)%nat -> RInv c [] (r_init c).
Proof.
  intros Hc. constructor; simpl.
  - apply repeat_length.
  - reflexivity.
  - rewrite Z.mod_0_l by lia. reflexivity.
  - intros m Hm. simpl in Hm. lia.
Qed.

Lemma rinv_get c h st j : (0 < c)%nat -> RInv c h st -> (j < Nat.min (length h) c)%nat ->
  r_get st (Z.of_nat j) = Some (nth j (lastn (Nat.min (length h) c) h) 0).
Proof.
  intros Hc [Hcap Hsize Hoff Hbuf] Hj. unfold r_get.
  destruct ((Z.of_nat j >=? r_size st) || (0 >? Z.of_nat j)) eqn:E.
  - apply orb_true_iff in E. destruct E as [E|E]; lia.
  - f_equal. unfold r_cap. rewrite Hcap, Hsize, Hoff.
    rewrite nth_lastn by lia.
    replace (Z.of_nat (length h) mod Z.of_nat c - Z.of_nat (Nat.min (length h) c) + Z.of_nat j)
      with (Z.of_nat (length h) mod Z.of_nat c + (Z.of_nat j - Z.of_nat (Nat.min (length h) c))) by lia.
    rewrite Zplus_mod_idemp_l.
    replace (Z.of_nat (length h) + (Z.of_nat j - Z.of_nat (Nat.min (length h) c)))
      with (Z.of_nat (length h - Nat.min (length h) c + j)) by lia.
    apply Hbuf. lia.
Qed.

(* C15, CircularBuffer: for every capacity c > 0 and every sequence of put/clear, the buffer presents
   exactly the last min(k, c) items put since the last clear, oldest first; len() is min(k, c);
   an index is rejected iff it lies outside 0..len-1. *)
Theorem ring_last_n : forall (c : nat) (ops : list rop), (0 < c)%nat ->
  let st := fold_left r_step ops (r_init c) in
  let k := length (rputs ops) in
  r_to_list st = lastn (Nat.min k c) (rputs ops)
  /\ r_size st = Z.of_nat (Nat.min k c)
  /\ (forall i, r_get st i = None <-> (i < 0 \/ Z.of_nat (Nat.min k c) <= i)).
Proof.
  intros c ops Hc st k.
  pose proof (rinv_run c Hc ops [] (r_init c) (rinv_init c Hc)) as Hinv.
  fold (rputs ops) in Hinv. fold st in Hinv. fold k in Hinv.
  pose proof (ri_size _ _ _ Hinv) as Hsize. fold k in Hsize.
  repeat split.
  - unfold r_to_list. rewrite Hsize, Nat2Z.id.
    assert (Hl : length (lastn (Nat.min k c) (rputs ops)) = Nat.min k c) by (rewrite lastn_length; unfold k; lia).
    rewrite <- Hl at 1. apply (map_seq_nth_eq _ _ 0). rewrite Hl. intros j Hj. simpl.
    rewrite (rinv_get c _ st j Hc Hinv) by exact Hj. reflexivity.
  - exact Hsize.
  - unfold r_get. rewrite Hsize.
    destruct ((i >=? Z.of_nat (Nat.min k c)) || (0 >? i)) eqn:E.
    + intros _. apply orb_true_iff in E. destruct E as [E|E]; lia.
    + discriminate.
  - unfold r_get. rewrite Hsize. intros H.
    destruct ((i >=? Z.of_nat (Nat.min k c)) || (0 >? i)) eqn:E; [reflexivity|].
    apply orb_false_iff in E. destruct E as [E1 E2]. lia.
Qed.
