(* Proofs about Model/Csv.v (property C13): writer/reader round trip for ALL field strings, single-line output,
   the shared buffer discipline. *)
From Coq Require Import List ZArith Lia Bool.
From WPU Require Import Common.Val Model.Csv.
Import ListNotations.
Open Scope Z_scope.

Section CsvP.
Variable D : ch.
Hypothesis D_ok : D <> Q /\ D <> CR /\ D <> LF.
Notation special := (special D). Notation needs_quote := (needs_quote D). Notation wfield := (wfield D).
Notation wjoin := (wjoin D). Notation wrow := (wrow D). Notation pchar := (pchar D). Notation start_field := (start_field D).
Notation read := (read D). Notation wbody := (wbody D).

Definition plain (f : list ch) : Prop := forall c, In c f -> c <> CR /\ c <> LF.

Lemma existsb_false_forall f : existsb special f = false -> forall c, In c f -> special c = false.
Proof. intros H c Hc. destruct (special c) eqn:E; [|reflexivity].
  assert (existsb special f = true) by (apply existsb_exists; eauto). congruence. Qed.

(* an unquoted, non-empty-or-empty field body consumed in IN_FIELD *)
Lemma in_field_body f : forall acc dn, (forall c, In c f -> special c = false) ->
  fold_left pchar f (mkrd IN_FIELD acc dn) = mkrd IN_FIELD (rev f ++ acc) dn.
Proof.
  induction f as [|c f IH]; intros acc dn H; simpl; [reflexivity|].
  assert (Hc : special c = false) by (apply H; left; reflexivity).
  unfold special in Hc. apply orb_false_iff in Hc as [Hc HLF]. apply orb_false_iff in Hc as [Hc HCR]. apply orb_false_iff in Hc as [HD HQ].
  unfold pchar at 2; simpl. unfold isnl. rewrite HCR, HLF, HD; simpl. unfold addc; simpl.
  rewrite IH by (intros; apply H; right; assumption). rewrite <- app_assoc. reflexivity.
Qed.

(* a quoted body: dbl f consumed in IN_QUOTED *)
Lemma quoted_body f : forall acc dn,
  fold_left pchar (dbl f) (mkrd IN_QUOTED acc dn) = mkrd IN_QUOTED (rev f ++ acc) dn.
Proof.
  induction f as [|c f IH]; intros acc dn; simpl; [reflexivity|].
  destruct (c =? Q) eqn:E.
  - apply Z.eqb_eq in E; subst c. cbn [fold_left]. 
    change (pchar (pchar (mkrd IN_QUOTED acc dn) Q) Q) with (mkrd IN_QUOTED (Q :: acc) dn).
    rewrite IH, <- app_assoc. reflexivity.
  - cbn [fold_left]. unfold pchar at 2; cbn [st]. rewrite E. unfold addc; cbn [cur done].
    rewrite IH, <- app_assoc. reflexivity.
Qed.

Lemma special_false c : special c = false -> c <> D /\ c <> Q /\ c <> CR /\ c <> LF.
Proof.
  unfold special. intros H. apply orb_false_iff in H as [H HLF]. apply orb_false_iff in H as [H HCR].
  apply orb_false_iff in H as [HD HQ]. rewrite Z.eqb_neq in *. auto.
Qed.

Lemma pchar_start s0 acc dn c : (s0 = START_FIELD \/ s0 = START_RECORD) -> isnl c = false ->
  pchar (mkrd s0 acc dn) c = start_field (mkrd s0 acc dn) c.
Proof. intros [-> | ->] H; unfold pchar; cbn [st]; [reflexivity | rewrite H; reflexivity]. Qed.

Lemma isnl_false c : c <> CR -> c <> LF -> isnl c = false.
Proof. intros. unfold isnl. apply orb_false_iff; split; apply Z.eqb_neq; assumption. Qed.

(* reading one written field from the start of a field, followed by a delimiter or CR *)
Lemma read_wfield_then f t dn s0 :
  (s0 = START_FIELD \/ s0 = START_RECORD) -> (t = D \/ t = CR) ->
  ~ (f = [] /\ s0 = START_RECORD /\ t = CR) ->
  fold_left pchar (wfield f ++ [t]) (mkrd s0 [] dn)
  = mkrd (if t =? D then START_FIELD else EAT_CRNL) [] (f :: dn).
Proof.
  destruct D_ok as (DQ & DCR & DLF).
  intros Hs Ht Hne. unfold wfield. destruct (needs_quote f) eqn:Enq.
  - (* quoted *)
    cbn [app fold_left]. rewrite pchar_start by (auto; reflexivity).
    unfold start_field. change (isnl Q) with false. change (Q =? Q) with true. cbv iota. cbn [cur done].
    rewrite <- app_assoc, fold_left_app, quoted_body. rewrite app_nil_r. cbn [app fold_left].
    change (pchar (mkrd IN_QUOTED (rev f) dn) Q) with (mkrd QUOTE_IN_QUOTED (rev f) dn).
    unfold pchar; cbn [st]. destruct Ht as [-> | ->].
    + rewrite Z.eqb_refl. destruct (D =? Q) eqn:E; [apply Z.eqb_eq in E; congruence|].
      unfold save; cbn [cur done]. rewrite rev_involutive. reflexivity.
    + change (CR =? Q) with false. destruct (CR =? D) eqn:E; [apply Z.eqb_eq in E; congruence|].
      change (isnl CR) with true. unfold save; cbn [cur done]. rewrite rev_involutive. reflexivity.
  - (* unquoted *)
    pose proof (existsb_false_forall _ Enq) as Hsp.
    destruct f as [|c f'].
    + cbn [app fold_left]. destruct Ht as [-> | ->].
      * rewrite pchar_start by (auto; apply isnl_false; assumption).
        unfold start_field. rewrite isnl_false by assumption. rewrite Z.eqb_refl.
        destruct (D =? Q) eqn:E; [apply Z.eqb_eq in E; congruence|]. reflexivity.
      * destruct Hs as [-> | ->]; [|exfalso; apply Hne; auto].
        unfold pchar; cbn [st]. unfold start_field. change (isnl CR) with true.
        destruct (CR =? D) eqn:E; [apply Z.eqb_eq in E; congruence|]. reflexivity.
    + destruct (special_false c (Hsp c (or_introl eq_refl))) as (cD & cQ & cCR & cLF).
      cbn [app fold_left]. rewrite pchar_start by (auto; apply isnl_false; assumption).
      unfold start_field. rewrite isnl_false by assumption.
      destruct (c =? Q) eqn:E1; [apply Z.eqb_eq in E1; congruence|].
      destruct (c =? D) eqn:E2; [apply Z.eqb_eq in E2; congruence|].
      unfold addc; cbn [cur done]. rewrite fold_left_app, in_field_body by (intros; apply Hsp; right; assumption).
      cbn [fold_left]. unfold pchar; cbn [st]. destruct Ht as [-> | ->].
      * rewrite isnl_false by assumption. rewrite Z.eqb_refl. unfold save; cbn [cur done].
        rewrite rev_app_distr, rev_involutive. reflexivity.
      * change (isnl CR) with true. unfold save; cbn [cur done].
        destruct (CR =? D) eqn:E; [apply Z.eqb_eq in E; congruence|].
        rewrite rev_app_distr, rev_involutive. reflexivity.
Qed.

Lemma read_wjoin fs : forall dn s0, fs <> [] ->
  (s0 = START_FIELD \/ (s0 = START_RECORD /\ fs <> [[]])) ->
  fold_left pchar (wjoin fs ++ [CR]) (mkrd s0 [] dn) = mkrd EAT_CRNL [] (rev fs ++ dn).
Proof.
  destruct D_ok as (DQ & DCR & DLF).
  induction fs as [|f r IH]; intros dn s0 Hne Hs; [congruence|].
  destruct r as [|g r'].
  - cbn [wjoin]. rewrite read_wfield_then.
    + destruct (CR =? D) eqn:E; [apply Z.eqb_eq in E; congruence|]. reflexivity.
    + destruct Hs as [-> | [-> _]]; auto.
    + right; reflexivity.
    + intros (-> & -> & _). destruct Hs as [Hs | [_ Hs]]; [discriminate | congruence].
  - change (wjoin (f :: g :: r')) with (wfield f ++ D :: wjoin (g :: r')).
    replace ((wfield f ++ D :: wjoin (g :: r')) ++ [CR]) with ((wfield f ++ [D]) ++ (wjoin (g :: r') ++ [CR]))
      by (rewrite <- !app_assoc; reflexivity).
    rewrite fold_left_app, read_wfield_then.
    + rewrite Z.eqb_refl. rewrite IH; [|discriminate|left; reflexivity].
      cbn [rev]. rewrite <- !app_assoc. reflexivity.
    + destruct Hs as [-> | [-> _]]; auto.
    + left; reflexivity.
    + intros (_ & _ & E). congruence.
Qed.

Theorem csv_roundtrip fs : fs <> [] -> read (wrow fs) = Some fs.
Proof.
  intros Hne. unfold read, wrow.
  assert (Hsingle : fs = [[]] \/ fs <> [[]]).
  { destruct fs as [|[|c f] [|g r]]; auto; right; discriminate. }
  destruct Hsingle as [-> | Hns].
  - destruct D_ok as (DQ & DCR & DLF).
    assert (E : (CR =? D) = false) by (apply Z.eqb_neq; congruence).
    unfold rinit. cbn [fold_left].
    change (pchar (pchar (mkrd START_RECORD [] []) Q) Q) with (mkrd QUOTE_IN_QUOTED [] []).
    replace (pchar (mkrd QUOTE_IN_QUOTED [] []) CR) with (mkrd EAT_CRNL [] [[]]).
    + reflexivity.
    + unfold pchar; cbn [st]. change (CR =? Q) with false. rewrite E. reflexivity.
  - replace (match fs with [[]] => [Q; Q; CR; LF] | _ => wjoin fs ++ [CR; LF] end) with ((wjoin fs ++ [CR]) ++ [LF]).
    + rewrite fold_left_app. unfold rinit. rewrite read_wjoin by auto.
      cbn. rewrite app_nil_r, rev_involutive. reflexivity.
    + rewrite <- app_assoc. destruct fs as [|[|c f] [|g r]]; try reflexivity; congruence.
Qed.

(* the row as stored in a line file (LF stripped, CR kept) reads back the same *)
Theorem read_body_cr fs : fs <> [] -> read (wbody fs ++ [CR]) = Some fs.
Proof.
  intros Hne. unfold read, Csv.wbody.
  assert (Hsingle : fs = [[]] \/ fs <> [[]]).
  { destruct fs as [|[|c f] [|g r]]; auto; right; discriminate. }
  destruct Hsingle as [-> | Hns].
  - destruct D_ok as (DQ & DCR & DLF).
    assert (E : (CR =? D) = false) by (apply Z.eqb_neq; congruence).
    unfold rinit. cbn [app fold_left].
    change (pchar (pchar (mkrd START_RECORD [] []) Q) Q) with (mkrd QUOTE_IN_QUOTED [] []).
    replace (pchar (mkrd QUOTE_IN_QUOTED [] []) CR) with (mkrd EAT_CRNL [] [[]]).
    + reflexivity.
    + unfold Csv.pchar; cbn [st]. change (CR =? Q) with false. rewrite E. reflexivity.
  - replace (match fs with [[]] => [Q; Q] | _ => wjoin fs end) with (wjoin fs)
      by (destruct fs as [|[|c f] [|g r]]; try reflexivity; congruence).
    unfold rinit. rewrite read_wjoin by auto. cbn. rewrite app_nil_r, rev_involutive. reflexivity.
Qed.

Lemma wrow_body fs : wrow fs = wbody fs ++ [CR; LF].
Proof. unfold Csv.wrow, Csv.wbody. destruct fs as [|[|c f] [|g r]]; reflexivity. Qed.

(* C13: fields without line breaks give a record that occupies a single line: the only CR/LF is the final CRLF *)
Lemma dbl_plain f : plain f -> forall c, In c (dbl f) -> c <> CR /\ c <> LF.
Proof.
  induction f as [|x f IH]; intros H c Hc; simpl in Hc; [destruct Hc|].
  assert (Hx : x <> CR /\ x <> LF) by (apply H; left; reflexivity).
  assert (Hf : plain f) by (intros y Hy; apply H; right; exact Hy).
  destruct (x =? Q) eqn:E.
  - destruct Hc as [<-|[<-|Hc]]; [unfold Q, CR, LF; lia | unfold Q, CR, LF; lia | apply IH; assumption].
  - destruct Hc as [<-|Hc]; [exact Hx | apply IH; assumption].
Qed.
Lemma wfield_plain f : plain f -> forall c, In c (wfield f) -> c <> CR /\ c <> LF.
Proof.
  intros H c Hc. unfold Csv.wfield in Hc. destruct (needs_quote f); [|apply H; exact Hc].
  destruct Hc as [<-|Hc]; [unfold Q, CR, LF; lia|]. apply in_app_or in Hc.
  destruct Hc as [Hc|[<-|[]]]; [apply (dbl_plain f H); exact Hc | unfold Q, CR, LF; lia].
Qed.
Theorem csv_single_line fs : Forall plain fs -> forall c, In c (wbody fs) -> c <> CR /\ c <> LF.
Proof.
  destruct D_ok as (DQ & DCR & DLF).
  intros H c Hc. unfold Csv.wbody in Hc.
  assert (G : forall fs, Forall plain fs -> forall c, In c (wjoin fs) -> c <> CR /\ c <> LF).
  { clear -DCR DLF. induction fs as [|f r IH]; intros H c Hc; [destruct Hc|]. inversion H; subst.
    destruct r as [|g r']; [apply (wfield_plain f H2); exact Hc|].
    change (wjoin (f :: g :: r')) with (wfield f ++ D :: wjoin (g :: r')) in Hc.
    apply in_app_or in Hc. destruct Hc as [Hc|[<-|Hc]]; [apply (wfield_plain f H2); exact Hc | auto | apply IH; assumption]. }
  destruct fs as [|[|x f] [|g r]]; try (apply (G _ H c Hc)).
  destruct Hc as [<-|[<-|[]]]; unfold Q, CR, LF; lia.
Qed.
End CsvP.

(* ---------------- the shared buffer ---------------- *)
(* C13: whatever sequence of save() calls on whatever mix of CSV / TSV record classes: the buffer is empty with
   position 0 between calls, so each call returns exactly the encoding of its own row *)
Lemma dict_to_string_clean D fs : dict_to_string (mkSio [] O) D fs = (mkSio [] O, wrow D fs).
Proof.
  unfold dict_to_string, sio_write, sio_seek0, sio_truncate0, sio_getvalue. simpl.
  rewrite skipn_nil, app_nil_r. reflexivity.
Qed.
Theorem shared_buffer_inv calls : save_seq (mkSio [] O) calls = map (fun c => wrow (fst c) (snd c)) calls.
Proof.
  induction calls as [|[D fs] r IH]; [reflexivity|].
  cbn [save_seq map fst snd]. rewrite dict_to_string_clean. f_equal. exact IH.
Qed.

(* ---------------- records through an abstract codec (JSON: assumed, exercised by the correspondence only) ---------------- *)
Section AbstractCodec.
Variables (R : Type) (enc : R -> list Z) (dec : list Z -> option R).
Hypothesis dec_enc : forall r, dec (enc r) = Some r.
Hypothesis enc_single_line : forall r c, In c (enc r) -> c <> CR /\ c <> LF.
(* a record file over lines produced by save(): item i is load(line i) *)
Theorem record_lines_roundtrip (rs : list R) : map dec (map enc rs) = map Some rs.
Proof. rewrite map_map. apply map_ext. exact dec_enc. Qed.
End AbstractCodec.
