(* Proofs about Model/LineFile.v (properties C11, C12). *)
From Coq Require Import ZArith List Bool Lia ZifyBool.
From WPU Require Import Common.Val Common.ListX Model.LineFile.
Import ListNotations.
Open Scope Z_scope.

Definition no_nl (l : list Z) : Prop := ~ In NL l.
Definition join (ls : list (list Z)) : list Z := concat (map (fun l => l ++ [NL]) ls).

Lemma take_line_app l t : no_nl l -> take_line (l ++ NL :: t) = l.
Proof.
  induction l as [|b l IH]; intros H; simpl; [reflexivity|].
  destruct (b =? NL) eqn:E; [exfalso; apply H; left; unfold NL in *; lia|].
  f_equal. apply IH. intros Hin. apply H. right; exact Hin.
Qed.
Lemma take_line_all l : no_nl l -> take_line l = l.
Proof.
  induction l as [|b l IH]; intros H; simpl; [reflexivity|].
  destruct (b =? NL) eqn:E; [exfalso; apply H; left; unfold NL in *; lia|].
  f_equal. apply IH. intros Hin. apply H. right; exact Hin.
Qed.
Lemma no_nl_rev l : no_nl l -> no_nl (rev l).
Proof. unfold no_nl. intros H Hin. apply H. apply in_rev. exact Hin. Qed.

(* ------------------------------------------------------------------ the index and the lines *)
(* invariant of the scan: the file is pre0 ++ rev cur ++ s, the current line starts at |pre0| *)
Lemma scan_spec : forall s pre0 cur, no_nl cur ->
  let c := pre0 ++ rev cur ++ s in
  Forall (fun p => read_line_at c (fst p) = snd p /\ no_nl (snd p))
         (scan (Z.of_nat (length pre0 + length cur)) (Z.of_nat (length pre0)) cur s).
Proof.
  induction s as [|b t IH]; intros pre0 cur Hc c; cbn [scan]; rewrite <- ?rev_alt.
  - destruct cur as [|x cur']; [constructor|]. remember (x :: cur') as cur0. constructor; [|constructor]. cbn [fst snd]. split.
    + unfold read_line_at, c. rewrite Nat2Z.id, app_nil_r, skipn_app, skipn_all, Nat.sub_diag. cbn [skipn app].
      apply take_line_all. apply no_nl_rev. exact Hc.
    + apply no_nl_rev. exact Hc.
  - destruct (b =? NL) eqn:E.
    + assert (b = NL) by lia. subst b. constructor.
      * cbn [fst snd]. split; [|apply no_nl_rev; exact Hc].
        unfold read_line_at, c. rewrite Nat2Z.id, skipn_app, skipn_all, Nat.sub_diag. cbn [skipn app].
        apply take_line_app. apply no_nl_rev. exact Hc.
      * specialize (IH (pre0 ++ rev cur ++ [NL]) [] ltac:(intros [])).
        simpl in IH. rewrite !app_length, rev_length in IH. simpl in IH.
        replace (Z.of_nat (length pre0 + (length cur + 1) + 0)) with (Z.of_nat (length pre0 + length cur) + 1) in IH by lia.
        replace (Z.of_nat (length pre0 + (length cur + 1))) with (Z.of_nat (length pre0 + length cur) + 1) in IH by lia.
        unfold c. rewrite <- !app_assoc in IH. simpl in IH. exact IH.
    + specialize (IH pre0 (b :: cur)).
      assert (Hc' : no_nl (b :: cur)) by (intros [H|H]; [unfold NL in *; lia | contradiction]).
      specialize (IH Hc'). simpl in IH. rewrite <- app_assoc in IH. simpl in IH.
      replace (Z.of_nat (length pre0 + S (length cur))) with (Z.of_nat (length pre0 + length cur) + 1) in IH by lia.
      exact IH.
Qed.

(* C11: with the index the class builds, the i-th offset is where the i-th line starts: reading there gives
   exactly the i-th '\n'-delimited line, without its terminator *)
Theorem index_read_spec c i : (i < length (index_file c))%nat ->
  read_line_at c (nth i (index_file c) 0) = nth i (lines_of c) [] /\ no_nl (nth i (lines_of c) []).
Proof.
  intros Hi. pose proof (scan_spec c [] [] ltac:(intros [])) as F. simpl in F.
  unfold index_file, lines_of in *. rewrite map_length in Hi.
  rewrite Forall_forall in F. specialize (F (nth i (scan 0 0 [] c) (0, [])) (nth_In _ _ Hi)).
  assert (E1 : nth i (map fst (scan 0 0 [] c)) 0 = fst (nth i (scan 0 0 [] c) (0, []))) by (apply (map_nth fst _ (0, []))).
  assert (E2 : nth i (map snd (scan 0 0 [] c)) [] = snd (nth i (scan 0 0 [] c) (0, []))) by (apply (map_nth snd _ (0, []))).
  rewrite E1, E2. exact F.
Qed.
Theorem index_len c : length (index_file c) = length (lines_of c).
Proof. unfold index_file, lines_of. rewrite !map_length. reflexivity. Qed.

(* what "the lines of a file" are: no line contains '\n'; joined with '\n' they give the file back - exactly, or with
   one '\n' added when the last line is unterminated; so a final '\n' adds no line and an unterminated tail counts *)
Definition tail_open (l : list Z) : bool := match rev l with [] => false | x :: _ => negb (x =? NL) end.

Lemma scan_join : forall s st pos cur, no_nl cur ->
  join (map snd (scan pos st cur s)) = (if tail_open (rev cur ++ s) then rev cur ++ s ++ [NL] else rev cur ++ s)
  /\ (cur = [] -> s = [] -> True).
Proof.
  induction s as [|b t IH]; intros st pos cur Hc; (split; [|auto]).
  - cbn [scan]. rewrite <- ?rev_alt. rewrite app_nil_r. unfold tail_open. rewrite rev_involutive. destruct cur as [|x cur']; [reflexivity|].
    simpl. unfold join. simpl. rewrite app_nil_r.
    destruct (x =? NL) eqn:E; [exfalso; apply Hc; left; unfold NL in *; lia|]. simpl. rewrite <- app_assoc. reflexivity.
  - cbn [scan]. rewrite <- ?rev_alt. destruct (b =? NL) eqn:E.
    + assert (b = NL) by lia. subst b. simpl. unfold join in *. simpl.
      destruct (IH (pos + 1) (pos + 1) [] ltac:(intros [])) as [J _]. simpl in J. rewrite J.
      assert (T : tail_open (rev cur ++ NL :: t) = tail_open t).
      { unfold tail_open. rewrite rev_app_distr. simpl. destruct (rev t) as [|y r] eqn:R; simpl.
        - unfold NL. reflexivity.
        - reflexivity. }
      rewrite T. destruct (tail_open t); rewrite <- !app_assoc; reflexivity.
    + destruct (IH st (pos + 1) (b :: cur)) as [J _].
      { intros [H|H]; [unfold NL in *; lia | contradiction]. }
      rewrite J. simpl. rewrite <- !app_assoc. simpl. reflexivity.
Qed.

Theorem lines_join c :
  Forall no_nl (lines_of c)
  /\ join (lines_of c) = (if tail_open c then c ++ [NL] else c).
Proof.
  split.
  - pose proof (scan_spec c [] [] ltac:(intros [])) as F. simpl in F. unfold lines_of.
    rewrite Forall_forall in *. intros l Hl. apply in_map_iff in Hl. destruct Hl as (p & <- & Hp). apply (F p Hp).
  - unfold lines_of. destruct (scan_join c 0 0 [] ltac:(intros [])) as [J _]. simpl in J. exact J.
Qed.

(* the converse: the lines of a '\n'-joined list of '\n'-free strings are those strings *)
Lemma scan_app_line l : no_nl l -> forall cur st pos t,
  scan pos st cur (l ++ NL :: t) = (st, rev cur ++ l) :: scan (pos + Z.of_nat (length l) + 1) (pos + Z.of_nat (length l) + 1) [] t.
Proof.
  induction l as [|b l IH]; intros Hl cur st pos t; simpl; rewrite <- ?rev_alt.
  - rewrite app_nil_r. replace (pos + 0 + 1) with (pos + 1) by lia. reflexivity.
  - destruct (b =? NL) eqn:E; [exfalso; apply Hl; left; unfold NL in *; lia|].
    rewrite IH by (intros H; apply Hl; right; exact H). simpl. rewrite <- app_assoc. simpl.
    replace (pos + 1 + Z.of_nat (length l) + 1) with (pos + Z.pos (Pos.of_succ_nat (length l)) + 1) by lia. reflexivity.
Qed.

Theorem lines_of_join ls : Forall no_nl ls -> lines_of (join ls) = ls.
Proof.
  unfold lines_of. generalize 0 at 1 2. induction ls as [|l r IH]; intros pos H; [reflexivity|].
  inversion H; subst. unfold join. simpl. rewrite <- app_assoc. simpl.
  rewrite scan_app_line by assumption. simpl. f_equal. apply IH. assumption.
Qed.

(* ------------------------------------------------------------------ reads do not depend on the cursor *)
Theorem rf_read_spec f j :
  snd (rf_read f j) = read_line_at (rf_content f) (nth j (rf_index f) 0)
  /\ rf_content (fst (rf_read f j)) = rf_content f /\ rf_index (fst (rf_read f j)) = rf_index f
  /\ rf_closed (fst (rf_read f j)) = rf_closed f /\ rf_iters (fst (rf_read f j)) = rf_iters f.
Proof. unfold rf_read. simpl. repeat split; reflexivity. Qed.

(* C11: f[i] for positive and negative i, with ANY offset index (built, given, a subset, a permutation):
   the line that starts at the i-th offset of the index; IndexError outside -len..len-1 *)
Theorem rf_get_spec f i :
  match py_index (length (rf_index f)) i with
  | Some j => snd (rf_get f i) = Some (read_line_at (rf_content f) (nth j (rf_index f) 0))
  | None => snd (rf_get f i) = None
  end.
Proof. unfold rf_get. destruct (py_index _ i); [destruct (rf_read_spec f n) as [H _]; destruct (rf_read f n); simpl in *; f_equal; exact H | reflexivity]. Qed.

Theorem py_index_spec n i :
  py_index n i = if (0 <=? i) && (i <? Z.of_nat n) then Some (Z.to_nat i)
                 else if (- Z.of_nat n <=? i) && (i <? 0) then Some (Z.to_nat (Z.of_nat n + i)) else None.
Proof. unfold py_index. destruct ((0 <=? i) && (i <? Z.of_nat n)); [reflexivity|]. rewrite andb_comm. reflexivity. Qed.

(* frame: an access changes nothing but the cursor *)
Definition same_file (f g : rfile) : Prop :=
  rf_content g = rf_content f /\ rf_index g = rf_index f /\ rf_closed g = rf_closed f /\ rf_iters g = rf_iters f.
Lemma same_file_refl f : same_file f f. Proof. repeat split. Qed.
Lemma same_file_trans f g h : same_file f g -> same_file g h -> same_file f h.
Proof. intros (A & B & C & D) (A' & B' & C' & D'). repeat split; congruence. Qed.

Lemma rf_get_frame f i : same_file f (fst (rf_get f i)).
Proof.
  unfold rf_get. destruct (py_index _ i) as [j|]; [|apply same_file_refl].
  destruct (rf_read_spec f j) as (_ & A & B & C & D). destruct (rf_read f j). simpl in *. repeat split; assumption.
Qed.
Lemma rf_get_all_frame is : forall f, same_file f (fst (rf_get_all f is)).
Proof.
  induction is as [|i r IH]; intros f; simpl; [apply same_file_refl|].
  pose proof (rf_get_frame f i) as F. destruct (rf_get f i) as [f1 [l|]]; simpl in *; [|exact F].
  specialize (IH f1). destruct (rf_get_all f1 r) as [f2 [ls|]]; simpl in *; eapply same_file_trans; eauto.
Qed.

(* index iterables / slices / list(f): element-wise the same as single accesses, so they select like a list *)
Fixpoint sel_lines (c idx : list Z) (is : list Z) : option (list (list Z)) :=
  match is with
  | [] => Some []
  | i :: r => match py_index (length idx) i, sel_lines c idx r with
              | Some j, Some ls => Some (read_line_at c (nth j idx 0) :: ls)
              | _, _ => None
              end
  end.
Theorem rf_get_all_spec is : forall f, snd (rf_get_all f is) = sel_lines (rf_content f) (rf_index f) is.
Proof.
  induction is as [|i r IH]; intros f; simpl; [reflexivity|].
  pose proof (rf_get_spec f i) as G. pose proof (rf_get_frame f i) as (A & B & _).
  destruct (py_index (length (rf_index f)) i) as [j|] eqn:P.
  - destruct (rf_get f i) as [f1 o]. simpl in *. subst o. specialize (IH f1). rewrite A, B in IH.
    destruct (rf_get_all f1 r) as [f2 o2]. simpl in *. subst o2.
    destruct (sel_lines (rf_content f) (rf_index f) r); reflexivity.
  - destruct (rf_get f i) as [f1 o]. simpl in *. subst o. reflexivity.
Qed.

(* ------------------------------------------------------------------ iteration under interleaving *)
Definition iters_ok (f : rfile) : Prop :=
  forall it n stop, nth it (rf_iters f) ItDone = ItRun n stop -> stop = length (rf_index f).

Lemma nth_set_nth_same {A} (l : list A) n x d : (n < length l)%nat -> nth n (set_nth n x l) d = x.
Proof. revert n; induction l as [|h t IH]; intros [|n] H; simpl in *; try lia; auto. apply IH; lia. Qed.
Lemma nth_set_nth_other {A} (l : list A) n m x d : n <> m -> nth m (set_nth n x l) d = nth m l d.
Proof. revert n m; induction l as [|h t IH]; intros [|n] [|m] H; simpl; try lia; auto. Qed.
Lemma set_nth_length {A} (l : list A) n x : length (set_nth n x l) = length l.
Proof. revert n; induction l as [|h t IH]; intros [|n]; simpl; auto. Qed.

(* C11: a running iterator yields f[n] for n = 0, 1, 2, ... - whatever its own position in the file is left at by
   other accesses or other iterators - and advances by one *)
Theorem iter_next_spec f it n stop :
  rf_closed f = false -> nth it (rf_iters f) ItDone = ItRun n stop -> (n < stop)%nat -> (it < length (rf_iters f))%nat ->
  snd (rf_step f (RIterNext it)) = ROk (read_line_at (rf_content f) (nth n (rf_index f) 0))
  /\ nth it (rf_iters (fst (rf_step f (RIterNext it)))) ItDone = ItRun (S n) stop
  /\ (forall it', it' <> it -> nth it' (rf_iters (fst (rf_step f (RIterNext it)))) ItDone = nth it' (rf_iters f) ItDone)
  /\ rf_content (fst (rf_step f (RIterNext it))) = rf_content f /\ rf_index (fst (rf_step f (RIterNext it))) = rf_index f.
Proof.
  intros Hc Hs Hn Hit. simpl. rewrite Hs, Hc. replace (n <? stop)%nat with true by (symmetry; apply Nat.ltb_lt; exact Hn). simpl.
  destruct (rf_read_spec f n) as (R & A & B & C & D). destruct (rf_read f n) as [f1 l]. simpl in *. subst l.
  repeat split; auto.
  - rewrite ?D. rewrite nth_set_nth_same by exact Hit. reflexivity.
  - intros it' Hne. rewrite ?D. rewrite nth_set_nth_other by congruence. reflexivity.
Qed.

Theorem iter_first_spec f it :
  rf_closed f = false -> nth it (rf_iters f) ItDone = ItNew -> (it < length (rf_iters f))%nat ->
  match rf_index f with
  | [] => snd (rf_step f (RIterNext it)) = RStop
  | off :: _ => snd (rf_step f (RIterNext it)) = ROk (read_line_at (rf_content f) off)
                /\ nth it (rf_iters (fst (rf_step f (RIterNext it)))) ItDone = ItRun 1 (length (rf_index f))
  end.
Proof.
  intros Hc Hs Hit. simpl. rewrite Hs, Hc. destruct (rf_index f) as [|off r] eqn:I; simpl; [reflexivity|].
  destruct (rf_read_spec f O) as (R & A & B & C & D). destruct (rf_read f O) as [f1 l]. simpl in *. subst l.
  rewrite ?I. simpl. split; [reflexivity|]. rewrite ?D. rewrite nth_set_nth_same by exact Hit. reflexivity.
Qed.

(* every other operation leaves every iterator exactly where it was *)
Theorem other_ops_frame f op : (forall it, op <> RIterNext it) -> op <> RIterNew ->
  forall it, nth it (rf_iters (fst (rf_step f op))) ItDone = nth it (rf_iters f) ItDone.
Proof.
  intros H1 H2 it. destruct op; simpl; try reflexivity; try congruence; try (exfalso; eapply H1; reflexivity);
    destruct (rf_closed f); try reflexivity;
    match goal with
    | |- context [rf_get f ?i] =>
        pose proof (rf_get_frame f i) as (_ & _ & _ & D); destruct (rf_get f i) as [f1 [l|]]; simpl in *; rewrite D; reflexivity
    | |- context [rf_get_all f ?x] =>
        pose proof (rf_get_all_frame x f) as (_ & _ & _ & D); destruct (rf_get_all f x) as [f1 [l|]]; simpl in *; rewrite D; reflexivity
    end.
Qed.

(* ------------------------------------------------------------------ mutable files (C12) *)
Lemma rstrip_nl_id l : no_nl l -> rstrip_nl l = l.
Proof.
  intros H. unfold rstrip_nl. rewrite <- !rev_alt. assert (G : rstrip_nl_rev (rev l) = rev l).
  { pose proof (no_nl_rev l H) as Hr. destruct (rev l) as [|b t]; [reflexivity|]. simpl.
    destruct (b =? NL) eqn:E; [exfalso; apply Hr; left; unfold NL in *; lia | reflexivity]. }
  rewrite G. apply rev_involutive.
Qed.

(* C12: save() writes exactly the lines of the current view, each followed by the chosen line ending *)
Theorem save_bytes_spec view e : Forall no_nl view -> save_bytes view e = concat (map (fun l => l ++ e) view).
Proof.
  intros H. unfold save_bytes. f_equal. apply map_ext_in. intros l Hl. rewrite Forall_forall in H.
  rewrite rstrip_nl_id by (apply H; exact Hl). reflexivity.
Qed.

(* reopening the saved file gives the same list (line_ending "\n"), and for an ending e ++ "\n" every line with e appended *)
Theorem reopen_general view e : Forall no_nl view -> no_nl e ->
  lines_of (save_bytes view (e ++ [NL])) = map (fun l => l ++ e) view.
Proof.
  intros H He. rewrite save_bytes_spec by exact H.
  replace (concat (map (fun l => l ++ e ++ [NL]) view)) with (join (map (fun l => l ++ e) view)).
  - apply lines_of_join. rewrite Forall_forall in *. intros x Hx. apply in_map_iff in Hx. destruct Hx as (l & <- & Hl).
    intros Hin. apply in_app_or in Hin. destruct Hin as [Hin|Hin]; [apply (H l Hl); exact Hin | apply He; exact Hin].
  - unfold join. rewrite map_map. f_equal. apply map_ext. intros l. rewrite <- app_assoc. reflexivity.
Qed.
Theorem reopen_same view : Forall no_nl view -> lines_of (save_bytes view [NL]) = view.
Proof.
  intros H. pose proof (reopen_general view [] H ltac:(intros [])) as G. simpl in G. rewrite G.
  rewrite <- (map_id view) at 2. apply map_ext. intros l. apply app_nil_r.
Qed.

(* the swap loop of MutableSequence.reverse() really reverses *)
Lemma nth_set_nth {A} (l : list A) n m x d :
  nth m (set_nth n x l) d = if (n =? m)%nat && (n <? length l)%nat then x else nth m l d.
Proof.
  revert n m; induction l as [|h t IH]; intros n m.
  - replace (n <? length (@nil A))%nat with false by (symmetry; apply Nat.ltb_ge; simpl; lia).
    rewrite andb_false_r. destruct n; reflexivity.
  - destruct n as [|n], m as [|m]; simpl; try reflexivity.
    rewrite IH. destruct (n =? m)%nat; simpl; [|reflexivity].
    change (S n <? S (length t))%nat with (n <? length t)%nat. reflexivity.
Qed.
Lemma rev_swaps_length k n (l : list (list Z)) : length (rev_swaps k n l) = length l.
Proof. induction k as [|k IH]; simpl; [reflexivity|]. rewrite !set_nth_length. exact IH. Qed.

Lemma rev_swaps_nth k (l : list (list Z)) : let n := length l in (2 * k <= n)%nat -> forall j, (j < n)%nat ->
  nth j (rev_swaps k n l) [] = if (j <? k)%nat || (n - 1 - j <? k)%nat then nth (n - 1 - j) l [] else nth j l [].
Proof.
  intros n. induction k as [|k IH]; intros Hk j Hj.
  - simpl. reflexivity.
  - simpl rev_swaps. rewrite !nth_set_nth, !set_nth_length, rev_swaps_length. fold n.
    rewrite !IH by lia.
    repeat match goal with
    | |- context [(?a <? ?b)%nat] => destruct (Nat.ltb_spec a b)
    | |- context [(?a =? ?b)%nat] => destruct (Nat.eqb_spec a b)
    end; simpl; try lia; try reflexivity; try (f_equal; lia).
Qed.

Theorem reverse_spec (l : list (list Z)) : rev_swaps (length l / 2) (length l) l = rev l.
Proof.
  apply (nth_ext _ _ [] []); [rewrite rev_swaps_length, rev_length; reflexivity|].
  rewrite rev_swaps_length. intros j Hj.
  pose proof (Nat.div_mod (length l) 2 ltac:(lia)) as DM. pose proof (Nat.mod_upper_bound (length l) 2 ltac:(lia)) as MB.
  rewrite rev_swaps_nth by lia. rewrite rev_nth by exact Hj.
  replace (length l - S j)%nat with (length l - 1 - j)%nat by lia.
  destruct ((j <? length l / 2)%nat || (length l - 1 - j <? length l / 2)%nat) eqn:E; [reflexivity|].
  apply orb_false_iff in E. destruct E as [E1 E2]. apply Nat.ltb_ge in E1. apply Nat.ltb_ge in E2.
  f_equal. lia.
Qed.

(* C12: the edit operations act on the view exactly like the operations of a Python list of strings *)
Theorem mf_step_list ad f op :
  let v := mf_view f in let v' := mf_view (fst (mf_step ad f op)) in
  match op with
  | MSet i s => match py_index (length v) i with
                | Some j => v' = set_nth j s v /\ snd (mf_step ad f op) = MUnit
                | None => v' = v /\ snd (mf_step ad f op) = MIndexErr end
  | MDel i => match py_index (length v) i with
              | Some j => v' = firstn j v ++ skipn (S j) v | None => v' = v /\ snd (mf_step ad f op) = MIndexErr end
  | MAppend s => v' = v ++ [s]
  | MExtend ss | MIadd ss => v' = v ++ ss
  | MPop => match rev v with [] => snd (mf_step ad f op) = MIndexErr /\ v' = v
                          | x :: r => snd (mf_step ad f op) = MLine x /\ v' = rev r end
  | MReverse => v' = rev v
  | MRemove s => match index_of s v with
                 | Some j => v' = firstn j v ++ skipn (S j) v
                 | None => snd (mf_step ad f op) = MValueErr /\ v' = v end
  | MGetI i => v' = v /\ snd (mf_step ad f op) = match py_index (length v) i with Some j => MLine (nth j v []) | None => MIndexErr end
  | MLenQ => v' = v /\ snd (mf_step ad f op) = MNum (Z.of_nat (length v))
  | MListQ => v' = v /\ snd (mf_step ad f op) = MLines v
  | _ => True
  end.
Proof.
  destruct op; simpl; auto.
  - unfold py_set. destruct (py_index (length (mf_view f)) i); simpl; auto.
  - unfold py_del. destruct (py_index (length (mf_view f)) i); simpl; auto.
  - destruct (rev (mf_view f)); simpl; auto.
  - destruct (index_of s (mf_view f)); simpl; auto.
  - apply reverse_spec.
  - destruct (py_index (length (mf_view f)) i); simpl; auto.
Qed.

(* C12: the plain variants report dirty=False until the first modification and dirty=True after any change of content *)
Theorem dirty_spec f op : mf_view (fst (mf_step false f op)) <> mf_view f -> mf_dirty (fst (mf_step false f op)) = true.
Proof.
  destruct op; cbn [mf_step fst snd mf_view mf_dirty];
    try congruence;
    try (unfold py_set, py_del; destruct (py_index _ _); cbn [fst mf_view mf_dirty]; (congruence || auto); fail);
    try (destruct ss; cbn [fst mf_view mf_dirty]; [rewrite app_nil_r; congruence | auto]; fail);
    try (destruct (rev (mf_view f)); cbn [fst mf_view mf_dirty]; congruence);
    try (destruct (index_of _ _); cbn [fst mf_view mf_dirty]; congruence).
  destruct (length (mf_view f) / 2 =? 0)%nat eqn:E; cbn [mf_view mf_dirty]; [|reflexivity].
  apply Nat.eqb_eq in E. rewrite E. cbn [rev_swaps]. congruence.
Qed.
Theorem dirty_stays f op : mf_dirty f = true -> mf_dirty (fst (mf_step false f op)) = true.
Proof.
  intros H. destruct op; cbn [mf_step fst snd mf_view mf_dirty]; auto;
    try (unfold py_set, py_del; destruct (py_index _ _); reflexivity || auto; fail);
    try (destruct ss; auto; fail);
    try (destruct (rev (mf_view f)); auto; fail);
    try (destruct (index_of _ _); auto; fail);
    try (destruct (_ =? _)%nat; auto).
Qed.
Theorem reads_keep_dirty f op : (match op with MGetI _ | MLenQ | MListQ | MDirtyQ | MSetBad _ => True | _ => False end) ->
  fst (mf_step false f op) = f.
Proof. destruct op; cbn [mf_step fst]; try tauto. destruct (py_index _ i); reflexivity. Qed.
