(* Proofs about Model/Generic.v (property C19). *)
From Coq Require Import ZArith List Bool Lia ZifyBool Permutation Sorted.
From WPU Require Import Common.Val Common.ListX Model.Generic.
Import ListNotations.
Open Scope Z_scope.

(* ------------------------------------------------------------------ Roman numerals: finite domain, complete *)
Definition zs_1_3999 : list Z := map (fun k => 1 + Z.of_nat k) (seq 0 3999).

Lemma in_zs_1_3999 n : 1 <= n <= 3999 -> In n zs_1_3999.
Proof.
  intros H. unfold zs_1_3999. apply in_map_iff. exists (Z.to_nat (n - 1)). split; [lia|].
  apply in_seq. lia.
Qed.

Fixpoint rlist_eqb (a b : list rch) : bool :=
  match a, b with
  | [], [] => true
  | x :: a', y :: b' => (rch_code x =? rch_code y) && rlist_eqb a' b'
  | _, _ => false
  end.
Lemma rlist_eqb_eq a b : rlist_eqb a b = true -> a = b.
Proof.
  revert b; induction a as [|x a IH]; intros [|y b]; simpl; try discriminate; auto.
  intros H. apply andb_true_iff in H. destruct H as [H1 H2]. f_equal; [|apply IH; exact H2].
  destruct x, y; simpl in H1; try reflexivity; discriminate.
Qed.

(* the textbook digit tables *)
Definition ones : list (list rch) :=
  [[]; [RI]; [RI; RI]; [RI; RI; RI]; [RI; RV]; [RV]; [RV; RI]; [RV; RI; RI]; [RV; RI; RI; RI]; [RI; RX]].
Definition tens : list (list rch) :=
  [[]; [RX]; [RX; RX]; [RX; RX; RX]; [RX; RL]; [RL]; [RL; RX]; [RL; RX; RX]; [RL; RX; RX; RX]; [RX; RC]].
Definition hundreds : list (list rch) :=
  [[]; [RC]; [RC; RC]; [RC; RC; RC]; [RC; RD]; [RD]; [RD; RC]; [RD; RC; RC]; [RD; RC; RC; RC]; [RC; RM]].
Definition thousands : list (list rch) := [[]; [RM]; [RM; RM]; [RM; RM; RM]].
Definition canonical (n : Z) : list rch :=
  nth (Z.to_nat (n / 1000)) thousands [] ++ nth (Z.to_nat ((n / 100) mod 10)) hundreds []
  ++ nth (Z.to_nat ((n / 10) mod 10)) tens [] ++ nth (Z.to_nat (n mod 10)) ones [].

Lemma roman_all_ok :
  forallb (fun n => (roman_2_int (int_2_roman n) =? n) && rlist_eqb (int_2_roman n) (canonical n)) zs_1_3999 = true.
Proof. vm_compute. reflexivity. Qed.

Theorem roman_roundtrip : forall n, 1 <= n <= 3999 -> roman_2_int (int_2_roman n) = n.
Proof.
  intros n H. pose proof roman_all_ok as A. rewrite forallb_forall in A.
  specialize (A n (in_zs_1_3999 n H)). apply andb_true_iff in A. destruct A as [A _]. lia.
Qed.
Theorem roman_canonical : forall n, 1 <= n <= 3999 -> int_2_roman n = canonical n.
Proof.
  intros n H. pose proof roman_all_ok as A. rewrite forallb_forall in A.
  specialize (A n (in_zs_1_3999 n H)). apply andb_true_iff in A. destruct A as [_ A]. apply rlist_eqb_eq; exact A.
Qed.
(* the other composition, on the image of int_2_roman (= the canonical numerals of 1..3999) *)
Theorem roman_inverse_on_image : forall s n, 1 <= n <= 3999 -> s = int_2_roman n -> int_2_roman (roman_2_int s) = s.
Proof. intros s n H ->. rewrite roman_roundtrip by exact H. reflexivity. Qed.
Theorem int_2_roman_injective : forall n m, 1 <= n <= 3999 -> 1 <= m <= 3999 -> int_2_roman n = int_2_roman m -> n = m.
Proof. intros n m Hn Hm E. rewrite <- (roman_roundtrip n Hn), <- (roman_roundtrip m Hm), E. reflexivity. Qed.

(* ------------------------------------------------------------------ arg_sort *)
(* the order "key, then original index" (ascending) resp. "key descending, then original index" *)
Definition idx_lt (rev : bool) (els : list Z) (i j : nat) : Prop :=
  (if rev then key_of els j < key_of els i else key_of els i < key_of els j)
  \/ (key_of els i = key_of els j /\ (i < j)%nat).

Lemma idx_lt_trans rev els i j k : idx_lt rev els i j -> idx_lt rev els j k -> idx_lt rev els i k.
Proof. unfold idx_lt. destruct rev; intros [H1|[H1 H1']] [H2|[H2 H2']]; try (left; lia); right; lia. Qed.

Lemma ins_idx_perm rev els x l : Permutation (ins_idx rev els x l) (x :: l).
Proof.
  induction l as [|y t IH]; simpl; [reflexivity|].
  destruct (if rev then _ else _); [reflexivity|]. rewrite IH. apply perm_swap.
Qed.

Lemma ins_idx_sorted rev els x l :
  (forall y, In y l -> (x < y)%nat) -> Sorted (idx_lt rev els) l -> Sorted (idx_lt rev els) (ins_idx rev els x l).
Proof.
  induction l as [|y t IH]; simpl; intros Hx Hs; [repeat constructor|].
  assert (Hxy : (x < y)%nat) by (apply Hx; left; reflexivity).
  destruct (if rev then key_of els y <=? key_of els x else key_of els x <=? key_of els y) eqn:E.
  - constructor; [exact Hs|]. constructor. unfold idx_lt. destruct rev; lia.
  - inversion Hs as [|? ? Hs' Hhd]; subst.
    assert (Hyx : idx_lt rev els y x) by (unfold idx_lt; destruct rev; left; lia).
    constructor; [apply IH; [intros z Hz; apply Hx; right; exact Hz | exact Hs']|].
    destruct t as [|z t']; simpl; [constructor; exact Hyx|].
    destruct (if rev then key_of els z <=? key_of els x else key_of els x <=? key_of els z);
      constructor; [exact Hyx | inversion Hhd; assumption].
Qed.

Lemma fold_ins_spec rev els : forall k n,
  let r := fold_right (ins_idx rev els) [] (seq k n) in
  Permutation r (seq k n) /\ Sorted (idx_lt rev els) r.
Proof.
  intros k n; revert k; induction n as [|n IH]; intros k; simpl; [split; constructor|].
  destruct (IH (S k)) as [Hp Hs]. split.
  - rewrite ins_idx_perm. constructor. exact Hp.
  - apply ins_idx_sorted; [|exact Hs]. intros y Hy.
    eapply Permutation_in in Hy; [|exact Hp]. apply in_seq in Hy. lia.
Qed.

(* C19: arg_sort returns the stable sorting permutation, reverse included: a permutation of 0..n-1 ordered
   by key (ascending resp. descending) with ties in original order.  idx_lt is a strict total order on indices,
   so this determines the result uniquely (arg_sort_unique). *)
Theorem arg_sort_spec : forall els rev,
  Permutation (arg_sort els rev) (seq 0 (length els))
  /\ StronglySorted (idx_lt rev els) (arg_sort els rev).
Proof.
  intros els rev. destruct (fold_ins_spec rev els 0%nat (length els)) as [Hp Hs]. split; [exact Hp|].
  apply Sorted_StronglySorted; [|exact Hs]. intros i j k. apply idx_lt_trans.
Qed.

Lemma idx_lt_irrefl rev els i : ~ idx_lt rev els i i.
Proof. unfold idx_lt. destruct rev; lia. Qed.
Lemma idx_lt_asym rev els i j : idx_lt rev els i j -> ~ idx_lt rev els j i.
Proof. unfold idx_lt. destruct rev; lia. Qed.

Lemma sorted_perm_unique rev els : forall l1 l2,
  StronglySorted (idx_lt rev els) l1 -> StronglySorted (idx_lt rev els) l2 -> Permutation l1 l2 -> l1 = l2.
Proof.
  induction l1 as [|a l1 IH]; intros l2 H1 H2 Hp.
  - apply Permutation_nil in Hp. subst; reflexivity.
  - destruct l2 as [|b l2]; [apply Permutation_sym, Permutation_nil in Hp; discriminate|].
    inversion H1 as [|? ? H1' F1]; subst. inversion H2 as [|? ? H2' F2]; subst.
    assert (a = b).
    { assert (Ha : In a (b :: l2)) by (eapply Permutation_in; [exact Hp | left; reflexivity]).
      assert (Hb : In b (a :: l1)) by (eapply Permutation_in; [symmetry; exact Hp | left; reflexivity]).
      destruct Ha as [Ha|Ha]; [auto|]. destruct Hb as [Hb|Hb]; [auto|].
      rewrite Forall_forall in F1, F2. exfalso. eapply idx_lt_asym; [apply F1; exact Hb | apply F2; exact Ha]. }
    subst b. f_equal. apply IH; auto. eapply Permutation_cons_inv; exact Hp.
Qed.
Theorem arg_sort_unique : forall els rev l,
  Permutation l (seq 0 (length els)) -> StronglySorted (idx_lt rev els) l -> l = arg_sort els rev.
Proof.
  intros els rev l Hp Hs. destruct (arg_sort_spec els rev) as [Hp' Hs'].
  apply (sorted_perm_unique rev els); auto. rewrite Hp, Hp'. reflexivity.
Qed.

(* ------------------------------------------------------------------ sub_seq / search_sub_seq *)
Lemma zlist_eqb_eq a b : zlist_eqb a b = true <-> a = b.
Proof.
  revert b; induction a as [|x a IH]; intros [|y b]; simpl; split; try discriminate; auto.
  - intros H. apply andb_true_iff in H. destruct H as [H1 H2]. f_equal; [lia | apply IH; exact H2].
  - intros H. injection H as -> ->. apply andb_true_iff. split; [lia | apply IH; reflexivity].
Qed.

Lemma window_app pre s post : window (pre ++ s ++ post) (length pre) (length s) = s.
Proof.
  unfold window. rewrite skipn_app, skipn_all, Nat.sub_diag. simpl.
  rewrite firstn_app, firstn_all, Nat.sub_diag. simpl. apply app_nil_r.
Qed.

Lemma window_split s2 off n : (off + n <= length s2)%nat ->
  s2 = firstn off s2 ++ window s2 off n ++ skipn (off + n) s2.
Proof.
  intros H. unfold window.
  rewrite <- (firstn_skipn off s2) at 1. f_equal.
  rewrite <- (firstn_skipn n (skipn off s2)) at 1. f_equal.
  rewrite skipn_skipn_add. reflexivity.
Qed.

(* C19: sub_seq reports exactly "s1 occurs contiguously in s2" *)
Theorem sub_seq_iff : forall s1 s2, sub_seq s1 s2 = true <-> exists pre post, s2 = pre ++ s1 ++ post.
Proof.
  intros s1 s2. unfold sub_seq. split.
  - intros H. apply andb_true_iff in H. destruct H as [Hl He].
    apply existsb_exists in He. destruct He as (off & Hin & Heq).
    apply in_seq in Hin. apply zlist_eqb_eq in Heq.
    exists (firstn off s2), (skipn (off + length s1) s2).
    apply Nat.leb_le in Hl.
    pose proof (window_split s2 off (length s1) ltac:(lia)) as W. rewrite <- Heq in W. exact W.
  - intros (pre & post & ->). apply andb_true_iff. split.
    + apply Nat.leb_le. rewrite !app_length. lia.
    + apply existsb_exists. exists (length pre). split.
      * apply in_seq. rewrite !app_length. lia.
      * apply zlist_eqb_eq. symmetry. apply window_app.
Qed.

(* C19: search_sub_seq lists exactly the occurrences, each once, in ascending order of position *)
Theorem search_sub_seq_spec : forall s1 s2 res,
  search_sub_seq s1 s2 = Some res ->
  s1 <> [] /\ s2 <> []
  /\ (forall a b, In (a, b) res <-> (b = a + length s1 /\ b <= length s2 /\ window s2 a (length s1) = s1)%nat)
  /\ StronglySorted (fun p q => (fst p < fst q)%nat) res.
Proof.
  intros s1 s2 res H. unfold search_sub_seq in H.
  destruct s1 as [|x1 t1]; [discriminate|]. destruct s2 as [|x2 t2]; [discriminate|].
  split; [discriminate|]. split; [discriminate|].
  remember (x1 :: t1) as s1. remember (x2 :: t2) as s2.
  destruct (length s1 <=? length s2)%nat eqn:El.
  - injection H as <-. apply Nat.leb_le in El. split.
    + intros a b. rewrite in_map_iff. split.
      * intros (off & Hp & Hf). injection Hp as <- <-. apply filter_In in Hf. destruct Hf as [Hs Hw].
        apply in_seq in Hs. apply zlist_eqb_eq in Hw. repeat split; auto; lia.
      * intros (Hb & Hle & Hw). exists a. split; [subst b; reflexivity|]. apply filter_In. split.
        -- apply in_seq. lia.
        -- apply zlist_eqb_eq. symmetry; exact Hw.
    + generalize (length s2 - length s1 + 1)%nat as k. generalize 0%nat as st. intros st k; revert st.
      induction k as [|k IH]; intros st; simpl; [constructor|].
      destruct (zlist_eqb s1 (window s2 st (length s1))); [|apply IH].
      simpl. constructor; [apply IH|]. apply Forall_forall. intros [a b] Hin.
      apply in_map_iff in Hin. destruct Hin as (off & Hp & Hf). injection Hp as <- <-.
      apply filter_In in Hf. destruct Hf as [Hs _]. apply in_seq in Hs. simpl. lia.
  - injection H as <-. apply Nat.leb_gt in El. split; [|constructor].
    intros a b. split; [intros []|]. intros (Hb & Hle & Hw). lia.
Qed.
Theorem search_sub_seq_value_error : forall s1 s2, search_sub_seq s1 s2 = None <-> s1 = [] \/ s2 = [].
Proof.
  intros [|x1 t1] [|x2 t2]; simpl; split; auto; try (intros [H|H]; discriminate).
  destruct (length t1 <=? length t2)%nat; discriminate.
Qed.

(* ------------------------------------------------------------------ compare_pos_in_iterables *)
Lemma remove_first_perm x b b' : remove_first x b = Some b' -> Permutation b (x :: b').
Proof.
  revert b'; induction b as [|y t IH]; simpl; intros b' H; [discriminate|].
  destruct (x =? y) eqn:E.
  - injection H as <-. apply Z.eqb_eq in E. subst; reflexivity.
  - destruct (remove_first x t) as [t'|]; [|discriminate]. injection H as <-.
    rewrite (IH t' eq_refl). apply perm_swap.
Qed.
Lemma remove_first_in x b : In x b -> exists b', remove_first x b = Some b'.
Proof.
  induction b as [|y t IH]; simpl; intros H; [contradiction|].
  destruct (x =? y) eqn:E; [eauto|].
  destruct H as [H|H]; [apply Z.eqb_neq in E; congruence|].
  destruct (IH H) as (t' & ->). simpl. eauto.
Qed.

(* C19: compare_pos_in_iterables is multiset equality *)
Theorem compare_pos_iff : forall a b, compare_pos a b = true <-> Permutation a b.
Proof.
  induction a as [|x a IH]; intros b; simpl.
  - destruct b; split; auto; try discriminate. intros H. apply Permutation_nil in H. discriminate.
  - destruct (remove_first x b) as [b'|] eqn:R.
    + rewrite IH. apply remove_first_perm in R. split.
      * intros H. rewrite R. constructor; exact H.
      * intros H. rewrite R in H. eapply Permutation_cons_inv; exact H.
    + split; [discriminate|]. intros H.
      destruct (remove_first_in x b) as (b' & Hb); [|congruence].
      eapply Permutation_in; [exact H | left; reflexivity].
Qed.

(* ------------------------------------------------------------------ Batcher / BatcherIter *)
Section BatchP.
Context {A : Type}.
Implicit Types (l acc : list A) (bs : list (list A)).

(* "consecutive batches, all of size b except possibly a shorter, non-empty last one" *)
Inductive ok_batches (b : nat) : list (list A) -> Prop :=
| okb_nil : ok_batches b []
| okb_last x : x <> [] -> (length x <= b)%nat -> ok_batches b [x]
| okb_cons x y t : length x = b -> ok_batches b (y :: t) -> ok_batches b (x :: y :: t).

Lemma ok_batches_hd_nonempty b x t : (0 < b)%nat -> ok_batches b (x :: t) -> x <> [].
Proof. intros Hb H. inversion H; subst; auto. intros ->. simpl in *. lia. Qed.

(* the decomposition is unique *)
Theorem ok_batches_unique b bs1 bs2 : (0 < b)%nat ->
  ok_batches b bs1 -> ok_batches b bs2 -> concat bs1 = concat bs2 -> bs1 = bs2.
Proof.
  intros Hb H1; revert bs2; induction H1 as [|x Hx Hlx|x y t Hlx H1 IH]; intros bs2 H2 Hc.
  - destruct bs2 as [|z t2]; [reflexivity|]. exfalso.
    apply (ok_batches_hd_nonempty b z t2 Hb H2). simpl in Hc. symmetry in Hc. apply app_eq_nil in Hc. tauto.
  - inversion H2 as [|z Hz Hlz|z w t2 Hlz H2']; try subst bs2; simpl in Hc.
    + rewrite app_nil_r in Hc. contradiction.
    + rewrite !app_nil_r in Hc. subst; reflexivity.
    + exfalso. rewrite app_nil_r in Hc. apply (ok_batches_hd_nonempty b w t2 Hb H2').
      assert (length x = length z + length (w ++ concat t2))%nat by (rewrite Hc, app_length; reflexivity).
      rewrite app_length in *. destruct w; [reflexivity | simpl in *; lia].
  - inversion H2 as [|z Hz Hlz|z w t2 Hlz H2']; try subst bs2; simpl in Hc.
    + exfalso. apply (ok_batches_hd_nonempty b y t Hb H1). apply app_eq_nil in Hc.
      destruct Hc as [_ Hc]. apply app_eq_nil in Hc. tauto.
    + exfalso. rewrite app_nil_r in Hc. apply (ok_batches_hd_nonempty b y t Hb H1).
      assert (length z = length x + length (y ++ concat t))%nat by (rewrite <- Hc, app_length; reflexivity).
      rewrite app_length in *. destruct y; [reflexivity | simpl in *; lia].
    + apply app_inv_length in Hc; [|lia]. destruct Hc as [-> Hc]. f_equal. apply IH; assumption.
Qed.

(* BatcherIter *)
Lemma biter_go_concat b acc l : concat (biter_go b acc l) = acc ++ l.
Proof.
  revert acc; induction l as [|x t IH]; intros acc; simpl.
  - destruct acc; simpl; rewrite ?app_nil_r; reflexivity.
  - destruct (length (acc ++ [x]) =? b)%nat; simpl; rewrite IH, <- ?app_assoc; reflexivity.
Qed.

Lemma biter_go_ok b acc l : (0 < b)%nat -> (length acc < b)%nat -> ok_batches b (biter_go b acc l).
Proof.
  intros Hb. revert acc; induction l as [|x t IH]; intros acc Hacc; simpl.
  - destruct acc; simpl; constructor; [discriminate | simpl in *; lia].
  - destruct (length (acc ++ [x]) =? b)%nat eqn:E.
    + apply Nat.eqb_eq in E. specialize (IH [] Hb).
      destruct (biter_go b [] t) as [|y t'] eqn:G.
      * constructor; [destruct acc; discriminate | lia].
      * constructor; assumption.
    + apply Nat.eqb_neq in E. apply IH. rewrite app_length in *. simpl in *. lia.
Qed.

(* Batcher *)
Definition batcher_all (data : list A) (b : nat) : list (list A) :=
  map (fun i => firstn b (skipn (i * b) data)) (seq 0 (Z.to_nat (batcher_len (Z.of_nat (length data)) (Z.of_nat b)))).

Lemma batcher_len_spec n b : 0 <= n -> 0 < b ->
  let k := batcher_len n b in (k - 1) * b < n <= k * b /\ (n = 0 -> k = 0).
Proof.
  intros Hn Hb. unfold batcher_len. simpl.
  pose proof (Z.div_mod (- n) b ltac:(lia)) as E. pose proof (Z.mod_pos_bound (- n) b Hb) as M.
  split; [nia|]. intros ->. simpl in *. nia.
Qed.

Lemma firstn_add (a c : nat) l : firstn (a + c) l = firstn a l ++ firstn c (skipn a l).
Proof.
  revert l; induction a as [|a IH]; intros l; simpl; [reflexivity|].
  destruct l as [|h t]; simpl; [destruct c; reflexivity|]. f_equal. apply IH.
Qed.

Lemma concat_batches (data : list A) (b k : nat) :
  concat (map (fun i => firstn b (skipn (i * b) data)) (seq 0 k)) = firstn (k * b) data.
Proof.
  induction k as [|k IH]; [reflexivity|].
  rewrite seq_S, map_app, concat_app, IH. simpl. rewrite app_nil_r.
  rewrite Nat.add_comm. symmetry. apply firstn_add.
Qed.

Theorem batcher_concat (data : list A) (b : nat) : (0 < b)%nat -> concat (batcher_all data b) = data.
Proof.
  intros Hb. unfold batcher_all. rewrite concat_batches. apply firstn_all2.
  pose proof (batcher_len_spec (Z.of_nat (length data)) (Z.of_nat b) ltac:(lia) ltac:(lia)) as [H _]. nia.
Qed.

Lemma ok_batches_map_seq (data : list A) (b : nat) : (0 < b)%nat -> forall k st, ((st + k - 1) * b < length data \/ k = 0)%nat ->
  ok_batches b (map (fun i => firstn b (skipn (i * b) data)) (seq st k)).
Proof.
  intros Hb. induction k as [|k IH]; intros st H; simpl; [constructor|].
  assert (Hlen : forall i, (i * b < length data)%nat -> firstn b (skipn (i * b) data) <> []).
  { intros i Hi E. apply (f_equal (@length A)) in E. rewrite firstn_length, skipn_length in E. simpl in E. lia. }
  destruct k as [|k'].
  - simpl. constructor; [apply Hlen; destruct H; [nia | discriminate] | rewrite firstn_length; lia].
  - change (ok_batches b (firstn b (skipn (st * b) data)
            :: map (fun i => firstn b (skipn (i * b) data)) (seq (S st) (S k')))).
    remember (map (fun i => firstn b (skipn (i * b) data)) (seq (S st) (S k'))) as rest.
    assert (Hok : ok_batches b rest).
    { subst rest. apply IH. left. destruct H as [H|H]; [|discriminate]. nia. }
    destruct rest as [|y t]; [discriminate Heqrest|].
    constructor; [|exact Hok].
    rewrite firstn_length, skipn_length. destruct H as [H|H]; [|discriminate]. nia.
Qed.

Theorem batcher_ok (data : list A) (b : nat) : (0 < b)%nat -> ok_batches b (batcher_all data b).
Proof.
  intros Hb. unfold batcher_all. apply ok_batches_map_seq; [exact Hb|].
  pose proof (batcher_len_spec (Z.of_nat (length data)) (Z.of_nat b) ltac:(lia) ltac:(lia)) as [H H0].
  destruct (Z.to_nat (batcher_len (Z.of_nat (length data)) (Z.of_nat b))) eqn:E; [right; reflexivity|].
  left. nia.
Qed.

(* C19: the iterator yields exactly the batches the indexable Batcher hands out *)
Theorem batcher_iter_eq (data : list A) (b : nat) : (0 < b)%nat -> biter b data = batcher_all data b.
Proof.
  intros Hb. apply (ok_batches_unique b); auto.
  - apply biter_go_ok; simpl; lia.
  - apply batcher_ok; exact Hb.
  - unfold biter. rewrite biter_go_concat, batcher_concat by exact Hb. reflexivity.
Qed.

Theorem batcher_get_spec (data : list A) (b i : Z) : 0 < b -> 0 <= i ->
  batcher_get data b i =
  if i <? batcher_len (Z.of_nat (length data)) b
  then Some (nth (Z.to_nat i) (batcher_all data (Z.to_nat b)) []) else None.
Proof.
  intros Hb Hi. unfold batcher_get.
  destruct (i >=? batcher_len (Z.of_nat (length data)) b) eqn:E;
    destruct (i <? batcher_len (Z.of_nat (length data)) b) eqn:E2; try lia; [reflexivity|].
  f_equal. unfold batcher_all. rewrite Z2Nat.id by lia.
  set (k := Z.to_nat (batcher_len (Z.of_nat (length data)) b)).
  assert (Hk : (Z.to_nat i < k)%nat) by (unfold k; lia).
  rewrite nth_map_seq by exact Hk. simpl. f_equal. f_equal. nia.
Qed.

Theorem batcher_len_ceil n b : 0 <= n -> 0 < b ->
  (batcher_len n b - 1) * b < n <= batcher_len n b * b.
Proof. intros Hn Hb. apply (batcher_len_spec n b Hn Hb). Qed.

End BatchP.
