(* Proofs about the heap model Model/DLL.v (property C08): every mutator preserves well-formedness against a ghost
   list of addresses and acts on that list like the reference sequence operation. *)
From Coq Require Import ZArith Arith List Bool Lia.
From WPU Require Import Common.Val Common.Succ Model.DLL.
Import ListNotations.
Open Scope nat_scope.

Record wf (h : heap) (l : list nat) : Prop := mkWf {
  wf_nodup : NoDup l;
  wf_head : head h = hd_error l;
  wf_tail : tail h = last_error l;
  wf_size : size h = Z.of_nat (length l);
  wf_nxt : forall m, In m l -> nxt h m = succ_in l m;
  wf_prv : forall m, In m l -> prv h m = pred_in l m;
  wf_fresh : forall m, In m l -> m < fresh h;
}.

Ltac ub := unfold upd, updo in *.
Ltac eqb_cases := repeat match goal with
  | |- context [?a =? ?b] => let E := fresh "E" in destruct (a =? b) eqn:E; nb; try subst; try congruence; try lia
  end.

Lemma NoDup_snoc (l : list nat) x : NoDup l -> ~ In x l -> NoDup (l ++ [x]).
Proof.
  intros Hn Hx. apply NoDup_rev in Hn. rewrite <- (rev_involutive (l ++ _)). apply NoDup_rev. rewrite rev_app_distr. simpl.
  constructor; [rewrite <- in_rev; exact Hx | exact Hn].
Qed.

Lemma wf_init : wf h_init [].
Proof. constructor; simpl; auto; try constructor; intros m []. Qed.

Lemma fresh_notin h l : wf h l -> ~ In (fresh h) l.
Proof. intros W H. apply (wf_fresh h l W) in H. lia. Qed.

Lemma hd_none_nil (l : list nat) : hd_error l = None -> l = [].
Proof. destruct l; [reflexivity | discriminate]. Qed.
Lemma last_none_nil (l : list nat) : last_error l = None -> l = [].
Proof. induction l as [|a t IH]; [reflexivity|]. simpl. destruct t; [discriminate|]. intros H. specialize (IH H). discriminate. Qed.

(* ------------------------------------------------------------------ append / prepend *)
Lemma wf_append h l x : wf h l -> wf (h_append h x) (l ++ [fresh h]).
Proof.
  intros W. pose proof (fresh_notin h l W) as Hf. destruct W as [Hn Hh Ht Hs Hx Hp Hfr].
  constructor; simpl.
  - apply NoDup_rev in Hn. rewrite <- (rev_involutive (l ++ _)). apply NoDup_rev. rewrite rev_app_distr. simpl.
    constructor; [rewrite <- in_rev; exact Hf | exact Hn].
  - rewrite hd_snoc, <- Hh. destruct (tail h) as [t|] eqn:T.
    + destruct (head h) eqn:Hd; [reflexivity|]. symmetry in Hh. apply hd_none_nil in Hh. subst l. discriminate.
    + symmetry in Ht. apply last_none_nil in Ht. subst l. simpl in Hh. rewrite Hh. reflexivity.
  - rewrite last_error_app. reflexivity.
  - rewrite app_length. simpl. lia.
  - intros m Hm. rewrite succ_snoc by assumption. apply in_app_or in Hm.
    destruct (tail h) as [t|] eqn:T; ub.
    + rewrite <- Ht. destruct Hm as [Hm|[<-|[]]].
      * assert (m <> fresh h) by (intros ->; contradiction).
        destruct (m =? fresh h) eqn:E1; nb; [congruence|]. simpl.
        destruct (m =? t) eqn:E2; nb.
        -- subst. rewrite Nat.eqb_refl. reflexivity.
        -- rewrite (Nat.eqb_sym t m). destruct (m =? t) eqn:E3; nb; [congruence|]. apply Hx; exact Hm.
      * rewrite Nat.eqb_refl. destruct (fresh h =? t) eqn:E2; nb; [|reflexivity].
        exfalso. apply Hf. apply last_error_in. rewrite <- Ht, E2. reflexivity.
    + rewrite <- Ht. simpl. destruct Hm as [Hm|[<-|[]]].
      * symmetry in Ht. apply last_none_nil in Ht. subst l. destruct Hm.
      * rewrite Nat.eqb_refl. reflexivity.
  - intros m Hm. rewrite pred_snoc by assumption. ub. rewrite <- Ht.
    destruct (m =? fresh h) eqn:E; nb; [reflexivity|].
    apply in_app_or in Hm. destruct Hm as [Hm|[<-|[]]]; [apply Hp; exact Hm | congruence].
  - intros m Hm. apply in_app_or in Hm. destruct Hm as [Hm|[<-|[]]]; [specialize (Hfr m Hm); lia | lia].
Qed.

Lemma wf_prepend h l x : wf h l -> wf (h_prepend h x) (fresh h :: l).
Proof.
  intros W. pose proof (fresh_notin h l W) as Hf. destruct W as [Hn Hh Ht Hs Hx Hp Hfr].
  constructor; simpl.
  - constructor; assumption.
  - reflexivity.
  - destruct l as [|a t]; simpl.
    + simpl in Hh. rewrite Hh. reflexivity.
    + simpl in Hh. rewrite Hh. exact Ht.
  - lia.
  - intros m Hm. ub. rewrite <- Hh.
    destruct (fresh h =? m) eqn:E; nb.
    + subst m. rewrite Nat.eqb_refl. reflexivity.
    + rewrite (Nat.eqb_sym m (fresh h)). destruct (fresh h =? m) eqn:E2; nb; [congruence|].
      destruct Hm as [Hm|Hm]; [congruence | apply Hx; exact Hm].
  - intros m Hm. rewrite pred_cons. rewrite <- Hh. destruct (head h) as [a|] eqn:Hd; ub.
    + destruct (fresh h =? m) eqn:E; nb.
      * subst m. rewrite Nat.eqb_refl.
        destruct (fresh h =? a) eqn:E2; nb; [|reflexivity].
        exfalso. apply Hf. apply hd_error_in. rewrite <- Hh, E2. reflexivity.
      * rewrite (Nat.eqb_sym m (fresh h)). destruct (fresh h =? m) eqn:E2; nb; [congruence|]. simpl.
        destruct (a =? m) eqn:E3; nb.
        -- subst. rewrite Nat.eqb_refl. reflexivity.
        -- rewrite (Nat.eqb_sym m a). destruct (a =? m) eqn:E4; nb; [congruence|].
           destruct Hm as [Hm|Hm]; [congruence | apply Hp; exact Hm].
    + symmetry in Hh. apply hd_none_nil in Hh. subst l. destruct Hm as [<-|[]]. rewrite !Nat.eqb_refl. reflexivity.
  - intros m [<-|Hm]; [lia | specialize (Hfr m Hm); lia].
Qed.

(* ------------------------------------------------------------------ remove *)
Lemma wf_remove h l k : wf h l -> In k l -> wf (h_remove h k) (del k l).
Proof.
  intros [Hn Hh Ht Hs Hx Hp Hfr] Hk.
  pose proof (Hx k Hk) as Hxk. pose proof (Hp k Hk) as Hpk.
  constructor; simpl.
  - apply del_nodup; exact Hn.
  - rewrite hd_del by exact Hn. rewrite Hpk, Hxk, Hh.
    destruct (pred_in l k) as [p|] eqn:P.
    + destruct (oeq (hd_error l) (Some k)) eqn:O; nb; [|reflexivity].
      apply (pred_none_hd l k Hn Hk) in O. congruence.
    + apply (pred_none_hd l k Hn Hk) in P. rewrite P. simpl. rewrite Nat.eqb_refl. reflexivity.
  - rewrite last_del by exact Hn. rewrite Hpk, Hxk, Ht.
    destruct (succ_in l k) as [q|] eqn:S.
    + destruct (oeq (last_error l) (Some k)) eqn:O; nb; [|reflexivity].
      apply (succ_none_last l k Hk Hn) in O. congruence.
    + apply (succ_none_last l k Hk Hn) in S. rewrite S. simpl. rewrite Nat.eqb_refl. reflexivity.
  - pose proof (del_length k l Hn Hk). lia.
  - intros m Hm. apply del_in in Hm. destruct Hm as [Hmk Hm].
    rewrite succ_del by assumption. rewrite Hpk, Hxk.
    destruct (pred_in l k) as [p|] eqn:P; ub.
    + apply (succ_pred_dual l p k Hn) in P.
      destruct (m =? p) eqn:E; nb.
      * subst m. rewrite P. simpl. rewrite Nat.eqb_refl. reflexivity.
      * destruct (oeq (succ_in l m) (Some k)) eqn:O; nb; [|apply Hx; exact Hm].
        apply (succ_pred_dual l m k Hn) in O. apply (succ_pred_dual l p k Hn) in P. congruence.
    + destruct (oeq (succ_in l m) (Some k)) eqn:O; nb; [|apply Hx; exact Hm].
      apply (succ_pred_dual l m k Hn) in O. congruence.
  - intros m Hm. apply del_in in Hm. destruct Hm as [Hmk Hm].
    rewrite pred_del by assumption. rewrite Hpk, Hxk.
    destruct (succ_in l k) as [q|] eqn:S; ub.
    + destruct (m =? q) eqn:E; nb.
      * subst m. apply (succ_pred_dual l k q Hn) in S. rewrite S. simpl. rewrite Nat.eqb_refl. reflexivity.
      * destruct (oeq (pred_in l m) (Some k)) eqn:O; nb; [|apply Hp; exact Hm].
        apply (succ_pred_dual l k m Hn) in O. congruence.
    + destruct (oeq (pred_in l m) (Some k)) eqn:O; nb; [|apply Hp; exact Hm].
      apply (succ_pred_dual l k m Hn) in O. congruence.
  - intros m Hm. apply del_in in Hm. apply Hfr. tauto.
Qed.

(* ------------------------------------------------------------------ relinking an absent node *)
Lemma wf_push_front h l k : wf h l -> ~ In k l -> l <> [] -> k < fresh h ->
  wf (mkH (dat h) (upd (updo (prv h) (head h) (Some k)) k None) (upd (nxt h) k (head h)) (Some k) (tail h)
          (size h + 1)%Z (fresh h)) (k :: l).
Proof.
  intros [Hn Hh Ht Hs Hx Hp Hfr] Hk Hne Hkf.
  constructor; simpl.
  - constructor; assumption.
  - reflexivity.
  - destruct l; [congruence | exact Ht].
  - lia.
  - intros m Hm. ub. rewrite <- Hh.
    destruct (k =? m) eqn:E; nb.
    + subst. rewrite Nat.eqb_refl. reflexivity.
    + rewrite (Nat.eqb_sym m k). destruct (k =? m) eqn:E2; nb; [congruence|].
      destruct Hm as [Hm|Hm]; [congruence | apply Hx; exact Hm].
  - intros m Hm. rewrite pred_cons, <- Hh. ub.
    destruct (k =? m) eqn:E; nb.
    + subst. rewrite Nat.eqb_refl. reflexivity.
    + rewrite (Nat.eqb_sym m k). destruct (k =? m) eqn:E2; nb; [congruence|].
      destruct Hm as [Hm|Hm]; [congruence|].
      destruct (head h) as [a|] eqn:Hd; simpl; ub.
      * destruct (a =? m) eqn:E3; nb.
        -- subst. rewrite Nat.eqb_refl. reflexivity.
        -- rewrite (Nat.eqb_sym m a). destruct (a =? m) eqn:E4; nb; [congruence | apply Hp; exact Hm].
      * apply Hp; exact Hm.
  - intros m [<-|Hm]; [exact Hkf | apply Hfr; exact Hm].
Qed.

Lemma wf_push_back h l k : wf h l -> ~ In k l -> l <> [] -> k < fresh h ->
  wf (mkH (dat h) (upd (prv h) k (tail h)) (upd (updo (nxt h) (tail h) (Some k)) k None) (head h) (Some k)
          (size h + 1)%Z (fresh h)) (l ++ [k]).
Proof.
  intros [Hn Hh Ht Hs Hx Hp Hfr] Hk Hne Hkf.
  constructor; simpl.
  - apply NoDup_rev in Hn. rewrite <- (rev_involutive (l ++ _)). apply NoDup_rev. rewrite rev_app_distr. simpl.
    constructor; [rewrite <- in_rev; exact Hk | exact Hn].
  - rewrite hd_snoc, <- Hh. destruct (head h) eqn:Hd; [reflexivity|]. symmetry in Hh. apply hd_none_nil in Hh. congruence.
  - rewrite last_error_app. reflexivity.
  - rewrite app_length. simpl. lia.
  - intros m Hm. rewrite succ_snoc by assumption. rewrite <- Ht. ub.
    destruct (m =? k) eqn:E; nb; [reflexivity|].
    apply in_app_or in Hm. destruct Hm as [Hm|[<-|[]]]; [|congruence].
    destruct (tail h) as [t|] eqn:T; simpl; ub.
    + destruct (m =? t) eqn:E3; nb.
      * subst. rewrite Nat.eqb_refl. reflexivity.
      * rewrite (Nat.eqb_sym t m). destruct (m =? t) eqn:E4; nb; [congruence | apply Hx; exact Hm].
    + apply Hx; exact Hm.
  - intros m Hm. rewrite pred_snoc by assumption. rewrite <- Ht. ub.
    destruct (m =? k) eqn:E; nb; [reflexivity|].
    apply in_app_or in Hm. destruct Hm as [Hm|[<-|[]]]; [apply Hp; exact Hm | congruence].
  - intros m Hm. apply in_app_or in Hm. destruct Hm as [Hm|[<-|[]]]; [apply Hfr; exact Hm | exact Hkf].
Qed.

Lemma wf_link_after h l k j : wf h l -> ~ In k l -> In j l -> k < fresh h ->
  wf (mkH (dat h) (upd (updo (prv h) (nxt h j) (Some k)) k (Some j)) (upd (upd (nxt h) k (nxt h j)) j (Some k))
          (head h) (match nxt h j with None => Some k | Some _ => tail h end) (size h + 1)%Z (fresh h))
     (ins_after j k l).
Proof.
  intros [Hn Hh Ht Hs Hx Hp Hfr] Hk Hj Hkf.
  assert (Hjk : j <> k) by (intros ->; contradiction).
  pose proof (Hx j Hj) as Hxj.
  constructor; simpl.
  - apply ins_after_nodup; assumption.
  - rewrite hd_ins_after. exact Hh.
  - rewrite last_ins_after by assumption. rewrite Hxj, Ht.
    destruct (succ_in l j) as [q|] eqn:S.
    + destruct (oeq (last_error l) (Some j)) eqn:O; nb; [|reflexivity].
      apply (succ_none_last l j Hj Hn) in O. congruence.
    + apply (succ_none_last l j Hj Hn) in S. rewrite S. simpl. rewrite Nat.eqb_refl. reflexivity.
  - rewrite ins_after_length by assumption. lia.
  - intros m Hm. rewrite succ_ins_after by assumption. ub. rewrite Hxj.
    destruct (m =? j) eqn:E; nb; [reflexivity|].
    destruct (m =? k) eqn:E2; nb; [reflexivity|].
    apply (ins_after_in j k l m Hj) in Hm. destruct Hm as [->|Hm]; [congruence | apply Hx; exact Hm].
  - intros m Hm. rewrite pred_ins_after by assumption. ub. rewrite Hxj.
    destruct (m =? k) eqn:E; nb; [reflexivity|].
    apply (ins_after_in j k l m Hj) in Hm. destruct Hm as [->|Hm]; [congruence|].
    destruct (succ_in l j) as [q|] eqn:S; simpl; ub.
    + destruct (m =? q) eqn:E3; nb.
      * subst. rewrite Nat.eqb_refl. reflexivity.
      * rewrite (Nat.eqb_sym q m). destruct (m =? q) eqn:E4; nb; [congruence | apply Hp; exact Hm].
    + apply Hp; exact Hm.
  - intros m Hm. apply (ins_after_in j k l m Hj) in Hm. destruct Hm as [->|Hm]; [exact Hkf | apply Hfr; exact Hm].
Qed.

(* ------------------------------------------------------------------ the reference sequence semantics *)
Definition ref_step (l : list nat) (f : nat) (op : dop) : list nat :=
  match op with
  | DAppend _ => l ++ [f]
  | DPrepend _ => f :: l
  | DExtend xs => l ++ seq f (length xs)
  | DPreExtend xs => rev (seq f (length xs)) ++ l
  | DRemove k => del k l
  | DPopBack => removelast l
  | DPopFront => tl l
  | DMoveToFront k => k :: del k l
  | DMoveToBack k => del k l ++ [k]
  | DMoveAfter k j => if k =? j then l else ins_after j k (del k l)
  | DRotate true => match l with a :: t => t ++ [a] | [] => [] end
  | DRotate false => match rev l with z :: r => z :: rev r | [] => [] end
  end.
(* operations are applied to nodes that belong to the list *)
Definition op_ok (l : list nat) (op : dop) : Prop :=
  match op with
  | DRemove k | DMoveToFront k | DMoveToBack k => In k l
  | DMoveAfter k j => In k l /\ In j l
  | _ => True
  end.
Definition ref_res (h : heap) (l : list nat) (op : dop) : dres :=
  match op with
  | DPopBack => match last_error l with Some t => DVal (dat h t) | None => DIndexErr end
  | DPopFront => match hd_error l with Some a => DVal (dat h a) | None => DIndexErr end
  | _ => DUnit
  end.

Lemma del_hd a t : ~ In a t -> del a (a :: t) = t.
Proof. apply del_cons_same. Qed.

Lemma del_last l z : NoDup l -> last_error l = Some z -> del z l = removelast l.
Proof.
  induction l as [|a t IH]; intros Hn Hl; [discriminate|]. inversion Hn as [|? ? Ha Ht]; subst.
  destruct t as [|b t'].
  - simpl in Hl. injection Hl as ->. rewrite del_cons_same by exact Ha. reflexivity.
  - assert (Hl' : last_error (b :: t') = Some z) by exact Hl.
    assert (a <> z). { intros ->. apply Ha. apply last_error_in. exact Hl'. }
    rewrite del_cons_other by assumption. rewrite (IH Ht Hl'). reflexivity.
Qed.

Lemma wf_fold_append xs : forall h l, wf h l -> wf (fold_left h_append xs h) (l ++ seq (fresh h) (length xs))
  /\ fresh (fold_left h_append xs h) = fresh h + length xs.
Proof.
  induction xs as [|x xs IH]; intros h l W; simpl.
  - rewrite app_nil_r. split; [exact W | lia].
  - destruct (IH (h_append h x) (l ++ [fresh h]) (wf_append h l x W)) as [W' F]. simpl in *.
    rewrite <- app_assoc in W'. simpl in W'. split; [exact W' | lia].
Qed.

Lemma wf_fold_prepend xs : forall h l, wf h l -> wf (fold_left h_prepend xs h) (rev (seq (fresh h) (length xs)) ++ l)
  /\ fresh (fold_left h_prepend xs h) = fresh h + length xs.
Proof.
  induction xs as [|x xs IH]; intros h l W; simpl.
  - split; [exact W | lia].
  - destruct (IH (h_prepend h x) (fresh h :: l) (wf_prepend h l x W)) as [W' F]. simpl in *.
    rewrite <- app_assoc. simpl. split; [exact W' | lia].
Qed.

Lemma in_neq_nonempty_del (l : list nat) k p : In p l -> p <> k -> del k l <> [].
Proof. intros Hp Hne E. assert (In p (del k l)) by (apply del_in; auto). rewrite E in H. destruct H. Qed.

Lemma rotate_f2b_wf h a t : wf h (a :: t) -> t <> [] -> wf (h_rotate h true) (t ++ [a]).
Proof.
  intros W Hne. pose proof W as [Hn Hh Ht Hs Hx Hp Hfr].
  inversion Hn as [|? ? Ha Hnt]; subst.
  assert (Hlast : last_error (a :: t) = last_error t) by (apply last_error_cons; exact Hne).
  destruct (last_error t) as [z|] eqn:Lz; [|apply last_none_nil in Lz; congruence].
  assert (Hz : In z t) by (apply last_error_in; exact Lz).
  assert (Haz : a <> z) by (intros ->; contradiction).
  destruct t as [|b t']; [congruence|].
  assert (Hab : a <> b) by (intros ->; apply Ha; left; reflexivity).
  unfold h_rotate. simpl in Hh. rewrite Hh, Ht, Hlast.
  destruct (a =? z) eqn:E; nb; [congruence|].
  assert (Hxa : nxt h a = Some b). { rewrite (Hx a (or_introl eq_refl)). simpl. rewrite Nat.eqb_refl. reflexivity. }
  ub. rewrite (Nat.eqb_refl z). destruct (a =? z) eqn:E2; nb; [congruence|]. rewrite Hxa. simpl.
  constructor; cbn [head tail size nxt prv dat fresh]; ub.
  - change (b :: t' ++ [a]) with ((b :: t') ++ [a]). apply NoDup_snoc; assumption.
  - reflexivity.
  - change (b :: t' ++ [a]) with ((b :: t') ++ [a]). rewrite last_error_app. reflexivity.
  - rewrite Hs. change (b :: t' ++ [a]) with ((b :: t') ++ [a]). rewrite app_length. simpl. lia.
  - intros m Hm. change (b :: t' ++ [a]) with ((b :: t') ++ [a]) in *.
    rewrite succ_snoc by assumption. rewrite Lz.
    apply in_app_or in Hm.
    destruct (m =? a) eqn:E3; nb; [reflexivity|].
    destruct Hm as [Hm|[<-|[]]]; [|congruence].
    simpl oeq. destruct (z =? m) eqn:E4; nb.
    + subst. rewrite Nat.eqb_refl. reflexivity.
    + rewrite (Nat.eqb_sym m z). destruct (z =? m) eqn:E5; nb; [congruence|].
      rewrite (Hx m (or_intror Hm)). simpl. destruct (a =? m) eqn:E6; nb; [congruence | reflexivity].
  - intros m Hm. change (b :: t' ++ [a]) with ((b :: t') ++ [a]) in *.
    rewrite pred_snoc by assumption. rewrite Lz.
    apply in_app_or in Hm.
    destruct (m =? a) eqn:E3; nb.
    + subst. destruct (a =? b) eqn:E4; nb; [congruence | reflexivity].
    + destruct Hm as [Hm|[<-|[]]]; [|congruence].
      destruct (m =? b) eqn:E4; nb.
      * subst. symmetry. apply (pred_none_hd (b :: t') b Hnt (or_introl eq_refl)). reflexivity.
      * rewrite (Hp m (or_intror Hm)). rewrite pred_cons. destruct (a =? m) eqn:E5; nb; [congruence|].
        simpl. destruct (b =? m) eqn:E6; nb; [congruence | reflexivity].
  - intros m Hm. change (b :: t' ++ [a]) with ((b :: t') ++ [a]) in *. apply Hfr. apply in_app_or in Hm.
    destruct Hm as [Hm|[<-|[]]]; [right; exact Hm | left; reflexivity].
Qed.

Lemma rotate_b2f_wf h t z : wf h (t ++ [z]) -> t <> [] -> wf (h_rotate h false) (z :: t).
Proof.
  intros W Hne. pose proof W as [Hn Hh Ht Hs Hx Hp Hfr].
  assert (Hzt : ~ In z t).
  { apply NoDup_rev in Hn. rewrite rev_app_distr in Hn. simpl in Hn. inversion Hn; subst. rewrite <- in_rev in *. assumption. }
  assert (Hnt : NoDup t).
  { apply NoDup_rev in Hn. rewrite rev_app_distr in Hn. simpl in Hn. inversion Hn; subst.
    apply NoDup_rev in H2. rewrite rev_involutive in H2. exact H2. }
  destruct t as [|a t'']; [congruence|].
  assert (Haz : a <> z) by (intros ->; apply Hzt; left; reflexivity).
  destruct (last_error (a :: t'')) as [y|] eqn:Ly; [|apply last_none_nil in Ly; congruence].
  assert (Hy : In y (a :: t'')) by (apply last_error_in; exact Ly).
  assert (Hyz : y <> z) by (intros ->; contradiction).
  unfold h_rotate. rewrite Hh, Ht, last_error_app. simpl hd_error. cbv iota beta.
  destruct (a =? z) eqn:E; nb; [congruence|].
  assert (Hpz : prv h z = Some y).
  { rewrite (Hp z) by (apply in_or_app; right; left; reflexivity). rewrite pred_snoc by exact Hzt.
    rewrite Nat.eqb_refl. exact Ly. }
  ub. rewrite (Nat.eqb_refl a). destruct (z =? a) eqn:E2; nb; [congruence|]. rewrite Hpz.
  constructor; cbn [head tail size nxt prv dat fresh]; ub.
  - constructor; assumption.
  - reflexivity.
  - rewrite last_error_cons by discriminate. symmetry; exact Ly.
  - rewrite Hs, app_length. simpl. lia.
  - intros m Hm. simpl succ_in.
    destruct (z =? m) eqn:E3; nb.
    + subst m. destruct (z =? y) eqn:E4; nb; [congruence|]. rewrite Nat.eqb_refl. reflexivity.
    + destruct Hm as [Hm|Hm]; [congruence|].
      destruct (m =? y) eqn:E4; nb.
      * subst m. symmetry. apply (succ_none_last (a :: t'') y Hy Hnt). exact Ly.
      * rewrite (Nat.eqb_sym m z). destruct (z =? m) eqn:E5; nb; [congruence|].
        rewrite (Hx m) by (apply in_or_app; left; exact Hm).
        rewrite succ_snoc by assumption. destruct (m =? z) eqn:E6; nb; [congruence|].
        rewrite Ly. simpl. destruct (y =? m) eqn:E7; nb; [congruence | reflexivity].
  - intros m Hm. rewrite pred_cons. simpl hd_error.
    destruct (z =? m) eqn:E3; nb.
    + subst m. rewrite Nat.eqb_refl. reflexivity.
    + rewrite (Nat.eqb_sym m z). destruct (z =? m) eqn:E4; nb; [congruence|].
      destruct Hm as [Hm|Hm]; [congruence|]. simpl.
      destruct (a =? m) eqn:E5; nb.
      * subst. rewrite Nat.eqb_refl. reflexivity.
      * rewrite (Nat.eqb_sym m a). destruct (a =? m) eqn:E6; nb; [congruence|].
        rewrite (Hp m) by (apply in_or_app; left; exact Hm).
        rewrite pred_snoc by assumption. destruct (m =? z) eqn:E7; nb; [congruence | reflexivity].
  - intros m Hm. apply Hfr. apply in_or_app. destruct Hm as [<-|Hm]; [right; left; reflexivity | left; exact Hm].
Qed.

(* ------------------------------------------------------------------ one step refines the reference *)
Definition ref_fresh (f : nat) (op : dop) : nat :=
  match op with
  | DAppend _ | DPrepend _ => S f
  | DExtend xs | DPreExtend xs => f + length xs
  | _ => f
  end.

Lemma fold_append_dat xs : forall h m, m < fresh h -> dat (fold_left h_append xs h) m = dat h m.
Proof.
  induction xs as [|x xs IH]; intros h m Hm; simpl; [reflexivity|].
  rewrite IH by (simpl; lia). simpl. unfold upd. destruct (m =? fresh h) eqn:E; nb; [lia | reflexivity].
Qed.
Lemma fold_prepend_dat xs : forall h m, m < fresh h -> dat (fold_left h_prepend xs h) m = dat h m.
Proof.
  induction xs as [|x xs IH]; intros h m Hm; simpl; [reflexivity|].
  rewrite IH by (simpl; lia). simpl. unfold upd. destruct (m =? fresh h) eqn:E; nb; [lia | reflexivity].
Qed.

Lemma last_error_removelast (l : list nat) k : last_error l = Some k -> l = removelast l ++ [k].
Proof.
  induction l as [|a t IH]; [discriminate|]. destruct t as [|b t'].
  - simpl. intros H. injection H as ->. reflexivity.
  - intros H. change (last_error (b :: t') = Some k) in H. specialize (IH H).
    change (a :: b :: t' = a :: (removelast (b :: t') ++ [k])). f_equal. exact IH.
Qed.

Ltac four tac :=
  split; [tac | split; [reflexivity | split; [first [reflexivity | assumption] | first [intros; reflexivity | idtac]]]].

Theorem step_refines h l op : wf h l -> op_ok l op ->
  wf (fst (h_step h op)) (ref_step l (fresh h) op)
  /\ snd (h_step h op) = ref_res h l op
  /\ fresh (fst (h_step h op)) = ref_fresh (fresh h) op
  /\ (forall m, m < fresh h -> dat (fst (h_step h op)) m = dat h m).
Proof.
  intros W Hok. pose proof W as [Hn Hh Ht Hs Hx Hp Hfr].
  destruct op as [x|x|xs|xs|k| | |k|k|k j|b]; simpl in Hok |- *.
  - four ltac:(apply wf_append; exact W).
    intros m Hm. unfold upd. destruct (m =? fresh h) eqn:E; nb; [lia | reflexivity].
  - four ltac:(apply wf_prepend; exact W).
    intros m Hm. unfold upd. destruct (m =? fresh h) eqn:E; nb; [lia | reflexivity].
  - destruct (wf_fold_append xs h l W) as [W' F]. four ltac:(exact W'). apply fold_append_dat.
  - destruct (wf_fold_prepend xs h l W) as [W' F]. four ltac:(exact W'). apply fold_prepend_dat.
  - four ltac:(apply wf_remove; assumption).
  - unfold h_pop_back. rewrite Ht. destruct (last_error l) as [t|] eqn:L; simpl.
    + four ltac:(rewrite <- (del_last l t Hn L); apply wf_remove; [exact W | apply last_error_in; exact L]).
    + apply last_none_nil in L. subst l. four ltac:(exact W).
  - unfold h_pop_front. rewrite Hh. destruct l as [|a t]; simpl.
    + four ltac:(exact W).
    + inversion Hn; subst.
      four ltac:(rewrite <- (del_cons_same a t) by assumption; apply wf_remove; [exact W | left; reflexivity]).
  - unfold h_move_to_front. rewrite Hh. destruct l as [|a t]; [destruct Hok|]. simpl hd_error. cbv iota beta.
    rewrite (Hp k Hok). destruct (pred_in (a :: t) k) as [p|] eqn:P; cbn [fst snd].
    + assert (Hak : a <> k).
      { intros ->. assert (pred_in (k :: t) k = None) by (apply (pred_none_hd (k :: t) k Hn Hok); reflexivity). congruence. }
      four ltac:(apply (wf_push_front (h_remove h k) (del k (a :: t)) k);
        [ apply wf_remove; assumption
        | intros H; apply del_in in H; tauto
        | apply (in_neq_nonempty_del (a :: t) k a); [left; reflexivity | exact Hak]
        | simpl; apply Hfr; exact Hok ]).
    + apply (pred_none_hd (a :: t) k Hn Hok) in P. simpl in P. injection P as ->. inversion Hn; subst.
      rewrite del_cons_same by assumption. four ltac:(exact W).
  - unfold h_move_to_back. rewrite Hh. destruct l as [|a t]; [destruct Hok|]. simpl hd_error. cbv iota beta.
    rewrite (Hx k Hok). destruct (succ_in (a :: t) k) as [q|] eqn:S; cbn [fst snd].
    + pose proof S as S0. apply succ_some_in in S. destruct S as [Hq _].
      assert (Hqk : q <> k) by (intros ->; exact (succ_in_irrefl (a :: t) k Hn S0)).
      four ltac:(apply (wf_push_back (h_remove h k) (del k (a :: t)) k);
        [ apply wf_remove; assumption
        | intros H; apply del_in in H; tauto
        | apply (in_neq_nonempty_del (a :: t) k q Hq Hqk)
        | simpl; apply Hfr; exact Hok ]).
    + apply (succ_none_last (a :: t) k Hok Hn) in S.
      rewrite (del_last (a :: t) k Hn S). rewrite <- (last_error_removelast (a :: t) k S). four ltac:(exact W).
  - unfold h_move_after. destruct Hok as [Hk Hj]. destruct (k =? j) eqn:E; nb; cbn [fst snd]; [four ltac:(exact W)|].
    four ltac:(apply (wf_link_after (h_remove h k) (del k l) k j);
      [ apply wf_remove; assumption
      | intros H; apply del_in in H; tauto
      | apply del_in; split; [congruence | exact Hj]
      | simpl; apply Hfr; exact Hk ]).
  - assert (Hfd : fresh (h_rotate h b) = fresh h /\ (forall m, m < fresh h -> dat (h_rotate h b) m = dat h m)).
    { unfold h_rotate. destruct (head h), (tail h); try destruct (_ =? _); destruct b; split; auto. }
    destruct Hfd as [Hf1 Hf2]. split; [|split; [reflexivity | split; [exact Hf1 | exact Hf2]]].
    destruct b.
    + destruct l as [|a t].
      * unfold h_rotate. rewrite Hh. simpl. exact W.
      * destruct t as [|b t'].
        -- unfold h_rotate. rewrite Hh, Ht. simpl. rewrite Nat.eqb_refl. exact W.
        -- apply rotate_f2b_wf; [exact W | discriminate].
    + destruct l as [|a t] using rev_ind.
      * unfold h_rotate. rewrite Hh. simpl. exact W.
      * clear IHt. rewrite rev_app_distr. simpl. rewrite rev_involutive. destruct t as [|b t'].
        -- unfold h_rotate. rewrite Hh, Ht. simpl. rewrite Nat.eqb_refl. exact W.
        -- apply rotate_b2f_wf; [exact W | discriminate].
Qed.

(* ------------------------------------------------------------------ traversals *)
Lemma succ_split pre a t : NoDup (pre ++ a :: t) -> succ_in (pre ++ a :: t) a = hd_error t.
Proof.
  induction pre as [|x pre IH]; intros Hn; simpl.
  - rewrite Nat.eqb_refl. reflexivity.
  - inversion Hn as [|? ? Hx Hn']; subst. destruct (x =? a) eqn:E; nb.
    + subst. exfalso. apply Hx. apply in_or_app. right; left; reflexivity.
    + apply IH; exact Hn'.
Qed.

Lemma pred_aux_split p pre a t : NoDup (pre ++ a :: t) ->
  pred_aux p (pre ++ a :: t) a = match pre with [] => p | _ => last_error pre end.
Proof.
  revert p; induction pre as [|x pre IH]; intros p Hn; simpl.
  - rewrite Nat.eqb_refl. reflexivity.
  - inversion Hn as [|? ? Hx Hn']; subst. destruct (x =? a) eqn:E; nb.
    + subst. exfalso. apply Hx. apply in_or_app. right; left; reflexivity.
    + rewrite (IH (Some x) Hn'). destruct pre; reflexivity.
Qed.
Lemma pred_split pre a t : NoDup (pre ++ a :: t) -> pred_in (pre ++ a :: t) a = last_error pre.
Proof. intros Hn. unfold pred_in. rewrite pred_aux_split by exact Hn. destruct pre; reflexivity. Qed.

Lemma walk_forward h l : wf h l -> forall suf pre fuel, l = pre ++ suf -> length suf < fuel ->
  walk (nxt h) fuel (hd_error suf) = suf.
Proof.
  intros W. induction suf as [|a t IH]; intros pre fuel E Hf.
  - destruct fuel; reflexivity.
  - destruct fuel as [|f]; [simpl in Hf; lia|]. simpl. f_equal.
    rewrite (wf_nxt h l W a) by (rewrite E; apply in_or_app; right; left; reflexivity).
    rewrite E. rewrite succ_split by (rewrite <- E; apply (wf_nodup h l W)).
    apply (IH (pre ++ [a])); [rewrite <- app_assoc; exact E | simpl in Hf; lia].
Qed.

Lemma walk_backward h l : wf h l -> forall pre suf fuel, l = pre ++ suf -> length pre < fuel ->
  walk (prv h) fuel (last_error pre) = rev pre.
Proof.
  intros W. induction pre as [|a pre IH] using rev_ind; intros suf fuel E Hf.
  - destruct fuel; reflexivity.
  - destruct fuel as [|f]; [rewrite app_length in Hf; simpl in Hf; lia|].
    rewrite last_error_app, rev_app_distr. simpl. f_equal.
    rewrite <- app_assoc in E. simpl in E.
    rewrite (wf_prv h l W a) by (rewrite E; apply in_or_app; right; left; reflexivity).
    rewrite E. rewrite pred_split by (rewrite <- E; apply (wf_nodup h l W)).
    apply (IH (a :: suf)); [exact E | rewrite app_length in Hf; simpl in Hf; lia].
Qed.

Lemma wf_length_le h l : wf h l -> length l <= fresh h.
Proof.
  intros W. rewrite <- (seq_length (fresh h) 0). apply NoDup_incl_length; [apply (wf_nodup h l W)|].
  intros m Hm. apply in_seq. pose proof (wf_fresh h l W m Hm). lia.
Qed.

(* C08: forward traversal yields the reference sequence, the backward traversal its reverse (every prev/next link
   and head/tail consistent), len() is the number of elements *)
Theorem wf_observable h l : wf h l ->
  forward h = l /\ backward h = rev l /\ size h = Z.of_nat (length l)
  /\ head h = hd_error l /\ tail h = last_error l.
Proof.
  intros W. pose proof (wf_length_le h l W) as L. repeat split.
  - unfold forward. rewrite (wf_head h l W). apply (walk_forward h l W l []); [reflexivity | lia].
  - unfold backward. rewrite (wf_tail h l W). apply (walk_backward h l W l []); [rewrite app_nil_r; reflexivity | lia].
  - apply (wf_size h l W).
  - apply (wf_head h l W).
  - apply (wf_tail h l W).
Qed.

(* ------------------------------------------------------------------ histories *)
Fixpoint h_exec (h : heap) (ops : list dop) : heap * list dres :=
  match ops with
  | [] => (h, [])
  | op :: r => let '(h1, o) := h_step h op in let '(h2, os) := h_exec h1 r in (h2, o :: os)
  end.
Fixpoint ref_exec (l : list nat) (f : nat) (ops : list dop) : list nat :=
  match ops with [] => l | op :: r => ref_exec (ref_step l f op) (ref_fresh f op) r end.
(* every operation names nodes that are members at that point *)
Fixpoint ops_ok (l : list nat) (f : nat) (ops : list dop) : Prop :=
  match ops with [] => True | op :: r => op_ok l op /\ ops_ok (ref_step l f op) (ref_fresh f op) r end.

Theorem dll_refines_list : forall ops h l, wf h l -> ops_ok l (fresh h) ops ->
  wf (fst (h_exec h ops)) (ref_exec l (fresh h) ops).
Proof.
  induction ops as [|op r IH]; intros h l W Hok; simpl; [exact W|].
  destruct Hok as [Ho Hr]. destruct (step_refines h l op W Ho) as (W1 & _ & F1 & _).
  destruct (h_step h op) as [h1 o] eqn:S. simpl in *.
  specialize (IH h1 (ref_step l (fresh h) op) W1). rewrite F1 in IH. specialize (IH Hr).
  destruct (h_exec h1 r) as [h2 os]. exact IH.
Qed.

Corollary dll_history : forall ops, ops_ok [] 0 ops ->
  let h := fst (h_exec h_init ops) in let l := ref_exec [] 0 ops in
  forward h = l /\ backward h = rev l /\ size h = Z.of_nat (length l) /\ head h = hd_error l /\ tail h = last_error l.
Proof. intros ops Hok. apply wf_observable. apply (dll_refines_list ops h_init [] wf_init Hok). Qed.

(* payloads play no role: the same history with other payloads moves the same nodes to the same places *)
Definition same_shape (a b : dop) : Prop :=
  match a, b with
  | DAppend _, DAppend _ | DPrepend _, DPrepend _ => True
  | DExtend xs, DExtend ys | DPreExtend xs, DPreExtend ys => length xs = length ys
  | DRemove k, DRemove k' | DMoveToFront k, DMoveToFront k' | DMoveToBack k, DMoveToBack k' => k = k'
  | DMoveAfter k j, DMoveAfter k' j' => k = k' /\ j = j'
  | DRotate b1, DRotate b2 => b1 = b2
  | DPopBack, DPopBack | DPopFront, DPopFront => True
  | _, _ => False
  end.
Theorem identity_only : forall ops1 ops2 l f, Forall2 same_shape ops1 ops2 -> ref_exec l f ops1 = ref_exec l f ops2.
Proof.
  intros ops1 ops2 l f H. revert l f. induction H as [|a b r1 r2 Hab Hr IH]; intros l f; simpl; [reflexivity|].
  assert (ref_step l f a = ref_step l f b /\ ref_fresh f a = ref_fresh f b) as [-> ->]; [|apply IH].
  destruct a, b; simpl in Hab; try contradiction; simpl; try (split; reflexivity);
    try (subst; split; reflexivity); try (rewrite Hab; split; reflexivity).
  destruct Hab as [-> ->]. split; reflexivity.
Qed.

(* ------------------------------------------------------------------ payloads (value view, `__iter__`)
   Unconditional facts about the payload map: an operation writes exactly the payloads of the nodes it creates, at
   the next unused addresses in creation order, and touches no other payload - whatever the links look like. *)
Definition new_vals (op : dop) : list Z :=
  match op with
  | DAppend x | DPrepend x => [x]
  | DExtend xs | DPreExtend xs => xs
  | _ => []
  end.
Definition payloads (ops : list dop) : list Z := flat_map new_vals ops.

Lemma fold_append_fresh xs : forall h, fresh (fold_left h_append xs h) = fresh h + length xs.
Proof. induction xs as [|x xs IH]; intros h; simpl; [lia|]. rewrite IH. simpl. lia. Qed.
Lemma fold_prepend_fresh xs : forall h, fresh (fold_left h_prepend xs h) = fresh h + length xs.
Proof. induction xs as [|x xs IH]; intros h; simpl; [lia|]. rewrite IH. simpl. lia. Qed.

Lemma fold_append_new xs : forall h i, i < length xs -> dat (fold_left h_append xs h) (fresh h + i) = nth i xs 0%Z.
Proof.
  induction xs as [|x xs IH]; intros h i Hi; simpl in Hi; [lia|]. cbn [fold_left]. destruct i as [|i].
  - rewrite fold_append_dat by (simpl; lia). simpl. unfold upd. rewrite Nat.add_0_r, Nat.eqb_refl. reflexivity.
  - replace (fresh h + S i) with (fresh (h_append h x) + i) by (simpl; lia). rewrite IH by lia. reflexivity.
Qed.
Lemma fold_prepend_new xs : forall h i, i < length xs -> dat (fold_left h_prepend xs h) (fresh h + i) = nth i xs 0%Z.
Proof.
  induction xs as [|x xs IH]; intros h i Hi; simpl in Hi; [lia|]. cbn [fold_left]. destruct i as [|i].
  - rewrite fold_prepend_dat by (simpl; lia). simpl. unfold upd. rewrite Nat.add_0_r, Nat.eqb_refl. reflexivity.
  - replace (fresh h + S i) with (fresh (h_prepend h x) + i) by (simpl; lia). rewrite IH by lia. reflexivity.
Qed.

Lemma remove_dat_fresh h k : dat (h_remove h k) = dat h /\ fresh (h_remove h k) = fresh h.
Proof. split; reflexivity. Qed.

Theorem step_payloads h op :
  fresh (fst (h_step h op)) = fresh h + length (new_vals op)
  /\ (forall m, m < fresh h -> dat (fst (h_step h op)) m = dat h m)
  /\ (forall i, i < length (new_vals op) -> dat (fst (h_step h op)) (fresh h + i) = nth i (new_vals op) 0%Z).
Proof.
  destruct op as [x|x|xs|xs|k| | |k|k|k j|b]; cbn [h_step new_vals fst length].
  - split; [simpl; lia|]. split.
    + intros m Hm. simpl. unfold upd. destruct (m =? fresh h) eqn:E; nb; [lia | reflexivity].
    + intros i Hi. assert (i = 0) by lia. subst i. simpl. unfold upd. rewrite Nat.add_0_r, Nat.eqb_refl. reflexivity.
  - split; [simpl; lia|]. split.
    + intros m Hm. simpl. unfold upd. destruct (m =? fresh h) eqn:E; nb; [lia | reflexivity].
    + intros i Hi. assert (i = 0) by lia. subst i. simpl. unfold upd. rewrite Nat.add_0_r, Nat.eqb_refl. reflexivity.
  - split; [apply fold_append_fresh|]. split; [apply fold_append_dat | apply fold_append_new].
  - split; [apply fold_prepend_fresh|]. split; [apply fold_prepend_dat | apply fold_prepend_new].
  - split; [simpl; lia|]. split; [reflexivity | simpl; lia].
  - unfold h_pop_back. destruct (tail h); cbn [fst]; (split; [simpl; lia|]; split; [reflexivity | simpl; lia]).
  - unfold h_pop_front. destruct (head h); cbn [fst]; (split; [simpl; lia|]; split; [reflexivity | simpl; lia]).
  - unfold h_move_to_front. destruct (head h); [destruct (prv h k)|]; cbn [fst];
      (split; [simpl; lia|]; split; [reflexivity | simpl; lia]).
  - unfold h_move_to_back. destruct (head h); [destruct (nxt h k)|]; cbn [fst];
      (split; [simpl; lia|]; split; [reflexivity | simpl; lia]).
  - unfold h_move_after. destruct (k =? j); (split; [simpl; lia|]; split; [reflexivity | simpl; lia]).
  - unfold h_rotate. destruct (head h), (tail h); try destruct (_ =? _); try destruct b;
      (split; [simpl; lia|]; split; [reflexivity | simpl; lia]).
Qed.

Theorem exec_payloads : forall ops h,
  fresh (fst (h_exec h ops)) = fresh h + length (payloads ops)
  /\ (forall m, m < fresh h -> dat (fst (h_exec h ops)) m = dat h m)
  /\ (forall i, i < length (payloads ops) -> dat (fst (h_exec h ops)) (fresh h + i) = nth i (payloads ops) 0%Z).
Proof.
  induction ops as [|op r IH]; intros h; cbn [h_exec payloads flat_map].
  - simpl. split; [lia|]. split; [reflexivity | intros i Hi; lia].
  - destruct (step_payloads h op) as (F1 & D1 & N1). destruct (h_step h op) as [h1 o] eqn:S. cbn [fst] in *.
    destruct (IH h1) as (F2 & D2 & N2). destruct (h_exec h1 r) as [h2 os]. cbn [fst] in *.
    fold (payloads r). rewrite app_length. split; [lia|]. split.
    + intros m Hm. rewrite D2 by lia. apply D1. exact Hm.
    + intros i Hi. destruct (Nat.lt_ge_cases i (length (new_vals op))) as [Hlt|Hge].
      * rewrite app_nth1 by exact Hlt. rewrite D2 by lia. apply N1. exact Hlt.
      * rewrite app_nth2 by exact Hge. rewrite <- (N2 (i - length (new_vals op))) by lia. f_equal. lia.
Qed.

(* what iteration yields after any history: the payloads given at creation, placed as the reference sequence says *)
Theorem dll_values : forall ops, ops_ok [] 0 ops ->
  let h := fst (h_exec h_init ops) in
  map (dat h) (forward h) = map (fun a => nth a (payloads ops) 0%Z) (ref_exec [] 0 ops)
  /\ fresh h = length (payloads ops).
Proof.
  intros ops Hok h. pose proof (dll_refines_list ops h_init [] wf_init Hok) as W. fold h in W.
  destruct (exec_payloads ops h_init) as (F & _ & N). fold h in F, N. simpl in F, N.
  destruct (wf_observable h _ W) as (Fw & _). rewrite Fw. split; [|exact F].
  apply map_ext_in. intros a Ha. apply N. rewrite <- F. apply (wf_fresh h _ W). exact Ha.
Qed.
