(* Proofs about Model/Sorted.v (property C09). *)
From Coq Require Import ZArith List Bool Lia ZifyBool Permutation Sorted.
From WPU Require Import Common.Val Common.Dict Common.ListX Common.Bisect Model.Generic Model.Sorted Proofs.GenericP.
Import ListNotations.
Open Scope Z_scope.

Definition ssorted (l : list Z) : Prop := StronglySorted Z.lt l.

Lemma ssorted_app a b : ssorted (a ++ b) <-> ssorted a /\ ssorted b /\ (forall x y, In x a -> In y b -> x < y).
Proof.
  unfold ssorted. induction a as [|h t IH]; simpl.
  - split; [intros H; repeat split; [constructor | exact H | intros x y []] | tauto].
  - split.
    + intros H. inversion H as [|? ? Hs Hf]; subst. apply IH in Hs. destruct Hs as (Ha & Hb & Hab).
      rewrite Forall_forall in Hf. repeat split; auto.
      * constructor; [exact Ha|]. apply Forall_forall. intros x Hx. apply Hf. apply in_or_app; left; exact Hx.
      * intros x y [<-|Hx] Hy; [apply Hf; apply in_or_app; right; exact Hy | apply Hab; assumption].
    + intros (Ha & Hb & Hab). inversion Ha as [|? ? Hs Hf]; subst. constructor.
      * apply IH. repeat split; auto.
      * rewrite Forall_forall in *. intros x Hx. apply in_app_or in Hx. destruct Hx as [Hx|Hx]; [apply Hf; exact Hx | apply Hab; [left; reflexivity | exact Hx]].
Qed.

Lemma ssorted_nodup l : ssorted l -> NoDup l.
Proof.
  induction 1 as [|a t Hs IH Hf]; constructor; [|exact IH]. rewrite Forall_forall in Hf. intros H. specialize (Hf a H). lia.
Qed.

Lemma ssorted_nth l : ssorted l -> forall i j, (i < j < length l)%nat -> nth i l 0 < nth j l 0.
Proof.
  induction 1 as [|a t Hs IH Hf]; intros i j Hij; simpl in *; [lia|].
  destruct i as [|i], j as [|j]; try lia.
  - rewrite Forall_forall in Hf. apply Hf. apply nth_In. lia.
  - apply IH. lia.
Qed.
Lemma ssorted_nondecr l : ssorted l -> nondecr l.
Proof.
  intros H i j Hij. destruct (Nat.eq_dec i j) as [->|Hne]; [lia|].
  pose proof (ssorted_nth l H i j ltac:(lia)). lia.
Qed.

(* two strictly ascending lists with the same members are the same list *)
Theorem ssorted_unique l1 l2 : ssorted l1 -> ssorted l2 -> (forall x, In x l1 <-> In x l2) -> l1 = l2.
Proof.
  intros H1; revert l2; induction H1 as [|a t Hs IH Hf]; intros l2 H2 Hm.
  - destruct l2 as [|b t2]; [reflexivity|]. exfalso. apply (Hm b). left; reflexivity.
  - destruct l2 as [|b t2]; [exfalso; apply (Hm a); left; reflexivity|].
    inversion H2 as [|? ? Hs2 Hf2]; subst. rewrite Forall_forall in Hf, Hf2.
    assert (a = b).
    { assert (Ha : In a (b :: t2)) by (apply Hm; left; reflexivity).
      assert (Hb : In b (a :: t)) by (apply Hm; left; reflexivity).
      destruct Ha as [Ha|Ha]; [auto|]. destruct Hb as [Hb|Hb]; [auto|].
      specialize (Hf b Hb). specialize (Hf2 a Ha). lia. }
    subst b. f_equal. apply IH; [exact Hs2|]. intros x. split; intros Hx.
    + assert (In x (a :: t2)) as [<-|H] by (apply Hm; right; exact Hx); [specialize (Hf a Hx); lia | exact H].
    + assert (In x (a :: t)) as [<-|H] by (apply Hm; right; exact Hx); [specialize (Hf2 a Hx); lia | exact H].
Qed.

Lemma in_firstn_nth (l : list Z) i y : In y (firstn i l) -> exists j, (j < i)%nat /\ (j < length l)%nat /\ nth j l 0 = y.
Proof.
  revert l; induction i as [|i IH]; intros l H; simpl in H; [destruct H|].
  destruct l as [|a t]; [destruct H|]. destruct H as [<-|H].
  - exists O. simpl. repeat split; lia.
  - destruct (IH t H) as (j & H1 & H2 & H3). exists (S j). simpl. repeat split; auto; lia.
Qed.
Lemma in_skipn_nth (l : list Z) i y : In y (skipn i l) -> exists j, (i <= j < length l)%nat /\ nth j l 0 = y.
Proof.
  revert l; induction i as [|i IH]; intros l H; simpl in H.
  - apply (In_nth l y 0) in H. destruct H as (j & H1 & H2). exists j. split; [lia | exact H2].
  - destruct l as [|a t]; [destruct H|]. destruct (IH t H) as (j & H1 & H2). exists (S j). simpl. split; [lia | exact H2].
Qed.

Lemma nth_error_in_skipn (l : list Z) i y : nth_error l i = Some y -> In y (skipn i l).
Proof.
  revert l; induction i as [|i IH]; intros [|a t] N; simpl in *; try discriminate.
  - injection N as ->. left; reflexivity.
  - apply IH; exact N.
Qed.
Lemma nth_error_hd_skipn (l : list Z) i y h r : nth_error l i = Some y -> skipn i l = h :: r -> h = y.
Proof.
  revert l; induction i as [|i IH]; intros [|a t] N Sk; simpl in *; try discriminate.
  - injection N as ->. injection Sk as -> _. reflexivity.
  - eapply IH; eauto.
Qed.

(* the index computed by bisect_left + equality probe *)
Theorem ins_index_spec l x : ssorted l ->
  let i := fst (ins_index l x) in let found := snd (ins_index l x) in
  (i <= length l)%nat
  /\ (forall y, In y (firstn i l) -> y < x) /\ (forall y, In y (skipn i l) -> x <= y)
  /\ (found = true <-> In x l) /\ (found = true -> nth_error l i = Some x).
Proof.
  intros Hs. unfold ins_index. simpl.
  destruct (bisect_left_spec l x (ssorted_nondecr l Hs)) as (Hi & Hlo & Hhi).
  set (i := bisect_left l x) in *.
  assert (A : forall y, In y (firstn i l) -> y < x).
  { intros y Hy. apply in_firstn_nth in Hy. destruct Hy as (j & H1 & H2 & <-). apply Hlo; exact H1. }
  assert (B : forall y, In y (skipn i l) -> x <= y).
  { intros y Hy. apply in_skipn_nth in Hy. destruct Hy as (j & H1 & <-). apply Hhi; exact H1. }
  assert (C : forall y, nth_error l i = Some y -> y = x -> In x l).
  { intros y Hy ->. eapply nth_error_In; exact Hy. }
  repeat split; auto.
  - destruct (nth_error l i) as [y|] eqn:N; [|discriminate]. intros H. apply (C y eq_refl). lia.
  - intros Hin. rewrite <- (firstn_skipn i l) in Hin. apply in_app_or in Hin. destruct Hin as [Hin|Hin]; [specialize (A x Hin); lia|].
    destruct (nth_error l i) as [y|] eqn:N.
    + assert (Hy : In y (skipn i l)) by (apply nth_error_in_skipn; exact N).
      specialize (B y Hy).
      assert (Hsk : ssorted (skipn i l)).
      { rewrite <- (firstn_skipn i l) in Hs. apply ssorted_app in Hs. tauto. }
      assert (y <= x); [|lia].
      destruct (skipn i l) as [|h r] eqn:Sk; [destruct Hin|].
      assert (h = y) by (eapply nth_error_hd_skipn; eauto).
      subst h. destruct Hin as [->|Hin]; [lia|]. inversion Hsk; subst. rewrite Forall_forall in H2. specialize (H2 x Hin). lia.
    + apply nth_error_None in N. rewrite skipn_all2 in Hin by lia. destruct Hin.
  - destruct (nth_error l i) as [y|] eqn:N; [|discriminate]. intros H. f_equal. lia.
Qed.

(* ------------------------------------------------------------------ SortedSet *)
Lemma nth_error_split (l : list Z) i x : nth_error l i = Some x -> l = firstn i l ++ x :: skipn (S i) l.
Proof.
  revert l; induction i as [|i IH]; intros [|a t] H; simpl in *; try discriminate.
  - injection H as ->. reflexivity.
  - f_equal. apply IH; exact H.
Qed.

Theorem set_add_spec l x : ssorted l ->
  ssorted (set_add l x) /\ (forall y, In y (set_add l x) <-> y = x \/ In y l).
Proof.
  intros Hs. unfold set_add. destruct (ins_index_spec l x Hs) as (Hi & A & B & F & N).
  destruct (ins_index l x) as [i found]. simpl in *. destruct found.
  - split; [exact Hs|]. intros y. split; [tauto|]. intros [->|H]; [apply F; reflexivity | exact H].
  - assert (Hx : ~ In x l) by (intros H; apply F in H; discriminate).
    unfold insert_at. split.
    + rewrite <- (firstn_skipn i l) in Hs. apply ssorted_app in Hs. destruct Hs as (S1 & S2 & S12).
      apply ssorted_app. repeat split; auto.
      * constructor; [exact S2|]. apply Forall_forall. intros y Hy. specialize (B y Hy).
        assert (y <> x) by (intros ->; apply Hx; rewrite <- (firstn_skipn i l); apply in_or_app; right; exact Hy). lia.
      * intros a b Ha [<-|Hb]; [apply A; exact Ha | apply S12; assumption].
    + intros y. rewrite in_app_iff. simpl. rewrite <- (firstn_skipn i l) at 3. rewrite in_app_iff. intuition.
Qed.

Theorem set_discard_spec l x : ssorted l ->
  ssorted (set_discard l x) /\ (forall y, In y (set_discard l x) <-> y <> x /\ In y l).
Proof.
  intros Hs. unfold set_discard. destruct (ins_index_spec l x Hs) as (Hi & A & B & F & N).
  destruct (ins_index l x) as [i found]. simpl in *. destruct found.
  - specialize (N eq_refl). pose proof (nth_error_split l i x N) as E. unfold delete_at.
    pose proof (ssorted_nodup l Hs) as Hn. rewrite E in Hs, Hn.
    apply ssorted_app in Hs. destruct Hs as (S1 & S2 & S12). inversion S2 as [|? ? S2' F2]; subst.
    split.
    + apply ssorted_app. repeat split; auto. intros a b Ha Hb. apply S12; [exact Ha | right; exact Hb].
    + intros y. rewrite in_app_iff. rewrite E at 3. rewrite in_app_iff. simpl.
      apply NoDup_remove_2 in Hn. rewrite in_app_iff in Hn. split.
      * intros [H|H]; (split; [intros ->; apply Hn; tauto | tauto]).
      * intros [Hne [H|[H|H]]]; [left; exact H | congruence | right; exact H].
  - split; [exact Hs|]. intros y. split; [|tauto]. intros H. split; [|exact H].
    intros ->. apply F in H. discriminate.
Qed.

Theorem set_contains_spec l x : ssorted l -> (set_contains l x = true <-> In x l).
Proof. intros Hs. unfold set_contains. apply (ins_index_spec l x Hs). Qed.

(* construction: sort, drop repeats *)
Lemma zinsert_perm x l : Permutation (zinsert x l) (x :: l).
Proof. induction l as [|y t IH]; simpl; [reflexivity|]. destruct (x <=? y); [reflexivity|]. rewrite IH. apply perm_swap. Qed.
Lemma zsort_perm l : Permutation (zsort l) l.
Proof. induction l as [|x t IH]; simpl; [reflexivity|]. rewrite zinsert_perm. constructor. exact IH. Qed.
Lemma zinsert_sorted x l : StronglySorted Z.le l -> StronglySorted Z.le (zinsert x l).
Proof.
  induction 1 as [|y t Hs IH Hf]; simpl; [repeat constructor|]. rewrite Forall_forall in Hf. destruct (x <=? y) eqn:E.
  - constructor; [constructor; [exact Hs | apply Forall_forall; exact Hf]|].
    apply Forall_forall. intros z [<-|Hz]; [lia | specialize (Hf z Hz); lia].
  - constructor; [exact IH|]. apply Forall_forall. intros z Hz. eapply Permutation_in in Hz; [|apply zinsert_perm].
    destruct Hz as [<-|Hz]; [lia | apply Hf; exact Hz].
Qed.
Lemma zsort_sorted l : StronglySorted Z.le (zsort l).
Proof. induction l as [|x t IH]; simpl; [constructor | apply zinsert_sorted; exact IH]. Qed.

Lemma dedup_go_spec prev r : StronglySorted Z.le (prev :: r) ->
  ssorted (prev :: dedup_go prev r) /\ (forall y, In y (prev :: dedup_go prev r) <-> In y (prev :: r)).
Proof.
  revert prev; induction r as [|y r IH]; intros prev Hs; simpl.
  - split; [repeat constructor | tauto].
  - inversion Hs as [|? ? Hs' Hf]; subst. rewrite Forall_forall in Hf.
    destruct (IH y Hs') as [S M]. destruct (y =? prev) eqn:E.
    + assert (y = prev) by lia. subst y. split; [exact S|]. intros z. specialize (M z). simpl in M. tauto.
    + split.
      * constructor; [exact S|]. apply Forall_forall. intros z Hz. apply M in Hz.
        assert (prev <= y) by (apply Hf; left; reflexivity).
        destruct Hz as [<-|Hz]; [lia|]. inversion Hs'; subst. rewrite Forall_forall in H3. specialize (H3 z Hz). lia.
      * intros z. simpl. specialize (M z). simpl in M. tauto.
Qed.

(* C09: construction from ANY initial values (empty, unsorted, with repeats) gives the strictly ascending list of the
   distinct values *)
Theorem set_init_spec vs : ssorted (set_init vs) /\ (forall y, In y (set_init vs) <-> In y vs).
Proof.
  unfold set_init. pose proof (zsort_sorted vs) as Hs. pose proof (zsort_perm vs) as Hp.
  destruct (zsort vs) as [|x t] eqn:E; simpl.
  - split; [constructor|]. intros y. split; [intros [] | intros H; eapply Permutation_in in H; [|symmetry; exact Hp]; exact H].
  - destruct (dedup_go_spec x t Hs) as [S M]. split; [exact S|]. intros y.
    change (In y (x :: dedup_go x t) <-> In y vs). rewrite M. split; intros H.
    + eapply Permutation_in; [exact Hp | exact H].
    + eapply Permutation_in; [symmetry; exact Hp | exact H].
Qed.

Lemma fold_add_spec xs : forall l, ssorted l ->
  ssorted (fold_left set_add xs l) /\ (forall y, In y (fold_left set_add xs l) <-> In y xs \/ In y l).
Proof.
  induction xs as [|x r IH]; intros l Hs; simpl; [split; [exact Hs | tauto]|].
  destruct (set_add_spec l x Hs) as [S M]. destruct (IH _ S) as [S' M']. split; [exact S'|].
  intros y. rewrite M', M. intuition.
Qed.
Lemma fold_discard_spec xs : forall l, ssorted l ->
  ssorted (fold_left set_discard xs l) /\ (forall y, In y (fold_left set_discard xs l) <-> ~ In y xs /\ In y l).
Proof.
  induction xs as [|x r IH]; intros l Hs; simpl; [split; [exact Hs | tauto]|].
  destruct (set_discard_spec l x Hs) as [S M]. destruct (IH _ S) as [S' M']. split; [exact S'|].
  intros y. rewrite M', M. intuition.
Qed.

(* the reference: a mathematical set given by its membership predicate *)
Definition ref_set_step (mem : Z -> Prop) (op : sop) : Z -> Prop :=
  match op with
  | SAdd x => fun y => y = x \/ mem y
  | SDiscard (Num x) | SRemove (Num x) => fun y => y <> x /\ mem y
  | SPop => fun y => mem y /\ exists z, mem z /\ z < y        (* everything but the minimum *)
  | SClear => fun _ => False
  | SIor xs => fun y => In y xs \/ mem y
  | SIsub xs => fun y => ~ In y xs /\ mem y
  | _ => mem
  end.

(* C09: every operation keeps the list strictly ascending (hence duplicate-free) and changes its membership exactly
   like the builtin set operation; results (in / KeyError / popped minimum) are those of the set; a foreign probe
   leaves the structure untouched and reports absent *)
Theorem set_step_refines l op : ssorted l ->
  let l' := fst (set_step l op) in
  ssorted l' /\ (forall y, In y l' <-> ref_set_step (fun z => In z l) op y)
  /\ match op with
     | SContains (Num x) => snd (set_step l op) = SBool true <-> In x l
     | SRemove (Num x) => snd (set_step l op) = SKeyErr <-> ~ In x l
     | SPop => match l with [] => snd (set_step l op) = SKeyErr
                        | m :: _ => snd (set_step l op) = SVal m /\ forall z, In z l -> m <= z end
     | SContains Foreign => snd (set_step l op) = SBool false /\ l' = l
     | SRemove Foreign => snd (set_step l op) = SKeyErr /\ l' = l
     | SDiscard Foreign => l' = l
     | _ => True
     end.
Proof.
  intros Hs. destruct op as [x|[x|]|[x|]|[x|]| | |xs|xs]; simpl.
  - destruct (set_add_spec l x Hs). auto.
  - destruct (set_discard_spec l x Hs). auto.
  - repeat split; auto.
  - pose proof (set_contains_spec l x Hs) as C. destruct (set_contains l x) eqn:E; simpl.
    + destruct (set_discard_spec l x Hs) as [S M]. split; [exact S|]. split; [exact M|].
      split; [discriminate | intros H; exfalso; apply H; apply C; reflexivity].
    + assert (Hx : ~ In x l) by (intros H; apply C in H; discriminate).
      split; [exact Hs|]. split; [|tauto].
      intros y; split; [intros H; split; [intros ->; contradiction | exact H] | tauto].
  - repeat split; auto.
  - pose proof (set_contains_spec l x Hs) as C. split; [exact Hs|]. split; [tauto|]. split; intros H.
    + injection H as H. apply C. exact H.
    + f_equal. apply C. exact H.
  - repeat split; auto.
  - destruct l as [|m t]; simpl.
    + split; [constructor|]. split; [|reflexivity]. intros y. split; [intros [] | intros [[] _]].
    + destruct (set_discard_spec (m :: t) m Hs) as [S M]. inversion Hs as [|? ? Hs' Hf]; subst. rewrite Forall_forall in Hf.
      split; [exact S|]. split.
      * intros y. rewrite M. split.
        -- intros [Hne [H|H]]; [congruence|]. split; [right; exact H|]. exists m. split; [left; reflexivity | apply Hf; exact H].
        -- intros [[->|H] (z & Hz & Hlt)].
           ++ exfalso. destruct Hz as [->|Hz]; [lia | specialize (Hf z Hz); lia].
           ++ split; [specialize (Hf y H); lia | right; exact H].
      * split; [reflexivity|]. intros z [->|Hz]; [lia | specialize (Hf z Hz); lia].
  - split; [constructor|]. split; [|exact Logic.I]. intros y. split; intros [].
  - destruct (fold_add_spec xs l Hs). auto.
  - destruct (fold_discard_spec xs l Hs). auto.
Qed.

(* ------------------------------------------------------------------ SortedMap *)
(* the content of the two parallel lists as a finite map *)
Fixpoint mlook (ks vs : list Z) (k : Z) : option Z :=
  match ks, vs with
  | a :: ks', b :: vs' => if a =? k then Some b else mlook ks' vs' k
  | _, _ => None
  end.
Definition mget (m : smap) (k : Z) : option Z := mlook (sm_keys m) (sm_vals m) k.
Record MInv (m : smap) : Prop := { mi_sorted : ssorted (sm_keys m); mi_len : length (sm_keys m) = length (sm_vals m) }.

Lemma mlook_notin ks vs k : ~ In k ks -> mlook ks vs k = None.
Proof.
  revert vs; induction ks as [|a t IH]; intros vs H; [reflexivity|]. destruct vs as [|b u]; [reflexivity|]. simpl.
  destruct (a =? k) eqn:E; [exfalso; apply H; left; lia | apply IH; intros Hi; apply H; right; exact Hi].
Qed.
Lemma mlook_some_in ks vs k v : mlook ks vs k = Some v -> In k ks.
Proof.
  revert vs; induction ks as [|a t IH]; intros vs H; [discriminate|]. destruct vs as [|b u]; [discriminate|]. simpl in H.
  destruct (a =? k) eqn:E; [left; lia | right; eapply IH; exact H].
Qed.
Lemma mlook_in_some ks vs k : length ks = length vs -> In k ks -> mlook ks vs k <> None.
Proof.
  revert vs; induction ks as [|a t IH]; intros vs L H; [destruct H|]. destruct vs as [|b u]; [discriminate|]. simpl.
  destruct (a =? k) eqn:E; [discriminate|]. apply IH; [simpl in L; lia | destruct H; [lia | assumption]].
Qed.

Lemma mlook_nth ks vs i k : NoDup ks -> nth_error ks i = Some k -> mlook ks vs k = nth_error vs i.
Proof.
  revert ks vs; induction i as [|i IH]; intros [|a t] vs Hn N; simpl in *; try discriminate.
  - injection N as ->. destruct vs; [reflexivity|]. rewrite Z.eqb_refl. reflexivity.
  - inversion Hn; subst. destruct vs as [|b u]; [destruct i; reflexivity|].
    destruct (a =? k) eqn:E; [|apply IH; assumption].
    exfalso. apply H1. assert (a = k) by lia. subst. eapply nth_error_In; exact N.
Qed.

Lemma mlook_insert ks vs i k v k' : length ks = length vs -> ~ In k ks ->
  mlook (insert_at i k ks) (insert_at i v vs) k' = if k =? k' then Some v else mlook ks vs k'.
Proof.
  unfold insert_at. revert ks vs; induction i as [|i IH]; intros ks vs L H; simpl.
  - reflexivity.
  - destruct ks as [|a t], vs as [|b u]; simpl in *; try discriminate; [reflexivity|].
    rewrite IH by (try lia; tauto). destruct (a =? k') eqn:E1; [|reflexivity].
    destruct (k =? k') eqn:E2; [exfalso; apply H; left; lia | reflexivity].
Qed.

Lemma mlook_update ks vs i k v k' : NoDup ks -> nth_error ks i = Some k -> length ks = length vs ->
  mlook ks (firstn i vs ++ v :: skipn (S i) vs) k' = if k =? k' then Some v else mlook ks vs k'.
Proof.
  revert ks vs; induction i as [|i IH]; intros [|a t] vs Hn N L; simpl in *; try discriminate.
  - injection N as ->. destruct vs as [|b u]; [discriminate|]. simpl. destruct (k =? k'); reflexivity.
  - inversion Hn; subst. destruct vs as [|b u]; [discriminate|]. simpl.
    destruct (a =? k') eqn:E1.
    + destruct (k =? k') eqn:E2; [|reflexivity]. exfalso. apply H1. assert (a = k) by lia. subst. eapply nth_error_In; exact N.
    + apply IH; auto.
Qed.

Lemma mlook_delete ks vs i k k' : NoDup ks -> nth_error ks i = Some k -> length ks = length vs ->
  mlook (delete_at i ks) (delete_at i vs) k' = if k =? k' then None else mlook ks vs k'.
Proof.
  unfold delete_at. revert ks vs; induction i as [|i IH]; intros [|a t] vs Hn N L; simpl in *; try discriminate.
  - injection N as ->. inversion Hn; subst. destruct vs as [|b u]; [discriminate|]. simpl.
    destruct (k =? k') eqn:E; [|reflexivity]. apply mlook_notin. assert (k = k') by lia. subst. exact H1.
  - inversion Hn; subst. destruct vs as [|b u]; [discriminate|]. simpl.
    rewrite IH by (try assumption; simpl in L; lia). destruct (a =? k') eqn:E1; [|reflexivity].
    destruct (k =? k') eqn:E2; [|reflexivity]. exfalso. apply H1. assert (a = k) by lia. subst. eapply nth_error_In; exact N.
Qed.

Theorem map_get_spec m k : MInv m -> map_get m k = mget m k.
Proof.
  intros [Hs L]. unfold map_get, mget. destruct (ins_index_spec (sm_keys m) k Hs) as (Hi & A & B & F & N).
  destruct (ins_index (sm_keys m) k) as [i found]. simpl in *. destruct found.
  - symmetry. apply mlook_nth; [apply ssorted_nodup; exact Hs | apply N; reflexivity].
  - symmetry. apply mlook_notin. intros H. apply F in H. discriminate.
Qed.

Lemma update_length {A} i (x : A) l : (i < length l)%nat -> length (firstn i l ++ x :: skipn (S i) l) = length l.
Proof. intros H. rewrite app_length. cbn [length]. rewrite firstn_length, skipn_length. lia. Qed.
Lemma insert_at_length {A} i (x : A) l : (i <= length l)%nat -> length (insert_at i x l) = S (length l).
Proof. intros H. unfold insert_at. rewrite app_length. simpl. rewrite firstn_length, skipn_length. lia. Qed.
Lemma delete_at_length {A} i (l : list A) : (i < length l)%nat -> S (length (delete_at i l)) = length l.
Proof. intros H. unfold delete_at. rewrite app_length, firstn_length, skipn_length. lia. Qed.

(* C09: a store behaves like dict[k] = v: k maps to v, every other key is untouched, the keys stay strictly ascending *)
Theorem map_set_spec m k v : MInv m ->
  MInv (map_set m k v) /\ mget (map_set m k v) k = Some v
  /\ (forall k', k' <> k -> mget (map_set m k v) k' = mget m k')
  /\ (forall y, In y (sm_keys (map_set m k v)) <-> y = k \/ In y (sm_keys m)).
Proof.
  intros [Hs L]. unfold map_set, mget. pose proof (ins_index_spec (sm_keys m) k Hs) as (Hi & A & B & F & N).
  pose proof (set_add_spec (sm_keys m) k Hs) as [SA MA]. unfold set_add in SA, MA.
  destruct (ins_index (sm_keys m) k) as [i found]. cbn [fst snd] in *. destruct found.
  - specialize (N eq_refl). pose proof (ssorted_nodup _ Hs) as Hn.
    assert (Hil : (i < length (sm_vals m))%nat) by (rewrite <- L; apply nth_error_Some; congruence).
    split; [constructor; cbn [sm_keys sm_vals]; [exact Hs|]|].
    + rewrite update_length by exact Hil. exact L.
    + cbn [sm_keys sm_vals]. split; [rewrite (mlook_update _ _ i k v k Hn N L), Z.eqb_refl; reflexivity|]. split.
      * intros k' Hne. rewrite (mlook_update _ _ i k v k' Hn N L). destruct (k =? k') eqn:E; [lia | reflexivity].
      * intros y. split; [tauto|]. intros [->|H]; [apply F; reflexivity | exact H].
  - assert (Hx : ~ In k (sm_keys m)) by (intros H; apply F in H; discriminate).
    split; [constructor; cbn [sm_keys sm_vals]; [exact SA|]|].
    + rewrite !insert_at_length by lia. lia.
    + cbn [sm_keys sm_vals]. split; [rewrite mlook_insert by assumption; rewrite Z.eqb_refl; reflexivity|]. split.
      * intros k' Hne. rewrite mlook_insert by assumption. destruct (k =? k') eqn:E; [lia | reflexivity].
      * exact MA.
Qed.

Theorem map_del_spec m k : MInv m ->
  MInv (fst (map_del m k)) /\ (snd (map_del m k) = true <-> In k (sm_keys m))
  /\ mget (fst (map_del m k)) k = None /\ (forall k', k' <> k -> mget (fst (map_del m k)) k' = mget m k').
Proof.
  intros [Hs L]. unfold map_del, mget. pose proof (ins_index_spec (sm_keys m) k Hs) as (Hi & A & B & F & N).
  pose proof (set_discard_spec (sm_keys m) k Hs) as [SD MD]. unfold set_discard in SD, MD.
  destruct (ins_index (sm_keys m) k) as [i found]. cbn [fst snd] in *. destruct found; cbn [fst snd sm_keys sm_vals].
  - specialize (N eq_refl). pose proof (ssorted_nodup _ Hs) as Hn.
    assert (Hil : (i < length (sm_keys m))%nat) by (apply nth_error_Some; congruence).
    split; [constructor; cbn [sm_keys sm_vals]; [exact SD|]|].
    + pose proof (delete_at_length i (sm_keys m) Hil). pose proof (delete_at_length i (sm_vals m) ltac:(lia)). lia.
    + split; [exact F|]. split; [rewrite (mlook_delete _ _ i k k Hn N L), Z.eqb_refl; reflexivity|].
      intros k' Hne. rewrite (mlook_delete _ _ i k k' Hn N L). destruct (k =? k') eqn:E; [lia | reflexivity].
  - split; [constructor; assumption|]. split; [exact F|]. split; [|reflexivity].
    apply mlook_notin. intros H. apply F in H. discriminate.
Qed.

(* construction: dict(pairs) - later pairs win - then sorted by key *)
Lemma mlook_combine ks vs k : mlook ks vs k = dget (combine ks vs) k.
Proof. revert vs; induction ks as [|a t IH]; intros [|b u]; simpl; try reflexivity. rewrite IH. reflexivity. Qed.

Lemma dget_perm (d1 d2 : dict Z) k : NoDup (dkeys d1) -> Permutation d1 d2 -> dget d1 k = dget d2 k.
Proof.
  intros Hn Hp. assert (Hn2 : NoDup (dkeys d2)) by (eapply Permutation_NoDup; [apply Permutation_map; exact Hp | exact Hn]).
  assert (G : forall (d : dict Z) v, NoDup (dkeys d) -> (dget d k = Some v <-> In (k, v) d)).
  { clear. induction d as [|[k0 v0] t IH]; simpl; intros v Hn; [split; [discriminate | tauto]|]. inversion Hn; subst.
    destruct (k0 =? k) eqn:E.
    - assert (k0 = k) by lia. subst. split; [intros H; injection H as ->; left; reflexivity|].
      intros [H|H]; [congruence|]. exfalso. apply H1. apply (in_map fst) in H. exact H.
    - rewrite (IH v H2). split; [tauto|]. intros [H|H]; [injection H; lia | exact H]. }
  destruct (dget d1 k) as [v|] eqn:G1.
  - symmetry. apply (G d2 v Hn2). eapply Permutation_in; [exact Hp|]. apply (G d1 v Hn). exact G1.
  - destruct (dget d2 k) as [v|] eqn:G2; [|reflexivity]. exfalso.
    apply (G d2 v Hn2) in G2. eapply Permutation_in in G2; [|symmetry; exact Hp]. apply (G d1 v Hn) in G2. congruence.
Qed.

Lemma fold_dset_nodup (pairs : list (Z * Z)) : forall d : dict Z, NoDup (dkeys d) ->
  NoDup (dkeys (fold_left (fun (d : dict Z) kv => dset d (fst kv) (snd kv)) pairs d)).
Proof. induction pairs as [|p r IH]; intros d H; simpl; [exact H|]. apply IH. apply dset_nodup. exact H. Qed.

Lemma combine_map_seq (ks vs : list Z) : length ks = length vs ->
  map (fun i => (nth i ks 0, nth i vs 0)) (seq 0 (length ks)) = combine ks vs.
Proof.
  intros L. assert (G : forall (ks vs : list Z) st, length ks = length vs ->
    map (fun i => (nth (i - st) ks 0, nth (i - st) vs 0)) (seq st (length ks)) = combine ks vs).
  { clear. induction ks as [|a t IH]; intros [|b u] st L; simpl in *; try discriminate; [reflexivity|].
    rewrite Nat.sub_diag. f_equal. rewrite <- (IH u (S st)) by lia. apply map_ext_in. intros i Hi. apply in_seq in Hi.
    replace (i - st)%nat with (S (i - S st)) by lia. reflexivity. }
  rewrite <- (G ks vs 0%nat L). apply map_ext. intros i. rewrite Nat.sub_0_r. reflexivity.
Qed.

Theorem map_init_spec pairs :
  let d := fold_left (fun (d : dict Z) kv => dset d (fst kv) (snd kv)) pairs [] in
  MInv (map_init pairs) /\ (forall k, mget (map_init pairs) k = dget d k)
  /\ (forall k, In k (sm_keys (map_init pairs)) <-> In k (dkeys d)).
Proof.
  intros d. unfold map_init. fold d.
  assert (Hn : NoDup (dkeys d)) by (apply fold_dset_nodup; constructor).
  set (ks := map fst d). set (vs := map snd d).
  assert (L : length ks = length vs) by (unfold ks, vs; rewrite !map_length; reflexivity).
  destruct (arg_sort_spec ks false) as [Hp Hs]. set (idx := arg_sort ks false) in *.
  assert (Hlt : forall i, In i idx -> (i < length ks)%nat).
  { intros i Hi. eapply Permutation_in in Hi; [|exact Hp]. apply in_seq in Hi. lia. }
  assert (Hcomb : combine ks vs = d).
  { unfold ks, vs. clear. induction d as [|[a b] t IH]; simpl; [reflexivity | f_equal; exact IH]. }
  assert (Hperm : Permutation (combine (map (fun i => nth i ks 0) idx) (map (fun i => nth i vs 0) idx)) d).
  { transitivity (map (fun i => (nth i ks 0, nth i vs 0)) idx).
    - apply Permutation_refl'. clear. induction idx as [|i r IH]; simpl; [reflexivity | f_equal; exact IH].
    - rewrite (Permutation_map _ Hp). rewrite (combine_map_seq ks vs L). rewrite Hcomb. reflexivity. }
  assert (Hkeys : Permutation (map (fun i => nth i ks 0) idx) (dkeys d)).
  { apply (Permutation_map fst) in Hperm. unfold dkeys. rewrite <- Hperm.
    apply Permutation_refl'. clear. induction idx as [|i r IH]; simpl; [reflexivity | f_equal; exact IH]. }
  split; [constructor; simpl|split].
  - (* strictly ascending: non-decreasing by the sort, and no repeats *)
    assert (Hnd : NoDup (map (fun i => nth i ks 0) idx)) by (eapply Permutation_NoDup; [symmetry; exact Hkeys | exact Hn]).
    clear -Hs Hnd. induction Hs as [|i r Hs IH Hf]; simpl in *; [constructor|]. inversion Hnd; subst.
    constructor; [apply IH; assumption|]. rewrite Forall_forall in *. intros y Hy. apply in_map_iff in Hy.
    destruct Hy as (j & <- & Hj). specialize (Hf j Hj). unfold idx_lt, key_of in Hf.
    assert (nth i ks 0 <> nth j ks 0) by (intros E; apply H1; rewrite E; apply (in_map (fun i => nth i ks 0)); exact Hj). lia.
  - rewrite !map_length. reflexivity.
  - intros k. unfold mget. simpl. rewrite mlook_combine. symmetry. apply dget_perm; [exact Hn | symmetry; exact Hperm].
  - intros k. simpl. split; intros H; [eapply Permutation_in; [exact Hkeys | exact H] | eapply Permutation_in; [symmetry; exact Hkeys | exact H]].
Qed.

(* C09: the mapping operations through the public interface, in terms of the content [mget];
   a foreign key never changes the map: lookup/delete/pop raise KeyError, `in` is False, get/pop give the default,
   a store is rejected with TypeError *)
Theorem map_step_spec m op : MInv m ->
  MInv (fst (map_step m op))
  /\ match op with
     | MGet (Num k) => snd (map_step m op) = vOptKey (mget m k) /\ fst (map_step m op) = m
     | MContains (Num k) => snd (map_step m op) = vB (match mget m k with Some _ => true | None => false end)
     | MGetD (Num k) d => snd (map_step m op) = I (opt_or (mget m k) d)
     | MSet (Num k) v => mget (fst (map_step m op)) k = Some v
                         /\ forall k', k' <> k -> mget (fst (map_step m op)) k' = mget m k'
     | MDel (Num k) => (snd (map_step m op) = vErr E_Key <-> mget m k = None)
                       /\ mget (fst (map_step m op)) k = None
                       /\ forall k', k' <> k -> mget (fst (map_step m op)) k' = mget m k'
     | MPop (Num k) => snd (map_step m op) = vOptKey (mget m k) /\ mget (fst (map_step m op)) k = None
                       /\ forall k', k' <> k -> mget (fst (map_step m op)) k' = mget m k'
     | MSetdefault k d => snd (map_step m op) = I (opt_or (mget m k) d)
                          /\ mget (fst (map_step m op)) k = Some (opt_or (mget m k) d)
     | MGet Foreign | MDel Foreign | MPop Foreign => snd (map_step m op) = vErr E_Key /\ fst (map_step m op) = m
     | MContains Foreign => snd (map_step m op) = vB false /\ fst (map_step m op) = m
     | MSet Foreign _ => snd (map_step m op) = vErr E_Type /\ fst (map_step m op) = m
     | MGetD Foreign d | MPopD Foreign d => snd (map_step m op) = I d /\ fst (map_step m op) = m
     | _ => True
     end.
Proof.
  intros Hi. pose proof (fun k => map_get_spec m k Hi) as G.
  destruct op as [[k|]|[k|] v|[k|]|[k|]|[k|] d|[k|]|[k|] d| | |kvs|k d| |kvs]; simpl; rewrite ?G; auto.
  - destruct (map_set_spec m k v Hi) as (I1 & I2 & I3 & _). auto.
  - destruct (map_del_spec m k Hi) as (I1 & I2 & I3 & I4). destruct (map_del m k) as [m1 okk]. simpl in *.
    split; [exact I1|]. split; [|split; assumption].
    destruct okk.
    + split; [discriminate|]. intros H. exfalso. assert (In k (sm_keys m)) by (apply I2; reflexivity).
      apply (mlook_in_some _ (sm_vals m) k (mi_len m Hi)) in H0. apply H0. exact H.
    + split; [|reflexivity]. intros _. apply mlook_notin. intros H. apply I2 in H. discriminate.
  - destruct (mget m k) as [v|] eqn:E; simpl; [|auto].
    destruct (map_del_spec m k Hi) as (I1 & I2 & I3 & I4). auto.
  - destruct (mget m k) as [v|] eqn:E; simpl; [|auto]. split; [apply (map_del_spec m k Hi) | exact Logic.I].
  - destruct (sm_keys m) as [|k r] eqn:K; simpl; [auto|]. split; [apply (map_del_spec m k Hi) | exact Logic.I].
  - split; [constructor; simpl; [constructor | reflexivity] | exact Logic.I].
  - split; [|exact Logic.I]. clear G. revert m Hi. induction kvs as [|[k v] r IH]; intros m Hi; simpl; [exact Hi|].
    apply IH. apply (map_set_spec m k v Hi).
  - destruct (mget m k) as [v|] eqn:E; simpl; [auto|].
    destruct (map_set_spec m k d Hi) as (I1 & I2 & _). auto.
Qed.
