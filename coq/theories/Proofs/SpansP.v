(* Proofs about Model/Spans.v (property C10). *)
From Coq Require Import ZArith List Bool Lia ZifyBool.
From WPU Require Import Common.Val Model.Spans.
Import ListNotations.
Open Scope Z_scope.

(* ------------------------------------------------------------------ the relations mean what their names say *)
Theorem holds_exact_iff x y : holds Exact x y = true <-> x = y.
Proof. destruct x as [xs xe], y as [ys ye]; simpl. split; [intros H; f_equal; lia | intros H; injection H; lia]. Qed.
Theorem holds_partof_iff xs xe ys ye : holds PartOf (xs, xe) (ys, ye) = true <-> ys <= xs /\ xe <= ye.
Proof. simpl. lia. Qed.
Theorem holds_includes_iff xs xe ys ye : holds Includes (xs, xe) (ys, ye) = true <-> xs <= ys /\ ye <= xe.
Proof. simpl. lia. Qed.
(* for well-formed spans: they share a point *)
Theorem holds_overlaps_iff xs xe ys ye : xs <= xe -> ys <= ye ->
  (holds Overlaps (xs, xe) (ys, ye) = true <-> exists p, xs <= p <= xe /\ ys <= p <= ye).
Proof.
  intros Hx Hy. simpl. split.
  - intros H. exists (Z.max xs ys). lia.
  - intros (p & H1 & H2). lia.
Qed.

(* ------------------------------------------------------------------ construction *)
Definition step_keep (r : rel) (acc : list span) (x : span) : list span :=
  if existsb (fun y => holds r x y) acc then acc else acc ++ [x].

(* C10: construction keeps a span only if it is not already "in" the set built so far *)
Theorem build_snoc r l x :
  build_spans r (l ++ [x]) =
  if contains (build r l) x then build_spans r l else build_spans r l ++ [x].
Proof. unfold build_spans, contains. rewrite fold_left_app. reflexivity. Qed.

Lemma build_nil r : build_spans r [] = [].
Proof. reflexivity. Qed.

(* nothing kept is related to a span kept before it *)
Theorem build_no_earlier_related r l : forall pre x post,
  build_spans r l = pre ++ x :: post -> existsb (fun y => holds r x y) pre = false.
Proof.
  induction l as [|z l IH] using rev_ind; intros pre x post H.
  - destruct pre; discriminate.
  - rewrite build_snoc in H. unfold contains in H. simpl in H.
    destruct (existsb (fun y => holds r z y) (build_spans r l)) eqn:E; [eapply IH; exact H|].
    destruct post as [|p post'] using rev_ind.
    + apply app_inj_tail in H. destruct H as [<- <-]. exact E.
    + clear IHpost'. rewrite app_comm_cons, app_assoc in H. apply app_inj_tail in H. destruct H as [H _].
      eapply IH; exact H.
Qed.

Theorem build_subset r l x : In x (build_spans r l) -> In x l.
Proof.
  induction l as [|z l IH] using rev_ind; [intros []|].
  rewrite build_snoc. destruct (contains (build r l) z); intros H.
  - apply in_or_app; left; apply IH; exact H.
  - apply in_app_or in H. apply in_or_app. destruct H as [H|H]; [left; apply IH; exact H | right; exact H].
Qed.

(* every given span is either kept or was already "in" the set (membership only grows) *)
Theorem build_covers r l x : In x l -> In x (build_spans r l) \/ contains (build r l) x = true.
Proof.
  induction l as [|z l IH] using rev_ind; [intros []|]. intros H.
  unfold contains in *. simpl in *. rewrite build_snoc. unfold contains. simpl.
  apply in_app_or in H. destruct (existsb (fun y => holds r z y) (build_spans r l)) eqn:E.
  - destruct H as [H|[<-|[]]]; [apply IH; exact H | right; exact E].
  - destruct H as [H|[<-|[]]].
    + destruct (IH H) as [H1|H1]; [left; apply in_or_app; left; exact H1|].
      right. rewrite existsb_app, H1. reflexivity.
    + left. apply in_or_app; right; left; reflexivity.
Qed.

Lemma existsb_exact_in x l : existsb (fun y => holds Exact x y) l = true <-> In x l.
Proof.
  rewrite existsb_exists. split.
  - intros (y & Hy & Hh). apply holds_exact_iff in Hh. subst; exact Hy.
  - intros H. exists x. split; [exact H | apply holds_exact_iff; reflexivity].
Qed.

Theorem build_exact_in l x : In x (build_spans Exact l) <-> In x l.
Proof.
  split; [apply build_subset|]. intros H.
  destruct (build_covers Exact l x H) as [H1|H1]; [exact H1|].
  unfold contains in H1. simpl in H1. apply existsb_exact_in in H1. exact H1.
Qed.

Theorem build_exact_nodup l : NoDup (build_spans Exact l).
Proof.
  induction l as [|z l IH] using rev_ind; [constructor|].
  rewrite build_snoc. unfold contains. simpl.
  destruct (existsb (fun y => holds Exact z y) (build_spans Exact l)) eqn:E; [exact IH|].
  apply NoDup_rev in IH. rewrite <- (rev_involutive (_ ++ [z])). apply NoDup_rev.
  rewrite rev_app_distr. simpl. constructor; [|exact IH].
  rewrite <- in_rev. intros Hin. apply existsb_exact_in in Hin. congruence.
Qed.

(* ------------------------------------------------------------------ operators *)
(* C10: A op B contains exactly the spans of A and B that satisfy the membership formula, each once, and is an
   ordinary (Exact) set *)
Theorem op_filter_spec phi a b :
  s_rel (op_filter phi a b) = Exact
  /\ NoDup (s_spans (op_filter phi a b))
  /\ forall x, In x (s_spans (op_filter phi a b)) <->
               (In x (s_spans a) \/ In x (s_spans b)) /\ phi (contains a x) (contains b x) = true.
Proof.
  unfold op_filter. simpl. split; [reflexivity|]. split; [apply build_exact_nodup|].
  intros x. rewrite build_exact_in, filter_In, in_app_iff. reflexivity.
Qed.

Theorem and_spec a b x : In x (s_spans (s_and a b)) <->
  (In x (s_spans a) \/ In x (s_spans b)) /\ contains a x = true /\ contains b x = true.
Proof. unfold s_and. rewrite (proj2 (proj2 (op_filter_spec andb a b))), andb_true_iff. reflexivity. Qed.
Theorem or_spec a b x : In x (s_spans (s_or a b)) <->
  (In x (s_spans a) \/ In x (s_spans b)) /\ (contains a x = true \/ contains b x = true).
Proof. unfold s_or. rewrite (proj2 (proj2 (op_filter_spec orb a b))), orb_true_iff. reflexivity. Qed.
Theorem sub_spec a b x : In x (s_spans (s_sub a b)) <->
  (In x (s_spans a) \/ In x (s_spans b)) /\ contains a x = true /\ contains b x = false.
Proof.
  unfold s_sub. rewrite (proj2 (proj2 (op_filter_spec _ a b))), andb_true_iff, negb_true_iff. reflexivity.
Qed.
Theorem xor_spec a b x : In x (s_spans (s_xor a b)) <->
  (In x (s_spans a) \/ In x (s_spans b)) /\ contains a x <> contains b x.
Proof.
  unfold s_xor. rewrite (proj2 (proj2 (op_filter_spec xorb a b))).
  destruct (contains a x), (contains b x); simpl; intuition congruence.
Qed.

(* ------------------------------------------------------------------ comparisons: the quantified statements *)
Theorem le_iff a b : s_le a b = true <-> forall x, In x (s_spans a) -> contains b x = true.
Proof. unfold s_le. apply forallb_forall. Qed.
Theorem eq_iff a b : s_eq a b = true <->
  (forall x, In x (s_spans a) -> contains b x = true) /\ (forall x, In x (s_spans b) -> contains a x = true).
Proof. unfold s_eq. rewrite andb_true_iff, !le_iff. reflexivity. Qed.
Theorem ne_iff a b : s_ne a b = negb (s_eq a b).
Proof. reflexivity. Qed.
Theorem lt_iff a b : s_lt a b = true <-> s_le a b = true /\ s_eq a b = false.
Proof. unfold s_lt, s_ne. rewrite andb_true_iff, negb_true_iff. reflexivity. Qed.
Theorem ge_iff a b : s_ge a b = s_le b a.
Proof. reflexivity. Qed.
Theorem gt_iff a b : s_gt a b = s_lt b a.
Proof. reflexivity. Qed.
Theorem isdisjoint_iff a it : s_isdisjoint a it = true <-> forall x, In x it -> contains a x = false.
Proof.
  unfold s_isdisjoint. rewrite forallb_forall. split; intros H x Hx; specialize (H x Hx).
  - apply negb_true_iff; exact H.
  - apply negb_true_iff; exact H.
Qed.
Theorem contains_iff s x : contains s x = true <-> exists y, In y (s_spans s) /\ holds (s_rel s) x y = true.
Proof. unfold contains. apply existsb_exists. Qed.
