(* Termination and deadlock freedom of the pool LTS (property C02; the progress half of C03). *)
From Coq Require Import ZArith List Bool Arith Lia Permutation.
From WPU Require Import Common.Val Common.ListX Model.Pool Proofs.PoolP Proofs.PoolLifeP.
Import ListNotations.
Open Scope nat_scope.

(* ================================================================== part A: a measure that every step decreases *)
(* potential of the things that still have to happen: every element not yet sent, every chunk by its position in the
   pipeline, every queued token, every thread and process by its program counter *)
Definition act_pot (a : action) : nat := match a with ACall _ d _ => 14 * length d + 17 | AReady => 1 end.
Definition w_pot (w : worker) : nat :=
  match w_pc w with WNew => 5 | WBegin => 4 | WIdle => 3 | WHold _ _ => 14 | WHoldR _ _ => 6 | WEnding => 1 | WDead => 0 end.
Definition wsum (ps : list worker) : nat := list_sum (map w_pot ps).
Definition wq_pot (q : list qitem) : nat := list_sum (map (fun it => match it with QChunk _ _ => 12 | QNone => 0 end) q).
Definition replq_pot (q : list (option nat)) : nat := list_sum (map (fun it => match it with Some _ => 7 | None => 1 end) q).
Definition f_pot (f : fpc) : nat :=
  match f with FOff => 0 | FNext _ rest => 14 * length rest + 6 | FWait _ rest => 14 * length rest + 7 | FTok => 5 | FDone => 0 end.
Definition r_pot (r : rpc) : nat := match r with ROff => 0 | RGet => 1 | RJoin _ => 7 | RStart _ => 6 | RDone => 1 end.
Definition m_pot (L : nat) (m : mpc) : nat :=
  match m with
  | MExitPut n => n + L + 2 | MExitJoin k => (L - k) + 1 | MDone => 0
  | MEnter _ | MIdle => 2 * L + 3
  | MRepJoin => 2 * L + 4 | MRepPut => 2 * L + 6 | MJoinF => 2 * L + 7 | MStop => 2 * L + 8
  | MFetch b w => 2 * L + 9 + 3 * length b + (if w then 3 else 0)
  | MCheck => 2 * L + 10 | MFlow => 2 * L + 11 | MRepStarted => 2 * L + 12
  end.
Definition mu (s : state) : nat :=
  list_sum (map act_pot (s_todo s)) + m_pot (length (s_procs s)) (s_main s) + f_pot (s_feeder s) + r_pot (s_rep s)
  + wsum (s_procs s) + wq_pot (s_workq s) + 4 * length (s_resq s) + replq_pot (s_replq s).

Lemma wsum_set_nth ps k w w' : nth_error ps k = Some w -> wsum (set_nth k w' ps) + w_pot w = wsum ps + w_pot w'.
Proof.
  unfold wsum. revert k; induction ps as [|p ps IH]; intros [|k] H; simpl in *; try discriminate.
  - injection H as ->. lia.
  - specialize (IH k H). lia.
Qed.
Lemma wq_pot_app a b : wq_pot (a ++ b) = wq_pot a + wq_pot b.
Proof. unfold wq_pot. rewrite map_app, list_sum_app. reflexivity. Qed.
Lemma replq_pot_app a b : replq_pot (a ++ b) = replq_pot a + replq_pot b.
Proof. unfold replq_pot. rewrite map_app, list_sum_app. reflexivity. Qed.

Lemma mu_slot cfg s k kind r s' : slot_step cfg s k kind r = Some s' -> mu s' < mu s.
Proof.
  intros H. apply slot_step_inv in H. destruct H as (w & w' & s1 & N & W & ->).
  unfold worker_step in W.
  destruct kind as [|[|[|[|[|[|?]]]]]]; destruct (w_pc w) eqn:Pc; try discriminate.
  - destruct r; injection W as <- <-; unfold mu, with_procs; simpl; rewrite set_nth_length;
      match goal with |- context [wsum (set_nth k ?x _)] => pose proof (wsum_set_nth _ k w x N) as Hs end;
      unfold w_pot in Hs; simpl in Hs; rewrite Pc in Hs; lia.
  - destruct (s_workq s) as [|[i xs|] q] eqn:Q; try discriminate; injection W as <- <-; unfold mu, with_procs; simpl;
      rewrite set_nth_length;
      match goal with |- context [wsum (set_nth k ?x _)] => pose proof (wsum_set_nth _ k w x N) as Hs end;
      unfold w_pot in Hs; simpl in Hs; rewrite Pc in Hs; rewrite ?Q; unfold wq_pot; simpl; fold (wq_pot q); lia.
  - destruct (c_factory cfg && _); try discriminate.
    destruct (full _ _); try discriminate. injection W as <- <-. unfold mu, with_procs; simpl. rewrite set_nth_length.
    match goal with |- context [wsum (set_nth k ?x _)] => pose proof (wsum_set_nth _ k w x N) as Hs end.
    rewrite app_length. simpl. unfold w_pot in Hs; simpl in Hs; rewrite Pc in Hs.
    revert Hs. destruct (w_quota w) as [[|[|q]]|]; simpl; intros Hs; lia.
  - destruct (full _ _); try discriminate. injection W as <- <-. unfold mu, with_procs; simpl. rewrite set_nth_length.
    match goal with |- context [wsum (set_nth k ?x _)] => pose proof (wsum_set_nth _ k w x N) as Hs end.
    rewrite app_length. simpl. unfold w_pot in Hs; simpl in Hs; rewrite Pc in Hs. lia.
  - destruct (c_factory cfg && _); try discriminate. injection W as <- <-. unfold mu, with_procs; simpl. rewrite set_nth_length.
    match goal with |- context [wsum (set_nth k ?x _)] => pose proof (wsum_set_nth _ k w x N) as Hs end.
    rewrite replq_pot_app. unfold w_pot in Hs; simpl in Hs; rewrite Pc in Hs. unfold replq_pot at 2. simpl. lia.
  - injection W as <- <-. unfold mu, with_procs; simpl. rewrite set_nth_length.
    match goal with |- context [wsum (set_nth k ?x _)] => pose proof (wsum_set_nth _ k w x N) as Hs end.
    unfold w_pot in Hs; simpl in Hs; rewrite Pc in Hs. lia.
  - injection W as <- <-. unfold mu, with_procs; simpl. rewrite set_nth_length.
    match goal with |- context [wsum (set_nth k ?x _)] => pose proof (wsum_set_nth _ k w x N) as Hs end.
    unfold w_pot in Hs; simpl in Hs; rewrite Pc in Hs. lia.
Qed.

Local Arguments Nat.mul : simpl never.
Local Arguments Nat.sub : simpl never.
Theorem mu_step cfg s e s' : (in_call (s_main s) = true -> 1 <= s_chunk s) -> step cfg s e = Some s' -> mu s' < mu s.
Proof.
  intros Hc H.
  destruct e; try (eapply mu_slot; eauto; fail); step_cases H; injection H as <-;
    unfold mu; simpl; rewrite ?set_nth_length, ?app_length, ?wq_pot_app, ?replq_pot_app;
    repeat match goal with Hq : _ = _ |- _ => rewrite Hq end; simpl;
    try (match goal with Hn : nth_error (s_procs s) ?k = Some ?w |- context [wsum (set_nth ?k ?x _)] =>
           pose proof (wsum_set_nth _ k w x Hn) as Hs; unfold w_pot in Hs; simpl in Hs end);
    repeat match goal with Hp : w_pc ?w = _, Hs : context [w_pc ?w] |- _ => rewrite Hp in Hs end;
    repeat match goal with Hp : is_dead ?w = true, Hs : context [w_pc ?w] |- _ =>
             unfold is_dead in Hp; destruct (w_pc w); try discriminate end;
    try (match goal with |- context [skipn (s_chunk s) (?z :: ?l)] =>
           pose proof (skipn_length (s_chunk s) (z :: l)) as Hk; simpl in Hk; specialize (Hc eq_refl) end);
    unfold wq_pot, replq_pot; simpl; lia.
Qed.

(* ================================================================== part B: invariants for deadlock freedom *)
Definition cfg_ok (cfg : config) : Prop :=
  1 <= c_workers cfg
  /\ (forall c, c_wq_cap cfg = Some c -> 1 <= c)
  /\ (forall c, c_rq_cap cfg = Some c -> 1 <= c)
  /\ (forall k, c_quota cfg = Some k -> 1 <= k /\ c_factory cfg = true).

Lemma cfg_ok_quota cfg : cfg_ok cfg -> quota_ok cfg.
Proof. intros (_ & _ & _ & H). unfold quota_ok. destruct (c_quota cfg) as [k|]; auto. apply (H k eq_refl). Qed.

(* every field a worker step can change, and how *)
Lemma slot_step_frame cfg s k kind r s' : slot_step cfg s k kind r = Some s' ->
  s_todo s' = s_todo s /\ s_main s' = s_main s /\ s_ordered s' = s_ordered s /\ s_chunk s' = s_chunk s /\ s_data s' = s_data s
  /\ s_sending s' = s_sending s /\ s_cnt s' = s_cnt s /\ s_finished s' = s_finished s /\ s_buffer s' = s_buffer s
  /\ s_wait s' = s_wait s /\ s_run_ev s' = s_run_ev s /\ s_feeder s' = s_feeder s /\ s_rep s' = s_rep s
  /\ s_retired s' = s_retired s /\ s_wid s' = s_wid s
  /\ (s_resq s' = s_resq s \/ exists x, s_resq s' = s_resq s ++ [x]).
Proof.
  intros H. apply slot_step_inv in H. destruct H as (w & w' & s1 & N & W & ->).
  unfold worker_step in W.
  destruct kind as [|[|[|[|[|[|?]]]]]]; destruct (w_pc w) eqn:Pc; try discriminate;
    repeat match type of W with context [match ?x with _ => _ end] => destruct x eqn:?; try discriminate end;
    injection W as <- <-; simpl; repeat split; eauto.
Qed.

Lemma buf_del_length b i x : buf_get b i = Some x -> S (length (buf_del b i)) = length b.
Proof.
  induction b as [|[j y] t IH]; simpl; [discriminate|]. destruct (j =? i); [reflexivity|]. intros H. simpl. rewrite (IH H). reflexivity.
Qed.
Lemma drain_stops : forall fuel b w out b' w', length b < fuel -> buf_drain fuel b w = (out, b', w') -> buf_get b' w' = None.
Proof.
  induction fuel as [|f IH]; intros b w out b' w' L H; [lia|]. simpl in H.
  destruct (buf_get b w) as [x|] eqn:G.
  - destruct (buf_drain f (buf_del b w) (S w)) as [[o1 b1] w1] eqn:D. injection H as <- <- <-.
    eapply IH; [|exact D]. pose proof (buf_del_length b w x G). lia.
  - injection H as <- <- <-. exact G.
Qed.
Lemma process_ordered_bufw : forall batch b w fin ys er b' w' fin' ys' er',
  fold_left process_ordered batch (b, w, fin, ys, er) = (b', w', fin', ys', er') -> buf_get b w = None -> buf_get b' w' = None.
Proof.
  induction batch as [|e r IH]; intros b w fin ys er b' w' fin' ys' er' H G; cbn [fold_left] in H.
  - injection H as <- <- <- <- <-. exact G.
  - unfold process_ordered at 2 in H. destruct er.
    + eapply IH; eauto.
    + destruct (fst e <? w).
      * eapply IH; eauto.
      * destruct (buf_drain (S (length (buf_put b (fst e) (snd e)))) (buf_put b (fst e) (snd e)) w) as [[out b2] w2] eqn:D.
        eapply IH; [exact H|]. eapply drain_stops; [|exact D]. lia.
Qed.

Record FInv (s : state) : Prop := {
  f_fetch : s_main s = MFetch [] false -> s_resq s <> [] \/ s_feeder s <> FDone \/ s_finished s < s_cnt s;
  f_flow : s_run_ev s = false -> s_main s <> MFlow -> s_ordered s = true /\ s_buffer s <> [];
  f_mflow : s_main s = MFlow -> s_ordered s = true;
  f_bufw : in_call (s_main s) = true -> if s_ordered s then buf_get (s_buffer s) (s_wait s) = None else s_buffer s = [];
}.

Lemma finv_step cfg s e s' : cfg_ok cfg -> Inv s -> FInv s -> step cfg s e = Some s' -> FInv s'.
Proof.
  intros (_ & _ & Hrq & _) IV [Ff Fl Fm Fb] H.
  assert (Slot : forall k kind r, slot_step cfg s k kind r = Some s' -> FInv s').
  { intros k kind r Hs. destruct (slot_step_frame _ _ _ _ _ _ Hs) as (E1 & E2 & E3 & E4 & E5 & E6 & E7 & E8 & E9 & E10 & E11 & E12 & E13 & E14 & E15 & E16).
    constructor; rewrite ?E2, ?E3, ?E7, ?E8, ?E9, ?E10, ?E11, ?E12; auto.
    intros M. destruct (Ff M) as [R|R]; auto. left. destruct E16 as [->|(x & ->)]; auto. intros C. apply app_eq_nil in C. destruct C; discriminate. }
  destruct e; try (eapply Slot; eauto; fail); clear Slot; step_cases H; injection H as <-; constructor; simpl; auto; try discriminate;
    try (intros; congruence);
    try (intros R _; apply Fl; [exact R | congruence]).
  - (* ENext, factory: between calls the buffer is empty, so the feeder is not paused *)
    intros R _. exfalso. pose proof (i_call s IV) as Ic. rewrite Heqm in Ic. simpl in Ic.
    apply entries_nil_parts in Ic. destruct Ic as (_ & _ & _ & _ & Hb). destruct (Fl R) as [_ Hn]; [discriminate|]. auto.
  - destruct ordered; auto.
  - destruct (s_ordered s); auto.
  - (* ECheck: the loop condition held *)
    intros _. match goal with Hb : orb _ _ = true |- _ => apply orb_true_iff in Hb; destruct Hb as [Hs1|Hs2] end.
    + right; left. pose proof (i_call s IV) as Ic. rewrite Heqm in Ic. simpl in Ic. pose proof (ci_feeder s Ic) as Cf.
      destruct (s_feeder s); try discriminate; try contradiction; destruct Cf as (_ & Cf); congruence.
    + right; right. apply Nat.ltb_lt in Hs2. exact Hs2.
  - intros C. injection C as C _. apply app_eq_nil in C. destruct C; discriminate.
  - (* EProcess, ordered *)
    intros _. specialize (Fb eq_refl).
    match goal with Hf : fold_left process_ordered _ _ = _ |- _ => eapply process_ordered_bufw; [exact Hf | exact Fb] end.
  - intros _. specialize (Fb eq_refl).
    match goal with Hf : fold_left process_ordered _ _ = _ |- _ => eapply process_ordered_bufw; [exact Hf | exact Fb] end.
  - (* EFlow pauses the feeder only with a non-empty buffer *)
    intros _ _. split; [apply Fm; reflexivity|]. match goal with Hb : (_ <=? _) = true |- _ => apply Nat.leb_le in Hb end.
    specialize (Hrq _ eq_refl). intros E. rewrite E in *. simpl in *. lia.
  - intros _. right; left. discriminate.
  - intros M. right; left. discriminate.
  - intros _. right; left. discriminate.
  - (* EFTok, results queue full: it is not empty *)
    intros M. left. unfold full in *. destruct (c_rq_cap cfg) as [c|] eqn:Hc; [|discriminate].
    match goal with Hb : (_ <=? _) = true |- _ => apply Nat.leb_le in Hb end. specialize (Hrq c eq_refl).
    intros E. rewrite E in *. simpl in *. lia.
  - intros M. left. intros E. apply app_eq_nil in E. destruct E; discriminate.
Qed.

(* ------------------------------------------------------------------ structure: who exists, who is ready, the replace thread *)
Definition rep_live (r : rpc) : bool := match r with RGet | RJoin _ | RStart _ => true | _ => false end.
Definition nones (q : list (option nat)) : nat := length (filter (fun o => match o with None => true | _ => false end) q).
Definition rep_pc (m : mpc) : bool := match m with MRepStarted | MRepPut | MRepJoin => true | _ => false end.

Lemma nones_app a b : nones (a ++ b) = nones a + nones b.
Proof. unfold nones. rewrite filter_app, app_length. reflexivity. Qed.

Record SInv (cfg : config) (s : state) : Prop := {
  s_len : length (s_procs s) = c_workers cfg;
  s_enter : match s_main s with
            | MEnter k => k < length (s_procs s) /\ forall j w, nth_error (s_procs s) j = Some w -> (k <= j <-> w_pc w = WNew)
            | _ => forall j w, nth_error (s_procs s) j = Some w -> w_pc w <> WNew end;
  s_ready : forall j w, nth_error (s_procs s) j = Some w -> w_ready w = false -> w_pc w = WNew \/ w_pc w = WBegin;
  s_nf : c_factory cfg = false ->
         s_replq s = [] /\ (forall j w i xs, nth_error (s_procs s) j = Some w -> w_pc w <> WHoldR i xs) /\ rep_pc (s_main s) = false
         /\ s_rep s = ROff;
  s_tok : nones (s_replq s) + (match s_rep s with RDone => 1 | _ => 0 end) = (match s_main s with MRepJoin => 1 | _ => 0 end);
  s_replive : c_factory cfg = true -> cur_class (s_main s) <> 0 -> rep_live (s_rep s) = true \/ s_rep s = RDone;
  s_rep0 : cur_class (s_main s) = 0 -> s_rep s = ROff;
}.

(* the cases of a fault-free worker step, with the successor state spelled out *)
Ltac wstep_cases W w s :=
  unfold worker_step in W;
  match type of W with (match ?kind with _ => _ end) = _ =>
    destruct kind as [|[|[|[|[|[|?]]]]]]; destruct (w_pc w) eqn:Pc; try discriminate;
    [ injection W as <- <-                                                                       (* begin *)
    | destruct (s_workq s) as [|[i xs|] q] eqn:Q; try discriminate; injection W as <- <-        (* take: chunk / stop order *)
    | destruct (c_factory _ && _) eqn:Last; try discriminate;
      destruct (full _ (s_resq s)) eqn:Fu; try discriminate; injection W as <- <-                (* result *)
    | destruct (full _ (s_resq s)) eqn:Fu; try discriminate; injection W as <- <-                (* result after the notice *)
    | destruct (c_factory _ && _) eqn:Last; try discriminate; injection W as <- <-               (* retirement notice *)
    | injection W as <- <-                                                                       (* end *)
    | injection W as <- <- ]                                                                     (* functor fault *)
  end.

Lemma nth_set_nth_cases {A} (l : list A) k x j y : nth_error (set_nth k x l) j = Some y ->
  (j = k /\ y = x) \/ (j <> k /\ nth_error l j = Some y).
Proof.
  intros H. destruct (Nat.eq_dec j k) as [->|Hne].
  - left. split; auto. destruct (nth_error l k) eqn:E.
    + rewrite (nth_error_set_nth_eq _ _ _ _ E) in H. congruence.
    + exfalso. apply nth_error_None in E. assert (nth_error (set_nth k x l) k = None) by (apply nth_error_None; rewrite set_nth_length; exact E). congruence.
  - right. split; auto. rewrite nth_error_set_nth_neq in H; auto.
Qed.

Definition retiring (w : worker) : bool := match w_pc w with WHoldR _ _ | WEnding | WDead => true | _ => false end.

Lemma wstep_struct cfg w kind s w' s1 : kind <> 5 -> worker_step cfg w kind false s = Some (w', s1) ->
  w_pc w <> WNew /\ w_pc w' <> WNew
  /\ (w_ready w' = true \/ (w_ready w' = w_ready w /\ w_pc w <> WBegin))
  /\ (forall i xs, w_pc w' = WHoldR i xs -> c_factory cfg = true)
  /\ (s_replq s1 = s_replq s \/ (s_replq s1 = s_replq s ++ [Some (w_id w)] /\ retiring w = false /\ retiring w' = true /\ c_factory cfg = true))
  /\ s_main s1 = s_main s /\ s_rep s1 = s_rep s /\ s_procs s1 = s_procs s.
Proof.
  intros Hk W. wstep_cases W w s; try congruence; unfold retiring; simpl; rewrite ?Pc; repeat split; auto; try discriminate;
    try (right; split; [reflexivity | discriminate]).
  - destruct (w_quota w) as [[|[|?]]|]; simpl; discriminate.
  - intros i0 xs0. destruct (w_quota w) as [[|[|?]]|]; simpl; discriminate.
  - intros _ _ _. apply andb_true_iff in Last. tauto.
  - right. apply andb_true_iff in Last. tauto.
Qed.

Lemma sinv_slot cfg s k kind s' : kind <> 5 -> SInv cfg s -> slot_step cfg s k kind false = Some s' -> SInv cfg s'.
Proof.
  intros Hk [Sl Se Sr Sn St Sp S0] H. apply slot_step_inv in H. destruct H as (w & w' & s1 & N & W & ->).
  destruct (wstep_struct _ _ _ _ _ _ Hk W) as (P1 & P2 & P3 & P4 & P5 & E1 & E2 & E3).
  constructor; unfold with_procs; simpl; rewrite ?E1, ?E2, ?E3, ?set_nth_length; auto.
  - destruct (s_main s).
    1: { destruct Se as [Se1 Se2]. split; auto. intros j y Hy. apply nth_set_nth_cases in Hy. destruct Hy as [[-> ->]|[Hne Hy]]; [|apply Se2; auto].
         specialize (Se2 k w N). split; intros; [tauto | congruence]. }
    all: intros j y Hy; apply nth_set_nth_cases in Hy; destruct Hy as [[-> ->]|[Hne Hy]]; [exact P2 | eapply Se; eauto].
  - intros j y Hy Hr. apply nth_set_nth_cases in Hy. destruct Hy as [[-> ->]|[Hne Hy]]; [|eapply Sr; eauto].
    destruct P3 as [P3|[P3 P3']]; [congruence|]. rewrite P3 in Hr. destruct (Sr k w N Hr); congruence.
  - intros Fa. destruct (Sn Fa) as (Q1 & Q2 & Q3 & Q4). split; [|split; auto].
    + destruct P5 as [->|(_ & _ & _ & Pf)]; auto. congruence.
    + intros j y i0 xs0 Hy. apply nth_set_nth_cases in Hy. destruct Hy as [[-> ->]|[Hne Hy]]; [|eapply Q2; eauto].
      intros E. specialize (P4 _ _ E). congruence.
  - destruct P5 as [->|(-> & _)]; auto. rewrite nones_app. unfold nones at 2. simpl. lia.
Qed.

Lemma sinv_step cfg s e s' : SInv cfg s -> fault_free e -> step cfg s e = Some s' -> SInv cfg s'.
Proof.
  intros I Hff H.
  destruct e; try (simpl in Hff; contradiction);
    try match goal with r : bool |- _ => destruct r; [simpl in Hff; contradiction|] end;
    try (simpl in H; eapply sinv_slot; [|exact I|exact H]; discriminate).
  all: destruct I as [Sl Se Sr Sn St Sp S0]; step_cases H; injection H as <-; constructor; simpl; rewrite ?set_nth_length, ?nones_app; auto;
    try discriminate; try (intros; congruence);
    try (intros C; specialize (S0 C); congruence);
    try (intros Fa; destruct (Sn Fa) as (Q1 & Q2 & Q3 & Q4); repeat split; auto; congruence).
  - (* EStartW, more workers to start *)
    destruct Se as [Se1 Se2]. split; [apply Nat.ltb_lt; auto|]. intros j y Hy. apply nth_set_nth_cases in Hy.
    destruct Hy as [[-> ->]|[Hne Hy]]; simpl; [split; [lia | discriminate]|]. specialize (Se2 j y Hy). split; intros Hx; [apply Se2; lia | apply Se2 in Hx; lia].
  - intros j y Hy Hr. apply nth_set_nth_cases in Hy. destruct Hy as [[-> ->]|[Hne Hy]]; simpl; auto. eapply Sr; eauto.
  - intros Fa. destruct (Sn Fa) as (Q1 & Q2 & Q3 & Q4). repeat split; auto. intros j y i0 xs0 Hy. apply nth_set_nth_cases in Hy.
    destruct Hy as [[-> ->]|[Hne Hy]]; simpl; [discriminate | eapply Q2; eauto].
  - (* EStartW, the last one *)
    destruct Se as [Se1 Se2]. intros j y Hy. pose proof Hy as Hy0. apply nth_set_nth_cases in Hy.
    destruct Hy as [[-> ->]|[Hne Hy]]; simpl; [discriminate|]. intros E. apply (Se2 j y Hy) in E.
    assert (j < length (s_procs s)) by (apply nth_error_Some; congruence).
    match goal with Hb : (_ <? _) = false |- _ => apply Nat.ltb_ge in Hb end. lia.
  - intros j y Hy Hr. apply nth_set_nth_cases in Hy. destruct Hy as [[-> ->]|[Hne Hy]]; simpl; auto. eapply Sr; eauto.
  - intros Fa. destruct (Sn Fa) as (Q1 & Q2 & Q3 & Q4). repeat split; auto. intros j y i0 xs0 Hy. apply nth_set_nth_cases in Hy.
    destruct Hy as [[-> ->]|[Hne Hy]]; simpl; [discriminate | eapply Q2; eauto].
  - (* ENext, factory *) destruct (s_rep s); lia.
  - intros Fa _. apply Sp; auto. discriminate.
  - (* EJoinF, plain pool *) intros _. apply Sn. reflexivity.
  - intros Fa. destruct (Sn Fa) as (_ & _ & Q & _). discriminate.
  - unfold nones at 2. simpl. destruct (s_rep s); lia.
  - lia.
  - (* ERGet takes the stop token *)
    unfold nones in *. simpl in St. lia.
  - (* ERStart *)
    destruct (s_main s) eqn:M; try (exfalso; specialize (S0 eq_refl); congruence);
      intros j y Hy; apply nth_set_nth_cases in Hy; (destruct Hy as [[-> ->]|[Hne Hy]]; simpl; [discriminate | eapply Se; eauto]).
  - intros j y Hy Hr. apply nth_set_nth_cases in Hy. destruct Hy as [[-> ->]|[Hne Hy]]; simpl; auto. eapply Sr; eauto.
Qed.

(* ------------------------------------------------------------------ retired workers are pending replacement *)
Definition gone (w : worker) : bool := retiring w.
Definition somes (q : list (option nat)) : list nat := flat_map (fun o => match o with Some x => [x] | None => [] end) q.
Definition rep_wid (s : state) : list nat :=
  match s_rep s with
  | RJoin w => [w]
  | RStart k => match nth_error (map w_id (s_procs s)) k with Some i => [i] | None => [] end
  | _ => [] end.
Definition pending (s : state) : list nat := rep_wid s ++ somes (s_replq s).

Lemma somes_app a b : somes (a ++ b) = somes a ++ somes b.
Proof. unfold somes. apply flat_map_app. Qed.
Lemma map_set_nth {A B} (f : A -> B) l k x : map f (set_nth k x l) = set_nth k (f x) (map f l).
Proof. revert k; induction l as [|a l IH]; intros [|k]; simpl; auto. f_equal. apply IH. Qed.
Lemma set_nth_same {A} (l : list A) k x : nth_error l k = Some x -> set_nth k x l = l.
Proof. revert k; induction l as [|a l IH]; intros [|k] H; simpl in *; try discriminate; [congruence | f_equal; auto]. Qed.
Lemma ids_set_nth ps k w w' : nth_error ps k = Some w -> w_id w' = w_id w -> map w_id (set_nth k w' ps) = map w_id ps.
Proof. intros N E. rewrite map_set_nth, E. apply set_nth_same. rewrite nth_error_map, N. reflexivity. Qed.
Lemma NoDup_set_nth_fresh {A} (l : list A) k x : NoDup l -> ~ In x l -> NoDup (set_nth k x l).
Proof.
  revert k; induction l as [|a l IH]; intros [|k] Nd Ni; simpl; auto; inversion Nd; subst.
  - constructor; auto. intros H. apply Ni. right. exact H.
  - constructor.
    + intros H. assert (Hin : forall y, In y (set_nth k x l) -> y = x \/ In y l).
      { clear. revert k; induction l as [|b l IH]; intros [|k] y Hy; simpl in *; auto; destruct Hy as [->|Hy]; auto.
        destruct (IH k y Hy); auto. }
      destruct (Hin a H) as [->|Hl]; [apply Ni; left; reflexivity | contradiction].
    + apply IH; auto. intros H. apply Ni. right. exact H.
Qed.
Lemma ids_inj ps a b x y : NoDup (map w_id ps) -> nth_error ps a = Some x -> nth_error ps b = Some y -> w_id x = w_id y -> a = b.
Proof.
  intros Nd Ha Hb E. rewrite NoDup_nth_error in Nd. apply Nd.
  - rewrite map_length. apply nth_error_Some. congruence.
  - rewrite !nth_error_map, Ha, Hb. simpl. congruence.
Qed.
Fixpoint slot_from (wid i : nat) (l : list worker) : option nat :=
  match l with [] => None | w :: t => if w_id w =? wid then Some i else slot_from wid (S i) t end.
Lemma slot_of_from ps wid : slot_of ps wid = slot_from wid 0 ps.
Proof.
  unfold slot_of. generalize 0. induction ps as [|w t IH]; intros base; simpl; [reflexivity|].
  destruct (w_id w =? wid); [reflexivity | apply IH].
Qed.
Lemma slot_from_spec wid : forall l base k, slot_from wid base l = Some k ->
  exists w, nth_error l (k - base) = Some w /\ w_id w = wid /\ base <= k.
Proof.
  induction l as [|w t IH]; intros base k0 H; [discriminate|]. simpl in H. destruct (w_id w =? wid) eqn:E.
  - injection H as <-. rewrite Nat.sub_diag. exists w. apply Nat.eqb_eq in E. auto.
  - destruct (IH _ _ H) as (x & Hx & Hi & Hl). exists x. replace (k0 - base) with (S (k0 - S base)) by lia. simpl. repeat split; auto. lia.
Qed.
Lemma slot_of_spec ps wid k : slot_of ps wid = Some k -> exists w, nth_error ps k = Some w /\ w_id w = wid.
Proof.
  rewrite slot_of_from. intros H. destruct (slot_from_spec _ _ _ _ H) as (w & Hw & Hi & _). rewrite Nat.sub_0_r in Hw. eauto.
Qed.
Lemma slot_from_complete : forall l base j w, NoDup (map w_id l) -> nth_error l j = Some w -> slot_from (w_id w) base l = Some (base + j).
Proof.
  induction l as [|x t IH]; intros base [|j] w Nd H; simpl in *; try discriminate.
  - injection H as ->. rewrite Nat.eqb_refl. f_equal. lia.
  - inversion Nd; subst. destruct (w_id x =? w_id w) eqn:E.
    + exfalso. apply Nat.eqb_eq in E. match goal with Hn : ~ In _ _ |- _ => apply Hn end. rewrite E. apply in_map. eapply nth_error_In; eauto.
    + rewrite (IH (S base) j w); auto. f_equal. lia.
Qed.
Lemma slot_of_complete ps j w : NoDup (map w_id ps) -> nth_error ps j = Some w -> slot_of ps (w_id w) = Some j.
Proof. intros Nd H. rewrite slot_of_from. apply (slot_from_complete ps 0 j w Nd H). Qed.

Record PInv (s : state) : Prop := {
  p_lt : forall j w, nth_error (s_procs s) j = Some w -> w_id w < s_wid s;
  p_nd : NoDup (map w_id (s_procs s));
  p_pnd : NoDup (pending s);
  p_gone : forall wid, In wid (pending s) -> exists k w, nth_error (s_procs s) k = Some w /\ w_id w = wid /\ gone w = true;
  p_pend : exit_class (s_main s) = false -> forall k w, nth_error (s_procs s) k = Some w -> gone w = true -> In (w_id w) (pending s);
  p_rstart : forall k, s_rep s = RStart k -> exists w, nth_error (s_procs s) k = Some w /\ is_dead w = true;
  p_notok : exit_class (s_main s) = false -> forall it, In it (s_workq s) -> it <> QNone;
}.

Lemma wstep_gone cfg w kind s w' s1 : kind <> 5 -> worker_step cfg w kind false s = Some (w', s1) ->
  w_id w' = w_id w
  /\ (gone w = true -> gone w' = true)
  /\ (gone w' = true -> gone w = true
        \/ (gone w = false /\ s_replq s1 = s_replq s ++ [Some (w_id w)])
        \/ (exists q, s_workq s = QNone :: q)
        \/ ((c_factory cfg = false \/ w_quota w <> Some 1) /\ exists r i xs, w_quota w = Some r /\ r - 1 = 0 /\ w_pc w = WHold i xs))
  /\ (s_replq s1 = s_replq s \/ (s_replq s1 = s_replq s ++ [Some (w_id w)] /\ gone w = false /\ gone w' = true))
  /\ (s_workq s1 = s_workq s \/ exists it, s_workq s = it :: s_workq s1)
  /\ is_dead w = false.
Proof.
  intros Hk W. wstep_cases W w s; try congruence; unfold gone, retiring, is_dead; simpl; rewrite ?Pc; repeat split; auto; try discriminate; eauto.
  destruct (w_quota w) as [[|[|?]]|] eqn:Hq; simpl; try discriminate; intros _; right; right; right.
  - split; [right; discriminate|]. exists 0, i, xs. auto.
  - split; [|exists 1, i, xs; auto]. apply andb_false_iff in Last. destruct Last as [L|L]; [left; exact L | discriminate].
Qed.

Lemma winv_quota_hold cfg w r i xs : WInv cfg w -> w_pc w = WHold i xs -> w_quota w = Some r -> exists k, c_quota cfg = Some k.
Proof.
  unfold WInv, qrem. intros I Pc Hq. rewrite Pc in I. destruct (c_quota cfg) as [k|] eqn:Cq; eauto. exfalso.
  destruct I as (n & _ & Qr & _). congruence.
Qed.

Lemma pending_frame s s' : s_rep s' = s_rep s -> map w_id (s_procs s') = map w_id (s_procs s) -> rep_wid s' = rep_wid s.
Proof. intros E1 E2. unfold rep_wid. rewrite E1, E2. reflexivity. Qed.

Lemma NoDup_app_single {A} (l : list A) x : NoDup l /\ ~ In x l -> NoDup (l ++ [x]).
Proof.
  intros [Nd Ni]. apply NoDup_rev in Nd. rewrite <- (rev_involutive (l ++ [x])). apply NoDup_rev. rewrite rev_app_distr. simpl.
  constructor; auto. rewrite <- in_rev. exact Ni.
Qed.

Lemma pinv_slot cfg s k kind s' : cfg_ok cfg -> kind <> 5 -> LInv cfg s -> PInv s -> slot_step cfg s k kind false = Some s' -> PInv s'.
Proof.
  intros (_ & _ & _ & Cq) Hk LI [Plt Pnd Ppn Pg Pp Pr Pt] H.
  apply slot_step_inv in H. destruct H as (w & w' & s1 & N & W & Hs').
  pose proof (worker_step_frame _ _ _ _ _ _ _ W) as (F1 & F2 & F3 & F4 & F5 & F6 & F7 & F8).
  destruct (wstep_gone _ _ _ _ _ _ Hk W) as (G1 & G2 & G3 & _ & G5 & G6).
  destruct (wstep_struct _ _ _ _ _ _ Hk W) as (_ & _ & _ & _ & P5 & _).
  assert (Wi : WInv cfg w) by (eapply Forall_nth_error; [apply (l_procs _ _ LI) | exact N]).
  assert (E1 : s_procs s' = set_nth k w' (s_procs s)) by (subst s'; unfold with_procs; simpl; rewrite F1; reflexivity).
  assert (E2 : s_main s' = s_main s) by (subst s'; unfold with_procs; simpl; auto).
  assert (E3 : s_rep s' = s_rep s) by (subst s'; unfold with_procs; simpl; auto).
  assert (E4 : s_wid s' = s_wid s) by (subst s'; unfold with_procs; simpl; auto).
  assert (E5 : s_workq s' = s_workq s1) by (subst s'; unfold with_procs; simpl; auto).
  assert (E6 : s_replq s' = s_replq s1) by (subst s'; unfold with_procs; simpl; auto).
  clear Hs'.
  assert (Ids : map w_id (s_procs s') = map w_id (s_procs s)) by (rewrite E1; apply ids_set_nth with (w := w); auto).
  assert (Rw : rep_wid s' = rep_wid s) by (apply pending_frame; auto).
  assert (Pe : pending s' = pending s \/ (pending s' = pending s ++ [w_id w] /\ gone w = false /\ gone w' = true)).
  { unfold pending. rewrite Rw, E6. destruct P5 as [->|(-> & Hr & He & _)]; [left; reflexivity | right].
    split; auto. rewrite somes_app. simpl. rewrite app_assoc. reflexivity. }
  assert (Sub : forall x, In x (pending s) -> In x (pending s')).
  { intros x Hx. destruct Pe as [->|[-> _]]; auto. apply in_or_app. left. exact Hx. }
  assert (Keep : forall k0 w0, nth_error (s_procs s) k0 = Some w0 -> gone w0 = true ->
            exists w1, nth_error (s_procs s') k0 = Some w1 /\ w_id w1 = w_id w0 /\ gone w1 = true).
  { intros k0 w0 H0 Hg. rewrite E1. destruct (Nat.eq_dec k0 k) as [->|Hne].
    - rewrite (nth_error_set_nth_eq _ _ _ _ N). exists w'. assert (w0 = w) by congruence. subst w0. auto.
    - rewrite nth_error_set_nth_neq by auto. eauto. }
  constructor; rewrite ?E2, ?E3, ?E4.
  - intros j y Hy. rewrite E1 in Hy. apply nth_set_nth_cases in Hy. destruct Hy as [[-> ->]|[Hne Hy]]; [rewrite G1|]; eauto.
  - rewrite Ids. exact Pnd.
  - destruct Pe as [->|[-> [Hr _]]]; auto.
    apply NoDup_app_single. split; auto. intros Hin. destruct (Pg _ Hin) as (k0 & w0 & H0 & Hi & Hg).
    assert (k0 = k) by (eapply ids_inj; eauto). subst k0. assert (w0 = w) by congruence. subst w0.
    congruence.
  - intros wid Hin. destruct Pe as [Pe|[Pe [Hr He]]]; rewrite Pe in Hin.
    + destruct (Pg _ Hin) as (k0 & w0 & H0 & Hi & Hg). destruct (Keep _ _ H0 Hg) as (w1 & ? & ? & ?). exists k0, w1. repeat split; auto. congruence.
    + apply in_app_or in Hin. destruct Hin as [Hin|[<-|[]]].
      * destruct (Pg _ Hin) as (k0 & w0 & H0 & Hi & Hg). destruct (Keep _ _ H0 Hg) as (w1 & ? & ? & ?). exists k0, w1. repeat split; auto. congruence.
      * exists k, w'. rewrite E1, (nth_error_set_nth_eq _ _ _ _ N). repeat split; auto.
  - intros Hx k0 y Hy Hg. rewrite E1 in Hy. apply nth_set_nth_cases in Hy. destruct Hy as [[-> ->]|[Hne Hy]].
    + rewrite G1. destruct (G3 Hg) as [Hw|[[Hr Hq]|[[q Hq]|[Fa (r & i & xs & Hqu & Hh)]]]].
      * apply Sub. eapply Pp; eauto.
      * destruct Pe as [Pe|[Pe _]]; rewrite Pe.
        -- exfalso. unfold pending in Pe. rewrite Rw, E6, Hq, somes_app in Pe. simpl in Pe.
           apply (f_equal (@length nat)) in Pe. rewrite !app_length in Pe. simpl in Pe. lia.
        -- apply in_or_app. right. left. reflexivity.
      * exfalso. apply (Pt Hx QNone); [rewrite Hq; left; reflexivity | reflexivity].
      * exfalso. destruct Hh as (Hr1 & Hh). destruct (winv_quota_hold _ _ _ _ _ Wi Hh Hqu) as (kq & Hkq). destruct (Cq _ Hkq) as [_ Hfa].
        assert (r = 1). { unfold WInv in Wi. rewrite Hh in Wi. destruct Wi as (n0 & _ & _ & _ & Qp). unfold qpos in Qp. rewrite Hqu in Qp. lia. }
        subst r. destruct Fa as [Fa|Fa]; congruence.
    + apply Sub. eapply Pp; eauto.
  - intros k0 Hk0. destruct (Pr k0 Hk0) as (w0 & H0 & Hd). exists w0. split; auto. rewrite E1.
    rewrite nth_error_set_nth_neq; auto. intros ->. assert (w0 = w) by congruence. subst w0. congruence.
  - intros Hx it Hin. apply (Pt Hx). rewrite E5 in Hin. destruct G5 as [<-|[it0 ->]]; auto. right. exact Hin.
Qed.

Lemma pinv_transfer s s' : PInv s -> s_procs s' = s_procs s -> s_wid s' = s_wid s -> pending s' = pending s ->
  (forall k, s_rep s' = RStart k -> s_rep s = RStart k \/ exists w, nth_error (s_procs s) k = Some w /\ is_dead w = true) ->
  (exit_class (s_main s') = false -> exit_class (s_main s) = false) ->
  (exit_class (s_main s') = false -> forall it : qitem, In it (s_workq s') -> In it (s_workq s) \/ it <> QNone) -> PInv s'.
Proof.
  intros [Plt Pnd Ppn Pg Pp Pr Pt] E1 E2 E3 E4 E5 E6. constructor; rewrite ?E1, ?E2, ?E3.
  - exact Plt.
  - exact Pnd.
  - exact Ppn.
  - exact Pg.
  - intros Hx. apply Pp. auto.
  - intros k Hk. destruct (E4 k Hk) as [E|E]; auto.
  - intros Hx it Hin. destruct (E6 Hx it Hin); auto.
Qed.

Lemma pinv_replace s s' k w w' : PInv s -> nth_error (s_procs s) k = Some w -> w_id w' = w_id w -> gone w' = gone w ->
  is_dead w' = is_dead w -> s_procs s' = set_nth k w' (s_procs s) -> s_wid s' = s_wid s -> s_rep s' = s_rep s ->
  s_replq s' = s_replq s -> s_workq s' = s_workq s -> (exit_class (s_main s') = false -> exit_class (s_main s) = false) -> PInv s'.
Proof.
  intros [Plt Pnd Ppn Pg Pp Pr Pt] N Ei Eg Ed E1 E2 E3 E4 E5 E6.
  assert (Ids : map w_id (s_procs s') = map w_id (s_procs s)) by (rewrite E1; apply ids_set_nth with (w := w); auto).
  assert (Pe : pending s' = pending s) by (unfold pending; rewrite (pending_frame s s' E3 Ids), E4; reflexivity).
  constructor; rewrite ?E2, ?E3, ?E5, ?Pe, ?Ids; auto.
  - intros j y Hy. rewrite E1 in Hy. apply nth_set_nth_cases in Hy. destruct Hy as [[-> ->]|[Hne Hy]]; [rewrite Ei|]; eauto.
  - intros wid Hin. destruct (Pg wid Hin) as (k0 & w0 & H0 & Hi & Hg). rewrite E1. destruct (Nat.eq_dec k0 k) as [->|Hne].
    + exists k, w'. rewrite (nth_error_set_nth_eq _ _ _ _ N). assert (w0 = w) by congruence. subst w0. repeat split; congruence.
    + exists k0, w0. rewrite nth_error_set_nth_neq by auto. auto.
  - intros Hx k0 y Hy Hg. rewrite E1 in Hy. apply nth_set_nth_cases in Hy. destruct Hy as [[-> ->]|[Hne Hy]].
    + rewrite Ei. eapply Pp; eauto; congruence.
    + eapply Pp; eauto.
  - intros k0 Hk0. destruct (Pr k0 Hk0) as (w0 & H0 & Hd). rewrite E1. destruct (Nat.eq_dec k0 k) as [->|Hne].
    + exists w'. rewrite (nth_error_set_nth_eq _ _ _ _ N). assert (w0 = w) by congruence. subst w0. split; congruence.
    + exists w0. rewrite nth_error_set_nth_neq by auto. auto.
Qed.

Lemma pinv_step cfg s e s' : cfg_ok cfg -> LInv cfg s -> SInv cfg s -> PInv s -> fault_free e -> step cfg s e = Some s' -> PInv s'.
Proof.
  intros Ok LI SI I Hff H.
  destruct e; try (simpl in Hff; contradiction);
    try match goal with r : bool |- _ => destruct r; [simpl in Hff; contradiction|] end;
    try (simpl in H; eapply pinv_slot; [exact Ok| |exact LI|exact I|exact H]; discriminate).
  all: step_cases H; injection H as <-.
  all: try (apply (pinv_transfer s); [exact I | reflexivity | reflexivity
       | unfold pending, rep_wid; simpl; rewrite ?somes_app; simpl; rewrite ?app_nil_r; first [reflexivity | congruence]
       | simpl; intros; first [left; congruence | congruence]
       | simpl; intros; repeat match goal with Hm : s_main _ = _ |- _ => rewrite Hm end; simpl; congruence
       | simpl; intros Hx it Hin; try (apply in_app_or in Hin; destruct Hin as [Hin|[<-|[]]]); auto; right; discriminate]; fail).
  all: try (apply (pinv_transfer s); [exact I | reflexivity | reflexivity
       | unfold pending, rep_wid; simpl;
         repeat match goal with Hm : s_rep _ = _ |- _ => rewrite Hm end; repeat match goal with Hm : s_replq _ = _ |- _ => rewrite Hm end;
         try (rewrite (s_rep0 _ _ SI) by (repeat match goal with Hm : s_main _ = _ |- _ => rewrite Hm end; reflexivity)); simpl; reflexivity
       | simpl; intros; first [left; congruence | congruence]
       | simpl; intros; repeat match goal with Hm : s_main _ = _ |- _ => rewrite Hm end; simpl; congruence
       | simpl; intros Hx it Hin; auto]; fail).
  - (* EStartW *)
    apply (pinv_replace s _ k w (mkW (w_id w) WBegin (w_quota w) false (w_log w))); simpl; auto;
      try (unfold gone, retiring, is_dead; simpl; match goal with Hp : w_pc w = _ |- _ => rewrite Hp end; reflexivity).
    match goal with Hm : s_main s = _ |- _ => rewrite Hm end. auto.
  - apply (pinv_replace s _ k w (mkW (w_id w) WBegin (w_quota w) false (w_log w))); simpl; auto;
      try (unfold gone, retiring, is_dead; simpl; match goal with Hp : w_pc w = _ |- _ => rewrite Hp end; reflexivity).
    match goal with Hm : s_main s = _ |- _ => rewrite Hm end. auto.
  - (* ERJoin *)
    match goal with Hs : slot_of _ _ = Some _ |- _ => destruct (slot_of_spec _ _ _ Hs) as (w1 & Hw1 & Hi1) end.
    apply (pinv_transfer s); [exact I | reflexivity | reflexivity | | | simpl; auto | simpl; auto].
    + unfold pending, rep_wid; simpl. repeat match goal with Hm : s_rep _ = _ |- _ => rewrite Hm end.
      rewrite nth_error_map, Hw1. simpl. rewrite Hi1. reflexivity.
    + simpl. intros k0 Hk0. injection Hk0 as <-. right. eauto.
  - (* ERStart *)
    destruct I as [Plt Pnd Ppn Pg Pp Pr Pt].
    match goal with Hn : nth_error (s_procs s) ?n = Some ?old, Hr : s_rep s = RStart ?n |- _ =>
      rename Hn into Nold; rename Hr into Hrep; rename old into wold; rename n into sl end.
    assert (Pe : pending s = w_id wold :: somes (s_replq s)).
    { unfold pending, rep_wid. rewrite Hrep, nth_error_map, Nold. reflexivity. }
    rewrite Pe in *. inversion Ppn as [|? ? Hnin Hnd]; subst.
    constructor; simpl.
    + intros j y Hy. apply nth_set_nth_cases in Hy. destruct Hy as [[-> ->]|[Hne Hy]]; simpl; [lia|]. specialize (Plt j y Hy). lia.
    + rewrite map_set_nth. simpl. apply NoDup_set_nth_fresh; auto. intros Hin. apply in_map_iff in Hin.
      destruct Hin as (x & Hx & Hin). apply In_nth_error in Hin. destruct Hin as (j & Hj). specialize (Plt j x Hj). lia.
    + unfold pending, rep_wid. simpl. exact Hnd.
    + unfold pending, rep_wid. simpl. intros wid Hin. destruct (Pg wid (or_intror Hin)) as (k0 & w1 & H1 & Hi & Hg).
      exists k0, w1. rewrite nth_error_set_nth_neq; auto. intros ->. assert (w1 = wold) by congruence. subst w1. congruence.
    + unfold pending, rep_wid. simpl. intros Hx k0 y Hy Hg. apply nth_set_nth_cases in Hy. destruct Hy as [[-> ->]|[Hne Hy]]; [discriminate|].
      destruct (Pp Hx k0 y Hy Hg) as [Hi|Hi]; auto. exfalso. apply Hne. eapply ids_inj; eauto.
    + discriminate.
    + exact Pt.
Qed.

(* ------------------------------------------------------------------ the replace queue: notices before the stop token *)
(* A retirement notice is put while its worker still holds its last chunk, so inside a call; the stop token is put after
   the call's last result has been fetched.  Hence nothing follows the stop token in the queue, and once the replace thread
   has taken it (or is off) no notice is pending: every retired worker has been replaced. *)
Fixpoint after_none (q : list (option nat)) : list (option nat) :=
  match q with [] => [] | None :: t => t | Some _ :: t => after_none t end.
Lemma after_none_app q x : nones q = 0 -> after_none (q ++ x) = after_none x.
Proof. induction q as [|[a|] q IH]; simpl; auto. unfold nones. simpl. discriminate. Qed.

Record XInv (s : state) : Prop := {
  x_after : after_none (s_replq s) = [];
  x_quiet : rep_live (s_rep s) = false -> somes (s_replq s) = [];
}.

Lemma wstep_notice cfg w kind r s w' s1 : worker_step cfg w kind r s = Some (w', s1) ->
  s_rep s1 = s_rep s /\ (s_replq s1 = s_replq s \/ (s_replq s1 = s_replq s ++ [Some (w_id w)] /\ c_factory cfg = true /\ exists i xs, w_pc w = WHold i xs)).
Proof.
  intros W. unfold worker_step in W.
  destruct kind as [|[|[|[|[|[|?]]]]]]; destruct (w_pc w) eqn:Pc; try discriminate;
    repeat match type of W with context [match ?x with _ => _ end] => destruct x eqn:?; try discriminate end;
    injection W as <- <-; simpl; split; auto.
  right. split; auto. split; eauto.
  match goal with Hl : (c_factory cfg && _) = true |- _ => apply andb_true_iff in Hl; tauto end.
Qed.

Lemma xinv_slot cfg s k kind r s' : Inv s -> SInv cfg s -> XInv s -> slot_step cfg s k kind r = Some s' -> XInv s'.
Proof.
  intros IV SI [Xa Xq] H. apply slot_step_inv in H. destruct H as (w & w' & s1 & N & W & ->).
  destruct (wstep_notice _ _ _ _ _ _ _ W) as (Er & [Eq|(Eq & Fa & i & xs & Pc)]).
  - constructor; unfold with_procs; simpl; rewrite ?Er, ?Eq; auto.
  - assert (Hc : in_call (s_main s) = true).
    { destruct (in_call (s_main s)) eqn:Hc; auto. exfalso. pose proof (i_call s IV) as Ic. rewrite Hc in Ic.
      apply entries_nil_parts in Ic. destruct Ic as (_ & Hh & _). pose proof (nth_error_hw_nil _ _ _ Hh N) as Hw.
      unfold hw in Hw. rewrite Pc in Hw. discriminate. }
    pose proof (s_tok _ _ SI) as St.
    assert (Hn : nones (s_replq s) = 0) by (destruct (s_main s); try discriminate; lia).
    assert (Lv : rep_live (s_rep s) = true).
    { destruct (s_replive _ _ SI Fa) as [Lv|Rd]; auto; [destruct (s_main s); try discriminate; simpl; lia|].
      rewrite Rd in St. destruct (s_main s); try discriminate; lia. }
    constructor; unfold with_procs; simpl; rewrite ?Er, ?Eq.
    + rewrite after_none_app; auto.
    + intros Hl. congruence.
Qed.

Lemma xinv_step cfg s e s' : Inv s -> SInv cfg s -> XInv s -> step cfg s e = Some s' -> XInv s'.
Proof.
  intros IV SI I H.
  destruct e; try (simpl in H; eapply xinv_slot; [exact IV|exact SI|exact I|exact H]).
  all: pose proof (s_tok _ _ SI) as St; destruct I as [Xa Xq]; step_cases H; injection H as <-; constructor; simpl; auto; try discriminate.
  - (* ERepPut *) rewrite after_none_app; auto. destruct (s_rep s); lia.
  - intros Hl. rewrite somes_app, Xq; auto.
  - (* ERGet takes the stop token: nothing is behind it *) simpl in Xa. subst. reflexivity.
  - simpl in Xa. subst. reflexivity.
Qed.

(* between calls the pool is at full strength: every slot holds a worker that has not left its loop (a worker that retired
   during the call - also with its very last chunk - has been replaced before the call ended) *)
Lemma idle_full_strength cfg s : SInv cfg s -> PInv s -> XInv s -> s_main s = MIdle ->
  forall j w, nth_error (s_procs s) j = Some w -> retiring w = false.
Proof.
  intros SI PI XI Hm j w N.
  assert (Roff : s_rep s = ROff) by (apply (s_rep0 _ _ SI); rewrite Hm; reflexivity).
  assert (Pn : pending s = []) by (unfold pending, rep_wid; rewrite Roff; simpl; apply (x_quiet s XI); rewrite Roff; reflexivity).
  destruct (retiring w) eqn:G; auto. exfalso.
  assert (Hin : In (w_id w) (pending s)) by (apply (p_pend s PI) with (k := j); auto; rewrite Hm; reflexivity).
  rewrite Pn in Hin. exact Hin.
Qed.

(* ------------------------------------------------------------------ leaving the pool: stop orders and the workers that will take them *)
Definition consumer (w : worker) : bool := match w_pc w with WNew | WBegin | WIdle | WHold _ _ => true | _ => false end.
Definition cons1 (w : worker) : nat := if consumer w then 1 else 0.
Definition consumers (ps : list worker) : nat := list_sum (map cons1 ps).
Definition todo_put (m : mpc) : nat := match m with MExitPut n => n | _ => 0 end.

Lemma consumers_set_nth ps k w w' : nth_error ps k = Some w -> consumers (set_nth k w' ps) + cons1 w = consumers ps + cons1 w'.
Proof.
  unfold consumers. revert k; induction ps as [|p ps IH]; intros [|k] H; simpl in *; try discriminate.
  - injection H as ->. lia.
  - specialize (IH k H). lia.
Qed.
Lemma consumers_le ps : consumers ps <= length ps.
Proof. unfold consumers. induction ps as [|p ps IH]; simpl; auto. unfold cons1 at 1. destruct (consumer p); lia. Qed.
Lemma consumers_all ps : (forall j w, nth_error ps j = Some w -> consumer w = true) -> consumers ps = length ps.
Proof.
  unfold consumers. induction ps as [|p ps IH]; intros H; simpl; auto. unfold cons1 at 1. rewrite (H 0 p eq_refl).
  rewrite IH; auto. intros j w Hj. apply (H (S j) w Hj).
Qed.
Lemma consumers_pos ps : 1 <= consumers ps -> exists k w, nth_error ps k = Some w /\ consumer w = true.
Proof.
  unfold consumers. induction ps as [|p ps IH]; simpl; [lia|]. unfold cons1 at 1. destruct (consumer p) eqn:C.
  - intros _. exists 0, p. auto.
  - intros H. destruct (IH H) as (k & w & Hk & Hc). exists (S k), w. auto.
Qed.

Record EInv (cfg : config) (s : state) : Prop := {
  e_put : forall n, s_main s = MExitPut n -> 1 <= n;
  e_suff : exit_class (s_main s) = true -> consumers (s_procs s) <= length (s_workq s) + todo_put (s_main s);
  e_exact : exit_class (s_main s) = true -> length (s_workq s) + todo_put (s_main s) <= consumers (s_procs s);
  e_le : exit_class (s_main s) = true -> length (s_workq s) + todo_put (s_main s) <= length (s_procs s);
}.

Lemma workq_nil s : Inv s -> PInv s -> in_call (s_main s) = false -> exit_class (s_main s) = false -> s_workq s = [].
Proof.
  intros IV PI Hc Hx. pose proof (i_call s IV) as Ic. rewrite Hc in Ic. apply entries_nil_parts in Ic. destruct Ic as (Hq & _).
  destruct (s_workq s) as [|[i xs|] q] eqn:Q; auto.
  - discriminate.
  - exfalso. apply (p_notok s PI Hx QNone); [rewrite Q; left; reflexivity | reflexivity].
Qed.

Lemma wstep_cons cfg w kind s w' s1 : kind <> 5 -> worker_step cfg w kind false s = Some (w', s1) ->
  (consumer w' = consumer w /\ (s_workq s1 = s_workq s \/ exists i xs, s_workq s = QChunk i xs :: s_workq s1))
  \/ (consumer w = true /\ consumer w' = false /\ s_workq s = QNone :: s_workq s1)
  \/ (consumer w = true /\ consumer w' = false /\ s_workq s1 = s_workq s /\ exists r i xs, w_quota w = Some r /\ w_pc w = WHold i xs).
Proof.
  intros Hk W. wstep_cases W w s; try congruence; unfold consumer; simpl; rewrite ?Pc.
  - left. auto.
  - left. split; auto. right. eauto.
  - right. left. auto.
  - destruct (w_quota w) as [[|[|?]]|] eqn:Hq; simpl; try (left; split; auto; fail);
      right; right; repeat split; auto; eexists; eexists; eexists; split; reflexivity.
  - left. auto.
  - destruct (w_quota w) as [[|[|?]]|] eqn:Hq; try (rewrite andb_false_r in Last; discriminate).
    right; right; repeat split; auto; eexists; eexists; eexists; split; reflexivity.
  - left. auto.
Qed.

Lemma einv_slot cfg s k kind s' : cfg_ok cfg -> kind <> 5 -> Inv s -> LInv cfg s -> PInv s -> EInv cfg s ->
  slot_step cfg s k kind false = Some s' -> EInv cfg s'.
Proof.
  intros Ok Hk IV LI PI [Ep Es Ee El] H.
  apply slot_step_inv in H. destruct H as (w & w' & s1 & N & W & Hs').
  pose proof (worker_step_frame _ _ _ _ _ _ _ W) as (F1 & F2 & F3 & F4 & F5 & F6 & F7 & F8).
  assert (E1 : s_procs s' = set_nth k w' (s_procs s)) by (subst s'; unfold with_procs; simpl; rewrite F1; reflexivity).
  assert (E2 : s_main s' = s_main s) by (subst s'; unfold with_procs; simpl; auto).
  assert (E5 : s_workq s' = s_workq s1) by (subst s'; unfold with_procs; simpl; auto).
  clear Hs'. pose proof (consumers_set_nth _ k w w' N) as Cs. unfold cons1 in Cs.
  assert (Nil : exit_class (s_main s) = true -> q_entries (s_workq s) = [] /\ held (s_procs s) = []).
  { intros Hx. pose proof (i_call s IV) as Ic. destruct (s_main s); try discriminate; simpl in Ic;
      apply entries_nil_parts in Ic; tauto. }
  assert (NoChunk : exit_class (s_main s) = true -> forall i xs q, s_workq s = QChunk i xs :: q -> False).
  { intros Hx i xs q Hq. destruct (Nil Hx) as (Hqe & _). rewrite Hq in Hqe. discriminate. }
  assert (NoHold : exit_class (s_main s) = true -> forall i xs, w_pc w = WHold i xs -> False).
  { intros Hx i xs Pc. destruct (Nil Hx) as (_ & Hh). pose proof (nth_error_hw_nil _ _ _ Hh N) as Hw. unfold hw in Hw. rewrite Pc in Hw. discriminate. }
  destruct (wstep_cons _ _ _ _ _ _ Hk W) as [[Hc Hq]|[[Hc1 [Hc2 Hq]]|[Hc1 [Hc2 [Hq (r & i & xs & Hr & Hp)]]]]].
  - rewrite Hc in Cs. constructor; rewrite ?E1, ?E2, ?E5, ?set_nth_length; auto.
    + intros Hx. destruct Hq as [->|(i & xs & Hq)]; [specialize (Es Hx); lia | exfalso; eapply NoChunk; eauto].
    + intros Hx. destruct Hq as [->|(i & xs & Hq)]; [specialize (Ee Hx); lia | exfalso; eapply NoChunk; eauto].
    + intros Hx. destruct Hq as [->|(i & xs & Hq)]; [specialize (El Hx); lia | exfalso; eapply NoChunk; eauto].
  - rewrite Hc1, Hc2 in Cs. constructor; rewrite ?E1, ?E2, ?E5, ?set_nth_length; auto.
    + intros Hx. specialize (Es Hx). rewrite Hq in Es. simpl in Es. lia.
    + intros Hx. specialize (Ee Hx). rewrite Hq in Ee. simpl in Ee. lia.
    + intros Hx. specialize (El Hx). rewrite Hq in El. simpl in El. lia.
  - (* a worker stops being a consumer on its own only with a chunk in its hands: not while the pool is being left *)
    rewrite Hc1, Hc2 in Cs. constructor; rewrite ?E1, ?E2, ?E5, ?set_nth_length, ?Hq; auto.
    + intros Hx. specialize (Es Hx). lia.
    + intros Hx. exfalso. eapply NoHold; eauto.
Qed.

Lemma einv_step cfg s e s' : cfg_ok cfg -> Inv s -> LInv cfg s -> SInv cfg s -> PInv s -> XInv s -> EInv cfg s -> fault_free e ->
  step cfg s e = Some s' -> EInv cfg s'.
Proof.
  intros Ok IV LI SI PI XI I Hff H.
  destruct e; try (simpl in Hff; contradiction);
    try match goal with r : bool |- _ => destruct r; [simpl in Hff; contradiction|] end;
    try (simpl in H; eapply einv_slot; [exact Ok| |exact IV|exact LI|exact PI|exact I|exact H]; discriminate).
  all: destruct I as [Ep Es Ee El]; step_cases H; injection H as <-.
  all: try (constructor; simpl; rewrite ?set_nth_length; auto; try discriminate; try (intros; congruence); fail).
  - (* ENext, leaving the pool: the work queue is empty, one stop order per worker is still to be put; the replace thread
       is off and has replaced every retired worker, so every worker is a consumer *)
    assert (Hm : s_main s = MIdle) by assumption.
    assert (Wq : s_workq s = []) by (apply workq_nil; auto; rewrite Hm; reflexivity).
    destruct Ok as (Ow & _). pose proof (s_len _ _ SI) as Hl.
    assert (Roff : s_rep s = ROff) by (apply (s_rep0 _ _ SI); rewrite Hm; reflexivity).
    assert (Pn : pending s = []) by (unfold pending, rep_wid; rewrite Roff; simpl; apply (x_quiet s XI); rewrite Roff; reflexivity).
    assert (Allc : forall j w, nth_error (s_procs s) j = Some w -> consumer w = true).
    { intros j w N. destruct (gone w) eqn:G.
      - exfalso. assert (Hin : In (w_id w) (pending s)) by (apply (p_pend s PI) with (k := j); auto; rewrite Hm; reflexivity).
        rewrite Pn in Hin. exact Hin.
      - unfold gone, retiring in G. unfold consumer. destruct (w_pc w); auto; discriminate. }
    constructor; simpl; rewrite ?Wq; simpl; try discriminate.
    + intros n E. injection E as <-. lia.
    + intros _. apply consumers_le.
    + intros _. rewrite consumers_all; auto.
    + intros _. lia.
  - (* EExitPut, the last one *)
    assert (Hm : s_main s = MExitPut 1) by assumption. rewrite Hm in *. simpl in *.
    constructor; simpl; rewrite ?app_length; simpl; try discriminate.
    + intros _. specialize (Es eq_refl). lia.
    + intros _. specialize (Ee eq_refl). lia.
    + intros _. specialize (El eq_refl). lia.
  - simpl in *.
    constructor; simpl; rewrite ?app_length; simpl; try discriminate.
    + intros n9 E. injection E as <-. lia.
    + intros _. specialize (Es eq_refl). lia.
    + intros _. specialize (Ee eq_refl). lia.
    + intros _. specialize (El eq_refl). lia.
  - (* ERStart: not while leaving (the replace thread is off) *)
    assert (Hx : exit_class (s_main s) = false).
    { destruct (s_main s) eqn:M; auto; exfalso; pose proof (s_rep0 _ _ SI) as S0; rewrite M in S0; specialize (S0 eq_refl); congruence. }
    constructor; simpl; rewrite ?set_nth_length; try (intros; congruence); auto.
Qed.

(* ================================================================== part C: no deadlock *)
Definition enabled (cfg : config) (s : state) (e : event) : Prop := fault_free e /\ step cfg s e <> None.

Lemma en_begin cfg s k w : nth_error (s_procs s) k = Some w -> w_pc w = WBegin -> enabled cfg s (EWBegin k false).
Proof. intros N Pc. split; [exact Logic.I|]. simpl. unfold slot_step. rewrite N. unfold worker_step. rewrite Pc. discriminate. Qed.
Lemma en_take cfg s k w : nth_error (s_procs s) k = Some w -> w_pc w = WIdle -> s_workq s <> [] -> enabled cfg s (EWTake k).
Proof.
  intros N Pc Q. split; [exact Logic.I|]. simpl. unfold slot_step. rewrite N. unfold worker_step. rewrite Pc.
  destruct (s_workq s) as [|[|] ?]; [contradiction | discriminate | discriminate].
Qed.
Definition last_chunk (cfg : config) (w : worker) : bool := c_factory cfg && (match w_quota w with Some 1 => true | _ => false end).
Lemma en_result cfg s k w i xs : nth_error (s_procs s) k = Some w -> w_pc w = WHold i xs -> last_chunk cfg w = false ->
  full (c_rq_cap cfg) (s_resq s) = false -> enabled cfg s (EWResult k).
Proof.
  unfold last_chunk. intros N Pc La Fu. split; [exact Logic.I|]. simpl. unfold slot_step. rewrite N. unfold worker_step. rewrite Pc, La, Fu. discriminate.
Qed.
Lemma en_resultR cfg s k w i xs : nth_error (s_procs s) k = Some w -> w_pc w = WHoldR i xs ->
  full (c_rq_cap cfg) (s_resq s) = false -> enabled cfg s (EWResult k).
Proof. intros N Pc Fu. split; [exact Logic.I|]. simpl. unfold slot_step. rewrite N. unfold worker_step. rewrite Pc, Fu. discriminate. Qed.
Lemma en_retire cfg s k w i xs : nth_error (s_procs s) k = Some w -> w_pc w = WHold i xs -> last_chunk cfg w = true -> enabled cfg s (EWRetire k).
Proof.
  unfold last_chunk. intros N Pc La. split; [exact Logic.I|]. simpl. unfold slot_step. rewrite N. unfold worker_step. rewrite Pc, La. discriminate.
Qed.
Lemma en_end cfg s k w : nth_error (s_procs s) k = Some w -> w_pc w = WEnding -> enabled cfg s (EWEnd k).
Proof. intros N Pc. split; [exact Logic.I|]. simpl. unfold slot_step. rewrite N. unfold worker_step. rewrite Pc. discriminate. Qed.

Lemma worker_scan (ps : list worker) :
  (exists k w, nth_error ps k = Some w /\ is_dead w = false) \/ (forall k w, nth_error ps k = Some w -> is_dead w = true).
Proof.
  induction ps as [|p ps IH].
  - right. intros [|k] w H; discriminate.
  - destruct (is_dead p) eqn:D.
    + destruct IH as [(k & w & H & Hd)|IH]; [left; exists (S k), w; auto|]. right. intros [|k] w H; simpl in H; [congruence | eauto].
    + left. exists 0, p. auto.
Qed.
Lemma held_worker ps : held ps <> [] -> exists k w i xs, nth_error ps k = Some w /\ (w_pc w = WHold i xs \/ w_pc w = WHoldR i xs).
Proof.
  induction ps as [|p ps IH]; intros H; [contradiction|]. unfold held in H. simpl in H. fold (held ps) in H.
  destruct (w_pc p) eqn:Pc; try (unfold hw in H; rewrite Pc in H; simpl in H; destruct (IH H) as (k & w & i & xs & Hk & Hp); exists (S k), w, i, xs; auto; fail).
  - exists 0, p, i, xs. auto.
  - exists 0, p, i, xs. auto.
Qed.
Lemma hold_progress cfg s k w i xs : nth_error (s_procs s) k = Some w -> (w_pc w = WHold i xs \/ w_pc w = WHoldR i xs) ->
  full (c_rq_cap cfg) (s_resq s) = false -> exists e, enabled cfg s e.
Proof.
  intros N [Pc|Pc] Fu.
  - destruct (last_chunk cfg w) eqn:La; [exists (EWRetire k); eapply en_retire; eauto | exists (EWResult k); eapply en_result; eauto].
  - exists (EWResult k). eapply en_resultR; eauto.
Qed.

(* the replace thread can move whenever it is alive and, if waiting on its queue, the queue is not empty *)
Lemma rep_progress cfg s : PInv s -> rep_live (s_rep s) = true -> (s_rep s = RGet -> s_replq s <> []) ->
  (full (c_rq_cap cfg) (s_resq s) = false \/ held (s_procs s) = []) -> exists e, enabled cfg s e.
Proof.
  intros PI Hl Hq Hr. destruct (s_rep s) eqn:R; try discriminate.
  - exists ERGet. split; [exact Logic.I|]. simpl. rewrite R. destruct (s_replq s); [exfalso; apply Hq; auto | discriminate].
  - assert (Hin : In w (pending s)) by (unfold pending, rep_wid; rewrite R; left; reflexivity).
    destruct (p_gone s PI w Hin) as (k & x & N & Hi & Hg).
    assert (Sl : slot_of (s_procs s) w = Some k) by (rewrite <- Hi; apply slot_of_complete; [apply (p_nd s PI) | exact N]).
    unfold gone, retiring in Hg. destruct (w_pc x) eqn:Pc; try discriminate.
    + destruct Hr as [Fu|Hh]; [exists (EWResult k); eapply en_resultR; eauto|].
      exfalso. pose proof (nth_error_hw_nil _ _ _ Hh N) as Hw. unfold hw in Hw. rewrite Pc in Hw. discriminate.
    + exists (EWEnd k). eapply en_end; eauto.
    + exists ERJoin. split; [exact Logic.I|]. simpl. rewrite R, Sl, N. unfold is_dead. rewrite Pc. discriminate.
  - destruct (p_rstart s PI w R) as (x & N & Hd). exists ERStart. split; [exact Logic.I|]. simpl. rewrite R, N, Hd. discriminate.
Qed.

(* work is pending (a chunk in the work queue or in a worker) inside a call, and the results queue has room:
   some worker can move, or - if every worker has retired - the replace thread can *)
Lemma workers_progress cfg s : cfg_ok cfg -> SInv cfg s -> PInv s -> in_call (s_main s) = true ->
  full (c_rq_cap cfg) (s_resq s) = false -> (s_workq s <> [] \/ held (s_procs s) <> []) -> exists e, enabled cfg s e.
Proof.
  intros Ok SI PI Hc Fu Hw.
  assert (Hx : exit_class (s_main s) = false) by (destruct (s_main s); try discriminate; reflexivity).
  assert (Hne : forall j w, nth_error (s_procs s) j = Some w -> w_pc w <> WNew).
  { pose proof (s_enter _ _ SI) as Se. destruct (s_main s); try discriminate; exact Se. }
  destruct (held (s_procs s)) as [|h0 ht] eqn:Hh.
  2: { destruct (held_worker (s_procs s)) as (k & w & i & xs & N & Pc); [rewrite Hh; discriminate|].
       eapply hold_progress; eauto. }
  assert (Q : s_workq s <> []) by (destruct Hw as [Q|Q]; [exact Q | contradiction]).
  destruct (worker_scan (s_procs s)) as [(k & w & N & Hd)|All].
  - unfold is_dead in Hd. destruct (w_pc w) eqn:Pc; try discriminate.
    + exfalso. apply (Hne k w N Pc).
    + exists (EWBegin k false). eapply en_begin; eauto.
    + exists (EWTake k). eapply en_take; eauto.
    + eapply hold_progress; eauto.
    + eapply hold_progress; eauto.
    + exists (EWEnd k). eapply en_end; eauto.
  - (* every worker is dead: each is pending replacement, and the replace thread is alive *)
    destruct Ok as (Ow & _). pose proof (s_len _ _ SI) as Hl.
    destruct (nth_error (s_procs s) 0) as [w|] eqn:N; [|apply nth_error_None in N; lia].
    assert (Hg : gone w = true) by (pose proof (All 0 w N) as D; unfold is_dead in D; unfold gone, retiring; destruct (w_pc w); try discriminate; reflexivity).
    pose proof (p_pend s PI Hx 0 w N Hg) as Hin.
    destruct (c_factory cfg) eqn:Fa.
    + assert (Hc0 : cur_class (s_main s) <> 0) by (destruct (s_main s); try discriminate; simpl; lia).
      destruct (s_replive _ _ SI Fa Hc0) as [Lv|Rd].
      * apply rep_progress; auto. intros R Hq. unfold pending, rep_wid in Hin. rewrite R, Hq in Hin. simpl in Hin. exact Hin.
      * exfalso. pose proof (s_tok _ _ SI) as St. rewrite Rd in St. destruct (s_main s); try discriminate; lia.
    + exfalso. destruct (s_nf _ _ SI Fa) as (Q1 & _ & _ & Q4). unfold pending, rep_wid in Hin. rewrite Q1, Q4 in Hin. simpl in Hin. exact Hin.
Qed.

Lemma NoDup_app_disjoint {A} (l1 l2 : list A) : NoDup (l1 ++ l2) -> forall x, In x l1 -> In x l2 -> False.
Proof.
  induction l1 as [|a l1 IH]; simpl; intros Nd x H1 H2; [contradiction|]. inversion Nd; subst. destruct H1 as [->|H1].
  - match goal with Hn : ~ In _ _ |- _ => apply Hn end. apply in_or_app. right. exact H2.
  - eapply IH; eauto.
Qed.

Lemma q_entries_nonnil q : q_entries q <> [] -> q <> [].
Proof. intros H E. subst q. apply H. reflexivity. Qed.

(* a chunk that the consumer is still waiting for, and that is neither in the results queue nor in its hands, is in the
   work queue or in a worker *)
Lemma outstanding s : CoreInv s -> FInv s -> in_call (s_main s) = true -> q_entries (s_resq s) = [] -> batch_of (s_main s) = [] ->
  (s_finished s < s_cnt s \/ (s_ordered s = true /\ s_buffer s <> [])) -> s_workq s <> [] \/ held (s_procs s) <> [].
Proof.
  intros C FI Hc Hr Hb Hout. pose proof (f_bufw s FI Hc) as Fb.
  assert (En : entries s = q_entries (s_workq s) ++ held (s_procs s) ++ s_buffer s).
  { unfold entries. rewrite Hr, Hb. reflexivity. }
  destruct (s_ordered s) eqn:O.
  - destruct (ci_pi s C) as (pi & P1 & _ & P3 & P4). specialize (P4 O). subst pi. rewrite seq_length in P3.
    assert (Nd : NoDup (seq 0 (s_wait s) ++ map fst (entries s))) by (eapply Permutation_NoDup; [symmetry; exact P1 | apply seq_NoDup]).
    assert (Hw : s_wait s < s_cnt s).
    { destruct Hout as [Hf|[_ Hbuf]]; [lia|]. destruct (s_buffer s) as [|[j x] bt] eqn:B; [contradiction|].
      assert (Hj : In j (map fst (entries s))) by (rewrite En, !map_app; apply in_or_app; right; apply in_or_app; right; left; reflexivity).
      assert (Hjc : j < s_cnt s).
      { assert (In j (seq 0 (s_cnt s))) by (eapply Permutation_in; [exact P1 | apply in_or_app; right; exact Hj]). apply in_seq in H. lia. }
      assert (Hjw : ~ In j (seq 0 (s_wait s))).
      { intros Hin. apply (NoDup_app_disjoint _ _ Nd j); auto. }
      assert (j <> s_wait s).
      { intros ->. apply buf_get_none in Fb. apply Fb. left. reflexivity. }
      assert (~ j < s_wait s) by (intros Hlt; apply Hjw; apply in_seq; lia). lia. }
    assert (Hin : In (s_wait s) (map fst (entries s))).
    { assert (H : In (s_wait s) (seq 0 (s_wait s) ++ map fst (entries s))).
      { eapply Permutation_in; [symmetry; exact P1 | apply in_seq; lia]. }
      apply in_app_or in H. destruct H as [H|H]; auto. apply in_seq in H. lia. }
    rewrite En, !map_app in Hin. apply in_app_or in Hin. destruct Hin as [Hin|Hin].
    + left. apply q_entries_nonnil. intros E. rewrite E in Hin. exact Hin.
    + apply in_app_or in Hin. destruct Hin as [Hin|Hin].
      * right. intros E. rewrite E in Hin. exact Hin.
      * exfalso. apply buf_get_none in Fb. apply Fb. exact Hin.
  - destruct Hout as [Hf|[? _]]; [|discriminate]. rewrite Fb, app_nil_r in En.
    pose proof (core_count s C) as Cc. rewrite En, app_length in Cc.
    destruct (q_entries (s_workq s)) eqn:Q1.
    + right. intros E. rewrite E in Cc. simpl in Cc. lia.
    + left. apply q_entries_nonnil. rewrite Q1. discriminate.
Qed.

(* ------------------------------------------------------------------ all invariants together *)
Record Live (cfg : config) (hist : list action) (s : state) : Prop := {
  lv_h : HInv hist s; lv_l : LInv cfg s; lv_f : FInv s; lv_s : SInv cfg s; lv_p : PInv s; lv_x : XInv s; lv_e : EInv cfg s;
}.

Lemma live_step cfg hist s e s' : cfg_ok cfg -> Live cfg hist s -> fault_free e -> step cfg s e = Some s' -> Live cfg hist s'.
Proof.
  intros Ok [Lh Ll Lf Ls Lp Lx Le] Hff H. pose proof (h_inv _ _ Lh) as IV. constructor.
  - eapply hinv_step; eauto.
  - eapply linv_step; eauto. apply cfg_ok_quota; auto.
  - eapply finv_step; eauto.
  - eapply sinv_step; eauto.
  - eapply pinv_step; eauto.
  - eapply xinv_step; eauto.
  - eapply einv_step; eauto.
Qed.

Lemma live_init cfg hist : cfg_ok cfg -> Forall action_ok hist -> Live cfg hist (init cfg hist).
Proof.
  intros (Ow & _) Hh.
  assert (Nth : forall j w, nth_error (map (new_worker cfg) (seq 0 (c_workers cfg))) j = Some w -> w = new_worker cfg j /\ j < c_workers cfg).
  { intros j w H. rewrite nth_error_map in H. destruct (nth_error (seq 0 (c_workers cfg)) j) as [i|] eqn:E; [|discriminate].
    injection H as <-. assert (j < length (seq 0 (c_workers cfg))) by (apply nth_error_Some; congruence). rewrite seq_length in H.
    rewrite (nth_error_nth' _ 0) in E by (rewrite seq_length; auto). rewrite seq_nth in E by auto. injection E as <-. auto. }
  constructor.
  - apply hinv_init; auto.
  - apply linv_init.
  - constructor; simpl; try discriminate; auto.
  - constructor; simpl; try discriminate; auto.
    + rewrite map_length, seq_length. reflexivity.
    + rewrite map_length, seq_length. split; auto. intros j w H. destruct (Nth j w H) as [-> _]. simpl. split; auto. lia.
    + intros j w H _. destruct (Nth j w H) as [-> _]. auto.
    + intros _. repeat split; auto. intros j w i xs H. destruct (Nth j w H) as [-> _]. discriminate.
  - assert (Ids : map w_id (map (new_worker cfg) (seq 0 (c_workers cfg))) = seq 0 (c_workers cfg)).
    { rewrite map_map. simpl. apply map_id. }
    constructor; simpl; unfold pending, rep_wid; simpl; try discriminate; auto.
    + intros j w H. destruct (Nth j w H) as [-> Hj]. exact Hj.
    + rewrite Ids. apply seq_NoDup.
    + constructor.
    + intros wid [].
    + intros _ k w H Hg. destruct (Nth k w H) as [-> _]. discriminate.
  - constructor; simpl; auto.
  - constructor; simpl; try discriminate; auto.
Qed.

Theorem live_run cfg hist sched : cfg_ok cfg -> Forall action_ok hist -> fault_free_sched sched ->
  Live cfg hist (run cfg (init cfg hist) sched).
Proof.
  intros Ok Hh Hs. unfold run.
  assert (G : forall sched s, Live cfg hist s -> Forall fault_free sched ->
     Live cfg hist (fold_left (fun s e => match step cfg s e with Some s' => s' | None => s end) sched s)).
  { clear sched Hs. induction sched as [|e r IH]; intros s I F; simpl; [exact I|]. inversion F; subst. apply IH; [|assumption].
    destruct (step cfg s e) as [s'|] eqn:E; [eapply live_step; eauto | exact I]. }
  apply G; [apply live_init; auto | exact Hs].
Qed.

(* ------------------------------------------------------------------ deadlock freedom *)
(* leaving the pool puts one stop order per worker slot; with a bounded work queue that works because every slot holds a
   worker that will take one: a worker that retired has announced it before delivering its last result, the notice is in
   front of the replace thread's stop token, so the replace thread has replaced it before the call ended (XInv, EInv) *)
Lemma consumers_ge1 ps k w : nth_error ps k = Some w -> consumer w = true -> 1 <= consumers ps.
Proof.
  unfold consumers. revert k; induction ps as [|p ps IH]; intros [|k] H C; simpl in *; try discriminate.
  - injection H as ->. unfold cons1 at 1. rewrite C. lia.
  - specialize (IH k H C). lia.
Qed.

Theorem deadlock_free cfg hist s : cfg_ok cfg -> Live cfg hist s -> s_main s <> MDone -> exists e, enabled cfg s e.
Proof.
  intros Ok [Lh Ll Lf Ls Lp Lx Le] Hnd. pose proof (h_inv _ _ Lh) as IV. pose proof Ok as (Ow & Owq & Orq & Oq).
  assert (Hne : (forall k, s_main s <> MEnter k) -> forall j w, nth_error (s_procs s) j = Some w -> w_pc w <> WNew).
  { intros Hm. pose proof (s_enter _ _ Ls) as Se. destruct (s_main s) eqn:M; try exact Se. exfalso. eapply Hm; eauto. }
  assert (NoHold : in_call (s_main s) = false -> forall j w i xs, nth_error (s_procs s) j = Some w -> w_pc w = WHold i xs -> False).
  { intros Hc j w i xs N Pc. pose proof (i_call s IV) as Ic. rewrite Hc in Ic. apply entries_nil_parts in Ic.
    destruct Ic as (_ & Hh & _). pose proof (nth_error_hw_nil _ _ _ Hh N) as Hw. unfold hw in Hw. rewrite Pc in Hw. discriminate. }
  assert (HeldNil : in_call (s_main s) = false -> held (s_procs s) = []).
  { intros Hc. pose proof (i_call s IV) as Ic. rewrite Hc in Ic. apply entries_nil_parts in Ic. destruct Ic as (_ & Hh & _). exact Hh. }
  destruct (s_main s) eqn:M.
  - (* MEnter *)
    pose proof (s_enter _ _ Ls) as Se. rewrite M in Se. destruct Se as [Hk Se].
    destruct (nth_error (s_procs s) k) as [w|] eqn:N; [|apply nth_error_None in N; lia].
    assert (Pc : w_pc w = WNew) by (apply (Se k w N); lia).
    exists EStartW. split; [exact Logic.I|]. simpl. rewrite M, N, Pc. discriminate.
  - (* MIdle *)
    destruct (s_todo s) as [|[o d c|] rest] eqn:T.
    + exists ENext. split; [exact Logic.I|]. simpl. rewrite M, T. discriminate.
    + exists ENext. split; [exact Logic.I|]. simpl. rewrite M, T. destruct (c_factory cfg); discriminate.
    + destruct (forallb w_ready (s_procs s)) eqn:F.
      * exists EReady. split; [exact Logic.I|]. simpl. rewrite M, T, F. discriminate.
      * assert (Hex : exists w, In w (s_procs s) /\ w_ready w = false).
        { clear -F. induction (s_procs s) as [|p ps IH]; simpl in F; [discriminate|]. destruct (w_ready p) eqn:R.
          - destruct (IH F) as (w & Hw & Hr). exists w. split; auto. right. exact Hw.
          - exists p. split; auto. left. reflexivity. }
        destruct Hex as (w & Hin & Hr). apply In_nth_error in Hin. destruct Hin as (k & N).
        destruct (s_ready _ _ Ls k w N Hr) as [Pc|Pc].
        -- exfalso. eapply Hne; eauto. intros k0; discriminate.
        -- exists (EWBegin k false). eapply en_begin; eauto.
  - exists ECallInit. split; [exact Logic.I|]. simpl. rewrite M. discriminate.
  - exists ECheck. split; [exact Logic.I|]. simpl. rewrite M. destruct (s_sending s || (s_finished s <? s_cnt s)); discriminate.
  - (* MFetch *)
    destruct (s_resq s) as [|it q] eqn:R.
    2: { exists EGet. split; [exact Logic.I|]. simpl. rewrite M, R. discriminate. }
    assert (Proc : batch <> [] \/ woken = true -> exists e, enabled cfg s e).
    { intros Hb. exists EProcess. split; [exact Logic.I|]. simpl. rewrite M.
      destruct batch as [|b0 bt]; destruct woken; try (destruct Hb as [Hb|Hb]; [contradiction | discriminate]);
        destruct (s_ordered s); try discriminate;
        match goal with |- context [fold_left ?f ?l ?a] => destruct (fold_left f l a) as [[[[? ?] ?] ?] ?] end; discriminate. }
    destruct batch as [|b0 bt]; [|apply Proc; left; discriminate]. destruct woken; [apply Proc; right; reflexivity|].
    clear Proc. pose proof (i_call s IV) as C. rewrite M in C. simpl in C.
    assert (Hc : in_call (s_main s) = true) by (rewrite M; reflexivity).
    assert (Fu : full (c_rq_cap cfg) (s_resq s) = false).
    { rewrite R. unfold full. destruct (c_rq_cap cfg) as [c|] eqn:Cr; auto. specialize (Orq c eq_refl). apply Nat.leb_gt. simpl. lia. }
    assert (Work : s_workq s <> [] \/ held (s_procs s) <> [] -> exists e, enabled cfg s e).
    { intros Hw. eapply workers_progress; eauto. }
    assert (Out : s_finished s < s_cnt s \/ (s_ordered s = true /\ s_buffer s <> []) -> exists e, enabled cfg s e).
    { intros Ho. apply Work. apply outstanding; auto; rewrite ?R, ?M; reflexivity. }
    pose proof (ci_feeder s C) as Cf.
    destruct (s_feeder s) as [|i rest|i rest| |] eqn:Fe.
    + contradiction.
    + destruct rest as [|x rest].
      * exists EFClear. split; [exact Logic.I|]. simpl. rewrite Fe, M. discriminate.
      * destruct (full (c_wq_cap cfg) (s_workq s)) eqn:Fw.
        -- apply Work. left. unfold full in Fw. destruct (c_wq_cap cfg) as [c|] eqn:Cw; [|discriminate].
           specialize (Owq c eq_refl). apply Nat.leb_le in Fw. intros E. rewrite E in Fw. simpl in Fw. lia.
        -- exists EFPut. split; [exact Logic.I|]. simpl. rewrite Fe, M, Fw. discriminate.
    + destruct (s_run_ev s) eqn:Re.
      * exists EFWake. split; [exact Logic.I|]. simpl. rewrite Fe, Re. discriminate.
      * apply Out. right. apply (f_flow s Lf Re). rewrite M. discriminate.
    + exists EFTok. split; [exact Logic.I|]. simpl. rewrite Fe. discriminate.
    + destruct (f_fetch s Lf M) as [H|[H|H]]; [rewrite R in H; contradiction | rewrite Fe in H; contradiction | apply Out; left; exact H].
  - exists EFlow. split; [exact Logic.I|]. simpl. rewrite M. discriminate.
  - exists EStopF. split; [exact Logic.I|]. simpl. rewrite M. discriminate.
  - (* MJoinF *)
    pose proof (i_call s IV) as C. rewrite M in C. simpl in C. pose proof (ci_feeder s C) as Cf. pose proof (ci_exit s C) as Cx.
    rewrite M in Cx. destruct Cx as [_ Hs].
    destruct (s_feeder s) eqn:Fe; try contradiction; try (destruct Cf as (_ & _ & Cf); congruence).
    + exists EFTok. split; [exact Logic.I|]. simpl. rewrite Fe. discriminate.
    + exists EJoinF. split; [exact Logic.I|]. simpl. rewrite M, Fe. destruct (c_factory cfg); discriminate.
  - exists ERepPut. split; [exact Logic.I|]. simpl. rewrite M. discriminate.
  - (* MRepJoin *)
    destruct (s_rep s) eqn:R; try (exists ERepJoin; split; [exact Logic.I|]; simpl; rewrite M, R; discriminate).
    all: assert (Fa : c_factory cfg = true) by (destruct (c_factory cfg) eqn:Fa; auto; destruct (s_nf _ _ Ls Fa) as (_ & _ & Q & _); rewrite M in Q; discriminate).
    all: pose proof (s_tok _ _ Ls) as St; rewrite M, R in St.
    all: try (destruct (s_replive _ _ Ls Fa) as [Lv|Rd]; [rewrite M; discriminate | rewrite R in Lv; discriminate | congruence]).
    all: apply rep_progress; auto; try (rewrite R; reflexivity); try (right; apply HeldNil; reflexivity).
    all: intros _ Hq; rewrite Hq in St; unfold nones in St; simpl in St; lia.
  - (* MExitPut *)
    pose proof (e_put _ _ Le n M) as Hn.
    destruct n as [|n]; [lia|].
    destruct (full (c_wq_cap cfg) (s_workq s)) eqn:Fw.
    2: { exists EExitPut. split; [exact Logic.I|]. simpl. rewrite M, Fw. discriminate. }
    unfold full in Fw. destruct (c_wq_cap cfg) as [c|] eqn:Cw; [|discriminate]. apply Nat.leb_le in Fw. specialize (Owq c eq_refl).
    pose proof (e_le _ _ Le) as El. pose proof (e_suff _ _ Le) as Es. pose proof (e_exact _ _ Le) as Ee. rewrite M in El, Es, Ee. simpl in El, Es, Ee.
    specialize (El eq_refl). specialize (Es eq_refl). pose proof (s_len _ _ Ls) as Hl.
    specialize (Ee eq_refl).
    destruct (consumers_pos (s_procs s)) as (k & w & N & Hcw); [lia|].
    assert (Q : s_workq s <> []) by (intros E; rewrite E in Fw; simpl in Fw; lia).
    unfold consumer in Hcw. destruct (w_pc w) eqn:Pc; try discriminate.
    + exfalso. eapply Hne; eauto. intros k0; discriminate.
    + exists (EWBegin k false). eapply en_begin; eauto.
    + exists (EWTake k). eapply en_take; eauto.
    + exfalso. eapply NoHold; eauto; reflexivity.
  - (* MExitJoin *)
    destruct (nth_error (s_procs s) k) as [w|] eqn:N.
    2: { exists EExitJoin. split; [exact Logic.I|]. simpl. rewrite M, N. discriminate. }
    pose proof (e_suff _ _ Le) as Es. rewrite M in Es. simpl in Es. specialize (Es eq_refl).
    destruct (w_pc w) eqn:Pc.
    + exfalso. eapply Hne; eauto. intros k0; discriminate.
    + exists (EWBegin k false). eapply en_begin; eauto.
    + exists (EWTake k). eapply en_take; eauto. assert (1 <= consumers (s_procs s)) by (eapply consumers_ge1; eauto; unfold consumer; rewrite Pc; reflexivity).
      intros E. rewrite E in Es. simpl in Es. lia.
    + exfalso. eapply NoHold; eauto; reflexivity.
    + exfalso. specialize (HeldNil eq_refl). pose proof (nth_error_hw_nil _ _ _ HeldNil N) as Hw. unfold hw in Hw. rewrite Pc in Hw. discriminate.
    + exists (EWEnd k). eapply en_end; eauto.
    + exists EExitJoin. split; [exact Logic.I|]. simpl. rewrite M, N. unfold is_dead. rewrite Pc. destruct (S k <? length (s_procs s)); discriminate.
  - contradiction.
Qed.

(* ------------------------------------------------------------------ termination *)
(* an (adversarial) scheduler is any function that picks the next event; it is only required to pick an enabled event
   when there is one *)
Fixpoint drive (cfg : config) (pick : state -> event) (n : nat) (s : state) : state :=
  match n with
  | O => s
  | S n' => match step cfg s (pick s) with Some s' => drive cfg pick n' s' | None => s end
  end.

Lemma live_chunk cfg hist s : Live cfg hist s -> in_call (s_main s) = true -> 1 <= s_chunk s.
Proof.
  intros L Hc. pose proof (i_call s (h_inv _ _ (lv_h _ _ _ L))) as Ic. rewrite Hc in Ic. apply (ci_chunk s Ic).
Qed.

Theorem pool_terminates cfg hist pick : cfg_ok cfg -> Forall action_ok hist ->
  (forall s, fault_free (pick s)) ->
  (forall s, (exists e, enabled cfg s e) -> step cfg s (pick s) <> None) ->
  s_main (drive cfg pick (mu (init cfg hist)) (init cfg hist)) = MDone.
Proof.
  intros Ok Hh Pf Pe.
  assert (G : forall n s, Live cfg hist s -> mu s <= n -> s_main (drive cfg pick n s) = MDone).
  { induction n as [|n IH]; intros s L Hm; simpl.
    - destruct (s_main s) eqn:M; auto; exfalso;
        (destruct (deadlock_free cfg hist s Ok L) as (e & _ & He); [rewrite M; discriminate|]);
        (destruct (step cfg s e) as [s'|] eqn:E; [|contradiction]);
        pose proof (mu_step cfg s e s' (live_chunk _ _ _ L) E); lia.
    - destruct (step cfg s (pick s)) as [s'|] eqn:E.
      + apply IH; [eapply live_step; eauto|]. pose proof (mu_step cfg s (pick s) s' (live_chunk _ _ _ L) E). lia.
      + destruct (s_main s) eqn:M; auto; exfalso; apply (Pe s); auto; apply (deadlock_free cfg hist s Ok L); rewrite M; discriminate. }
  apply G; [apply live_init; auto | lia].
Qed.

(* the number of steps any fault-free schedule can make is bounded by the initial measure *)
Fixpoint effective (cfg : config) (s : state) (sched : list event) : nat :=
  match sched with
  | [] => 0
  | e :: r => match step cfg s e with Some s' => S (effective cfg s' r) | None => effective cfg s r end
  end.
Theorem steps_bounded cfg hist sched : cfg_ok cfg -> Forall action_ok hist -> fault_free_sched sched ->
  effective cfg (init cfg hist) sched + mu (run cfg (init cfg hist) sched) <= mu (init cfg hist).
Proof.
  intros Ok Hh Hs. unfold run.
  assert (G : forall sched s, Live cfg hist s -> Forall fault_free sched ->
     effective cfg s sched + mu (fold_left (fun s e => match step cfg s e with Some s' => s' | None => s end) sched s) <= mu s).
  { clear sched Hs. induction sched as [|e r IH]; intros s L F; simpl; [lia|]. inversion F; subst.
    destruct (step cfg s e) as [s'|] eqn:E.
    - pose proof (mu_step cfg s e s' (live_chunk _ _ _ L) E). assert (L' : Live cfg hist s') by (eapply live_step; eauto).
      specialize (IH s' L' H2). lia.
    - apply IH; auto. }
  apply G; [apply live_init; auto | exact Hs].
Qed.

(* every call of the history terminates with its results, i.e. the run reaches the point where the pool context is being
   left, whatever the scheduler does *)
Theorem calls_terminate cfg hist pick : cfg_ok cfg -> Forall action_ok hist ->
  (forall s, fault_free (pick s)) ->
  (forall s, (exists e, enabled cfg s e) -> step cfg s (pick s) <> None) ->
  let s := drive cfg pick (mu (init cfg hist)) (init cfg hist) in
  exit_class (s_main s) = true /\ Forall2 result_ok (calls_of hist) (s_done_calls s).
Proof.
  intros Ok Hh Pf Pe.
  assert (G : forall n s, Live cfg hist s -> mu s <= n ->
             exit_class (s_main (drive cfg pick n s)) = true /\ Live cfg hist (drive cfg pick n s)).
  { induction n as [|n IH]; intros s L Hm; simpl.
    - split; auto. destruct (exit_class (s_main s)) eqn:X; auto. exfalso.
      destruct (deadlock_free cfg hist s Ok L) as (e & _ & He); [intros M; rewrite M in X; discriminate|].
      destruct (step cfg s e) as [s'|] eqn:E; [|contradiction].
      pose proof (mu_step cfg s e s' (live_chunk _ _ _ L) E). lia.
    - destruct (step cfg s (pick s)) as [s'|] eqn:E.
      + apply IH; [eapply live_step; eauto|]. pose proof (mu_step cfg s (pick s) s' (live_chunk _ _ _ L) E). lia.
      + split; auto. destruct (exit_class (s_main s)) eqn:X; auto. exfalso. apply (Pe s); auto. apply (deadlock_free cfg hist s Ok L). intros M; rewrite M in X; discriminate. }
  intros s. destruct (G (mu (init cfg hist)) (init cfg hist)) as [X L]; [apply live_init; auto | lia |]. fold s in X, L.
  split; auto. destruct (lv_h _ _ _ L) as [_ (done & Hsplit & Hdone) _ Hx].
  rewrite (Hx X) in Hsplit. unfold cur_call in Hsplit.
  assert (C0 : cur_class (s_main s) = 0) by (destruct (s_main s); try discriminate; reflexivity).
  rewrite C0 in Hsplit. simpl in Hsplit. rewrite app_nil_r in Hsplit. rewrite Hsplit. exact Hdone.
Qed.

(* ------------------------------------------------------------------ such schedulers exist: first enabled event of a fixed list *)
Definition is_enabled (cfg : config) (s : state) (e : event) : bool := match step cfg s e with Some _ => true | None => false end.
Definition pick_first (cfg : config) (s : state) : event :=
  match find (is_enabled cfg s) (all_events (length (s_procs s))) with Some e => e | None => EStartW end.

Lemma all_events_fault_free n : Forall fault_free (all_events n).
Proof.
  unfold all_events. apply Forall_app. split; [repeat constructor|].
  apply Forall_flat_map. apply Forall_forall. intros k _. repeat constructor.
Qed.
Lemma pick_first_fault_free cfg s : fault_free (pick_first cfg s).
Proof.
  unfold pick_first. destruct (find _ _) as [e|] eqn:F; [|exact Logic.I].
  apply find_some in F. destruct F as [Hin _]. pose proof (all_events_fault_free (length (s_procs s))) as A.
  rewrite Forall_forall in A. auto.
Qed.
Lemma enabled_in_all cfg s e : enabled cfg s e -> In e (all_events (length (s_procs s))).
Proof.
  intros [Hff He]. unfold all_events.
  assert (Slot : forall k kind r, slot_step cfg s k kind r <> None -> k < length (s_procs s)).
  { intros k kind r H. unfold slot_step in H. destruct (nth_error (s_procs s) k) eqn:N; [|contradiction]. apply nth_error_Some. congruence. }
  destruct e; try (apply in_or_app; left; simpl; tauto); try contradiction; apply in_or_app; right; apply in_flat_map;
    exists slot; (split; [apply in_seq; simpl in He; apply Slot in He; lia|]); simpl; auto;
    try (destruct raises; [contradiction | auto]); tauto.
Qed.
Lemma pick_first_enabled cfg s : (exists e, enabled cfg s e) -> step cfg s (pick_first cfg s) <> None.
Proof.
  intros (e & He). unfold pick_first.
  destruct (find (is_enabled cfg s) (all_events (length (s_procs s)))) as [e'|] eqn:F.
  - apply find_some in F. destruct F as [_ F]. unfold is_enabled in F. destruct (step cfg s e'); [discriminate | discriminate].
  - exfalso. pose proof (find_none _ _ F e (enabled_in_all _ _ _ He)) as H. destruct He as [_ He]. unfold is_enabled in H.
    destruct (step cfg s e); [discriminate | contradiction].
Qed.
