(* Proofs about Model/TmpPool.v (property C20). *)
From Coq Require Import ZArith List Bool Arith Lia.
From WPU Require Import Common.Val Model.TmpPool.
Import ListNotations.
Open Scope nat_scope.

(* the operations a pool user performs as a whole (a split remove is its two halves run by the same call) *)
Definition atomic (op : top) : Prop := match op with TRmFs _ | TRmList _ => False | _ => True end.

(* one shared list: the repaired flush never rebinds it, so every process' reference stays the initial one *)
Record TInv (st : tpool) : Prop := {
  ti_store : exists l, tp_store st = [l];
  ti_refs : Forall (fun r => r = 0) (tp_refs st);
  ti_fs_nodup : NoDup (tp_fs st);
  ti_incl : forall p, In p (tp_fs st) -> In p (nth 0 (tp_store st) []);     (* every existing pool file is listed *)
  ti_list_nodup : NoDup (nth 0 (tp_store st) []);
  ti_fresh : forall p, In p (nth 0 (tp_store st) []) -> p < tp_next st;
}.

Lemma refs_zero st pid : Forall (fun r => r = 0) (tp_refs st) -> nth pid (tp_refs st) 0 = 0.
Proof.
  intros H. destruct (Nat.lt_ge_cases pid (length (tp_refs st))) as [L|L]; [|apply nth_overflow; exact L].
  rewrite Forall_forall in H. apply H. apply nth_In. exact L.
Qed.
Lemma cur_list_shared st pid : TInv st -> cur_list st pid = nth 0 (tp_store st) [].
Proof. intros I. unfold cur_list. rewrite (refs_zero st pid (ti_refs st I)). reflexivity. Qed.

Lemma remove1_in p l x : In x (remove1 p l) -> In x l.
Proof.
  unfold remove1. induction l as [|y t IH]; simpl; [tauto|]. destruct (y =? p); [intros H; right; exact H|].
  intros [<-|H]; [left; reflexivity | right; apply IH; exact H].
Qed.
Lemma remove1_nodup p l : NoDup l -> NoDup (remove1 p l).
Proof.
  unfold remove1. induction l as [|y t IH]; intros H; simpl; [constructor|]. inversion H; subst.
  destruct (y =? p); [assumption|]. constructor; [|apply IH; assumption].
  intros Hin. apply H2. apply (remove1_in p t y). exact Hin.
Qed.
Lemma remove1_notin p l : NoDup l -> ~ In p (remove1 p l).
Proof.
  unfold remove1. induction l as [|y t IH]; intros H; simpl; [tauto|]. inversion H; subst.
  destruct (y =? p) eqn:E; [apply Nat.eqb_eq in E; subst; assumption|].
  intros [->|Hin]; [apply Nat.eqb_neq in E; congruence | apply IH; assumption].
Qed.
Lemma remove1_other p l x : x <> p -> In x l -> In x (remove1 p l).
Proof.
  unfold remove1. induction l as [|y t IH]; simpl; intros Hne H; [tauto|]. destruct (y =? p) eqn:E.
  - apply Nat.eqb_eq in E. destruct H as [->|H]; [congruence | exact H].
  - destruct H as [->|H]; [left; reflexivity | right; apply IH; assumption].
Qed.

Lemma with_list_store st pid v : TInv st -> tp_store (with_list st pid v) = [v].
Proof.
  intros I. unfold with_list. simpl. rewrite (refs_zero st pid (ti_refs st I)).
  destruct (ti_store st I) as (l & ->). reflexivity.
Qed.

(* C20: every whole operation (also an external deletion of a pool file, also by any forked process) keeps:
   one shared listing, no file listed twice, every existing pool file listed *)
Theorem tinv_step st pid op : TInv st -> atomic op -> TInv (fst (tp_step true st pid op)).
Proof.
  intros I Hat. pose proof I as [(l & Hs) Hr Hn Hi Hl Hf]. pose proof (cur_list_shared st pid I) as Hc.
  rewrite Hs in *. simpl in Hi, Hl, Hf, Hc.
  destruct op; simpl in Hat; try contradiction; simpl.
  - (* create *)
    set (st1 := mkTP (tp_next st :: tp_fs st) (tp_store st) (tp_refs st) (S (tp_next st))).
    assert (I1 : cur_list st1 pid = l) by (unfold cur_list, st1; simpl; rewrite (refs_zero st pid Hr), Hs; reflexivity).
    rewrite I1. unfold with_list, st1. simpl. rewrite (refs_zero st pid Hr), Hs. simpl.
    constructor; simpl; eauto.
    + constructor; [|exact Hn]. intros H. apply Hi in H. apply Hf in H. lia.
    + intros p [<-|H]; [apply in_or_app; right; left; reflexivity | apply in_or_app; left; apply Hi; exact H].
    + apply NoDup_rev in Hl. rewrite <- (rev_involutive (l ++ _)). apply NoDup_rev. rewrite rev_app_distr. simpl.
      constructor; [|exact Hl]. rewrite <- in_rev. intros H. apply Hf in H. lia.
    + intros p H. apply in_app_or in H. destruct H as [H|[<-|[]]]; [apply Hf in H; lia | lia].
  - (* remove *)
    set (st1 := mkTP (remove1 p (tp_fs st)) (tp_store st) (tp_refs st) (tp_next st)).
    assert (I1 : cur_list st1 pid = l) by (unfold cur_list, st1; simpl; rewrite (refs_zero st pid Hr), Hs; reflexivity).
    rewrite I1. destruct (mem p l) eqn:M; simpl.
    + unfold with_list, st1. simpl. rewrite (refs_zero st pid Hr), Hs. simpl.
      constructor; simpl; eauto.
      * apply remove1_nodup; exact Hn.
      * intros x Hx. assert (x <> p) by (intros ->; apply (remove1_notin p (tp_fs st) Hn); exact Hx).
        apply remove1_other; [assumption|]. apply Hi. eapply remove1_in; exact Hx.
      * apply remove1_nodup; exact Hl.
      * intros x Hx. apply Hf. eapply remove1_in; exact Hx.
    + unfold st1. constructor; simpl; rewrite ?Hs; simpl; eauto.
      * apply remove1_nodup; exact Hn.
      * intros x Hx. apply Hi. eapply remove1_in; exact Hx.
  - (* flush *)
    rewrite Hc. unfold with_list. simpl. rewrite (refs_zero st pid Hr), Hs. simpl.
    constructor; simpl; eauto.
    + apply NoDup_filter; exact Hn.
    + intros x Hx. apply filter_In in Hx. destruct Hx as [Hx Hm]. apply Hi in Hx.
      assert (mem x l = true) by (unfold mem; apply existsb_exists; exists x; split; [exact Hx | apply Nat.eqb_refl]).
      rewrite H in Hm. discriminate.
    + constructor.
    + intros x [].
  - (* external deletion *)
    constructor; simpl; rewrite ?Hs; simpl; eauto.
    + apply remove1_nodup; exact Hn.
    + intros x Hx. apply Hi. eapply remove1_in; exact Hx.
  - (* fork *)
    constructor; simpl; rewrite ?Hs; simpl; eauto.
    apply Forall_app. split; [exact Hr|]. constructor; [apply refs_zero; exact Hr | constructor].
  - exact I.
  - exact I.
Qed.

Lemma tinv_init : TInv tp_init.
Proof. constructor; simpl; eauto; try constructor; try (intros p []). Qed.

Theorem tinv_run ops : forall st, TInv st -> Forall (fun o => atomic (snd o)) ops -> TInv (fst (tp_run true st ops)).
Proof.
  induction ops as [|[pid op] r IH]; intros st I H; simpl; [exact I|]. inversion H; subst.
  pose proof (tinv_step st pid op I H2) as I1. destruct (tp_step true st pid op) as [st1 o]. simpl in *.
  specialize (IH st1 I1 H3). destruct (tp_run true st1 r). exact IH.
Qed.

(* C20: create returns a fresh, existing, listed path - distinct from every path handed out before *)
Theorem create_fresh st pid : TInv st ->
  let r := tp_step true st pid TCreate in
  snd r = TPath (tp_next st) /\ In (tp_next st) (tp_fs (fst r)) /\ In (tp_next st) (cur_list (fst r) pid)
  /\ ~ In (tp_next st) (tp_fs st) /\ tp_next (fst r) = S (tp_next st).
Proof.
  intros I. pose proof I as [(l & Hs) Hr Hn Hi Hl Hf]. simpl. repeat split.
  - unfold with_list. simpl. left; reflexivity.
  - unfold cur_list, with_list. simpl. rewrite (refs_zero st pid Hr), Hs. simpl. apply in_or_app; right; left; reflexivity.
  - intros H. apply Hi in H. apply Hf in H. lia.
Qed.

(* C20: leaving the context (= flush, by whichever process, after ANY history of whole operations by any number of
   forked processes, normally or through an exception at any point - the cut point is just where the history ends):
   no pool file exists any more and the listing is empty *)
Theorem exit_cleans ops pid : Forall (fun o => atomic (snd o)) ops ->
  let st := fst (tp_run true tp_init ops) in
  tp_fs (fst (tp_step true st pid TFlush)) = [] /\ cur_list (fst (tp_step true st pid TFlush)) pid = [].
Proof.
  intros H st. pose proof (tinv_run ops tp_init tinv_init H) as I. fold st in I.
  pose proof I as [(l & Hs) Hr Hn Hi Hl Hf]. pose proof (cur_list_shared st pid I) as Hc. simpl.
  rewrite Hc, Hs. simpl. split.
  - rewrite Hs in Hi. simpl in Hi. clear -Hi. induction (tp_fs st) as [|x t IH]; simpl; [reflexivity|].
    assert (mem x l = true) by (unfold mem; apply existsb_exists; exists x; split; [apply Hi; left; reflexivity | apply Nat.eqb_refl]).
    rewrite H. simpl. apply IH. intros p Hp. apply Hi. right; exact Hp.
  - unfold cur_list, with_list. simpl. rewrite (refs_zero st pid Hr). reflexivity.
Qed.

(* C20: as long as nobody else deletes pool files, the pool lists exactly the files that exist *)
Definition no_ext (op : top) : Prop := match op with TExtDelete _ | TRmFs _ | TRmList _ => False | _ => True end.
Record TInv2 (st : tpool) : Prop := { t2_inv : TInv st; t2_listed_exist : forall p, In p (nth 0 (tp_store st) []) -> In p (tp_fs st) }.

Theorem listing_step st pid op : TInv2 st -> no_ext op -> TInv2 (fst (tp_step true st pid op)).
Proof.
  intros [I E] Hne. assert (Hat : atomic op) by (destruct op; simpl in *; auto).
  split; [apply tinv_step; assumption|].
  pose proof I as [(l & Hs) Hr Hn Hi Hl Hf]. pose proof (cur_list_shared st pid I) as Hc. rewrite Hs in *. simpl in *.
  destruct op; simpl in Hne; try contradiction; simpl.
  - unfold cur_list, with_list. simpl. rewrite (refs_zero st pid Hr), Hs. simpl.
    intros p H. apply in_app_or in H. destruct H as [H|[<-|[]]]; [right; apply E; exact H | left; reflexivity].
  - set (st1 := mkTP (remove1 p (tp_fs st)) (tp_store st) (tp_refs st) (tp_next st)).
    assert (I1 : cur_list st1 pid = l) by (unfold cur_list, st1; simpl; rewrite (refs_zero st pid Hr), Hs; reflexivity).
    rewrite I1. destruct (mem p l) eqn:M; simpl.
    + unfold with_list, st1. simpl. rewrite (refs_zero st pid Hr), Hs. simpl. intros x Hx.
      assert (x <> p) by (intros ->; apply (remove1_notin p l Hl); exact Hx).
      apply remove1_other; [assumption|]. apply E. eapply remove1_in; exact Hx.
    + rewrite Hs. simpl. intros x Hx. assert (x <> p).
      { intros ->. unfold mem in M. assert (existsb (Nat.eqb p) l = true); [|congruence].
        apply existsb_exists. exists p. split; [exact Hx | apply Nat.eqb_refl]. }
      apply remove1_other; [assumption | apply E; exact Hx].
  - rewrite Hc. unfold with_list. simpl. rewrite (refs_zero st pid Hr), Hs. simpl. intros x [].
  - rewrite Hs. simpl. exact E.
  - rewrite Hs. simpl. exact E.
  - rewrite Hs. simpl. exact E.
Qed.

Theorem listing_inv ops : Forall (fun o => no_ext (snd o)) ops ->
  let st := fst (tp_run true tp_init ops) in
  forall pid p, In p (cur_list st pid) <-> In p (tp_fs st).
Proof.
  intros H st.
  assert (G : forall ops st0, TInv2 st0 -> Forall (fun o => no_ext (snd o)) ops -> TInv2 (fst (tp_run true st0 ops))).
  { clear. induction ops as [|[pid op] r IH]; intros st0 I H; simpl; [exact I|]. inversion H; subst.
    pose proof (listing_step st0 pid op I H2) as I1. destruct (tp_step true st0 pid op) as [st1 o]. simpl in *.
    specialize (IH st1 I1 H3). destruct (tp_run true st1 r). exact IH. }
  assert (I0 : TInv2 tp_init) by (split; [apply tinv_init | intros p []]).
  destruct (G ops tp_init I0 H) as [I E]. fold st in I, E. intros pid p.
  rewrite (cur_list_shared st pid I). split; [apply E | apply (ti_incl st I)].
Qed.

(* FilePool: every handle is closed after leaving the context, whatever the body did to individual handles *)
Theorem filepool_exit_closes hs : Forall (fun c => c = true) (fp_exit hs) /\ length (fp_exit hs) = length hs.
Proof. unfold fp_exit. split; [apply Forall_forall; intros c Hc; apply in_map_iff in Hc; destruct Hc as (? & <- & _); reflexivity | apply map_length]. Qed.
Theorem filepool_open_all n : Forall (fun c => c = false) (fp_open n) /\ length (fp_open n) = n.
Proof. unfold fp_open. split; [apply Forall_forall; intros c Hc; apply repeat_spec in Hc; exact Hc | apply repeat_length]. Qed.

(* a pool one of whose paths cannot be opened leaves no handle open, however many were opened before the failure *)
Theorem filepool_failing_open_leaks_nothing k :
  count_open (fp_open_failing k) = 0 /\ length (fp_open_failing k) = k.
Proof.
  unfold count_open, fp_open_failing, fp_exit, fp_open. rewrite map_length, repeat_length. split; [|reflexivity].
  induction k as [|k IH]; simpl; [reflexivity | exact IH].
Qed.
(* and in general: after leaving, count_open is 0 whatever the body did *)
Theorem filepool_exit_none_open hs : count_open (fp_exit hs) = 0.
Proof. unfold count_open, fp_exit. induction hs as [|h t IH]; simpl; [reflexivity | exact IH]. Qed.

(* History: the original flush bound a NEW list; a forked child kept the old one and its later file survived the context *)
Theorem orig_flush_leaks :
  let ops := [(0, TCreate); (0, TFork); (0, TFlush); (1, TCreate); (0, TFlush)] in
  tp_fs (fst (tp_run false tp_init ops)) = [1] /\ tp_fs (fst (tp_run true tp_init ops)) = [].
Proof. vm_compute. split; reflexivity. Qed.
