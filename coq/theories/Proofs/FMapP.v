(* Proofs about Model/FMap.v (property C05): FunctorMap and mul_p_map return map(f, data) in input order, for every
   configuration, history of calls and schedule; they terminate. *)
From Coq Require Import ZArith List Bool Arith Lia Permutation Sorted.
From WPU Require Import Common.Val Common.ListX Common.Perm Model.Pool Model.FMap Proofs.GenericP Proofs.PoolP Proofs.PoolLifeP Proofs.PoolLiveP.
Import ListNotations.
Open Scope nat_scope.

(* ------------------------------------------------------------------ sorting by index *)
Lemma ins_perm e l : Permutation (ins_by_idx e l) (e :: l).
Proof.
  induction l as [|h t IH]; simpl; auto. destruct (fst e <? fst h); auto. rewrite IH. apply perm_swap.
Qed.
Lemma sort_perm_gen l : forall acc, Permutation (fold_left (fun a e => ins_by_idx e a) l acc) (acc ++ l).
Proof.
  induction l as [|e l IH]; intros acc; simpl; [rewrite app_nil_r; reflexivity|].
  rewrite IH. rewrite ins_perm. change (e :: acc ++ l) with ((e :: acc) ++ l). rewrite <- Permutation_middle. reflexivity.
Qed.
Lemma sort_perm l : Permutation (sort_by_idx l) l.
Proof. unfold sort_by_idx. rewrite sort_perm_gen. reflexivity. Qed.

Definition ksorted (l : list (nat * list Z)) : Prop := StronglySorted le (map fst l).
Lemma ins_sorted e l : ksorted l -> ksorted (ins_by_idx e l).
Proof.
  unfold ksorted. induction l as [|h t IH]; intros S; simpl.
  - constructor; constructor.
  - destruct (fst e <? fst h) eqn:C.
    + apply Nat.ltb_lt in C. simpl. constructor; auto. inversion S; subst. constructor; [lia|].
      eapply Forall_impl; [|eassumption]. simpl. intros; lia.
    + apply Nat.ltb_ge in C. simpl. inversion S; subst. constructor; auto.
      assert (P : Permutation (map fst (ins_by_idx e t)) (fst e :: map fst t)) by (rewrite ins_perm; reflexivity).
      rewrite Forall_forall in *. intros x Hx. eapply Permutation_in in Hx; [|exact P]. destruct Hx as [<-|Hx]; auto.
Qed.
Lemma sort_sorted l : ksorted (sort_by_idx l).
Proof.
  unfold sort_by_idx. assert (G : forall acc, ksorted acc -> ksorted (fold_left (fun a e => ins_by_idx e a) l acc)).
  { induction l as [|e l IH]; intros acc S; simpl; auto. apply IH. apply ins_sorted; auto. }
  apply G. constructor.
Qed.
Lemma sorted_perm_eq : forall l1 l2 : list nat, StronglySorted le l1 -> StronglySorted le l2 -> Permutation l1 l2 -> l1 = l2.
Proof.
  induction l1 as [|x1 t1 IH]; intros l2 S1 S2 P.
  - apply Permutation_nil in P. auto.
  - destruct l2 as [|x2 t2]; [apply Permutation_sym, Permutation_nil in P; discriminate|].
    inversion S1 as [|? ? S1t F1]; inversion S2 as [|? ? S2t F2]; subst.
    assert (x1 = x2).
    { assert (H1 : In x1 (x2 :: t2)) by (eapply Permutation_in; [exact P | left; reflexivity]).
      assert (H2 : In x2 (x1 :: t1)) by (eapply Permutation_in; [symmetry; exact P | left; reflexivity]).
      rewrite Forall_forall in F1, F2. destruct H1 as [->|H1]; auto. destruct H2 as [->|H2]; auto.
      specialize (F1 _ H2). specialize (F2 _ H1). lia. }
    subst x2. f_equal. apply IH; auto. eapply Permutation_cons_inv; eauto.
Qed.
Lemma seq_sorted : forall n a, StronglySorted le (seq a n).
Proof.
  induction n as [|n IH]; intros a; simpl; constructor; auto. apply Forall_forall. intros x Hx. apply in_seq in Hx. lia.
Qed.

Lemma sort_by_idx_spec (ch : nat -> list Z) l n : Permutation (map fst l) (seq 0 n) -> Forall (fun e => snd e = ch (fst e)) l ->
  concat (map snd (sort_by_idx l)) = concat (map ch (seq 0 n)).
Proof.
  intros P F. assert (K : map fst (sort_by_idx l) = seq 0 n).
  { apply sorted_perm_eq; [apply sort_sorted | apply seq_sorted |]. rewrite sort_perm. exact P. }
  rewrite <- K, map_map. f_equal. apply map_ext_in. intros e He. rewrite Forall_forall in F. apply F.
  eapply Permutation_in; [apply sort_perm | exact He].
Qed.

(* ------------------------------------------------------------------ where the chunks of the current call are *)
Definition mhw (w : mwpc) : list (nat * list Z) := match w with MWHold i xs => [(i, xs)] | _ => [] end.
Definition mheld (ps : list mwpc) : list (nat * list Z) := flat_map mhw ps.
Definition mentries (s : mstate) : list (nat * list Z) :=
  q_entries (ms_workq s) ++ mheld (ms_procs s) ++ q_entries (ms_resq s) ++ ms_buffer s.
Definition mchunk (s : mstate) (j : nat) : list Z := firstn (ms_chunk s) (skipn (j * ms_chunk s) (ms_data s)).
Definition active (cfg : mcfg) (m : mmpc) : bool :=
  match m with
  | MmPut _ _ | MmDrain _ _ | MmFinal => true
  | MmEnter _ | MmNones _ | MmJoin _ => negb (m_kind cfg)
  | _ => false
  end.

Lemma mheld_set_nth ps k w w' : nth_error ps k = Some w -> Permutation (mheld (set_nth k w' ps) ++ mhw w) (mhw w' ++ mheld ps).
Proof.
  revert k; induction ps as [|p ps IH]; intros [|k] H; simpl in *; try discriminate.
  - injection H as ->. unfold mheld. simpl. fold (mheld ps).
    rewrite <- app_assoc. rewrite (Permutation_app_comm (mheld ps) (mhw w)). reflexivity.
  - unfold mheld in *. simpl. fold (mheld ps). fold (mheld (set_nth k w' ps)).
    rewrite <- app_assoc. rewrite (IH k H). rewrite !app_assoc. apply Permutation_app_tail. apply Permutation_app_comm.
Qed.
Lemma mheld_repeat_new n : mheld (repeat MWNew n) = [].
Proof. induction n; simpl; auto. Qed.

Record MCore (cfg : mcfg) (s : mstate) : Prop := {
  mc_pi : exists pi, Permutation (pi ++ map fst (mentries s)) (seq 0 (ms_cnt s))
            /\ (if m_kind cfg then ms_yield s = concat (map (mchunk s) pi) /\ ms_finished s = length pi /\ pi = seq 0 (ms_wait s)
                else pi = [] /\ ms_finished s = length (ms_buffer s));
  mc_payload : Forall (fun e => snd e = mchunk s (fst e)) (mentries s);
  mc_chunk : 1 <= ms_chunk s;
  mc_pos : match ms_main s with
           | MmPut i rest => rest = skipn (i * ms_chunk s) (ms_data s) /\ ms_cnt s = i /\ rest <> []
           | MmDrain i rest => rest = skipn (i * ms_chunk s) (ms_data s) /\ ms_cnt s = i
           | MmEnter _ => ms_cnt s = 0
           | MmJoin _ => skipn (ms_cnt s * ms_chunk s) (ms_data s) = [] /\ ms_cnt s <= ms_finished s
           | _ => skipn (ms_cnt s * ms_chunk s) (ms_data s) = []
           end;
}.

Definition mact_ok (a : list Z * nat) : Prop := 1 <= snd a.

Record MInv (cfg : mcfg) (hist : list (list Z * nat)) (s : mstate) : Prop := {
  mi_err : ms_err s = false;
  mi_hist : Forall mact_ok (ms_todo s);
  mi_core : if active cfg (ms_main s) then MCore cfg s else mentries s = [];
  mi_split : exists done, hist = done ++ (if active cfg (ms_main s) then [(ms_data s, ms_chunk s)] else []) ++ ms_todo s
                          /\ ms_done s = map fst done;
}.

Lemma mcore_count cfg s : MCore cfg s -> (if m_kind cfg then ms_finished s else 0) + length (mentries s) = ms_cnt s.
Proof.
  intros [(pi & P1 & P2) _ _ _]. apply Permutation_length in P1. rewrite app_length, map_length, seq_length in P1.
  destruct (m_kind cfg); [destruct P2 as (_ & -> & _); lia | destruct P2 as (-> & _); simpl in P1; lia].
Qed.

Lemma mcore_transfer cfg s s' : MCore cfg s -> ms_chunk s' = ms_chunk s -> ms_data s' = ms_data s -> ms_cnt s' = ms_cnt s ->
  ms_finished s' = ms_finished s -> ms_wait s' = ms_wait s -> ms_yield s' = ms_yield s -> ms_buffer s' = ms_buffer s ->
  Permutation (mentries s') (mentries s) ->
  match ms_main s' with
  | MmPut i rest => rest = skipn (i * ms_chunk s) (ms_data s) /\ ms_cnt s = i /\ rest <> []
  | MmDrain i rest => rest = skipn (i * ms_chunk s) (ms_data s) /\ ms_cnt s = i
  | MmEnter _ => ms_cnt s = 0
  | MmJoin _ => skipn (ms_cnt s * ms_chunk s) (ms_data s) = [] /\ ms_cnt s <= ms_finished s
  | _ => skipn (ms_cnt s * ms_chunk s) (ms_data s) = []
  end -> MCore cfg s'.
Proof.
  intros [(pi & P1 & P2) Hp Hc Hpos] E1 E2 E3 E4 E5 E6 E7 P Hpos'.
  assert (Mc : forall j, mchunk s' j = mchunk s j) by (intros j; unfold mchunk; rewrite E1, E2; reflexivity).
  constructor.
  - exists pi. rewrite E3, E4, E5, E6, E7. split.
    + rewrite <- P1. apply Permutation_app_head. apply Permutation_map. exact P.
    + destruct (m_kind cfg); auto. destruct P2 as (Y & F & W). repeat split; auto. rewrite Y. f_equal. apply map_ext. intros j. symmetry. apply Mc.
  - rewrite Forall_forall in *. intros e He. rewrite Mc. apply Hp. eapply Permutation_in; eauto.
  - rewrite E1. exact Hc.
  - rewrite E1, E2, E3, E4. exact Hpos'.
Qed.

Lemma mq_entries_app a b : q_entries (a ++ b) = q_entries a ++ q_entries b.
Proof. apply q_entries_app. Qed.

Ltac msplit_keep Hs := destruct Hs as (done & Hsp & Hdn); exists done; simpl; split; [exact Hsp | exact Hdn].

Lemma fresh_mcore cfg s' d c m : ms_cnt s' = 0 -> ms_finished s' = 0 -> ms_buffer s' = [] -> ms_wait s' = 0 -> ms_yield s' = [] ->
  ms_chunk s' = c -> ms_data s' = d -> mentries s' = [] -> 1 <= c -> ms_main s' = m ->
  (m = first_pc cfg d \/ exists k, m = MmEnter k) -> MCore cfg s'.
Proof.
  intros E1 E2 E3 E4 E5 E6 E7 En Hc Hm Hfirst. constructor.
  - exists []. rewrite En, E1. simpl. split; [reflexivity|]. rewrite E2, E3, E4, E5. destruct (m_kind cfg); auto.
  - rewrite En. constructor.
  - rewrite E6. exact Hc.
  - rewrite Hm, E1, E6, E7. destruct Hfirst as [->|(k & ->)]; [|reflexivity].
    unfold first_pc, after_loop. destruct d; simpl; [destruct (m_kind cfg); reflexivity|]. repeat split; auto. discriminate.
Qed.

Lemma mheld_set_nth_same ps k w w' : nth_error ps k = Some w -> mhw w' = mhw w -> mheld (set_nth k w' ps) = mheld ps.
Proof.
  revert k; induction ps as [|p ps IH]; intros [|k] H E; simpl in *; try discriminate.
  - injection H as ->. unfold mheld. simpl. rewrite E. reflexivity.
  - unfold mheld in *. simpl. f_equal. apply (IH k H E).
Qed.

Lemma minv_start cfg hist s s' : MInv cfg hist s -> mstep cfg s MStart = Some s' -> MInv cfg hist s'.
Proof.
  intros [Ie Ih Ic Is] H. simpl in H.
  destruct (ms_main s) eqn:M; try discriminate. destruct (nth_error (ms_procs s) k) as [[| | | |]|] eqn:N; try discriminate.
  injection H as <-.
  assert (Hh : mheld (set_nth k MWIdle (ms_procs s)) = mheld (ms_procs s)) by (apply mheld_set_nth_same with (w := MWNew); auto).
  unfold active in *. destruct (m_kind cfg) eqn:K; simpl in *.
  - constructor; simpl; auto.
    + destruct (S k <? _); simpl; rewrite ?K; simpl; unfold mentries in *; simpl; rewrite Hh; exact Ic.
    + destruct (S k <? _); simpl; rewrite ?K; simpl; exact Is.
  - assert (En : forall m, mentries (set_main (set_procs s (set_nth k MWIdle (ms_procs s))) m) = mentries s).
    { intros m. unfold mentries; simpl. rewrite Hh. reflexivity. }
    pose proof (mc_pos _ _ Ic) as Pos. rewrite M in Pos.
    constructor; simpl; auto.
    + destruct (S k <? _); simpl; rewrite ?K; simpl.
      * apply (mcore_transfer cfg s); auto; try reflexivity. rewrite En; reflexivity.
      * unfold first_pc, after_loop. rewrite K. destruct (ms_data s) eqn:D; simpl; rewrite ?K; simpl.
        -- apply (mcore_transfer cfg s); auto; try reflexivity; [rewrite En; reflexivity|]. simpl. rewrite Pos, D. reflexivity.
        -- apply (mcore_transfer cfg s); auto; try reflexivity; [rewrite En; reflexivity|]. simpl. rewrite Pos, D. repeat split; auto. discriminate.
    + destruct (S k <? _); simpl; rewrite ?K; simpl; [exact Is|].
      unfold first_pc, after_loop. rewrite K. destruct (ms_data s); simpl; rewrite ?K; exact Is.
Qed.

Lemma entries_nil_mparts s : mentries s = [] ->
  q_entries (ms_workq s) = [] /\ mheld (ms_procs s) = [] /\ q_entries (ms_resq s) = [] /\ ms_buffer s = [].
Proof.
  unfold mentries. intros H. apply app_eq_nil in H. destruct H as [H1 H]. apply app_eq_nil in H. destruct H as [H2 H].
  apply app_eq_nil in H. tauto.
Qed.

Lemma minv_next cfg hist s s' : MInv cfg hist s -> mstep cfg s MNext = Some s' -> MInv cfg hist s'.
Proof.
  intros [Ie Ih Ic Is] H. simpl in H. destruct (ms_main s) eqn:M; try discriminate.
  unfold active in Ic, Is. simpl in Ic, Is. destruct (entries_nil_mparts s Ic) as (Q1 & Q2 & Q3 & Q4).
  destruct (ms_todo s) as [|[d c] rest] eqn:T.
  - injection H as <-. constructor; simpl; auto.
    + rewrite T. constructor.
    + destruct (m_kind cfg) eqn:K; simpl; rewrite ?K; simpl; exact Ic.
    + destruct (m_kind cfg) eqn:K; simpl; rewrite ?K; simpl; rewrite ?T; exact Is.
  - inversion Ih as [|? ? Hc Hr]; subst. unfold mact_ok in Hc. simpl in Hc.
    destruct (m_kind cfg) eqn:K; injection H as <-.
    + assert (Ha : active cfg (first_pc cfg d) = true).
      { unfold first_pc, after_loop, active. rewrite K. destruct d; reflexivity. }
      constructor; simpl; auto.
      * rewrite Ha. eapply fresh_mcore; simpl; eauto. unfold mentries; simpl. rewrite Q1, Q2, Q3. reflexivity.
      * rewrite Ha. destruct Is as (done & Hsp & Hdn). exists done. split; auto.
    + constructor; simpl; auto.
      * rewrite K. simpl. eapply fresh_mcore; simpl; eauto. unfold mentries; simpl. rewrite Q1, Q3, mheld_repeat_new. reflexivity.
      * rewrite K. simpl. destruct Is as (done & Hsp & Hdn). exists done. split; auto.
Qed.

Local Arguments seq : simpl never.
Local Arguments Nat.mul : simpl never.
Lemma minv_put cfg hist s s' : MInv cfg hist s -> mstep cfg s MPut = Some s' -> MInv cfg hist s'.
Proof.
  intros [Ie Ih Ic Is] H. simpl in H. destruct (ms_main s) as [| |i rest| | | | |] eqn:M; try discriminate.
  destruct rest as [|x r]; try discriminate. destruct (full _ _); try discriminate. injection H as <-.
  unfold active in Ic, Is. simpl in Ic, Is. destruct Ic as [(pi & P1 & P2) Hp Hc Hpos]. rewrite M in Hpos. destruct Hpos as (Hr & Hcnt & _).
  constructor; simpl; auto. constructor; simpl.
  - exists pi. split.
    + unfold mentries; simpl. rewrite q_entries_app. simpl. rewrite seq_S. simpl. rewrite <- P1. unfold mentries.
      rewrite !map_app. simpl. rewrite Hcnt. perm.
    + destruct (m_kind cfg); auto.
  - unfold mentries; simpl. rewrite q_entries_app. simpl. rewrite <- !app_assoc. simpl.
    rewrite Forall_app in *. unfold mentries in Hp. rewrite Forall_app in Hp. destruct Hp as [Hp1 Hp2]. split; auto.
    constructor; auto. simpl. unfold mchunk; simpl. rewrite Hr. reflexivity.
  - exact Hc.
  - split; [|congruence]. rewrite Hr. rewrite skipn_skipn_add. f_equal. lia.
Qed.

Lemma absorb_frame kind s i xs : let s' := absorb kind s i xs in
  ms_todo s' = ms_todo s /\ ms_main s' = ms_main s /\ ms_chunk s' = ms_chunk s /\ ms_data s' = ms_data s /\ ms_cnt s' = ms_cnt s
  /\ ms_done s' = ms_done s /\ ms_workq s' = ms_workq s /\ ms_resq s' = ms_resq s /\ ms_procs s' = ms_procs s.
Proof.
  unfold absorb. destruct kind; [|simpl; repeat split].
  destruct (process_ordered _ _) as [[[[b w] fin] ys] er]. simpl. repeat split.
Qed.

Lemma absorb_core cfg s i xs q : MCore cfg s -> ms_err s = false -> ms_resq s = QChunk i xs :: q ->
  (match ms_main s with MmDrain _ _ | MmFinal => True | _ => False end) ->
  MCore cfg (absorb (m_kind cfg) (set_resq s q) i xs) /\ ms_err (absorb (m_kind cfg) (set_resq s q) i xs) = false.
Proof.
  intros [(pi & P1 & P2) Hp Hc Hpos] He Hq Hm.
  set (others := map fst (q_entries (ms_workq s) ++ mheld (ms_procs s) ++ q_entries q)).
  assert (En : Permutation (map fst (mentries s)) (i :: map fst (ms_buffer s) ++ others)).
  { unfold mentries, others. rewrite Hq. simpl. rewrite !map_app. simpl. rewrite !map_app. perm. }
  assert (Hpay : snd (i, xs) = mchunk s i /\ Forall (fun e => snd e = mchunk s (fst e)) (ms_buffer s)
                 /\ Forall (fun e => snd e = mchunk s (fst e)) (q_entries (ms_workq s) ++ mheld (ms_procs s) ++ q_entries q)).
  { unfold mentries in Hp. rewrite Hq in Hp. simpl in Hp. rewrite !Forall_app in Hp. destruct Hp as (H1 & H2 & H3).
    inversion H3 as [|? ? H4 H5]; subst. rewrite Forall_app in H5. destruct H5 as [H5 H6]. repeat split; auto. rewrite !Forall_app. auto. }
  destruct Hpay as (Hi & Hb & Ho).
  destruct (m_kind cfg) eqn:K.
  - destruct P2 as (Y & F & W). subst pi. rewrite seq_length in F.
    destruct (process_batch (mchunk s) others (ms_cnt s) [(i, xs)] (ms_buffer s) (ms_wait s) (ms_yield s)) as (b' & w' & Hf & P' & F').
    + rewrite <- P1. apply Permutation_app_head. rewrite En. simpl. reflexivity.
    + constructor; auto.
    + exact Y.
    + cbn [fold_left] in Hf. unfold absorb, set_resq. cbn [ms_buffer ms_wait ms_finished ms_yield ms_err]. rewrite He, F, Hf. simpl. split; [|reflexivity]. constructor; simpl.
      * exists (seq 0 w'). split.
        -- rewrite <- P'. apply Permutation_app_head. unfold mentries, others; simpl. rewrite !map_app. perm.
        -- rewrite K. repeat split; auto. rewrite seq_length. reflexivity.
      * unfold mentries; simpl. unfold mchunk in *. simpl. rewrite !Forall_app in *. tauto.
      * exact Hc.
      * destruct (ms_main s); try contradiction; exact Hpos.
  - destruct P2 as (-> & F). unfold absorb. simpl. split; [|exact He]. constructor; simpl.
    + exists []. split.
      * simpl in *. rewrite <- P1. rewrite En. unfold mentries, others; simpl. rewrite !map_app. simpl. perm.
      * rewrite K. split; auto. rewrite app_length. simpl. lia.
    + unfold mentries; simpl. unfold mchunk in *. simpl. rewrite !Forall_app in *. repeat split; try tauto. constructor; auto.
    + exact Hc.
    + destruct (ms_main s); try contradiction; exact Hpos.
Qed.

Lemma minv_absorb cfg hist s i xs q : MInv cfg hist s -> ms_resq s = QChunk i xs :: q ->
  (match ms_main s with MmDrain _ _ | MmFinal => True | _ => False end) ->
  MInv cfg hist (absorb (m_kind cfg) (set_resq s q) i xs).
Proof.
  intros [Ie Ih Ic Is] Hq Hm.
  assert (Ha : active cfg (ms_main s) = true) by (destruct (ms_main s); try contradiction; reflexivity).
  rewrite Ha in Ic, Is. destruct (absorb_core cfg s i xs q Ic Ie Hq Hm) as [C E].
  destruct (absorb_frame (m_kind cfg) (set_resq s q) i xs) as (F1 & F2 & F3 & F4 & F5 & F6 & F7 & F8 & F9). simpl in *.
  constructor; rewrite ?F1, ?F2, ?F3, ?F4, ?F6, ?Ha; auto.
Qed.

(* steps that only move chunks between the queues and the workers *)
Lemma minv_move cfg hist s s' : MInv cfg hist s ->
  ms_todo s' = ms_todo s -> ms_main s' = ms_main s -> ms_chunk s' = ms_chunk s -> ms_data s' = ms_data s -> ms_cnt s' = ms_cnt s ->
  ms_finished s' = ms_finished s -> ms_buffer s' = ms_buffer s -> ms_wait s' = ms_wait s -> ms_yield s' = ms_yield s ->
  ms_done s' = ms_done s -> ms_err s' = ms_err s -> Permutation (mentries s') (mentries s) -> MInv cfg hist s'.
Proof.
  intros [Ie Ih Ic Is] E1 E2 E3 E4 E5 E6 E7 E8 E9 E10 E11 P. constructor; rewrite ?E1, ?E2, ?E3, ?E4, ?E10, ?E11; auto.
  destruct (active cfg (ms_main s)).
  - apply (mcore_transfer cfg s); auto. rewrite E2. pose proof (mc_pos _ _ Ic) as Pos. destruct (ms_main s); exact Pos.
  - rewrite Ic in P. apply Permutation_sym, Permutation_nil in P. exact P.
Qed.

Lemma concat_mchunks s n : concat (map (mchunk s) (seq 0 n)) = firstn (n * ms_chunk s) (ms_data s).
Proof. unfold mchunk. apply concat_chunks. Qed.

Lemma minv_rest cfg hist s e s' : MInv cfg hist s -> mstep cfg s e = Some s' ->
  match e with MStart | MNext | MPut => False | _ => True end -> MInv cfg hist s'.
Proof.
  intros I H He. destruct e; try contradiction; clear He; simpl in H.
  - (* MTry *)
    destruct (ms_main s) eqn:M; try discriminate. destruct (ms_resq s) as [|[i0 xs|] q] eqn:Q; try discriminate. injection H as <-.
    apply minv_absorb; auto. rewrite M. exact Logic.I.
  - (* MEmpty *)
    destruct (ms_main s) as [| | |i rest| | | |] eqn:M; try discriminate. injection H as <-.
    destruct I as [Ie Ih Ic Is]. unfold active in Ic, Is. rewrite M in Ic, Is. simpl in Ic, Is.
    pose proof (mc_pos _ _ Ic) as Pos. rewrite M in Pos. destruct Pos as [Hr Hc].
    assert (Ha : active cfg (match rest with [] => after_loop cfg | _ :: _ => MmPut i rest end) = true).
    { destruct rest; [unfold after_loop, active; destruct (m_kind cfg); reflexivity | reflexivity]. }
    constructor; simpl; auto; rewrite Ha; auto.
    apply (mcore_transfer cfg s); auto; try reflexivity. simpl.
    destruct rest as [|x r]; [unfold after_loop; destruct (m_kind cfg); simpl; rewrite Hc; symmetry; exact Hr|].
    repeat split; auto. discriminate.
  - (* MGet *)
    destruct (ms_main s) eqn:M; try discriminate. destruct (ms_resq s) as [|[i0 xs|] q] eqn:Q; try discriminate.
    destruct (ms_finished s <? ms_cnt s); try discriminate. injection H as <-.
    apply minv_absorb; auto. rewrite M. exact Logic.I.
  - (* MEnd *)
    destruct (ms_main s) eqn:M; try discriminate. destruct (ms_finished s <? ms_cnt s) eqn:Lt; try discriminate. apply Nat.ltb_ge in Lt.
    destruct I as [Ie Ih Ic Is]. unfold active in Ic, Is. rewrite M in Ic, Is. simpl in Ic, Is.
    pose proof (mc_pos _ _ Ic) as Pos. rewrite M in Pos.
    destruct (m_kind cfg) eqn:K; injection H as <-.
    + pose proof (mcore_count _ _ Ic) as Cn. rewrite K in Cn.
      assert (En : mentries s = []) by (destruct (mentries s); [reflexivity | simpl in Cn; lia]).
      destruct (mc_pi _ _ Ic) as (pi & P1 & P2). rewrite K in P2. destruct P2 as (Y & F & W).
      assert (Hy : ms_yield s = ms_data s).
      { rewrite En in Cn. simpl in Cn. rewrite Y, W. replace (ms_wait s) with (ms_cnt s) by (subst pi; rewrite seq_length in F; lia).
        rewrite concat_mchunks. rewrite <- (firstn_skipn (ms_cnt s * ms_chunk s) (ms_data s)) at 2. rewrite Pos, app_nil_r. reflexivity. }
      constructor; simpl; auto.
      destruct Is as (done & Hsp & Hdn). exists (done ++ [(ms_data s, ms_chunk s)]). split.
      * rewrite Hsp. rewrite <- app_assoc. reflexivity.
      * rewrite map_app, Hdn, Hy. reflexivity.
    + constructor; simpl; rewrite ?K; simpl; auto. apply (mcore_transfer cfg s); auto; try reflexivity. simpl. split; auto.
  - (* MNone *)
    destruct (ms_main s) as [| | | |n| | |] eqn:M; try discriminate. destruct n as [|n]; try discriminate.
    destruct (full _ _); try discriminate. injection H as <-.
    destruct I as [Ie Ih Ic Is]. unfold active in Ic, Is. rewrite M in Ic, Is. simpl in Ic, Is.
    assert (En : forall m, mentries (set_main (set_workq s (ms_workq s ++ [QNone])) m) = mentries s).
    { intros m. unfold mentries; simpl. rewrite q_entries_app. simpl. rewrite app_nil_r. reflexivity. }
    destruct (m_kind cfg) eqn:K; simpl in *.
    + constructor; simpl; auto; destruct n; unfold active; rewrite ?K; simpl; auto; rewrite En; auto.
    + pose proof (mc_pos _ _ Ic) as Pos. rewrite M in Pos.
      constructor; simpl; auto; destruct n; unfold active; rewrite ?K; simpl; auto;
        apply (mcore_transfer cfg s); auto; try reflexivity; rewrite En; reflexivity.
  - (* MJoin *)
    destruct (ms_main s) as [| | | | | |k|] eqn:M; try discriminate.
    destruct (nth_error (ms_procs s) k) as [[| | | |]|] eqn:N; try discriminate.
    destruct I as [Ie Ih Ic Is]. unfold active in Ic, Is. rewrite M in Ic, Is. simpl in Ic, Is.
    destruct (S k <? length (ms_procs s)).
    + injection H as <-. constructor; simpl; auto; unfold active; destruct (m_kind cfg) eqn:K; simpl in *; auto.
      pose proof (mc_pos _ _ Ic) as Pos. rewrite M in Pos. apply (mcore_transfer cfg s); auto; reflexivity.
    + destruct (m_kind cfg) eqn:K; injection H as <-; simpl in *.
      * constructor; simpl; auto.
      * pose proof (mc_pos _ _ Ic) as Pos. rewrite M in Pos. destruct Pos as [Hsk Hle].
        pose proof (mcore_count _ _ Ic) as Cn. rewrite K in Cn. simpl in Cn.
        destruct (mc_pi _ _ Ic) as (pi & P1 & P2). rewrite K in P2. destruct P2 as (-> & F). simpl in P1.
        assert (Hl : length (mentries s) = length (q_entries (ms_workq s) ++ mheld (ms_procs s) ++ q_entries (ms_resq s)) + length (ms_buffer s)).
        { unfold mentries. rewrite !app_length. lia. }
        assert (Z0 : q_entries (ms_workq s) ++ mheld (ms_procs s) ++ q_entries (ms_resq s) = []).
        { destruct (q_entries (ms_workq s) ++ mheld (ms_procs s) ++ q_entries (ms_resq s)); [reflexivity | simpl in Hl; lia]. }
        apply app_eq_nil in Z0. destruct Z0 as [Z1 Z0]. apply app_eq_nil in Z0. destruct Z0 as [Z2 Z3].
        assert (Eb : mentries s = ms_buffer s) by (unfold mentries; rewrite Z1, Z2, Z3; reflexivity).
        assert (Hres : concat (map snd (sort_by_idx (ms_buffer s))) = ms_data s).
        { rewrite (sort_by_idx_spec (mchunk s) _ (ms_cnt s)).
          - rewrite concat_mchunks. rewrite <- (firstn_skipn (ms_cnt s * ms_chunk s) (ms_data s)) at 2. rewrite Hsk, app_nil_r. reflexivity.
          - rewrite <- Eb. exact P1.
          - rewrite <- Eb. apply (mc_payload _ _ Ic). }
        constructor; simpl; auto.
        -- unfold mentries; simpl. rewrite Z1, Z2, Z3. reflexivity.
        -- destruct Is as (done & Hsp & Hdn). exists (done ++ [(ms_data s, ms_chunk s)]). split.
           ++ rewrite Hsp. rewrite <- app_assoc. reflexivity.
           ++ rewrite map_app, Hdn, Hres. reflexivity.
  - (* MWTake *)
    destruct (nth_error (ms_procs s) k) as [[| | | |]|] eqn:N; try discriminate.
    destruct (ms_workq s) as [|[i0 xs|] q] eqn:Q; try discriminate; injection H as <-.
    + apply (minv_move cfg hist s); auto. unfold mentries; simpl. rewrite Q. simpl.
      pose proof (mheld_set_nth (ms_procs s) k MWIdle (MWHold i0 xs) N) as Hh. simpl in Hh. rewrite app_nil_r in Hh. rewrite Hh. simpl. perm.
    + apply (minv_move cfg hist s); auto. unfold mentries; simpl. rewrite Q. simpl.
      rewrite (mheld_set_nth_same _ k MWIdle MWExiting N eq_refl). reflexivity.
  - (* MWRes *)
    destruct (nth_error (ms_procs s) k) as [[| |i0 xs| |]|] eqn:N; try discriminate. injection H as <-.
    apply (minv_move cfg hist s); auto. unfold mentries; simpl. rewrite q_entries_app. simpl.
    pose proof (mheld_set_nth (ms_procs s) k (MWHold i0 xs) MWIdle N) as Hh. simpl in Hh.
    transitivity (q_entries (ms_workq s) ++ (mheld (set_nth k MWIdle (ms_procs s)) ++ [(i0, xs)]) ++ q_entries (ms_resq s) ++ ms_buffer s); [perm|].
    rewrite Hh. reflexivity.
  - (* MWExit *)
    destruct (nth_error (ms_procs s) k) as [[| | | |]|] eqn:N; try discriminate. destruct (pipe_room cfg s); try discriminate. injection H as <-.
    apply (minv_move cfg hist s); auto. unfold mentries; simpl.
    rewrite (mheld_set_nth_same _ k MWExiting MWDead N eq_refl). reflexivity.
Qed.

Theorem minv_step cfg hist s e s' : MInv cfg hist s -> mstep cfg s e = Some s' -> MInv cfg hist s'.
Proof.
  intros I H. destruct e; try (eapply minv_rest; eauto; exact Logic.I).
  - eapply minv_start; eauto.
  - eapply minv_next; eauto.
  - eapply minv_put; eauto.
Qed.

(* once the pool is being left (FunctorMap) / everything has been mapped (mul_p_map), no call is pending *)
Definition exitish (cfg : mcfg) (m : mmpc) : bool :=
  match m with MmDone => true | MmNones _ | MmJoin _ => m_kind cfg | _ => false end.
Ltac mstep_cases H :=
  unfold mstep in H;
  repeat match type of H with
         | context [match ?x with _ => _ end] => destruct x eqn:?; try discriminate
         end.
Lemma absorb_main kind s i xs : ms_main (absorb kind s i xs) = ms_main s /\ ms_todo (absorb kind s i xs) = ms_todo s.
Proof. destruct (absorb_frame kind s i xs) as (F1 & F2 & _). auto. Qed.
Lemma xinv_step cfg s e s' : (exitish cfg (ms_main s) = true -> ms_todo s = []) -> mstep cfg s e = Some s' ->
  (exitish cfg (ms_main s') = true -> ms_todo s' = []).
Proof.
  intros X H. destruct e; mstep_cases H; injection H as <-; simpl;
    repeat match goal with |- context [absorb ?k ?st ?i ?xs] => destruct (absorb_main k st i xs) as [-> ->] end; simpl;
    unfold exitish, first_pc, after_loop in *; simpl in *; repeat match goal with Hm : ms_main s = _ |- _ => rewrite Hm in X end; simpl in *;
    repeat match goal with Hk : m_kind cfg = _ |- _ => rewrite Hk in * end; simpl in *; auto; try discriminate; try congruence;
    try (match goal with |- context [match ?d with [] => _ | _ :: _ => _ end] => destruct d end; simpl; discriminate);
    try (repeat match goal with Hm : ms_main s = _ |- _ => rewrite Hm end; simpl; discriminate);
    try (destruct (m_kind cfg); simpl; discriminate).
Qed.

Lemma minv_init cfg hist : Forall mact_ok hist -> MInv cfg hist (minit cfg hist).
Proof.
  intros Hh. unfold minit. constructor; simpl; auto.
  - destruct (m_kind cfg) eqn:K; simpl; rewrite ?K; simpl; unfold mentries; simpl; [rewrite mheld_repeat_new|]; reflexivity.
  - exists []. destruct (m_kind cfg) eqn:K; simpl; rewrite ?K; simpl; auto.
Qed.

Theorem fmap_results cfg hist sched : Forall mact_ok hist ->
  let s := mrun cfg (minit cfg hist) sched in
  ms_err s = false
  /\ (exists done rest, hist = done ++ rest /\ ms_done s = map fst done)
  /\ (ms_main s = MmDone -> ms_done s = map fst hist).
Proof.
  intros Hh s. unfold mrun in s.
  assert (G : forall sched s, MInv cfg hist s /\ (exitish cfg (ms_main s) = true -> ms_todo s = []) ->
     let s' := fold_left (fun s e => match mstep cfg s e with Some s' => s' | None => s end) sched s in
     MInv cfg hist s' /\ (exitish cfg (ms_main s') = true -> ms_todo s' = [])).
  { clear s sched. induction sched as [|e r IH]; intros s [I X]; simpl; [auto|]. apply IH.
    destruct (mstep cfg s e) as [s'|] eqn:E; [|auto]. split; [eapply minv_step; eauto | eapply xinv_step; eauto]. }
  destruct (G sched (minit cfg hist)) as [[Ie _ _ (done & Hsp & Hdn)] X].
  { split; [apply minv_init; auto|]. unfold minit, exitish. simpl. destruct (m_kind cfg); discriminate. }
  fold s in Ie, Hsp, Hdn, X. split; [exact Ie|]. split.
  - eexists; eexists; split; [exact Hsp | exact Hdn].
  - intros M. rewrite M in Hsp, X. unfold active in Hsp. simpl in Hsp, X. rewrite (X eq_refl), app_nil_r in Hsp. rewrite Hsp. exact Hdn.
Qed.

(* ================================================================== liveness: invariants *)
Definition mcfg_ok (cfg : mcfg) : Prop := 1 <= m_workers cfg /\ (forall c, m_cap cfg = Some c -> 1 <= c).
Definition alive1 (w : mwpc) : nat := if mdead w then 0 else 1.
Definition alive (ps : list mwpc) : nat := list_sum (map alive1 ps).
Definition is_chunk (it : qitem) : Prop := match it with QChunk _ _ => True | QNone => False end.
(* stop orders that are still going to be put *)
Definition pend (cfg : mcfg) (m : mmpc) : nat :=
  match m with
  | MmNones n => n
  | MmJoin _ | MmDone => 0
  | MmFinal | MmIdle => if m_kind cfg then m_workers cfg else 0
  | _ => m_workers cfg
  end.

Lemma alive_set_nth ps k w w' : nth_error ps k = Some w -> alive (set_nth k w' ps) + alive1 w = alive ps + alive1 w'.
Proof.
  unfold alive. revert k; induction ps as [|p ps IH]; intros [|k] H; simpl in *; try discriminate.
  - injection H as ->. lia.
  - specialize (IH k H). lia.
Qed.
Lemma alive_le ps : alive ps <= length ps.
Proof. unfold alive. induction ps as [|p ps IH]; simpl; auto. unfold alive1 at 1. destruct (mdead p); lia. Qed.
Lemma alive_full ps : alive ps = length ps -> forall j w, nth_error ps j = Some w -> mdead w = false.
Proof.
  unfold alive. induction ps as [|p ps IH]; intros H [|j] w Hj; simpl in *; try discriminate.
  - injection Hj as ->. pose proof (alive_le ps). unfold alive in H0. unfold alive1 in H at 1. destruct (mdead w); auto. lia.
  - apply (IH) with (j := j); auto. pose proof (alive_le ps). unfold alive in H0. unfold alive1 in H at 1. destruct (mdead p); lia.
Qed.
Lemma alive_pos ps : 1 <= alive ps -> exists k w, nth_error ps k = Some w /\ mdead w = false.
Proof.
  unfold alive. induction ps as [|p ps IH]; simpl; [lia|]. unfold alive1 at 1. destruct (mdead p) eqn:D.
  - intros H. destruct (IH H) as (k & w & Hk & Hd). exists (S k), w. auto.
  - intros _. exists 0, p. auto.
Qed.
Lemma alive_repeat_new n : alive (repeat MWNew n) = n.
Proof. unfold alive. induction n; simpl; auto. Qed.
Lemma alive_ge1 ps k w : nth_error ps k = Some w -> mdead w = false -> 1 <= alive ps.
Proof.
  unfold alive. revert k; induction ps as [|p ps IH]; intros [|k] H D; simpl in *; try discriminate.
  - injection H as ->. unfold alive1 at 1. rewrite D. lia.
  - specialize (IH k H D). lia.
Qed.

Definition new_ok (m : mmpc) (ps : list mwpc) : Prop :=
  match m with
  | MmEnter k => k < length ps /\ forall j w, nth_error ps j = Some w -> (k <= j <-> w = MWNew)
  | _ => forall j w, nth_error ps j = Some w -> w <> MWNew end.
Definition joined_ok (cfg : mcfg) (m : mmpc) (ps : list mwpc) : Prop :=
  match m with
  | MmJoin k => forall j w, j < k -> nth_error ps j = Some w -> w = MWDead
  | MmDone => m_kind cfg = true -> forall j w, nth_error ps j = Some w -> w = MWDead
  | MmIdle => m_kind cfg = false -> forall j w, nth_error ps j = Some w -> w = MWDead
  | _ => True end.
Lemma new_set_nth m ps k w w' : new_ok m ps -> nth_error ps k = Some w -> w <> MWNew -> w' <> MWNew -> new_ok m (set_nth k w' ps).
Proof.
  unfold new_ok. intros H N Hw Hw'. destruct m.
  1: { destruct H as [Hk H]. rewrite set_nth_length. split; auto. intros j y Hy. apply nth_set_nth_cases in Hy.
       destruct Hy as [[-> ->]|[Hne Hy]]; [|apply H; auto]. specialize (H k w N). split; intros Hx; [exfalso; apply Hw; apply H; exact Hx | contradiction]. }
  all: intros j y Hy; apply nth_set_nth_cases in Hy; destruct Hy as [[-> ->]|[Hne Hy]]; [exact Hw' | eapply H; eauto].
Qed.
Lemma joined_set_nth cfg m ps k w w' : joined_ok cfg m ps -> nth_error ps k = Some w -> (w <> MWDead \/ w' = MWDead) -> joined_ok cfg m (set_nth k w' ps).
Proof.
  unfold joined_ok. intros H N Hw. destruct m; auto.
  - intros K j y Hy. apply nth_set_nth_cases in Hy. destruct Hy as [[-> ->]|[Hne Hy]]; [|eapply H; eauto].
    destruct Hw as [Hw|Hw]; auto. exfalso. apply Hw. eapply H; eauto.
  - intros j y Hj Hy. apply nth_set_nth_cases in Hy. destruct Hy as [[-> ->]|[Hne Hy]]; [|eapply H; eauto].
    destruct Hw as [Hw|Hw]; auto. exfalso. apply Hw. eapply H; eauto.
  - intros K j y Hy. apply nth_set_nth_cases in Hy. destruct Hy as [[-> ->]|[Hne Hy]]; [|eapply H; eauto].
    destruct Hw as [Hw|Hw]; auto. exfalso. apply Hw. eapply H; eauto.
Qed.

Record MLive (cfg : mcfg) (s : mstate) : Prop := {
  ml_len : length (ms_procs s) = m_workers cfg \/ (m_kind cfg = false /\ ms_procs s = [] /\ (ms_main s = MmIdle \/ ms_main s = MmDone));
  ml_new : new_ok (ms_main s) (ms_procs s);
  ml_join : forall k, ms_main s = MmJoin k -> k < length (ms_procs s);
  ml_nones : forall n, ms_main s = MmNones n -> 1 <= n;
  ml_workq : exists cs m, ms_workq s = cs ++ repeat QNone m /\ Forall is_chunk cs /\ alive (ms_procs s) = m + pend cfg (ms_main s)
                          /\ (cs <> [] -> forall j w, nth_error (ms_procs s) j = Some w -> mdead w = false);
  ml_resq : Forall is_chunk (ms_resq s);
  ml_bufw : m_kind cfg = true -> active cfg (ms_main s) = true -> buf_get (ms_buffer s) (ms_wait s) = None;
  ml_joined : joined_ok cfg (ms_main s) (ms_procs s);
}.

Lemma alive_all_dead ps : (forall j w, nth_error ps j = Some w -> w = MWDead) -> alive ps = 0.
Proof.
  unfold alive. induction ps as [|p ps IH]; intros H; simpl; auto. rewrite (H 0 p eq_refl). simpl. apply IH.
  intros j w Hj. apply (H (S j) w Hj).
Qed.
Lemma repeat_none_snoc m : repeat QNone m ++ [QNone] = repeat QNone (S m).
Proof. symmetry. apply repeat_cons. Qed.
Lemma chunks_head cs m i xs q : cs ++ repeat QNone m = QChunk i xs :: q -> exists cs', cs = QChunk i xs :: cs' /\ q = cs' ++ repeat QNone m.
Proof.
  destruct cs as [|c cs']; simpl; intros H.
  - destruct m; simpl in H; discriminate.
  - injection H as -> <-. eauto.
Qed.
Lemma nones_head cs m q : Forall is_chunk cs -> cs ++ repeat QNone m = QNone :: q -> cs = [] /\ exists m', m = S m' /\ q = repeat QNone m'.
Proof.
  intros F H. destruct cs as [|c cs']; simpl in H.
  - split; auto. destruct m; simpl in H; [discriminate|]. injection H as <-. eauto.
  - injection H as -> _. inversion F; subst. contradiction.
Qed.


Lemma mlive_start cfg hist s s' : mcfg_ok cfg -> MInv cfg hist s -> MLive cfg s -> mstep cfg s MStart = Some s' -> MLive cfg s'.
Proof.
  intros [Ow Oc] MI [Ll Ln Lj Lo (cs & m & Hq & Hcs & Hal & Hf) Lr Lb Ld] H. simpl in H.
  destruct (ms_main s) eqn:M; try discriminate. destruct (nth_error (ms_procs s) k) as [[| | | |]|] eqn:N; try discriminate.
  injection H as <-. unfold new_ok in Ln. destruct Ln as [Hk Ln]. rewrite set_nth_length.
  assert (Al : alive (set_nth k MWIdle (ms_procs s)) = alive (ms_procs s)).
  { pose proof (alive_set_nth _ k MWNew MWIdle N) as A. unfold alive1 in A; simpl in A. lia. }
  assert (Len : length (ms_procs s) = m_workers cfg) by (destruct Ll as [L|(_ & _ & [L|L])]; [exact L | discriminate | discriminate]).
  assert (NotNew : (S k <? length (ms_procs s)) = false ->
            forall j w, nth_error (set_nth k MWIdle (ms_procs s)) j = Some w -> w <> MWNew).
  { intros Hb j w Hj. apply Nat.ltb_ge in Hb. apply nth_set_nth_cases in Hj. destruct Hj as [[-> ->]|[Hne Hj]]; [discriminate|].
    intros ->. assert (j < length (ms_procs s)) by (apply nth_error_Some; congruence).
    assert (k <= j) by (apply (Ln j MWNew Hj); reflexivity). lia. }
  assert (Dead : forall j w, nth_error (set_nth k MWIdle (ms_procs s)) j = Some w -> mdead w = true -> exists w0, nth_error (ms_procs s) j = Some w0 /\ mdead w0 = true).
  { intros j w Hj Hd. apply nth_set_nth_cases in Hj. destruct Hj as [[-> ->]|[Hne Hj]]; [discriminate | eauto]. }
  assert (F' : cs <> [] -> forall j w, nth_error (set_nth k MWIdle (ms_procs s)) j = Some w -> mdead w = false).
  { intros Hc j w Hj. destruct (mdead w) eqn:D; auto. destruct (Dead j w Hj D) as (w0 & H0 & D0). rewrite (Hf Hc j w0 H0) in D0. discriminate. }
  destruct (S k <? length (ms_procs s)) eqn:Hb.
  - apply Nat.ltb_lt in Hb. constructor; unfold new_ok, joined_ok; simpl; rewrite ?set_nth_length.
    + auto.
    + split; auto. intros j w Hj. apply nth_set_nth_cases in Hj. destruct Hj as [[-> ->]|[Hne Hj]]; [split; [lia | discriminate]|].
      specialize (Ln j w Hj). split; intros Hx; [apply Ln; lia | apply Ln in Hx; lia].
    + discriminate.
    + discriminate.
    + exists cs, m. repeat split; auto. rewrite Al. exact Hal.
    + exact Lr.
    + intros K A. unfold active in A. rewrite K in A. discriminate.
    + exact Logic.I.
  - destruct (m_kind cfg) eqn:K.
    + constructor; unfold new_ok, joined_ok; simpl; rewrite ?set_nth_length.
      * auto.
      * apply NotNew; auto.
      * discriminate.
      * discriminate.
      * exists cs, m. repeat split; auto. rewrite Al, Hal. simpl. rewrite K. reflexivity.
      * exact Lr.
      * intros _ A. discriminate.
      * intros K'. congruence.
    + assert (Pe : pend cfg (first_pc cfg (ms_data s)) = m_workers cfg) by (unfold first_pc, after_loop; rewrite K; destruct (ms_data s); reflexivity).
      constructor; unfold new_ok, joined_ok; simpl; rewrite ?set_nth_length.
      * auto.
      * unfold first_pc, after_loop. rewrite K. destruct (ms_data s); apply NotNew; auto.
      * unfold first_pc, after_loop. rewrite K. destruct (ms_data s); intros k0 E; discriminate.
      * unfold first_pc, after_loop. rewrite K. destruct (ms_data s); intros n E; [injection E as <-; exact Ow | discriminate].
      * exists cs, m. repeat split; auto. rewrite Al, Hal, Pe. reflexivity.
      * exact Lr.
      * intros K'. congruence.
      * unfold first_pc, after_loop. rewrite K. destruct (ms_data s); exact Logic.I.
Qed.

Lemma mlive_set_main cfg s m' : MLive cfg s ->
  length (ms_procs s) = m_workers cfg ->
  (forall k, m' <> MmEnter k) -> (forall k, ms_main s <> MmEnter k) ->
  (forall k, m' = MmJoin k -> k < length (ms_procs s)) ->
  (forall n, m' = MmNones n -> 1 <= n) ->
  pend cfg m' = pend cfg (ms_main s) ->
  (m_kind cfg = true -> active cfg m' = true -> buf_get (ms_buffer s) (ms_wait s) = None) ->
  joined_ok cfg m' (ms_procs s) ->
  MLive cfg (set_main s m').
Proof.
  intros [Ll Ln Lj Lo (cs & m & Hq & Hcs & Hal & Hf) Lr Lb Ld] Hlen H1 H2 H3 H4 H5 H6 H7. unfold new_ok, joined_ok in *. constructor; unfold new_ok, joined_ok; simpl.
  - left. exact Hlen.
  - assert (G : forall j w, nth_error (ms_procs s) j = Some w -> w <> MWNew).
    { destruct (ms_main s) eqn:M; try exact Ln. exfalso. eapply H2; eauto. }
    destruct m'; try exact G. exfalso. eapply H1; eauto.
  - exact H3.
  - exact H4.
  - exists cs, m. rewrite H5. auto.
  - exact Lr.
  - exact H6.
  - exact H7.
Qed.

Lemma absorb_live cfg s q i xs : MLive cfg s -> ms_err s = false -> active cfg (ms_main s) = true ->
  (forall k, ms_main s <> MmEnter k) -> ms_resq s = QChunk i xs :: q ->
  MLive cfg (absorb (m_kind cfg) (set_resq s q) i xs).
Proof.
  intros [Ll Ln Lj Lo Lw Lr Lb Ld] He Ha Hne Hq.
  destruct (absorb_frame (m_kind cfg) (set_resq s q) i xs) as (F1 & F2 & F3 & F4 & F5 & F6 & F7 & F8 & F9). simpl in *.
  assert (Lr' : Forall is_chunk q) by (rewrite Hq in Lr; inversion Lr; auto).
  constructor; rewrite ?F2, ?F7, ?F8, ?F9; auto.
  intros K _. specialize (Lb K Ha). unfold absorb. rewrite K. unfold set_resq. cbn [ms_buffer ms_wait ms_finished ms_yield ms_err].
    destruct (process_ordered (ms_buffer s, ms_wait s, ms_finished s, ms_yield s, ms_err s) (i, xs)) as [[[[b w] fin] ys] er] eqn:P. simpl.
    apply (process_ordered_bufw [(i, xs)] _ _ _ _ _ _ _ _ _ _ P Lb).
Qed.



Lemma nth_error_repeat {A} (a : A) n j w : nth_error (repeat a n) j = Some w -> w = a.
Proof. intros H. apply nth_error_In in H. apply repeat_spec in H. exact H. Qed.

Lemma mlive_len cfg s : MLive cfg s -> ms_main s <> MmIdle -> ms_main s <> MmDone -> length (ms_procs s) = m_workers cfg.
Proof. intros L H1 H2. destruct (ml_len _ _ L) as [?|(_ & _ & [?|?])]; [assumption | contradiction | contradiction]. Qed.

Lemma mlive_rest cfg hist s e s' : mcfg_ok cfg -> MInv cfg hist s -> MLive cfg s -> mstep cfg s e = Some s' ->
  match e with MStart => False | _ => True end -> MLive cfg s'.
Proof.
  intros [Ow Oc] MI L H He. destruct e; try contradiction; clear He; simpl in H.
  - (* MNext *)
    destruct (ms_main s) eqn:M; try discriminate.
    destruct L as [Ll Ln Lj Lo (cs & m & Hq & Hcs & Hal & Hf) Lr Lb Ld]. rewrite M in *.
    pose proof (mi_core _ _ _ MI) as Ic. rewrite M in Ic. unfold active in Ic. apply entries_nil_mparts in Ic. destruct Ic as (Q1 & Q2 & Q3 & Q4).
    assert (Hcs0 : cs = []).
    { rewrite Hq, q_entries_app in Q1. apply app_eq_nil in Q1. destruct Q1 as [Q1 _]. destruct cs as [|[|] ?]; auto; try discriminate.
      inversion Hcs; subst; contradiction. }
    subst cs. simpl in Hq. unfold new_ok, joined_ok in Ln, Ld.
    destruct (ms_todo s) as [|[d c] rest] eqn:T.
    + injection H as <-. destruct (m_kind cfg) eqn:K.
      * assert (Len : length (ms_procs s) = m_workers cfg) by (destruct Ll as [?|(? & _)]; [assumption | discriminate]).
        constructor; unfold new_ok, joined_ok; simpl; rewrite ?K; auto; try discriminate;
          first [ solve [intros n E; injection E as <-; exact Ow]
                | solve [exists [], m; simpl in *; rewrite K in Hal; auto]
                | solve [unfold active; rewrite K; discriminate] ].
      * constructor; unfold new_ok, joined_ok; simpl; rewrite ?K; auto; try discriminate;
          first [ solve [destruct Ll as [?|(_ & P & _)]; [left; assumption | right; auto]]
                | solve [exists [], m; simpl in *; rewrite K in Hal; auto] ].
    + destruct (m_kind cfg) eqn:K; injection H as <-.
      * assert (Len : length (ms_procs s) = m_workers cfg) by (destruct Ll as [?|(? & _)]; [assumption | discriminate]).
        assert (Pe : pend cfg (first_pc cfg d) = m_workers cfg) by (unfold first_pc, after_loop; rewrite K; destruct d; simpl; rewrite ?K; reflexivity).
        constructor; unfold new_ok, joined_ok; simpl; auto;
          first [ solve [exists [], m; simpl in *; rewrite K in Hal; rewrite Pe; auto]
                | solve [unfold first_pc, after_loop; rewrite K; destruct d; first [exact Ln | discriminate | exact Logic.I]] ].
      * assert (Hm0 : m = 0).
        { simpl in Hal. rewrite K in Hal. rewrite (alive_all_dead (ms_procs s)) in Hal; [lia|]. apply Ld. reflexivity. }
        subst m. constructor; unfold new_ok, joined_ok; simpl; auto; try discriminate;
          first [ solve [left; apply repeat_length]
                | solve [rewrite repeat_length; split; [exact Ow|]; intros j w Hj; apply nth_error_repeat in Hj; subst w; split; auto; lia]
                | solve [exists [], 0; simpl; rewrite alive_repeat_new; repeat split; auto; contradiction]
                | solve [intros K'; congruence] ].
  - (* MPut *)
    destruct (ms_main s) as [| |i rest| | | | |] eqn:M; try discriminate. destruct rest as [|x r]; try discriminate.
    destruct (full _ _); try discriminate. injection H as <-.
    assert (Len : length (ms_procs s) = m_workers cfg) by (apply mlive_len; auto; rewrite M; discriminate).
    destruct L as [Ll Ln Lj Lo (cs & m & Hq & Hcs & Hal & Hf) Lr Lb Ld]. rewrite M in *. simpl in Hal.
    assert (Hm0 : m = 0) by (pose proof (alive_le (ms_procs s)); lia). subst m. simpl in Hq. rewrite app_nil_r in Hq.
    constructor; unfold new_ok, joined_ok; simpl; auto; try discriminate.
    exists (cs ++ [QChunk i (firstn (ms_chunk s) (x :: r))]), 0. simpl. rewrite app_nil_r, Hq. split; [reflexivity|]. split.
    { apply Forall_app; split; auto; repeat constructor. }
    split; [exact Hal|]. intros _. apply alive_full. lia.
  - (* MTry *)
    destruct (ms_main s) eqn:M; try discriminate. destruct (ms_resq s) as [|[i0 xs|] q] eqn:Q; try discriminate. injection H as <-.
    apply absorb_live; auto; try (rewrite M; reflexivity); try (apply (mi_err _ _ _ MI)); try (intros k0; rewrite M; discriminate).
  - (* MEmpty *)
    destruct (ms_main s) as [| | |i rest| | | |] eqn:M; try discriminate. injection H as <-.
    assert (Len : length (ms_procs s) = m_workers cfg) by (apply mlive_len; auto; rewrite M; discriminate).
    apply mlive_set_main; auto; try (intros k; rewrite M; discriminate).
    + intros k. destruct rest; unfold after_loop; destruct (m_kind cfg); discriminate.
    + intros k. destruct rest; unfold after_loop; destruct (m_kind cfg); discriminate.
    + intros n. destruct rest; unfold after_loop; destruct (m_kind cfg); try discriminate. intros E. injection E as <-. exact Ow.
    + rewrite M. destruct rest; unfold after_loop; simpl; destruct (m_kind cfg) eqn:K; simpl; rewrite ?K; reflexivity.
    + intros K _. apply (ml_bufw _ _ L K). rewrite M. reflexivity.
    + unfold joined_ok. destruct rest; unfold after_loop; destruct (m_kind cfg); exact Logic.I.
  - (* MGet *)
    destruct (ms_main s) eqn:M; try discriminate. destruct (ms_resq s) as [|[i0 xs|] q] eqn:Q; try discriminate.
    destruct (ms_finished s <? ms_cnt s); try discriminate. injection H as <-.
    apply absorb_live; auto; try (rewrite M; reflexivity); try (apply (mi_err _ _ _ MI)); try (intros k0; rewrite M; discriminate).
  - (* MEnd *)
    destruct (ms_main s) eqn:M; try discriminate. destruct (ms_finished s <? ms_cnt s); try discriminate.
    assert (Len : length (ms_procs s) = m_workers cfg) by (apply mlive_len; auto; rewrite M; discriminate).
    destruct (m_kind cfg) eqn:K; injection H as <-.
    + destruct L as [Ll Ln Lj Lo (cs & m & Hq & Hcs & Hal & Hf) Lr Lb Ld]. rewrite M in *.
      constructor; unfold new_ok, joined_ok in *; simpl; auto; try discriminate.
      * exists cs, m. simpl in *. rewrite K in *. auto.
      * intros K'. congruence.
    + apply mlive_set_main; auto; try (intros k; rewrite M; discriminate); try discriminate.
      * intros k E. injection E as <-. lia.
      * rewrite M. simpl. rewrite K. reflexivity.
      * intros K'. congruence.
      * unfold joined_ok. intros j w Hj. lia.
  - (* MNone *)
    destruct (ms_main s) as [| | | |n| | |] eqn:M; try discriminate. destruct n as [|n]; try discriminate.
    destruct (full _ _); try discriminate. injection H as <-.
    assert (Len : length (ms_procs s) = m_workers cfg) by (apply mlive_len; auto; rewrite M; discriminate).
    destruct L as [Ll Ln Lj Lo (cs & m & Hq & Hcs & Hal & Hf) Lr Lb Ld]. rewrite M in *. unfold new_ok, joined_ok in *. simpl in Hal.
    assert (Wq : ms_workq s ++ [QNone] = cs ++ repeat QNone (S m)) by (rewrite Hq, <- app_assoc, repeat_none_snoc; reflexivity).
    constructor; unfold new_ok, joined_ok; simpl; auto.
    + destruct n; [destruct (m_kind cfg)|]; exact Ln.
    + destruct n; [destruct (m_kind cfg)|]; try discriminate. intros k E. injection E as <-. lia.
    + destruct n; [destruct (m_kind cfg); discriminate|]. intros n0 E. injection E as <-. lia.
    + exists cs, (S m). rewrite Wq. repeat split; auto. destruct n; [destruct (m_kind cfg) eqn:K; simpl; rewrite ?K|simpl]; lia.
    + intros K. destruct n; [rewrite K|]; unfold active; rewrite K; discriminate.
    + destruct n; [destruct (m_kind cfg)|]; try exact Logic.I. intros j w Hj. lia.
  - (* MJoin *)
    destruct (ms_main s) as [| | | | | |k|] eqn:M; try discriminate.
    destruct (nth_error (ms_procs s) k) as [[| | | |]|] eqn:N; try discriminate.
    assert (Len : length (ms_procs s) = m_workers cfg) by (apply mlive_len; auto; rewrite M; discriminate).
    assert (Jd : forall j w, j < S k -> nth_error (ms_procs s) j = Some w -> w = MWDead).
    { intros j w Hj Hw. destruct (Nat.eq_dec j k) as [->|Hne]; [congruence|]. pose proof (ml_joined _ _ L) as Ld. rewrite M in Ld. apply (Ld j w); auto. lia. }
    destruct (S k <? length (ms_procs s)) eqn:Hb.
    + injection H as <-. apply Nat.ltb_lt in Hb. apply mlive_set_main; auto; try (intros k0; rewrite M; discriminate); try discriminate.
      * intros k0 E. injection E as <-. exact Hb.
      * rewrite M. reflexivity.
      * intros K. unfold active. rewrite K. discriminate.
    + apply Nat.ltb_ge in Hb.
      assert (All : forall j w, nth_error (ms_procs s) j = Some w -> w = MWDead).
      { intros j w Hw. apply (Jd j w); auto. assert (j < length (ms_procs s)) by (apply nth_error_Some; congruence). lia. }
      destruct (m_kind cfg) eqn:K; injection H as <-.
      * apply mlive_set_main; auto; try (intros k0; rewrite M; discriminate); try discriminate.
        -- rewrite M. reflexivity.
        -- unfold joined_ok. intros _. exact All.
      * destruct L as [Ll Ln Lj Lo (cs & m & Hq & Hcs & Hal & Hf) Lr Lb Ld]. rewrite M in *. unfold new_ok, joined_ok in *.
        constructor; unfold new_ok, joined_ok; simpl; auto; try discriminate;
          first [ solve [exists cs, m; simpl in *; rewrite K; auto] | solve [intros K'; congruence] ].
  - (* MWTake *)
    destruct (nth_error (ms_procs s) k) as [[| | | |]|] eqn:N; try discriminate.
    destruct L as [Ll Ln Lj Lo (cs & m & Hq & Hcs & Hal & Hf) Lr Lb Ld].
    assert (Ll' : forall w', length (set_nth k w' (ms_procs s)) = m_workers cfg \/ m_kind cfg = false /\ set_nth k w' (ms_procs s) = [] /\ (ms_main s = MmIdle \/ ms_main s = MmDone)).
    { intros w'. rewrite set_nth_length. destruct Ll as [?|(_ & P & _)]; [left; assumption | rewrite P in N; destruct k; discriminate]. }
    destruct (ms_workq s) as [|[i0 xs|] q] eqn:Q; try discriminate; injection H as <-.
    + destruct (chunks_head _ _ _ _ _ (eq_sym Hq)) as (cs' & -> & ->).
      pose proof (alive_set_nth _ k MWIdle (MWHold i0 xs) N) as Al. unfold alive1 in Al; simpl in Al.
      constructor; simpl.
      * apply Ll'.
      * apply new_set_nth with (w := MWIdle); auto; discriminate.
      * rewrite set_nth_length. exact Lj.
      * exact Lo.
      * exists cs', m. split; [reflexivity|]. split; [inversion Hcs; auto|]. split; [lia|].
        intros _ j w Hj. apply nth_set_nth_cases in Hj. destruct Hj as [[-> ->]|[Hne Hj]]; [reflexivity|].
        apply (Hf ltac:(discriminate) j w Hj).
      * exact Lr.
      * exact Lb.
      * apply joined_set_nth with (w := MWIdle); auto. left; discriminate.
    + destruct (nones_head _ _ _ Hcs (eq_sym Hq)) as (-> & m' & -> & ->).
      pose proof (alive_set_nth _ k MWIdle MWExiting N) as Al. unfold alive1 in Al; simpl in Al.
      constructor; simpl.
      * apply Ll'.
      * apply new_set_nth with (w := MWIdle); auto; discriminate.
      * rewrite set_nth_length. exact Lj.
      * exact Lo.
      * exists [], m'. simpl. split; [reflexivity|]. split; [constructor|]. split; [lia|]. contradiction.
      * exact Lr.
      * exact Lb.
      * apply joined_set_nth with (w := MWIdle); auto. left; discriminate.
  - (* MWRes *)
    destruct (nth_error (ms_procs s) k) as [[| |i0 xs| |]|] eqn:N; try discriminate. injection H as <-.
    destruct L as [Ll Ln Lj Lo (cs & m & Hq & Hcs & Hal & Hf) Lr Lb Ld].
    pose proof (alive_set_nth _ k (MWHold i0 xs) MWIdle N) as Al. unfold alive1 in Al; simpl in Al.
    constructor; simpl.
    + rewrite set_nth_length. destruct Ll as [?|(_ & P & _)]; [left; assumption | rewrite P in N; destruct k; discriminate].
    + apply new_set_nth with (w := MWHold i0 xs); auto; discriminate.
    + rewrite set_nth_length. exact Lj.
    + exact Lo.
    + exists cs, m. split; [exact Hq|]. split; [exact Hcs|]. split; [lia|].
      intros Hc j w Hj. apply nth_set_nth_cases in Hj. destruct Hj as [[-> ->]|[Hne Hj]]; [reflexivity|]. apply (Hf Hc j w Hj).
    + apply Forall_app; split; auto; repeat constructor.
    + exact Lb.
    + apply joined_set_nth with (w := MWHold i0 xs); auto. left; discriminate.
  - (* MWExit: the process exits; it had left its loop already *)
    destruct (nth_error (ms_procs s) k) as [[| | | |]|] eqn:N; try discriminate. destruct (pipe_room cfg s); try discriminate. injection H as <-.
    destruct L as [Ll Ln Lj Lo (cs & m & Hq & Hcs & Hal & Hf) Lr Lb Ld].
    pose proof (alive_set_nth _ k MWExiting MWDead N) as Al. unfold alive1 in Al; simpl in Al.
    constructor; simpl.
    + rewrite set_nth_length. destruct Ll as [?|(_ & P & _)]; [left; assumption | rewrite P in N; destruct k; discriminate].
    + apply new_set_nth with (w := MWExiting); auto; discriminate.
    + rewrite set_nth_length. exact Lj.
    + exact Lo.
    + exists cs, m. split; [exact Hq|]. split; [exact Hcs|]. split; [lia|].
      intros Hc j w Hj. exfalso. specialize (Hf Hc k MWExiting N). discriminate.
    + exact Lr.
    + exact Lb.
    + apply joined_set_nth with (w := MWExiting); auto.
Qed.

Lemma mlive_step cfg hist s e s' : mcfg_ok cfg -> MInv cfg hist s -> MLive cfg s -> mstep cfg s e = Some s' -> MLive cfg s'.
Proof.
  intros Ok MI L H. destruct e; try (eapply mlive_rest; eauto; exact Logic.I). eapply mlive_start; eauto.
Qed.

Lemma mlive_init cfg hist : mcfg_ok cfg -> MLive cfg (minit cfg hist).
Proof.
  intros [Ow Oc]. unfold minit. destruct (m_kind cfg) eqn:K; constructor; unfold new_ok, joined_ok; simpl; rewrite ?K; auto; try discriminate.
  - left. apply repeat_length.
  - rewrite repeat_length. split; auto. intros j w Hj. apply nth_error_repeat in Hj. subst. split; auto. lia.
  - exists [], 0. simpl. rewrite alive_repeat_new. repeat split; auto. contradiction.
  - intros j w Hj. destruct j; discriminate.
  - exists [], 0. simpl. repeat split; auto. contradiction.
  - intros _ j w Hj. destruct j; discriminate.
Qed.

Record MAll (cfg : mcfg) (hist : list (list Z * nat)) (s : mstate) : Prop := {
  ma_inv : MInv cfg hist s; ma_live : MLive cfg s; ma_x : exitish cfg (ms_main s) = true -> ms_todo s = [];
}.
Lemma mall_step cfg hist s e s' : mcfg_ok cfg -> MAll cfg hist s -> mstep cfg s e = Some s' -> MAll cfg hist s'.
Proof.
  intros Ok [I L X] H. constructor; [eapply minv_step; eauto | eapply mlive_step; eauto | eapply xinv_step; eauto].
Qed.
Lemma mall_init cfg hist : mcfg_ok cfg -> Forall mact_ok hist -> MAll cfg hist (minit cfg hist).
Proof.
  intros Ok Hh. constructor; [apply minv_init; auto | apply mlive_init; auto |]. unfold minit, exitish. simpl. destruct (m_kind cfg); discriminate.
Qed.
Theorem mall_run cfg hist sched : mcfg_ok cfg -> Forall mact_ok hist -> MAll cfg hist (mrun cfg (minit cfg hist) sched).
Proof.
  intros Ok Hh. unfold mrun.
  assert (G : forall sched s, MAll cfg hist s -> MAll cfg hist (fold_left (fun s e => match mstep cfg s e with Some s' => s' | None => s end) sched s)).
  { clear sched. induction sched as [|e r IH]; intros s A; simpl; auto. apply IH. destruct (mstep cfg s e) eqn:E; auto. eapply mall_step; eauto. }
  apply G. apply mall_init; auto.
Qed.

(* ================================================================== no deadlock *)
Definition menabled (cfg : mcfg) (s : mstate) (e : mevent) : Prop := mstep cfg s e <> None.

Lemma mw_progress cfg s k w : nth_error (ms_procs s) k = Some w -> mdead w = false -> w <> MWNew -> ms_workq s <> [] ->
  exists e, menabled cfg s e.
Proof.
  intros N D Hn Q. destruct w; try discriminate; try contradiction.
  - exists (MWTake k). unfold menabled. simpl. rewrite N. destruct (ms_workq s) as [|[|] ?]; [contradiction | discriminate | discriminate].
  - exists (MWRes k). unfold menabled. simpl. rewrite N. discriminate.
Qed.
Lemma mheld_worker ps : mheld ps <> [] -> exists k i xs, nth_error ps k = Some (MWHold i xs).
Proof.
  induction ps as [|p ps IH]; intros H; [contradiction|]. unfold mheld in H. simpl in H. fold (mheld ps) in H.
  destruct p; try (simpl in H; destruct (IH H) as (k & i & xs & Hk); exists (S k), i, xs; auto; fail).
  exists 0, i, xs. reflexivity.
Qed.

Lemma moutstanding cfg s : MCore cfg s -> MLive cfg s -> ms_main s = MmFinal -> ms_resq s = [] -> ms_finished s < ms_cnt s ->
  q_entries (ms_workq s) <> [] \/ mheld (ms_procs s) <> [].
Proof.
  intros C L M R Hf.
  assert (En : mentries s = q_entries (ms_workq s) ++ mheld (ms_procs s) ++ ms_buffer s) by (unfold mentries; rewrite R; reflexivity).
  destruct (mc_pi _ _ C) as (pi & P1 & P2). destruct (m_kind cfg) eqn:K.
  - destruct P2 as (_ & F & W). subst pi. rewrite seq_length in F.
    assert (Fb : buf_get (ms_buffer s) (ms_wait s) = None) by (apply (ml_bufw _ _ L K); rewrite M; reflexivity).
    assert (Hin : In (ms_wait s) (map fst (mentries s))).
    { assert (H : In (ms_wait s) (seq 0 (ms_wait s) ++ map fst (mentries s))).
      { eapply Permutation_in; [symmetry; exact P1 | apply in_seq; lia]. }
      apply in_app_or in H. destruct H as [H|H]; auto. apply in_seq in H. lia. }
    rewrite En, !map_app in Hin. apply in_app_or in Hin. destruct Hin as [Hin|Hin].
    + left. intros E. rewrite E in Hin. exact Hin.
    + apply in_app_or in Hin. destruct Hin as [Hin|Hin].
      * right. intros E. rewrite E in Hin. exact Hin.
      * exfalso. apply buf_get_none in Fb. apply Fb. exact Hin.
  - destruct P2 as (-> & F). simpl in P1. apply Permutation_length in P1. rewrite map_length, seq_length, En, !app_length in P1.
    destruct (q_entries (ms_workq s)); [|left; discriminate]. right. intros E. rewrite E in P1. simpl in P1. lia.
Qed.

(* when the worker processes are being joined every result has been collected: nothing is waiting in the results queue, so
   the pipe behind it cannot keep a process from exiting *)
Lemma join_resq_nil cfg hist s k : MInv cfg hist s -> MLive cfg s -> ms_main s = MmJoin k -> ms_resq s = [].
Proof.
  intros MI L M.
  assert (Z : q_entries (ms_resq s) = []).
  { pose proof (mi_core _ _ _ MI) as C. rewrite M in C. unfold active in C. destruct (m_kind cfg) eqn:K; simpl in C.
    - destruct (entries_nil_mparts s C) as (_ & _ & Z & _). exact Z.
    - pose proof (mc_pos _ _ C) as Pos. rewrite M in Pos. destruct Pos as [_ Hle].
      pose proof (mcore_count _ _ C) as Cn. rewrite K in Cn. simpl in Cn.
      destruct (mc_pi _ _ C) as (pi & P1 & P2). rewrite K in P2. destruct P2 as (-> & F).
      assert (Hl : length (mentries s) = length (q_entries (ms_workq s)) + length (mheld (ms_procs s)) + length (q_entries (ms_resq s)) + length (ms_buffer s)).
      { unfold mentries. rewrite !app_length. lia. }
      destruct (q_entries (ms_resq s)); [reflexivity | simpl in Hl; lia]. }
  pose proof (ml_resq _ _ L) as Lr. destruct (ms_resq s) as [|[i xs|] q]; [reflexivity | discriminate | inversion Lr; subst; contradiction].
Qed.

Theorem fmap_deadlock_free cfg hist s : mcfg_ok cfg -> MAll cfg hist s -> ms_main s <> MmDone -> exists e, menabled cfg s e.
Proof.
  intros [Ow Oc] [MI L X] Hnd.
  destruct (ms_main s) eqn:M; try contradiction.
  - (* MmEnter *)
    pose proof (ml_new _ _ L) as Ln. rewrite M in Ln. destruct Ln as [Hk Ln].
    destruct (nth_error (ms_procs s) k) as [w|] eqn:N; [|apply nth_error_None in N; lia].
    assert (w = MWNew) by (apply (Ln k w N); lia). subst w.
    exists MStart. unfold menabled. simpl. rewrite M, N. discriminate.
  - exists MNext. unfold menabled. simpl. rewrite M. destruct (ms_todo s) as [|[d c] ?]; [|destruct (m_kind cfg)]; discriminate.
  - (* MmPut *)
    pose proof (mi_core _ _ _ MI) as C. rewrite M in C. simpl in C. pose proof (mc_pos _ _ C) as Pos. rewrite M in Pos. destruct Pos as (_ & _ & Hr).
    destruct rest as [|x r]; [contradiction|].
    destruct (full (m_cap cfg) (ms_workq s)) eqn:Fu.
    2: { exists MPut. unfold menabled. simpl. rewrite M, Fu. discriminate. }
    assert (Q : ms_workq s <> []).
    { unfold full in Fu. destruct (m_cap cfg) as [c|] eqn:Cc; [|discriminate]. specialize (Oc c eq_refl). apply Nat.leb_le in Fu.
      intros E. rewrite E in Fu. simpl in Fu. lia. }
    assert (Len : length (ms_procs s) = m_workers cfg) by (apply mlive_len; auto; rewrite M; discriminate).
    destruct (ml_workq _ _ L) as (cs & m & Hq & Hcs & Hal & Hf). rewrite M in Hal. simpl in Hal.
    assert (m = 0) by (pose proof (alive_le (ms_procs s)); lia). subst m. simpl in Hq. rewrite app_nil_r in Hq.
    destruct (nth_error (ms_procs s) 0) as [w|] eqn:N; [|apply nth_error_None in N; lia].
    apply (mw_progress cfg s 0 w N); auto.
    + apply (Hf ltac:(rewrite <- Hq; exact Q) 0 w N).
    + pose proof (ml_new _ _ L) as Ln. rewrite M in Ln. apply (Ln 0 w N).
  - exists MEmpty. unfold menabled. simpl. rewrite M. discriminate.
  - (* MmNones *)
    pose proof (ml_nones _ _ L n M) as Hn. destruct n as [|n]; [lia|].
    destruct (full (m_cap cfg) (ms_workq s)) eqn:Fu.
    2: { exists MNone. unfold menabled. simpl. rewrite M, Fu. discriminate. }
    assert (Q : ms_workq s <> []).
    { unfold full in Fu. destruct (m_cap cfg) as [c|] eqn:Cc; [|discriminate]. specialize (Oc c eq_refl). apply Nat.leb_le in Fu.
      intros E. rewrite E in Fu. simpl in Fu. lia. }
    destruct (ml_workq _ _ L) as (cs & m & Hq & Hcs & Hal & Hf). rewrite M in Hal. simpl in Hal.
    pose proof (ml_new _ _ L) as Ln. rewrite M in Ln. unfold new_ok in Ln.
    destruct (alive_pos (ms_procs s)) as (k & w & N & D); [lia|].
    apply (mw_progress cfg s k w N D); auto. apply (Ln k w N).
  - (* MmFinal *)
    destruct (ms_finished s <? ms_cnt s) eqn:Lt.
    2: { exists MEnd. unfold menabled. simpl. rewrite M, Lt. destruct (m_kind cfg); discriminate. }
    apply Nat.ltb_lt in Lt.
    destruct (ms_resq s) as [|[i xs|] q] eqn:R.
    + pose proof (mi_core _ _ _ MI) as C. rewrite M in C. simpl in C.
      assert (Len : length (ms_procs s) = m_workers cfg) by (apply mlive_len; auto; rewrite M; discriminate).
      pose proof (ml_new _ _ L) as Ln. rewrite M in Ln. unfold new_ok in Ln.
      destruct (moutstanding cfg s C L M R Lt) as [Hq|Hh].
      * destruct (ml_workq _ _ L) as (cs & m & Hq' & Hcs & Hal & Hf).
        assert (Hc : cs <> []).
        { intros ->. simpl in Hq'. rewrite Hq' in Hq. apply Hq. clear. induction m; simpl; auto. }
        destruct (nth_error (ms_procs s) 0) as [w|] eqn:N; [|apply nth_error_None in N; lia].
        apply (mw_progress cfg s 0 w N); auto; [apply (Hf Hc 0 w N) | apply (Ln 0 w N) | apply q_entries_nonnil; exact Hq].
      * destruct (mheld_worker _ Hh) as (k & i & xs & N). exists (MWRes k). unfold menabled. simpl. rewrite N. discriminate.
    + exists MGet. unfold menabled. simpl. rewrite M, R. apply Nat.ltb_lt in Lt. rewrite Lt. discriminate.
    + exfalso. pose proof (ml_resq _ _ L) as Lr. rewrite R in Lr. inversion Lr; subst. contradiction.
  - (* MmJoin *)
    pose proof (ml_join _ _ L k M) as Hk.
    destruct (nth_error (ms_procs s) k) as [w|] eqn:N; [|apply nth_error_None in N; lia].
    pose proof (ml_new _ _ L) as Ln. rewrite M in Ln. unfold new_ok in Ln.
    destruct w eqn:W.
    + exfalso. apply (Ln k MWNew N). reflexivity.
    + destruct (ml_workq _ _ L) as (cs & m & Hq & Hcs & Hal & Hf). rewrite M in Hal. simpl in Hal.
      assert (1 <= alive (ms_procs s)) by (eapply alive_ge1; eauto).
      apply (mw_progress cfg s k MWIdle N); auto; try discriminate. rewrite Hq. intros E. apply app_eq_nil in E. destruct E as [_ E].
      destruct m; [lia | discriminate].
    + exists (MWRes k). unfold menabled. simpl. rewrite N. discriminate.
    + exists (MWExit k). unfold menabled. simpl. rewrite N. unfold pipe_room. rewrite (join_resq_nil cfg hist s k MI L M).
      destruct (m_pipe cfg); discriminate.
    + exists MJoin. unfold menabled. simpl. rewrite M, N. destruct (S k <? length (ms_procs s)); [|destruct (m_kind cfg)]; discriminate.
Qed.

(* ================================================================== termination measure *)
Definition mact_pot (cfg : mcfg) (a : list Z * nat) : nat := 14 * length (fst a) + 5 * m_workers cfg + 7.
Definition mw_pot (w : mwpc) : nat := match w with MWNew => 3 | MWIdle => 2 | MWHold _ _ => 13 | MWExiting => 1 | MWDead => 0 end.
Definition mwsum (ps : list mwpc) : nat := list_sum (map mw_pot ps).
Definition mm_pot (cfg : mcfg) (s : mstate) : nat :=
  let W := m_workers cfg in let B := 2 * W + 5 in let X := if m_kind cfg then 0 else B in
  match ms_main s with
  | MmDone => 0 | MmIdle => B
  | MmJoin k => X + (W - k) + 1
  | MmNones n => X + n + W + 4
  | MmFinal => B + W + 3
  | MmDrain _ rest => 14 * length rest + B + 2 * W + 6
  | MmPut _ rest => 14 * length rest + B + 2 * W + 5
  | MmEnter _ => if m_kind cfg then B + 1 else 14 * length (ms_data s) + B + 2 * W + 6
  end.
Definition mmu (cfg : mcfg) (s : mstate) : nat :=
  list_sum (map (mact_pot cfg) (ms_todo s)) + mm_pot cfg s + mwsum (ms_procs s) + wq_pot (ms_workq s) + 4 * length (ms_resq s).

Lemma mwsum_set_nth ps k w w' : nth_error ps k = Some w -> mwsum (set_nth k w' ps) + mw_pot w = mwsum ps + mw_pot w'.
Proof.
  unfold mwsum. revert k; induction ps as [|p ps IH]; intros [|k] H; simpl in *; try discriminate.
  - injection H as ->. lia.
  - specialize (IH k H). lia.
Qed.
Lemma mwsum_repeat_new n : mwsum (repeat MWNew n) = 3 * n.
Proof. unfold mwsum. induction n; simpl in *; lia. Qed.

Local Arguments Nat.sub : simpl never.
Theorem mmu_step cfg s e s' : (forall i rest, ms_main s = MmPut i rest -> 1 <= ms_chunk s) ->
  (forall k, ms_main s = MmJoin k -> length (ms_procs s) = m_workers cfg) ->
  mstep cfg s e = Some s' -> mmu cfg s' < mmu cfg s.
Proof.
  intros Hc Hl H.
  destruct e; mstep_cases H; injection H as <-; unfold mmu, mm_pot; simpl;
    repeat match goal with |- context [absorb ?k ?st ?i ?xs] =>
      destruct (absorb_frame k st i xs) as (F1 & F2 & F3 & F4 & F5 & F6 & F7 & F8 & F9); rewrite ?F1, ?F2, ?F4, ?F7, ?F8, ?F9; clear F1 F2 F3 F4 F5 F6 F7 F8 F9 end;
    simpl; rewrite ?app_length, ?wq_pot_app, ?set_nth_length, ?mwsum_repeat_new;
    repeat match goal with Hq : _ = _ |- _ => rewrite Hq end; simpl;
    try (match goal with Hn : nth_error (ms_procs s) ?k = Some ?w |- context [mwsum (set_nth ?k ?x _)] =>
           pose proof (mwsum_set_nth _ k w x Hn) as Hs; simpl in Hs end);
    unfold wq_pot, first_pc, after_loop; simpl; try lia;
    repeat match goal with |- context [match ?d with [] => _ | _ :: _ => _ end] => destruct d eqn:? end;
    repeat match goal with Hk : m_kind cfg = _ |- _ => rewrite Hk end; unfold mact_pot; simpl; try lia;
    try (match goal with |- context [skipn (ms_chunk s) (?z :: ?l)] =>
           pose proof (skipn_length (ms_chunk s) (z :: l)) as Hk; simpl in Hk; specialize (Hc _ _ eq_refl) end; lia);
    try (specialize (Hl _ eq_refl); match goal with Hb : (_ <? _) = true |- _ => apply Nat.ltb_lt in Hb end; lia);
    try (destruct (m_kind cfg); simpl; lia).
Qed.

Lemma mall_measure cfg hist s e s' : MAll cfg hist s -> mstep cfg s e = Some s' -> mmu cfg s' < mmu cfg s.
Proof.
  intros [MI L X] H. apply (mmu_step cfg s e s'); auto.
  - intros i rest M. pose proof (mi_core _ _ _ MI) as C. rewrite M in C. simpl in C. apply (mc_chunk _ _ C).
  - intros k M. apply mlive_len; auto; rewrite M; discriminate.
Qed.

Fixpoint mdrive (cfg : mcfg) (pick : mstate -> mevent) (n : nat) (s : mstate) : mstate :=
  match n with
  | O => s
  | S n' => match mstep cfg s (pick s) with Some s' => mdrive cfg pick n' s' | None => s end
  end.

(* every scheduler that picks an enabled event whenever there is one drives every history of calls to its end, with the results *)
Theorem fmap_terminates cfg hist pick : mcfg_ok cfg -> Forall mact_ok hist ->
  (forall s, (exists e, menabled cfg s e) -> mstep cfg s (pick s) <> None) ->
  let s := mdrive cfg pick (mmu cfg (minit cfg hist)) (minit cfg hist) in
  ms_main s = MmDone /\ ms_done s = map fst hist /\ ms_err s = false.
Proof.
  intros Ok Hh Pe.
  assert (G : forall n s, MAll cfg hist s -> mmu cfg s <= n ->
             ms_main (mdrive cfg pick n s) = MmDone /\ MAll cfg hist (mdrive cfg pick n s)).
  { induction n as [|n IH]; intros s A Hm; simpl.
    - split; auto. destruct (ms_main s) eqn:M; auto; exfalso;
        (destruct (fmap_deadlock_free cfg hist s Ok A) as (e & He); [rewrite M; discriminate|]);
        unfold menabled in He; (destruct (mstep cfg s e) as [s'|] eqn:E; [|contradiction]);
        pose proof (mall_measure cfg hist s e s' A E); lia.
    - destruct (mstep cfg s (pick s)) as [s'|] eqn:E.
      + apply IH; [eapply mall_step; eauto|]. pose proof (mall_measure cfg hist s (pick s) s' A E). lia.
      + split; auto. destruct (ms_main s) eqn:M; auto; exfalso; apply (Pe s); auto;
          apply (fmap_deadlock_free cfg hist s Ok A); rewrite M; discriminate. }
  intros s. destruct (G (mmu cfg (minit cfg hist)) (minit cfg hist)) as [M A]; [apply mall_init; auto | lia |]. fold s in M, A.
  destruct A as [[Ie _ _ (done & Hsp & Hdn)] _ X]. split; auto. split; auto.
  rewrite M in Hsp, X. unfold active in Hsp. simpl in Hsp, X. rewrite (X eq_refl), app_nil_r in Hsp. rewrite Hsp. exact Hdn.
Qed.

Theorem fmap_no_deadlock cfg hist sched : mcfg_ok cfg -> Forall mact_ok hist ->
  let s := mrun cfg (minit cfg hist) sched in ms_main s <> MmDone -> exists e, mstep cfg s e <> None.
Proof. intros Ok Hh s Hn. apply (fmap_deadlock_free cfg hist s Ok); auto. apply mall_run; auto. Qed.

Theorem fmap_measure cfg hist sched e s' : mcfg_ok cfg -> Forall mact_ok hist ->
  let s := mrun cfg (minit cfg hist) sched in mstep cfg s e = Some s' -> mmu cfg s' < mmu cfg s.
Proof. intros Ok Hh s H. apply (mall_measure cfg hist s e s'); auto. apply mall_run; auto. Qed.

(* a scheduler of that kind exists *)
Definition mall_events (n : nat) : list mevent :=
  [MStart; MNext; MPut; MTry; MGet; MEnd; MNone; MJoin; MEmpty] ++ flat_map (fun k => [MWTake k; MWRes k; MWExit k]) (seq 0 n).
Definition mpick_first (cfg : mcfg) (s : mstate) : mevent :=
  match find (fun e => match mstep cfg s e with Some _ => true | None => false end) (mall_events (length (ms_procs s))) with
  | Some e => e | None => MStart end.
Lemma mpick_first_enabled cfg s : (exists e, menabled cfg s e) -> mstep cfg s (mpick_first cfg s) <> None.
Proof.
  intros (e & He). unfold mpick_first.
  destruct (find _ (mall_events (length (ms_procs s)))) as [e'|] eqn:F.
  - apply find_some in F. destruct F as [_ F]. destruct (mstep cfg s e'); [discriminate | discriminate].
  - exfalso. assert (Hin : In e (mall_events (length (ms_procs s)))).
    { unfold mall_events. unfold menabled in He.
      destruct e; try (apply in_or_app; left; simpl; tauto); apply in_or_app; right; apply in_flat_map; exists k;
        (split; [apply in_seq; simpl in He; destruct (nth_error (ms_procs s) k) eqn:N; [|contradiction];
                 assert (k < length (ms_procs s)) by (apply nth_error_Some; congruence); lia | simpl; auto]). }
    pose proof (find_none _ _ F e Hin) as H. unfold menabled in He. simpl in H. destruct (mstep cfg s e); [discriminate | contradiction].
Qed.
